#!/usr/bin/env python3
"""Regenerates DESIGN.md §7.8: the monitor (test function) list per property, read from the harness files and the last evidence."""
import re, glob, json, os
V = os.path.dirname(os.path.abspath(__file__))
out = ["### 7.8 Monitors per property (generated from harness/ and evidence/)", "",
       "Test functions as they exist in `harness/<ID>/`; result names are the monitors listed in `evidence/<ID>.json` (counters there are prefixed with them).", "",
       "| id | test functions | result names in the evidence |", "|---|---|---|"]
for i in range(1, 21):
    pid = "C%02d" % i
    fns = []
    for f in sorted(glob.glob(os.path.join(V, "harness", pid, "*_test.go"))):
        for m in re.finditer(r"^func (TestVerif_[A-Za-z0-9_]+)\(", open(f).read(), re.M):
            fns.append(m.group(1).replace("TestVerif_%s_" % pid, "").replace("TestVerif_", ""))
    ev = {}
    try:
        e = json.load(open(os.path.join(V, "evidence", pid + ".json")))
        ev = {m: "" for m in e["coverage"].get("monitors", [])}
    except Exception:
        pass
    evs = ", ".join("%s%s" % (k, (": %s" % v) if v != "" else "") for k, v in ev.items())
    out.append("| %s | %s | %s |" % (pid, ", ".join(fns), evs))
text = "\n".join(out) + "\n"
p = os.path.join(V, "DESIGN.md")
s = open(p).read()
b, e_ = "<!-- MONITORS-BEGIN -->", "<!-- MONITORS-END -->"
if b in s:
    s = s[:s.index(b)] + b + "\n" + text + e_ + s[s.index(e_) + len(e_):]
else:
    s = s.rstrip("\n") + "\n\n" + b + "\n" + text + e_ + "\n"
open(p, "w").write(s)
print("monitors table written")
