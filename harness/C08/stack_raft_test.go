//go:build verif

package raft

import (
	"context"
	"encoding/json"
	"fmt"
	"math/rand/v2"
	"sort"
	"strings"
	"sync"
	"testing"
	"time"

	log "github.com/hashicorp/go-hclog"
	metrics "github.com/hashicorp/go-metrics/compat"
	"github.com/hashicorp/go-uuid"
	hraft "github.com/hashicorp/raft"
	kit "github.com/openbao/openbao/sdk/v2/helper/verifkit"
	"github.com/openbao/openbao/sdk/v2/physical"
	"google.golang.org/protobuf/proto"
)

// Raft stack: one bootstrapped node on real bbolt files. The state machine is
// made to lag behind the log through the exported RaftBackend.SetFSMApplyCallback
// (installed once; it parks applies while the gate is closed). The ground
// truth order of effects is the raft log itself, read back after every case.
// Private state is touched in exactly two places: raft.LastIndex/AppliedIndex
// of the embedded library instance (to know that an operation sits in the apply
// queue) and a snapshot of fsmTxnCommitIndexTracker taken inside the callback
// (needed for the signature of known finding F7, DESIGN §4 C08).

type c08Snap struct {
	Seq      int            `json:"seq"`
	FSMIndex uint64         `json:"fsm_index"` // last index applied when this batch was let through
	Tracked  []uint64       `json:"tracked"`   // indexes with a modified-key set in the tracker
	Active   map[uint64]int `json:"active"`    // start index -> open read-write transactions
}

type c08RaftCtl struct {
	b *RaftBackend

	mu      sync.Mutex
	cond    *sync.Cond
	closed  bool
	permits int
	passed  int
	snaps   []c08Snap
	jitter  *rand.Rand
	start   uint64
}

func (g *c08RaftCtl) apply() {
	g.mu.Lock()
	for g.closed && g.permits == 0 {
		g.cond.Wait()
	}
	if g.closed {
		g.permits--
	}
	g.passed++
	sn := c08Snap{Seq: g.passed, FSMIndex: g.b.fsm.latestIndex.Load(), Active: map[uint64]int{}}
	tr := g.b.fsm.fastTxnTracker
	tr.l.Lock()
	for idx := range tr.indexModifiedMap {
		sn.Tracked = append(sn.Tracked, idx)
	}
	for idx, n := range tr.sourceIndexMap {
		sn.Active[idx] = n
	}
	tr.l.Unlock()
	sort.Slice(sn.Tracked, func(i, j int) bool { return sn.Tracked[i] < sn.Tracked[j] })
	g.snaps = append(g.snaps, sn)
	var d time.Duration
	if g.jitter != nil {
		switch n := g.jitter.IntN(10); {
		case n < 4:
		case n < 8:
			d = 300 * time.Microsecond
		default:
			d = 3 * time.Millisecond
		}
	}
	g.mu.Unlock()
	if d > 0 {
		time.Sleep(d) // free-running mode only: makes the state machine lag; never decides a verdict
	}
}

func (g *c08RaftCtl) Close() {
	g.mu.Lock()
	g.closed, g.permits = true, 0
	g.mu.Unlock()
}

func (g *c08RaftCtl) Open() {
	g.mu.Lock()
	g.closed, g.permits = false, 0
	g.cond.Broadcast()
	g.mu.Unlock()
}

func (g *c08RaftCtl) Closed() bool {
	g.mu.Lock()
	defer g.mu.Unlock()
	return g.closed
}

func (g *c08RaftCtl) Release() {
	g.mu.Lock()
	g.permits++
	g.cond.Broadcast()
	g.mu.Unlock()
}

func (g *c08RaftCtl) Mark() uint64 { return g.b.raft.LastIndex() }

func (g *c08RaftCtl) Queued(mark uint64) (uint64, bool) {
	if g.b.raft.LastIndex() > mark && g.b.raft.AppliedIndex() > mark {
		return mark + 1, true
	}
	return 0, false
}

func (g *c08RaftCtl) Position(mark uint64) uint64 {
	if g.b.raft.LastIndex() > mark {
		return mark + 1
	}
	return 0
}

func (g *c08RaftCtl) Jitter(seed uint64, on bool) {
	g.mu.Lock()
	g.jitter = nil
	if on {
		g.jitter = rand.New(rand.NewPCG(seed, 8))
	}
	g.mu.Unlock()
}

func (g *c08RaftCtl) Reset() {
	g.mu.Lock()
	g.snaps = nil
	g.start = g.b.raft.LastIndex()
	g.mu.Unlock()
}

// quiesce waits until the state machine has applied the whole log (a raft
// barrier: it returns once everything before it went through the FSM).
func (g *c08RaftCtl) quiesce() error {
	if err := g.b.raft.Barrier(30 * time.Second).Error(); err != nil {
		return fmt.Errorf("raft barrier: %w (state machine at %d, log at %d)", err, g.b.fsm.latestIndex.Load(), g.b.raft.LastIndex())
	}
	return nil
}

func c08NewRaft(t testing.TB) *RaftBackend {
	dir := t.TempDir()
	id, err := uuid.GenerateUUID()
	if err != nil {
		t.Fatal(err)
	}
	raw, err := NewRaftBackend(map[string]string{"path": dir, "trailing_logs": "100000", "node_id": id}, log.NewNullLogger())
	if err != nil {
		t.Fatal(err)
	}
	b := raw.(*RaftBackend)
	if err := b.Bootstrap([]Peer{{ID: b.NodeID(), Address: b.NodeID()}}); err != nil {
		t.Fatal(err)
	}
	if err := b.SetupCluster(context.Background(), SetupOpts{}); err != nil {
		t.Fatal(err)
	}
	dl := time.Now().Add(60 * time.Second)
	for b.raft.AppliedIndex() < 2 || b.raft.State() != hraft.Leader {
		if time.Now().After(dl) {
			t.Fatal("raft node did not become leader")
		}
		time.Sleep(time.Millisecond)
	}
	b.DisableAutopilot()
	return b
}

// ---- ground truth: the log

type c08LogEntry struct {
	Index  uint64            `json:"index"`
	Kind   string            `json:"kind"` // put del txn other
	Key    string            `json:"key,omitempty"`
	Val    string            `json:"val,omitempty"`
	Start  uint64            `json:"txn_start,omitempty"`
	Puts   map[string]string `json:"puts,omitempty"`
	Dels   []string          `json:"dels,omitempty"`
	HasLAI bool              `json:"has_lai"`
	LAI    uint64            `json:"lowest_active_index"`
	Rec    string            `json:"record,omitempty"`
	Call   int64             `json:"call,omitempty"` // logical time at which the client issued it
	Wrote  bool              `json:"wrote"`          // its writes took effect
}

type c08RaftTruth struct {
	Entries map[uint64]*c08LogEntry
	Order   []uint64
	Snaps   []c08Snap
}

func (g *c08RaftCtl) readLog(from, to uint64) ([]*c08LogEntry, error) {
	var out []*c08LogEntry
	for idx := from; idx <= to; idx++ {
		var l hraft.Log
		if err := g.b.logStore.GetLog(idx, &l); err != nil {
			return nil, fmt.Errorf("log entry %d: %w", idx, err)
		}
		e := &c08LogEntry{Index: idx, Kind: "other"}
		if l.Type == hraft.LogCommand {
			var d LogData
			if err := proto.Unmarshal(l.Data, &d); err != nil {
				return nil, fmt.Errorf("log entry %d: %w", idx, err)
			}
			if d.LowestActiveIndex != nil {
				e.HasLAI, e.LAI = true, *d.LowestActiveIndex
			}
			switch {
			case len(d.Operations) == 1 && d.Operations[0].OpType == putOp:
				e.Kind, e.Key, e.Val = "put", d.Operations[0].Key, string(d.Operations[0].Value)
			case len(d.Operations) == 1 && d.Operations[0].OpType == deleteOp:
				e.Kind, e.Key = "del", d.Operations[0].Key
			case len(d.Operations) > 0 && d.Operations[0].OpType == beginTxOp:
				e.Kind, e.Puts = "txn", map[string]string{}
				var p struct {
					I uint64 `json:"i"`
				}
				if err := json.Unmarshal(d.Operations[0].Value, &p); err != nil {
					return nil, fmt.Errorf("log entry %d: begin value: %w", idx, err)
				}
				e.Start = p.I
				for _, op := range d.Operations {
					switch op.OpType {
					case putOp:
						e.Puts[op.Key] = string(op.Value)
					case deleteOp:
						e.Dels = append(e.Dels, op.Key)
					}
				}
				sort.Strings(e.Dels)
			}
		}
		out = append(out, e)
	}
	return out, nil
}

func c08FinalWrites(script []c08Obs) (map[string]string, []string) {
	puts := map[string]string{}
	dels := map[string]bool{}
	for _, o := range script {
		switch o.Kind {
		case "put":
			puts[o.Key] = o.Val
			delete(dels, o.Key)
		case "del":
			dels[o.Key] = true
			delete(puts, o.Key)
		}
	}
	var ds []string
	for k := range dels {
		ds = append(ds, k)
	}
	sort.Strings(ds)
	return puts, ds
}

func (g *c08RaftCtl) truth(run *c08Run) (*c08Truth, error) {
	if err := g.quiesce(); err != nil {
		return nil, err
	}
	g.mu.Lock()
	start, snaps := g.start, append([]c08Snap(nil), g.snaps...)
	g.mu.Unlock()
	entries, err := g.readLog(start+1, g.b.raft.LastIndex())
	if err != nil {
		return nil, err
	}
	// scripts of the transactions, from the records
	scripts := map[int][]c08Obs{}
	for _, rc := range run.Recs {
		if rc.Txn >= 0 && !rc.After_ && rc.Err == "" && !(rc.RO && (rc.Kind == "put" || rc.Kind == "del")) {
			switch rc.Kind {
			case "get", "list", "page", "put", "del":
				scripts[rc.Txn] = append(scripts[rc.Txn], rc.obs())
			}
		}
	}
	tr := &c08Truth{Pos: map[[2]int]uint64{}}
	rt := &c08RaftTruth{Entries: map[uint64]*c08LogEntry{}, Snaps: snaps}
	used := map[int]bool{}
	for _, e := range entries {
		rt.Entries[e.Index] = e
		rt.Order = append(rt.Order, e.Index)
		if e.Kind == "other" {
			continue
		}
		found := -1
		for i := range run.Recs { // ordered by Call
			rc := &run.Recs[i]
			if used[i] || rc.After_ {
				continue
			}
			ok := false
			switch e.Kind {
			case "put":
				ok = rc.Txn < 0 && rc.Kind == "put" && rc.Key == e.Key && rc.Val == e.Val
			case "del":
				ok = rc.Txn < 0 && rc.Kind == "del" && rc.Key == e.Key
			case "txn":
				if rc.Txn >= 0 && rc.Kind == "commit" && !rc.RO {
					puts, dels := c08FinalWrites(scripts[rc.Txn])
					ok = len(puts)+len(dels) > 0 && fmt.Sprint(puts) == fmt.Sprint(e.Puts) && fmt.Sprint(dels) == fmt.Sprint(e.Dels)
				}
			}
			if ok && rc.Pos != 0 && rc.Pos != e.Index {
				ok = false // the scheduler saw this operation at another log position
			}
			if ok {
				found = i
				break
			}
		}
		if found < 0 {
			return nil, fmt.Errorf("log entry %d (%s %s) matches no client operation", e.Index, e.Kind, e.Key)
		}
		used[found] = true
		rc := &run.Recs[found]
		rc.Pos = e.Index
		e.Rec, e.Call = rc.String(), rc.Call
		e.Wrote = rc.Err == ""
		tr.Pos[[2]int{rc.Client, rc.Idx}] = e.Index
	}
	for i := range run.Recs {
		rc := &run.Recs[i]
		if used[i] || rc.After_ || rc.Err != "" && rc.ErrClass != "conflict" {
			continue
		}
		need := rc.Txn < 0 && (rc.Kind == "put" || rc.Kind == "del")
		if rc.Txn >= 0 && rc.Kind == "commit" && !rc.RO {
			p, d := c08FinalWrites(scripts[rc.Txn])
			writes := 0
			for _, o := range scripts[rc.Txn] {
				if o.Kind == "put" || o.Kind == "del" {
					writes++
				}
			}
			_, _ = p, d
			need = writes > 0
		}
		if need {
			return nil, fmt.Errorf("operation %s left no log entry", rc)
		}
	}
	tr.Extra = rt
	return tr, nil
}

// classifyStale decides whether a "committed although stale" anomaly carries the
// signature of known finding F7: every log entry i that touched the stale
// observation inside the transaction's window (start < i < commit index) had
// been applied before the transaction's own batch, is missing from the
// tracker snapshot taken when that batch was let through, and some entry j
// (i < j < commit index) shipped LowestActiveIndex > i although the
// transaction (start < i) was open. Anything else is a different class.
func (g *c08RaftCtl) classifyStale(run *c08Run, tr *c08Truth, a *c08Anomaly) (string, any) {
	const other = "C08-raft-stale-txn-committed"
	rt, _ := tr.Extra.(*c08RaftTruth)
	if rt == nil {
		return other, nil
	}
	var commit *c08Rec
	var script []c08Obs
	var beginRet int64
	for i := range run.Recs {
		rc := &run.Recs[i]
		if rc.Txn != a.Txn || rc.After_ {
			continue
		}
		if rc.Kind == "begin" {
			beginRet = rc.Ret
		}
		if rc.Kind == "commit" {
			commit = rc
		} else if rc.Err == "" && rc.Kind != "begin" && rc.Kind != "beginro" && rc.Kind != "rollback" {
			script = append(script, rc.obs())
		}
	}
	if commit == nil || commit.Pos == 0 || a.ObsIdx >= len(script) {
		return other, "commit record not located in the log"
	}
	ce := rt.Entries[commit.Pos]
	ob := script[a.ObsIdx]
	touches := func(k string) bool {
		if ob.Kind == "get" {
			return k == ob.Key
		}
		return strings.HasPrefix(k, ob.Key)
	}
	var snap *c08Snap
	for i := range rt.Snaps {
		if rt.Snaps[i].FSMIndex < commit.Pos {
			snap = &rt.Snaps[i]
		}
	}
	detail := map[string]any{"txn_start": ce.Start, "txn_commit_index": commit.Pos, "stale_observation": ob.String(), "tracker_at_apply": snap}
	if snap == nil {
		return other, detail
	}
	var window []map[string]any
	f7 := true
	for _, idx := range rt.Order {
		e := rt.Entries[idx]
		if idx <= ce.Start || idx >= commit.Pos || !e.Wrote {
			continue
		}
		hit := (e.Kind == "put" || e.Kind == "del") && touches(e.Key)
		if e.Kind == "txn" {
			for k := range e.Puts {
				hit = hit || touches(k)
			}
			for _, k := range e.Dels {
				hit = hit || touches(k)
			}
		}
		if !hit {
			continue
		}
		tracked := false
		for _, t := range snap.Tracked {
			tracked = tracked || t == idx
		}
		// the trim point must come from an entry that was issued before the transaction had begun (F7: its
		// LowestActiveIndex was capped by raft's applied index, which ran ahead of the state machine the
		// transaction then started from). An entry issued while the transaction was open and still shipping
		// a trim point above the transaction's start is a different defect.
		var trimmedBy uint64
		for _, j := range rt.Order {
			if j > idx && j < commit.Pos && rt.Entries[j].HasLAI && rt.Entries[j].LAI > idx && rt.Entries[j].Call != 0 && rt.Entries[j].Call < beginRet {
				trimmedBy = j
				break
			}
		}
		window = append(window, map[string]any{"index": idx, "entry": e.Rec, "applied_before_batch": idx <= snap.FSMIndex, "in_tracker": tracked,
			"trimmed_by_entry": trimmedBy, "shipped_lowest_active_index": func() uint64 {
				if trimmedBy != 0 {
					return rt.Entries[trimmedBy].LAI
				}
				return 0
			}()})
		if !(idx <= snap.FSMIndex && !tracked && trimmedBy != 0) {
			f7 = false
		}
	}
	detail["overwriting_entries"] = window
	if f7 && len(window) > 0 {
		return "C08-F7-raft-stale-txn-commits-fsm-lag", detail
	}
	// Third signature (open known finding): the stale observation is a listing made after the transaction's
	// own delete of a key under a sub-folder of the listed prefix, so the folder entry was gone from its
	// view; the folder-collapsed listing of the storage (what listPageInner gives and the shipped
	// verification covers) is the same at transaction start and at commit; inside the window somebody wrote
	// another key in that very sub-folder, which keeps the folder entry alive at commit time; and the
	// tracker was complete (nothing trimmed), i.e. the verification ran and passed.
	if ob.Kind == "list" || ob.Kind == "page" {
		if cl, ok := g.folderCollapse(tr, rt, ce, commit, snap, ob, script[:a.ObsIdx], detail); ok {
			return cl, detail
		}
	}
	// Fourth signature: the stale observation is a listing, and the transaction listed the same (prefix, after)
	// again later on (RaftTransaction keeps one verification entry per (prefix, after); which of the listings it
	// ships is the implementation's choice and has to cover all of them).
	if ob.Kind == "list" || ob.Kind == "page" {
		for _, later := range script[a.ObsIdx+1:] {
			if (later.Kind == "list" || later.Kind == "page") && later.Key == ob.Key && later.After == ob.After {
				detail["later_listing_of_same_prefix_and_after"] = later.String()
				return "C08-raft-txn-relisting-same-prefix-and-after-loses-earlier-verification", detail
			}
		}
	}
	// Second signature (disagreement found by this monitor): the transaction saw a *complete* listing
	// (iteration reached the end of the prefix), the verification was really performed (not the F7 fast
	// path), and at commit time the store lists exactly what the transaction saw in storage plus entries
	// that sort after the last one it saw. RaftTransaction.ListPage ships the verification with
	// limit = number of entries seen, so the re-listing at apply stops before the new entries.
	if (ob.Kind == "list" || ob.Kind == "page") && tr.StateAt != nil {
		lim := ob.Limit
		if ob.Kind == "list" {
			lim = -1
		}
		base := c08RefList(tr.StateAt(ce.Start), ob.Key, ob.After, lim)
		now := c08RefList(tr.StateAt(commit.Pos-1), ob.Key, ob.After, lim)
		detail["listing_in_storage_at_txn_start"] = base
		detail["listing_in_storage_at_commit"] = now
		complete := lim <= 0 || len(base) < lim
		if complete && len(base) > 0 && len(now) > len(base) && c08SameList(now[:len(base)], base) {
			return "C08-raft-txn-complete-list-misses-entry-appended-after-last", detail
		}
	}
	return other, detail
}

func c08SkipForReplay(t *testing.T, name, prefix string) bool {
	if oc := kit.OnlyCase(); oc != "" && !strings.HasPrefix(oc, prefix) {
		r := kit.NewResult(t, name, kit.Seed(8), c08Rule)
		r.Write(t)
		return true
	}
	return false
}

func c08RaftNode(t *testing.T) (*RaftBackend, *c08RaftCtl) {
	b := c08NewRaft(t)
	ctl := &c08RaftCtl{b: b}
	ctl.cond = sync.NewCond(&ctl.mu)
	b.SetFSMApplyCallback(ctl.apply) // once: it takes the FSM write lock, which must never happen while a transaction is open
	t.Cleanup(func() {
		ctl.Open()
		_ = b.TeardownCluster(nil)
		_ = b.Close()
	})
	return b, ctl
}

// c08RaftOpen empties the store (plain deletes through raft) and hands out the backend built by mk.
func c08RaftOpen(b *RaftBackend, ctl *c08RaftCtl, mk func() physical.Backend) func(t testing.TB) (c08Backend, func()) {
	ctx := context.Background()
	return func(t testing.TB) (c08Backend, func()) {
		ctl.Open()
		if err := ctl.quiesce(); err != nil {
			t.Fatal(err)
		}
		left, _, err := c08ScanStore(ctx, c08PhysStore{b})
		if err != nil {
			t.Fatal(err)
		}
		for k := range left {
			if err := b.Delete(ctx, k); err != nil {
				t.Fatal(err)
			}
		}
		be, err := c08NewPhysBackend(mk())
		if err != nil {
			t.Fatal(err)
		}
		return be, func() {}
	}
}

func TestVerif_C08_Raft(t *testing.T) {
	if c08SkipForReplay(t, "c08-raft", "raft/") {
		return
	}
	b, ctl := c08RaftNode(t)
	st := &c08Stack{Name: "raft", MaxPlain: 3, Gate: ctl, Reset: ctl.Reset, Jitter: ctl.Jitter, Truth: ctl.truth, ClassifyStale: ctl.classifyStale, Relist: kit.N(400, 24000)}
	st.Open = c08RaftOpen(b, ctl, func() physical.Backend { return b })
	c08RunStack(t, "c08-raft", st, kit.N(400, 24000), kit.N(60, 4800), func(r *kit.Result, sched, free int) {
		_, shards := kit.Shard()
		if sched > 0 {
			n := int64(sched / shards)
			r.Require("cases_with_lag_ge3", n/8)
			r.Require("txn_begun_behind_lagging_state_machine", n/4)
		}
	})
}

// The arrangement of a real server: physical cache (switched on) over raft. A fresh cache per case. No
// gate here: with the cache in front a parked write holds the cache's per-key lock and would park plain
// reads too, which the step scheduler cannot tell from a hang; lag comes from the free-running cases
// (seeded apply delays).
func TestVerif_C08_CacheRaft(t *testing.T) {
	if c08SkipForReplay(t, "c08-cache-raft", "cache-raft/") {
		return
	}
	b, ctl := c08RaftNode(t)
	st := &c08Stack{Name: "cache-raft", MaxPlain: 3, HasCache: true, Hooks: &c08Hooks{}, Reset: ctl.Reset, Jitter: ctl.Jitter, Truth: ctl.truth, ClassifyStale: ctl.classifyStale, Relist: kit.N(100, 5000)}
	open := c08RaftOpen(b, ctl, func() physical.Backend {
		c := physical.NewCache(c08UnderCache(b, st.Hooks), st.CacheSize, log.NewNullLogger(), &metrics.BlackholeSink{})
		c.SetEnabled(true)
		st.Ground = func(ctx context.Context) (map[string]string, []string, error) {
			c.Purge(ctx)
			return c08ScanStore(ctx, c08PhysStore{c})
		}
		return c
	})
	st.Open = open
	c08RunStack(t, "c08-cache-raft", st, kit.N(150, 8000), kit.N(40, 3200), nil)
}

// replay stubs for the C08 tests of the other packages (see c08ReplayStub)
func TestVerif_C08_Inmem(t *testing.T)            { c08ReplayStub(t, "c08-inmem") }
func TestVerif_C08_CacheInmem(t *testing.T)       { c08ReplayStub(t, "c08-cache-inmem") }
func TestVerif_C08_ViewBarrierInmem(t *testing.T) { c08ReplayStub(t, "c08-view-barrier-inmem") }
func TestVerif_C08_ViewBarrierCacheInmem(t *testing.T) {
	c08ReplayStub(t, "c08-view-barrier-cache-inmem")
}

func (g *c08RaftCtl) folderCollapse(tr *c08Truth, rt *c08RaftTruth, ce *c08LogEntry, commit *c08Rec, snap *c08Snap, ob c08Obs, before []c08Obs, detail map[string]any) (string, bool) {
	if tr.StateAt == nil {
		return "", false
	}
	lim := ob.Limit
	if ob.Kind == "list" {
		lim = -1
	}
	atStart, atCommit := tr.StateAt(ce.Start), tr.StateAt(commit.Pos-1)
	base, now := c08RefList(atStart, ob.Key, ob.After, lim), c08RefList(atCommit, ob.Key, ob.After, lim)
	detail["listing_in_storage_at_txn_start"], detail["listing_in_storage_at_commit"] = base, now
	if !c08SameList(base, now) {
		return "", false
	}
	// the transaction's own view at commit time: its earlier writes over the store at commit
	over := c08Copy(atCommit)
	deleted := map[string]bool{}
	for _, o := range before {
		switch o.Kind {
		case "put":
			over[o.Key] = o.Val
			delete(deleted, o.Key)
		case "del":
			delete(over, o.Key)
			deleted[o.Key] = true
		}
	}
	want := c08RefList(over, ob.Key, ob.After, lim)
	// what it saw lacks exactly one or more folder entries that the serial execution would show
	seen := map[string]bool{}
	for _, e := range ob.List {
		seen[e] = true
	}
	var missing []string
	for _, e := range want {
		if !seen[e] {
			missing = append(missing, e)
		}
	}
	if len(missing) == 0 || len(want)-len(missing) != len(ob.List) {
		return "", false
	}
	for _, e := range missing {
		if !strings.HasSuffix(e, "/") {
			return "", false
		}
		folder := ob.Key + e
		own := false // the transaction deleted a key of that folder before listing
		for k := range deleted {
			own = own || strings.HasPrefix(k, folder)
		}
		sibling := false // and somebody else wrote another key of that folder inside the window
		for _, idx := range rt.Order {
			le := rt.Entries[idx]
			if idx <= ce.Start || idx >= commit.Pos || !le.Wrote {
				continue
			}
			keys := append([]string{}, le.Dels...)
			if le.Kind == "put" || le.Kind == "del" {
				keys = append(keys, le.Key)
			}
			for k := range le.Puts {
				keys = append(keys, k)
			}
			for _, k := range keys {
				if strings.HasPrefix(k, folder) && !deleted[k] {
					sibling = true
				}
			}
		}
		if !own || !sibling {
			return "", false
		}
	}
	// tracker complete: every touching entry is tracked (or belongs to the transaction's own batch)
	for _, w := range detail["overwriting_entries"].([]map[string]any) {
		if !(w["in_tracker"].(bool) || !w["applied_before_batch"].(bool)) || w["trimmed_by_entry"].(uint64) != 0 {
			return "", false
		}
	}
	detail["folder_entries_missing_from_the_transactions_view"] = missing
	// In every reproduction so far an earlier listing of the same prefix (made before the own delete) holds
	// the one verification slot for (prefix, after); a transaction that lists only after its delete ships the
	// deleted key's full name instead of the folder entry and always conflicts.
	earlier := false
	seenDel := false
	for _, o := range before {
		seenDel = seenDel || o.Kind == "del"
		if !seenDel && (o.Kind == "list" || o.Kind == "page") && o.Key == ob.Key && o.After == ob.After {
			earlier = true
		}
	}
	detail["earlier_listing_of_same_prefix_before_own_delete"] = earlier
	return "C08-raft-txn-list-folder-collapse-hides-sibling-change", true
}
