//go:build verif

package barrier

import (
	"context"
	"fmt"
	"testing"

	log "github.com/hashicorp/go-hclog"
	metrics "github.com/hashicorp/go-metrics/compat"
	kit "github.com/openbao/openbao/sdk/v2/helper/verifkit"
	"github.com/openbao/openbao/sdk/v2/logical"
	"github.com/openbao/openbao/sdk/v2/physical"
	"github.com/openbao/openbao/sdk/v2/physical/inmem"
)

// Stacks of the main module that sit on the in-memory backend:
//   view("vw/") -> AES-GCM barrier -> inmem
//   view("vw/") -> AES-GCM barrier -> physical cache -> inmem   (the arrangement a core uses)
// The clients talk logical.Storage to the view; the barrier's own records
// (core/keyring, ...) live outside the view prefix.

type c08LogicalStore struct{ s logical.Storage }

func (s c08LogicalStore) Get(ctx context.Context, key string) ([]byte, bool, error) {
	e, err := s.s.Get(ctx, key)
	if err != nil || e == nil {
		return nil, false, err
	}
	if e.Key != key {
		return nil, false, fmt.Errorf("entry for %q came back with key %q", key, e.Key)
	}
	return e.Value, true, nil
}

func (s c08LogicalStore) Put(ctx context.Context, key string, val []byte) error {
	return s.s.Put(ctx, &logical.StorageEntry{Key: key, Value: val})
}
func (s c08LogicalStore) Delete(ctx context.Context, key string) error { return s.s.Delete(ctx, key) }
func (s c08LogicalStore) List(ctx context.Context, prefix string) ([]string, error) {
	return s.s.List(ctx, prefix)
}

func (s c08LogicalStore) ListPage(ctx context.Context, prefix, after string, limit int) ([]string, error) {
	return s.s.ListPage(ctx, prefix, after, limit)
}

type c08LogicalTxn struct {
	c08LogicalStore
	tx logical.Transaction
}

func (t c08LogicalTxn) Commit(ctx context.Context) error   { return t.tx.Commit(ctx) }
func (t c08LogicalTxn) Rollback(ctx context.Context) error { return t.tx.Rollback(ctx) }

type c08LogicalBackend struct {
	c08LogicalStore
	ts logical.TransactionalStorage
}

func (b c08LogicalBackend) BeginTx(ctx context.Context) (c08Txn, error) {
	tx, err := b.ts.BeginTx(ctx)
	if err != nil {
		return nil, err
	}
	return c08LogicalTxn{c08LogicalStore{tx}, tx}, nil
}

func (b c08LogicalBackend) BeginReadOnlyTx(ctx context.Context) (c08Txn, error) {
	tx, err := b.ts.BeginReadOnlyTx(ctx)
	if err != nil {
		return nil, err
	}
	return c08LogicalTxn{c08LogicalStore{tx}, tx}, nil
}

func c08BarrierStack(cache bool) *c08Stack {
	st := &c08Stack{Name: "view-barrier-inmem", MaxPlain: 2, HasCache: cache}
	if cache {
		st.Name = "view-barrier-cache-inmem"
		st.Hooks = &c08Hooks{}
	}
	st.Open = func(t testing.TB) (c08Backend, func()) {
		logger := log.NewNullLogger()
		phys, err := inmem.NewInmem(nil, logger)
		if err != nil {
			t.Fatal(err)
		}
		st.Ground = nil
		var c physical.Cache
		if cache {
			c = physical.NewCache(c08UnderCache(phys, st.Hooks), st.CacheSize, logger, &metrics.BlackholeSink{})
			c.SetEnabled(true)
			phys = c
		}
		b := NewAESGCMBarrier(phys, nil)
		key, err := b.GenerateKey()
		if err != nil {
			t.Fatal(err)
		}
		if err := b.Initialize(context.Background(), key, nil); err != nil {
			t.Fatal(err)
		}
		if err := b.Unseal(context.Background(), key); err != nil {
			t.Fatal(err)
		}
		v := NewView(b, "vw/")
		ts, ok := v.(logical.TransactionalStorage)
		if !ok {
			t.Fatalf("view over a transactional barrier is not transactional: %T", v)
		}
		be := c08LogicalBackend{c08LogicalStore{v}, ts}
		if cache {
			st.Ground = func(ctx context.Context) (map[string]string, []string, error) {
				c.Purge(ctx)
				return c08ScanStore(ctx, be)
			}
		}
		return be, func() {}
	}
	return st
}

func TestVerif_C08_ViewBarrierInmem(t *testing.T) {
	c08RunStack(t, "c08-view-barrier-inmem", c08BarrierStack(false), kit.N(1500, 80000), kit.N(300, 16000), nil)
}

func TestVerif_C08_ViewBarrierCacheInmem(t *testing.T) {
	c08RunStack(t, "c08-view-barrier-cache-inmem", c08BarrierStack(true), kit.N(1500, 80000), kit.N(300, 16000), nil)
}

// replay stubs for the C08 tests of the other packages (see c08ReplayStub)
func TestVerif_C08_Inmem(t *testing.T)      { c08ReplayStub(t, "c08-inmem") }
func TestVerif_C08_CacheInmem(t *testing.T) { c08ReplayStub(t, "c08-cache-inmem") }
func TestVerif_C08_Raft(t *testing.T)       { c08ReplayStub(t, "c08-raft") }
func TestVerif_C08_CacheRaft(t *testing.T)  { c08ReplayStub(t, "c08-cache-raft") }
