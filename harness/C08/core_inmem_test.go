//go:build verif

// C08 — storage transactions are serializable and atomic.
//
// This file is the stack-independent core of the C08 monitor: workload
// generator, deterministic step scheduler, serial reference model, porcupine
// oracle, ground-truth explainer (used only to *classify* a failed history)
// and evidence accounting. It is kept byte-identical (except for the package
// clause) in three packages; edit core_inmem_test.go and run sync.sh.
//
// The oracle is a plain map. Nothing in here calls into the implementation
// except through the five storage operations plus Begin/Commit/Rollback.

package inmem_test

import (
	"context"
	"errors"
	"fmt"
	"hash/fnv"
	"os"
	"runtime"
	"sort"
	"strings"
	"sync"
	"sync/atomic"
	"testing"
	"time"

	"github.com/anishathalye/porcupine"
	kit "github.com/openbao/openbao/sdk/v2/helper/verifkit"
	"github.com/openbao/openbao/sdk/v2/physical"
)

// ---------------------------------------------------------------------------
// boundary: what a stack has to offer

type c08Store interface {
	Get(ctx context.Context, key string) (val []byte, found bool, err error)
	Put(ctx context.Context, key string, val []byte) error
	Delete(ctx context.Context, key string) error
	List(ctx context.Context, prefix string) ([]string, error)
	ListPage(ctx context.Context, prefix, after string, limit int) ([]string, error)
}

type c08Txn interface {
	c08Store
	Commit(ctx context.Context) error
	Rollback(ctx context.Context) error
}

type c08Backend interface {
	c08Store
	BeginTx(ctx context.Context) (c08Txn, error)
	BeginReadOnlyTx(ctx context.Context) (c08Txn, error)
}

// c08Gate is the optional "state machine lags behind the log" control of a
// stack (raft). With the gate closed a write-like operation is appended to the
// log but parks before it is applied.
type c08Gate interface {
	Close()
	Open()
	Closed() bool
	// Mark is taken before a write-like operation is issued; Queued reports
	// that the operation issued after Mark sits in the apply queue and gives
	// its log position.
	Mark() uint64
	Queued(mark uint64) (uint64, bool)
	// Release lets exactly one parked apply through.
	Release()
	// Position reports the log position of the write-like operation that was
	// issued after Mark and has already returned (0 if it did not reach the log).
	Position(mark uint64) uint64
}

// c08Truth is a ground-truth order of effects where the stack has one that
// is better than "the order in which the sequential steps returned".
type c08Truth struct {
	// Pos gives the log position for write-like records, keyed by (client, idx).
	Pos map[[2]int]uint64
	// Extra is stack private (raft: decoded log, tracker snapshots).
	Extra any
	// StateAt is filled in by the explainer: the map after every effect with position <= pos.
	StateAt func(pos uint64) map[string]string
}

type c08Stack struct {
	Name string
	// Open returns an empty store. Called once per case.
	Open func(t testing.TB) (c08Backend, func())
	Gate c08Gate
	// Reset, if set, is called when the clients of a case are about to start (after the store was populated).
	Reset func()
	// Jitter, if set, switches seeded apply delays on/off around a free-running case.
	Jitter func(seed uint64, on bool)
	// Truth is consulted after a case has run (nil: none).
	Truth func(run *c08Run) (*c08Truth, error)
	// ClassifyStale names the class of a "transaction committed although an
	// observation was stale" anomaly; nil gives the generic class.
	ClassifyStale func(run *c08Run, tr *c08Truth, a *c08Anomaly) (class string, detail any)
	// MaxPlain is the largest number of plain (non transactional) clients.
	MaxPlain int
	// HasCache is true if the physical LRU cache is one of the layers.
	HasCache bool
	// Hooks, if set, is the pass-through wrapper that sits directly under the cache: its schedule points
	// (inside the storage transaction's Commit, inside a plain Get that missed the cache) let the scheduler
	// run other clients *inside* the cache layer's Commit and Get.
	Hooks *c08Hooks
	// CacheSize is set for every case before Open (cache stacks pass it to physical.NewCache).
	CacheSize int
	// Relist is the number of cases of mode "relist" (0: a quarter of the scheduled cases).
	Relist int
	// Ground, set by Open for every case, reads the whole store with every cache emptied first.
	Ground func(ctx context.Context) (map[string]string, []string, error)
}

// ---- schedule points under the cache

type c08CtxKey struct{}

type c08Park struct {
	Point  string // commit-pre commit-post get-post
	Key    string
	resume chan struct{}
}

type c08Event struct {
	client int
	park   *c08Park // nil: the client's call returned
}

type c08Hooks struct {
	mu             sync.Mutex
	armed          bool
	pre, post, get bool
	events         chan c08Event
	clock          *atomic.Int64
	eff            map[int]int64 // client -> stamp at which its storage commit returned
}

func (h *c08Hooks) arm(events chan c08Event, clock *atomic.Int64, pre, post, get bool) {
	h.mu.Lock()
	h.armed, h.pre, h.post, h.get, h.events, h.clock, h.eff = true, pre, post, get, events, clock, map[int]int64{}
	h.mu.Unlock()
}

func (h *c08Hooks) disarm() {
	h.mu.Lock()
	h.armed = false
	h.mu.Unlock()
}

func (h *c08Hooks) park(ctx context.Context, point, key string) {
	id, ok := ctx.Value(c08CtxKey{}).(int)
	if !ok {
		return
	}
	h.mu.Lock()
	on := h.armed && ((point == "commit-pre" && h.pre) || (point == "commit-post" && h.post) || (point == "get-post" && h.get))
	ev := h.events
	h.mu.Unlock()
	if !on {
		return
	}
	p := &c08Park{Point: point, Key: key, resume: make(chan struct{})}
	ev <- c08Event{client: id, park: p}
	<-p.resume
}

func (h *c08Hooks) committed(ctx context.Context) {
	id, ok := ctx.Value(c08CtxKey{}).(int)
	h.mu.Lock()
	if ok && h.armed && h.clock != nil {
		h.eff[id] = h.clock.Add(1)
	}
	h.mu.Unlock()
}

func (h *c08Hooks) takeEff(id int) int64 {
	h.mu.Lock()
	defer h.mu.Unlock()
	v := h.eff[id]
	delete(h.eff, id)
	return v
}

// c08HookBackend passes everything through to the transactional backend it wraps.
type c08HookBackend struct {
	physical.TransactionalBackend
	h *c08Hooks
}

type c08HookTxn struct {
	physical.Transaction
	h *c08Hooks
}

func (b *c08HookBackend) Get(ctx context.Context, key string) (*physical.Entry, error) {
	e, err := b.TransactionalBackend.Get(ctx, key)
	b.h.park(ctx, "get-post", key) // the value is read, the caller (the cache) has not stored it yet
	return e, err
}

func (b *c08HookBackend) BeginTx(ctx context.Context) (physical.Transaction, error) {
	tx, err := b.TransactionalBackend.BeginTx(ctx)
	if err != nil {
		return nil, err
	}
	return &c08HookTxn{tx, b.h}, nil
}

func (b *c08HookBackend) BeginReadOnlyTx(ctx context.Context) (physical.Transaction, error) {
	tx, err := b.TransactionalBackend.BeginReadOnlyTx(ctx)
	if err != nil {
		return nil, err
	}
	return &c08HookTxn{tx, b.h}, nil
}

func (t *c08HookTxn) Commit(ctx context.Context) error {
	t.h.park(ctx, "commit-pre", "")
	err := t.Transaction.Commit(ctx)
	t.h.committed(ctx)
	t.h.park(ctx, "commit-post", "")
	return err
}

// c08UnderCache wraps b for use directly under physical.NewCache.
func c08UnderCache(b physical.Backend, h *c08Hooks) physical.Backend {
	return &c08HookBackend{b.(physical.TransactionalBackend), h}
}

// adapters for physical.TransactionalBackend -------------------------------

type c08PhysStore struct{ b physical.Backend }

func (s c08PhysStore) Get(ctx context.Context, key string) ([]byte, bool, error) {
	e, err := s.b.Get(ctx, key)
	if err != nil || e == nil {
		return nil, false, err
	}
	return e.Value, true, nil
}

func (s c08PhysStore) Put(ctx context.Context, key string, val []byte) error {
	return s.b.Put(ctx, &physical.Entry{Key: key, Value: val})
}
func (s c08PhysStore) Delete(ctx context.Context, key string) error { return s.b.Delete(ctx, key) }
func (s c08PhysStore) List(ctx context.Context, prefix string) ([]string, error) {
	return s.b.List(ctx, prefix)
}

func (s c08PhysStore) ListPage(ctx context.Context, prefix, after string, limit int) ([]string, error) {
	return s.b.ListPage(ctx, prefix, after, limit)
}

type c08PhysTxn struct {
	c08PhysStore
	tx physical.Transaction
}

func (t c08PhysTxn) Commit(ctx context.Context) error   { return t.tx.Commit(ctx) }
func (t c08PhysTxn) Rollback(ctx context.Context) error { return t.tx.Rollback(ctx) }

type c08PhysBackend struct {
	c08PhysStore
	tb physical.TransactionalBackend
}

func c08NewPhysBackend(b physical.Backend) (c08Backend, error) {
	tb, ok := b.(physical.TransactionalBackend)
	if !ok {
		return nil, fmt.Errorf("%T is not a physical.TransactionalBackend", b)
	}
	return c08PhysBackend{c08PhysStore{b}, tb}, nil
}

func (b c08PhysBackend) BeginTx(ctx context.Context) (c08Txn, error) {
	tx, err := b.tb.BeginTx(ctx)
	if err != nil {
		return nil, err
	}
	return c08PhysTxn{c08PhysStore{tx}, tx}, nil
}

func (b c08PhysBackend) BeginReadOnlyTx(ctx context.Context) (c08Txn, error) {
	tx, err := b.tb.BeginReadOnlyTx(ctx)
	if err != nil {
		return nil, err
	}
	return c08PhysTxn{c08PhysStore{tx}, tx}, nil
}

// ---------------------------------------------------------------------------
// reference model: a map

var (
	c08Keys     = []string{"a/x", "a/y", "a/d/z", "b/x", "b/y", "r"}
	c08Prefixes = []string{"", "a/", "b/", "a/d/"}
	// `after` values: entry names that occur, names in between, folder names.
	// Values that path cleaning would alter (".", "..", "x/../y") belong to
	// C13 (finding F4) and are not generated here.
	c08Afters = []string{"", "a/", "b/", "d/", "x", "y", "r", "0", "c", "zz"}
	c08Limits = []int{-1, 1, 2, 3}
	// mode "relist" (repeated listings of one prefix inside one transaction) uses a denser key space, so that a
	// page has entries before, inside and behind it. Every other mode keeps the six keys above.
	c08RelistExtra = []string{"a/b", "a/u", "a/v", "a/w", "a/z", "b/d/z", "b/w", "q", "s"}
	c08AllKeys     = append(append([]string{}, c08Keys...), c08RelistExtra...)
	c08RelistLims  = []int{-1, 1, 2, 3, 4}
)

func c08RefList(m map[string]string, prefix, after string, limit int) []string {
	set := map[string]struct{}{}
	for k := range m {
		if !strings.HasPrefix(k, prefix) {
			continue
		}
		rest := k[len(prefix):]
		if i := strings.IndexByte(rest, '/'); i >= 0 {
			rest = rest[:i+1]
		}
		set[rest] = struct{}{}
	}
	out := make([]string, 0, len(set))
	for e := range set {
		if after != "" && e <= after {
			continue
		}
		out = append(out, e)
	}
	sort.Strings(out)
	if limit > 0 && len(out) > limit {
		out = out[:limit]
	}
	return out
}

func c08Enc(m map[string]string) string {
	ks := make([]string, 0, len(m))
	for k := range m {
		ks = append(ks, k)
	}
	sort.Strings(ks)
	var sb strings.Builder
	for _, k := range ks {
		sb.WriteString(k)
		sb.WriteByte(0)
		sb.WriteString(m[k])
		sb.WriteByte(1)
	}
	return sb.String()
}

func c08Dec(s string) map[string]string {
	m := map[string]string{}
	for _, kv := range strings.Split(s, "\x01") {
		if kv == "" {
			continue
		}
		i := strings.IndexByte(kv, 0)
		m[kv[:i]] = kv[i+1:]
	}
	return m
}

func c08Copy(m map[string]string) map[string]string {
	n := make(map[string]string, len(m))
	for k, v := range m {
		n[k] = v
	}
	return n
}

func c08SameList(a, b []string) bool {
	if len(a) != len(b) {
		return false
	}
	for i := range a {
		if a[i] != b[i] {
			return false
		}
	}
	return true
}

// c08Obs is one observed step of a script: a read with what it returned, or a write.
type c08Obs struct {
	Kind  string   `json:"k"` // get list page put del
	Key   string   `json:"key"`
	Val   string   `json:"val,omitempty"`
	After string   `json:"after,omitempty"`
	Limit int      `json:"limit,omitempty"`
	Found bool     `json:"found,omitempty"`
	Got   string   `json:"got,omitempty"`
	List  []string `json:"list,omitempty"`
}

func (o c08Obs) String() string {
	switch o.Kind {
	case "get":
		if !o.Found {
			return fmt.Sprintf("get(%s)=<absent>", o.Key)
		}
		return fmt.Sprintf("get(%s)=%s", o.Key, o.Got)
	case "list":
		return fmt.Sprintf("list(%q)=%v", o.Key, o.List)
	case "page":
		return fmt.Sprintf("page(%q,after=%q,limit=%d)=%v", o.Key, o.After, o.Limit, o.List)
	case "put":
		return fmt.Sprintf("put(%s=%s)", o.Key, o.Val)
	case "del":
		return fmt.Sprintf("del(%s)", o.Key)
	}
	return o.Kind
}

// c08CheckObs evaluates one observation against a map; for writes it mutates m.
// It returns what the map would have answered when that differs.
func c08CheckObs(m map[string]string, o c08Obs) (ok bool, want string) {
	switch o.Kind {
	case "get":
		v, f := m[o.Key]
		if f != o.Found || (f && v != o.Got) {
			if !f {
				return false, "<absent>"
			}
			return false, v
		}
	case "list":
		w := c08RefList(m, o.Key, "", -1)
		if !c08SameList(w, o.List) {
			return false, fmt.Sprint(w)
		}
	case "page":
		w := c08RefList(m, o.Key, o.After, o.Limit)
		if !c08SameList(w, o.List) {
			return false, fmt.Sprint(w)
		}
	case "put":
		m[o.Key] = o.Val
	case "del":
		delete(m, o.Key)
	}
	return true, ""
}

// c08PIn is a porcupine operation: everything (incl. the observed output) is
// in the input, the step function only has to accept or refuse it.
type c08PIn struct {
	Kind   string // get list page put del txn rotxn scan
	Obs    c08Obs
	Script []c08Obs
	Scan   string // encoded map
	Label  string
}

func c08Model(init map[string]string) porcupine.Model {
	initEnc := c08Enc(init)
	return porcupine.Model{
		Init: func() any { return initEnc },
		Step: func(state, input, _ any) (bool, any) {
			st := state.(string)
			in := input.(c08PIn)
			switch in.Kind {
			case "scan":
				return st == in.Scan, st
			case "get", "list", "page":
				ok, _ := c08CheckObs(c08Dec(st), in.Obs)
				return ok, st
			case "put", "del":
				m := c08Dec(st)
				c08CheckObs(m, in.Obs)
				return true, c08Enc(m)
			case "txn", "rotxn":
				// the whole transaction is one atomic step: every read must be what the
				// map gives at this point (own earlier writes overlaid), then the writes apply.
				m := c08Dec(st)
				for _, o := range in.Script {
					if ok, _ := c08CheckObs(m, o); !ok {
						return false, st
					}
				}
				return true, c08Enc(m)
			}
			return false, st
		},
		DescribeOperation: func(input, _ any) string { return input.(c08PIn).Label },
	}
}

// ---------------------------------------------------------------------------
// workload

type c08Action struct {
	Kind  string `json:"k"` // begin beginro get put del list page commit rollback
	Key   string `json:"key,omitempty"`
	Val   string `json:"val,omitempty"`
	After string `json:"after,omitempty"`
	Limit int    `json:"limit,omitempty"`
}

func (a c08Action) String() string {
	switch a.Kind {
	case "get", "del":
		return a.Kind + "(" + a.Key + ")"
	case "put":
		return "put(" + a.Key + "=" + a.Val + ")"
	case "list":
		return fmt.Sprintf("list(%q)", a.Key)
	case "page":
		return fmt.Sprintf("page(%q,%q,%d)", a.Key, a.After, a.Limit)
	}
	return a.Kind
}

type c08Script struct {
	Client int         `json:"client"`
	Txn    bool        `json:"txn"`
	Acts   []c08Action `json:"acts"`
}

type c08Case struct {
	ID      string            `json:"id"`
	Stack   string            `json:"stack"`
	Mode    string            `json:"mode"`
	Init    map[string]string `json:"init"`
	Scripts []c08Script       `json:"scripts"`
	Sticky  int               `json:"sticky"` // % chance to keep stepping the same client
	Shape   string            `json:"shape"`  // raft: random | burst
	Hot     string            `json:"hot,omitempty"`
	// shape "commitpark" (stacks with schedule points under the cache): which points park
	ParkPre  bool `json:"park_commit_pre,omitempty"`
	ParkPost bool `json:"park_commit_post,omitempty"`
	ParkGet  bool `json:"park_get,omitempty"`
	// shape "foldercollapse" (directed, all stacks): a transaction lists Prefix, deletes Key, the only key
	// under one sub-folder of Prefix, lists Prefix again (the folder is gone from its view), a plain client
	// then creates Sibling in that sub-folder, the transaction commits. At commit time the second listing
	// would show the folder again, so the commit has to fail.
	Fold *c08Fold `json:"fold,omitempty"`
	// shape "relist" (mode "relist", all stacks): the first transaction of client 0 lists one prefix several times
	// (same / different after, decreasing / increasing / equal coverage, unlimited and limited, its own writes in
	// between); then another client changes entries of that prefix (inside or outside the pages seen); then the
	// transaction writes and commits. The serial model decides whether the commit had to fail.
	Relist *c08Relist `json:"relist,omitempty"`
	// CacheSize (cache stacks): 0 = default; 128 gives every transaction a private LRU of 128/64 = 2 entries,
	// fewer than the keys a transaction touches.
	CacheSize int `json:"cache_size,omitempty"`
}

type c08Relist struct {
	Prefix  string `json:"prefix"`
	Pattern string `json:"pattern"`
	// Directed: the schedule starts with the first Pre actions of client 0 (begin, listings, own writes), then
	// the first ByN actions of client By (the interfering writes); everything after that is scheduled at random.
	// Not directed: the whole case is scheduled at random.
	Directed bool `json:"directed"`
	Pre      int  `json:"pre"`
	By       int  `json:"by"`
	ByN      int  `json:"by_n"`
	ByTxn    bool `json:"by_txn"`
}

type c08Fold struct {
	Prefix    string `json:"prefix"`
	Key       string `json:"key"`
	Sibling   string `json:"sibling"`
	FirstList bool   `json:"first_list"` // the transaction also lists Prefix before its delete
	Paged     bool   `json:"paged"`
}

func c08GenOp(rng *kit.Rand, vals *int, client int, write, page bool) c08Action {
	key := kit.Pick(rng, c08Keys)
	n := rng.Intn(100)
	switch {
	case !write || n < 38:
		m := rng.Intn(100)
		switch {
		case m < 60 || !page:
			if m < 60 || rng.Chance(1, 2) {
				return c08Action{Kind: "get", Key: key}
			}
			return c08Action{Kind: "list", Key: kit.Pick(rng, c08Prefixes)}
		case m < 78:
			return c08Action{Kind: "list", Key: kit.Pick(rng, c08Prefixes)}
		default:
			return c08Action{Kind: "page", Key: kit.Pick(rng, c08Prefixes), After: kit.Pick(rng, c08Afters), Limit: kit.Pick(rng, c08Limits)}
		}
	case n < 82:
		*vals++
		v := fmt.Sprintf("v%d.%d", client, *vals)
		if rng.Chance(1, 8) {
			v = "i:" + key // rewrite the initial value: same-value writes and A-B-A
		}
		return c08Action{Kind: "put", Key: key, Val: v}
	default:
		return c08Action{Kind: "del", Key: key}
	}
}

func c08GenCase(rng *kit.Rand, st *c08Stack, id, mode string) *c08Case {
	cs := &c08Case{ID: id, Stack: st.Name, Mode: mode, Init: map[string]string{}}
	for _, k := range c08Keys {
		if rng.Chance(3, 5) {
			cs.Init[k] = "i:" + k
		}
	}
	cs.Sticky = kit.Pick(rng, []int{0, 40, 75})
	cs.Shape = "random"
	if mode != "relist" && st.Gate != nil && rng.Chance(2, 5) {
		cs.Shape = "burst"
		cs.Hot = kit.Pick(rng, c08Keys)
	}
	if st.Hooks != nil && mode == "sched" && rng.Chance(3, 5) {
		// other clients get to run inside the cache layer's Commit (before / after the storage commit)
		// and inside a plain Get that missed the cache (after the storage read, before the cache is filled)
		cs.Shape = "commitpark"
		cs.ParkPre, cs.ParkPost, cs.ParkGet = rng.Chance(3, 4), rng.Chance(3, 4), rng.Chance(1, 2)
	}
	if st.HasCache && rng.Chance(1, 2) {
		cs.CacheSize = 2 * physical.TransactionCacheFactor
	}
	nTxn := 2 + rng.Intn(3)
	nPlain := 1 + rng.Intn(st.MaxPlain)
	if cs.Shape == "burst" || cs.Shape == "commitpark" {
		nPlain = st.MaxPlain
	}
	vals := 0
	client := 0
	for i := 0; i < nTxn; i++ {
		sc := c08Script{Client: client, Txn: true}
		for n := 1 + rng.Intn(2); n > 0; n-- {
			ro := rng.Chance(1, 5)
			if ro {
				sc.Acts = append(sc.Acts, c08Action{Kind: "beginro"})
			} else {
				sc.Acts = append(sc.Acts, c08Action{Kind: "begin"})
			}
			nops := 1 + rng.Intn(5)
			for j := 0; j < nops; j++ {
				if cs.Shape == "burst" && j == 0 && len(sc.Acts) == 1 && rng.Chance(1, 2) {
					// a transaction that begins behind the parked writes and observes the hot key
					if rng.Chance(3, 5) {
						sc.Acts = append(sc.Acts, c08Action{Kind: "get", Key: cs.Hot})
					} else {
						sc.Acts = append(sc.Acts, c08Action{Kind: "list", Key: cs.Hot[:strings.LastIndexByte(cs.Hot, '/')+1]})
					}
					continue
				}
				if ro {
					if rng.Chance(1, 6) { // misuse: write in a read-only transaction
						a := c08GenOp(rng, &vals, client, true, true)
						for a.Kind != "put" && a.Kind != "del" {
							a = c08GenOp(rng, &vals, client, true, true)
						}
						sc.Acts = append(sc.Acts, a)
					} else {
						sc.Acts = append(sc.Acts, c08GenOp(rng, &vals, client, false, true))
					}
				} else {
					sc.Acts = append(sc.Acts, c08GenOp(rng, &vals, client, true, true))
				}
			}
			if rng.Chance(17, 20) {
				sc.Acts = append(sc.Acts, c08Action{Kind: "commit"})
			} else {
				sc.Acts = append(sc.Acts, c08Action{Kind: "rollback"})
			}
			if rng.Chance(1, 3) { // misuse: use after the end
				for m := 1 + rng.Intn(2); m > 0; m-- {
					switch rng.Intn(6) {
					case 0:
						sc.Acts = append(sc.Acts, c08Action{Kind: "commit"})
					case 1:
						sc.Acts = append(sc.Acts, c08Action{Kind: "rollback"})
					default:
						sc.Acts = append(sc.Acts, c08GenOp(rng, &vals, client, true, true))
					}
				}
			}
		}
		cs.Scripts = append(cs.Scripts, sc)
		client++
	}
	for i := 0; i < nPlain; i++ {
		sc := c08Script{Client: client}
		nops := 2 + rng.Intn(4)
		if cs.Shape == "commitpark" {
			nops += 3 // readers
		}
		for j := 0; j < nops; j++ {
			a := c08GenOp(rng, &vals, client, cs.Shape != "commitpark" || rng.Chance(1, 2), cs.Shape != "commitpark")
			if cs.Shape == "burst" && j == 0 {
				// the parked writes: the first plain client writes the hot key, the others write elsewhere
				for (a.Kind != "put" && a.Kind != "del") || (a.Key == cs.Hot) != (i == 0) {
					a = c08GenOp(rng, &vals, client, true, true)
				}
			}
			sc.Acts = append(sc.Acts, a)
		}
		cs.Scripts = append(cs.Scripts, sc)
		client++
	}
	// Which cases get the directed shape depends on the case id only and its parameters come from their own
	// stream, so that adding it did not change any other case (witnesses keep replaying).
	fh := fnv.New64a()
	fh.Write([]byte("fold|" + id))
	if mode == "sched" && cs.Shape == "random" && fh.Sum64()%10 == 0 {
		rng := kit.NewRand(int64(fh.Sum64()>>1), 8)
		cs.Shape = "foldercollapse"
		f := &c08Fold{Prefix: "", FirstList: rng.Chance(3, 4), Paged: rng.Chance(1, 3)}
		folder := kit.Pick(rng, []string{"a/", "b/"})
		var in []string
		for _, k := range c08Keys {
			if strings.HasPrefix(k, folder) {
				in = append(in, k)
			}
		}
		f.Key = kit.Pick(rng, in)
		for f.Sibling == "" || f.Sibling == f.Key {
			f.Sibling = kit.Pick(rng, in)
		}
		for _, k := range in {
			delete(cs.Init, k)
		}
		cs.Init[f.Key] = "i:" + f.Key
		cs.Fold = f
		list := c08Action{Kind: "list", Key: f.Prefix}
		if f.Paged {
			list = c08Action{Kind: "page", Key: f.Prefix, After: "", Limit: -1}
		}
		pre := []c08Action{{Kind: "begin"}}
		if f.FirstList {
			pre = append(pre, list)
		}
		pre = append(pre, c08Action{Kind: "del", Key: f.Key}, list, c08Action{Kind: "commit"})
		for i := range cs.Scripts {
			sc := &cs.Scripts[i]
			if sc.Txn && sc.Client == 0 {
				sc.Acts = append(pre, sc.Acts...)
			}
			if !sc.Txn && sc.Client == nTxn {
				sc.Acts = append([]c08Action{{Kind: "put", Key: f.Sibling, Val: "fold:" + f.Sibling}}, sc.Acts...)
			}
		}
	}
	return cs
}

// c08Under lists the keys of the relist key space below prefix and the entry names a listing of prefix can show.
func c08Under(prefix string) (keys, entries []string) {
	seen := map[string]bool{}
	for _, k := range c08AllKeys {
		if !strings.HasPrefix(k, prefix) {
			continue
		}
		keys = append(keys, k)
		rest := k[len(prefix):]
		if i := strings.IndexByte(rest, '/'); i >= 0 {
			rest = rest[:i+1]
		}
		if !seen[rest] {
			seen[rest] = true
			entries = append(entries, rest)
		}
	}
	sort.Strings(entries)
	return keys, entries
}

// c08GenRelist builds a case of mode "relist": a random case (as c08GenCase gives for a scheduled run, without
// the raft burst prefix) whose client 0 first runs the repeated-listing transaction and whose client By first
// runs the interfering writes.
func c08GenRelist(rng *kit.Rand, st *c08Stack, id string) *c08Case {
	cs := c08GenCase(rng, st, id, "relist")
	cs.Shape = "relist"
	for _, k := range c08RelistExtra {
		if rng.Chance(3, 5) {
			cs.Init[k] = "i:" + k
		}
	}
	rl := &c08Relist{Prefix: kit.Pick(rng, []string{"a/", "a/", "a/", "", "b/"}), Directed: rng.Chance(3, 4)}
	cs.Relist = rl
	under, entries := c08Under(rl.Prefix)
	for _, k := range under { // a well-filled prefix: pages have entries before, inside and behind them
		if rng.Chance(1, 2) {
			cs.Init[k] = "i:" + k
		}
	}
	afters := append([]string{"0", "c", "uu", "zz"}, entries...)
	after := func() string {
		if rng.Chance(1, 2) {
			return ""
		}
		return kit.Pick(rng, afters)
	}
	lim := func() int { return 1 + rng.Intn(4) }
	page := func(a string, l int) c08Action { return c08Action{Kind: "page", Key: rl.Prefix, After: a, Limit: l} }
	full := func(a string) c08Action {
		if a == "" && rng.Chance(1, 2) {
			return c08Action{Kind: "list", Key: rl.Prefix}
		}
		return page(a, -1)
	}
	anyList := func() c08Action {
		if l := kit.Pick(rng, c08RelistLims); l > 0 {
			return page(after(), l)
		}
		return full(after())
	}
	var lists []c08Action
	a := after()
	switch rng.Intn(7) {
	case 0:
		rl.Pattern = "unlimited-then-limited"
		lists = []c08Action{full(a), page(a, lim())}
	case 1:
		rl.Pattern = "limited-then-unlimited"
		lists = []c08Action{page(a, lim()), full(a)}
	case 2:
		rl.Pattern = "decreasing-limit"
		k1 := 2 + rng.Intn(3)
		lists = []c08Action{page(a, k1), page(a, 1+rng.Intn(k1-1))}
	case 3:
		rl.Pattern = "increasing-limit"
		k1 := 2 + rng.Intn(3)
		lists = []c08Action{page(a, 1+rng.Intn(k1-1)), page(a, k1)}
	case 4:
		rl.Pattern = "same-listing-twice"
		l := anyList()
		lists = []c08Action{l, l}
	case 5:
		rl.Pattern = "different-after"
		l1, l2 := anyList(), anyList()
		for l2.After == l1.After {
			l2 = page(kit.Pick(rng, afters), kit.Pick(rng, c08RelistLims))
		}
		lists = []c08Action{l1, l2}
	default:
		rl.Pattern = "mixed"
		for n := 3 + rng.Intn(2); n > 0; n-- {
			lists = append(lists, anyList())
		}
	}
	if rng.Chance(1, 3) {
		lists = append(lists, anyList()) // e.g. decreasing, then wider again
	}
	nv := 0
	own := map[string]bool{} // keys the repeated-listing transaction writes itself
	write := func(who string, inside int) c08Action {
		key := ""
		for try := 0; try < 4 && (key == "" || (who == "rx" && own[key])); try++ {
			// the interfering client mostly changes entries the transaction has seen in listings only (a
			// backend may check the previous value of a key the transaction writes, which would hide
			// a listing that is not checked)
			key = kit.Pick(rng, c08AllKeys)
			if rng.Intn(100) < inside {
				key = kit.Pick(rng, under)
			}
		}
		if who == "rl" {
			own[key] = true
		}
		_, there := cs.Init[key]
		if rng.Chance(1, 4) || (there && rng.Chance(1, 2)) {
			return c08Action{Kind: "del", Key: key}
		}
		nv++
		return c08Action{Kind: "put", Key: key, Val: fmt.Sprintf("%s.%d", who, nv)}
	}
	pre := []c08Action{{Kind: "begin"}}
	if rng.Chance(1, 5) {
		pre = append(pre, write("rl", 75)) // an own write before the first listing
	}
	for i, l := range lists {
		if i > 0 && rng.Chance(2, 5) {
			pre = append(pre, write("rl", 60))
		}
		pre = append(pre, l)
	}
	rl.Pre = len(pre)
	if rng.Chance(1, 3) {
		pre = append(pre, c08Action{Kind: "get", Key: kit.Pick(rng, c08AllKeys)})
	}
	pre = append(pre, write("rl", 25), c08Action{Kind: "commit"})
	// the interfering client: a plain client, or the transaction of client 1
	nTxn := 0
	for _, sc := range cs.Scripts {
		if sc.Txn {
			nTxn++
		}
	}
	var by []c08Action
	for n := 1 + rng.Intn(2); n > 0; n-- {
		by = append(by, write("rx", 85))
	}
	rl.By, rl.ByTxn = nTxn, rng.Chance(1, 3)
	if rl.ByTxn {
		rl.By = 1
		by = append(append([]c08Action{{Kind: "begin"}}, by...), c08Action{Kind: "commit"})
	}
	rl.ByN = len(by)
	for i := range cs.Scripts {
		sc := &cs.Scripts[i]
		switch sc.Client {
		case 0:
			sc.Acts = append(pre, sc.Acts...)
		case rl.By:
			sc.Acts = append(by, sc.Acts...)
		}
	}
	return cs
}

// ---------------------------------------------------------------------------
// execution

type c08Rec struct {
	Client   int      `json:"c"`
	Idx      int      `json:"i"`
	Txn      int      `json:"txn"` // ordinal of the transaction within the case, -1 for plain
	Kind     string   `json:"k"`
	Key      string   `json:"key,omitempty"`
	Val      string   `json:"val,omitempty"`
	After    string   `json:"after,omitempty"`
	Limit    int      `json:"limit,omitempty"`
	Call     int64    `json:"call"`
	Ret      int64    `json:"ret"`
	Found    bool     `json:"found,omitempty"`
	Got      string   `json:"got,omitempty"`
	List     []string `json:"list,omitempty"`
	Err      string   `json:"err,omitempty"`
	ErrClass string   `json:"errclass,omitempty"`  // conflict readonly finished other
	RO       bool     `json:"ro,omitempty"`        // issued on a read-only transaction
	After_   bool     `json:"after_end,omitempty"` // issued on a transaction that had already ended
	Pos      uint64   `json:"pos,omitempty"`       // log position (stacks with a log)
	Eff      int64    `json:"eff,omitempty"`       // commit: stamp at which the storage commit under the cache returned
	Parks    []string `json:"parks,omitempty"`     // schedule points at which this call was parked
}

func (r c08Rec) obs() c08Obs {
	return c08Obs{Kind: r.Kind, Key: r.Key, Val: r.Val, After: r.After, Limit: r.Limit, Found: r.Found, Got: r.Got, List: r.List}
}

func (r c08Rec) String() string {
	s := fmt.Sprintf("[%d..%d] c%d", r.Call, r.Ret, r.Client)
	if r.Txn >= 0 {
		s += fmt.Sprintf(" T%d", r.Txn)
	}
	switch r.Kind {
	case "get", "list", "page", "put", "del":
		s += " " + r.obs().String()
	default:
		s += " " + r.Kind
	}
	if r.Err != "" {
		s += " -> ERR[" + r.ErrClass + "] " + r.Err
	}
	if r.Pos != 0 {
		s += fmt.Sprintf(" @%d", r.Pos)
	}
	if r.Eff != 0 {
		s += fmt.Sprintf(" storage-commit@%d", r.Eff)
	}
	if len(r.Parks) > 0 {
		s += fmt.Sprintf(" parked%v", r.Parks)
	}
	return s
}

func c08ErrClass(err error) string {
	switch {
	case err == nil:
		return ""
	case errors.Is(err, physical.ErrTransactionCommitFailure):
		return "conflict"
	case errors.Is(err, physical.ErrTransactionReadOnly):
		return "readonly"
	case errors.Is(err, physical.ErrTransactionAlreadyCommitted):
		return "finished"
	}
	return "other"
}

type c08Run struct {
	Case   *c08Case
	Recs   []c08Rec // all records, ordered by Call
	Trace  []string // scheduler decisions
	Scan   map[string]string
	ScanAt [2]int64
	// ScanProblems: List and Get disagreed at quiescence. Ground: the store read again with caches emptied.
	ScanProblems []string
	Ground       map[string]string
	HasGround    bool
	Aborted      string
	MaxLag       int // largest number of parked write-like operations
	// Switches counts how often consecutive calls came from different clients (free-running mode).
	Switches int
	// LagAtBegin[txn ordinal] = number of operations parked when the transaction began
	LagAtBegin map[int]int
	// Parked counts calls parked at a schedule point under the cache; Blocked counts calls that neither
	// returned nor parked within the grace period (waiting for a lock held by a parked call).
	Parked, Blocked int
	// Hung names the calls that never returned although every other client had returned from its last call,
	// no call was parked any more and the gate was open.
	Hung string
}

type c08Client struct {
	sc      c08Script
	goCh    chan struct{}
	recs    []c08Rec
	tx      c08Txn
	txOrd   int
	ro      bool
	ended   bool
	next    int // next action index (owned by scheduler until the step is handed over)
	flying  bool
	flyMark uint64
	ctx     context.Context
	state   string // scheduler's view: "" idle, running, flying, parked, blocked
	park    *c08Park
	parks   []string
}

type c08Exec struct {
	be      c08Backend
	clock   atomic.Int64
	txCount atomic.Int64
	events  chan c08Event
	abort   chan struct{}
	start   chan struct{}
	hooks   *c08Hooks
}

func c08ErrStr(err error) string {
	if err == nil {
		return ""
	}
	s := err.Error()
	if len(s) > 160 {
		s = s[:160] + "..."
	}
	return s
}

func (c *c08Client) step(x *c08Exec, i int) c08Rec {
	a := c.sc.Acts[i]
	rec := c08Rec{Client: c.sc.Client, Idx: i, Txn: -1, Kind: a.Kind, Key: a.Key, Val: a.Val, After: a.After, Limit: a.Limit}
	var st c08Store = x.be
	if c.sc.Txn {
		if a.Kind != "begin" && a.Kind != "beginro" {
			rec.Txn, rec.RO, rec.After_ = c.txOrd, c.ro, c.ended
			st = c.tx
		}
	}
	var err error
	rec.Call = x.clock.Add(1)
	switch a.Kind {
	case "begin", "beginro":
		var tx c08Txn
		if a.Kind == "begin" {
			tx, err = x.be.BeginTx(c.ctx)
		} else {
			tx, err = x.be.BeginReadOnlyTx(c.ctx)
		}
		if err == nil {
			c.tx, c.ro, c.ended = tx, a.Kind == "beginro", false
			c.txOrd = int(x.txCount.Add(1)) - 1
			rec.Txn, rec.RO = c.txOrd, c.ro
		}
	case "get":
		var v []byte
		v, rec.Found, err = st.Get(c.ctx, a.Key)
		rec.Got = string(v)
	case "put":
		err = st.Put(c.ctx, a.Key, []byte(a.Val))
	case "del":
		err = st.Delete(c.ctx, a.Key)
	case "list":
		rec.List, err = st.List(c.ctx, a.Key)
	case "page":
		rec.List, err = st.ListPage(c.ctx, a.Key, a.After, a.Limit)
	case "commit":
		err = c.tx.Commit(c.ctx)
		c.ended = true
	case "rollback":
		err = c.tx.Rollback(c.ctx)
		c.ended = true
	}
	rec.Ret = x.clock.Add(1)
	if x.hooks != nil && a.Kind == "commit" {
		rec.Eff = x.hooks.takeEff(c.sc.Client)
	}
	rec.Err, rec.ErrClass = c08ErrStr(err), c08ErrClass(err)
	return rec
}

func (c *c08Client) loop(x *c08Exec, free bool, wg *sync.WaitGroup) {
	defer wg.Done()
	defer func() {
		if c.tx != nil && !c.ended {
			_ = c.tx.Rollback(c.ctx)
		}
	}()
	for i := range c.sc.Acts {
		if !free {
			select {
			case <-c.goCh:
			case <-x.abort:
				return
			}
		} else {
			if i == 0 {
				<-x.start
			}
			select {
			case <-x.abort:
				return
			default:
			}
			runtime.Gosched()
		}
		if c.sc.Txn && c.tx == nil && c.sc.Acts[i].Kind != "begin" && c.sc.Acts[i].Kind != "beginro" {
			// Begin failed: nothing to operate on.
			c.recs = append(c.recs, c08Rec{Client: c.sc.Client, Idx: i, Txn: -1, Kind: "skipped"})
		} else {
			c.recs = append(c.recs, c.step(x, i))
		}
		if !free {
			x.events <- c08Event{client: c.sc.Client}
		}
	}
}

const c08StepTimeout = 60 * time.Second

func c08WriteLike(c *c08Client, a c08Action) bool {
	if c.sc.Txn {
		return a.Kind == "commit"
	}
	return a.Kind == "put" || a.Kind == "del"
}

// c08Execute runs the case. Scheduled mode: exactly one call is running at any time; other calls may be
// suspended: write-like operations parked behind a closed gate (raft), calls parked at a schedule point
// under the cache, and calls that wait for a lock held by a parked call.
func c08Execute(cs *c08Case, be c08Backend, st *c08Stack, rng *kit.Rand, free bool) *c08Run {
	gate := st.Gate
	run := &c08Run{Case: cs, LagAtBegin: map[int]int{}}
	x := &c08Exec{be: be, events: make(chan c08Event, 4*len(cs.Scripts)+8), abort: make(chan struct{}), start: make(chan struct{})}
	clients := make([]*c08Client, len(cs.Scripts))
	var wg sync.WaitGroup
	for i, sc := range cs.Scripts {
		clients[i] = &c08Client{sc: sc, goCh: make(chan struct{}, 1), ctx: context.WithValue(context.Background(), c08CtxKey{}, sc.Client)}
	}
	if st.Reset != nil {
		st.Reset()
	}
	if free && st.Jitter != nil {
		st.Jitter(rng.Uint64(), true)
		defer st.Jitter(0, false)
	}
	if !free && st.Hooks != nil && cs.Shape == "commitpark" {
		x.hooks = st.Hooks
		st.Hooks.arm(x.events, &x.clock, cs.ParkPre, cs.ParkPost, cs.ParkGet)
	}
	for _, c := range clients {
		wg.Add(1)
		go c.loop(x, free, &wg)
	}
	finish := func() {
		if st.Hooks != nil {
			st.Hooks.disarm()
		}
		for _, c := range clients { // abort path only: nobody is left to resume them
			if c.park != nil {
				close(c.park.resume)
				c.park = nil
			}
		}
		if gate != nil {
			gate.Open()
		}
		fin := make(chan struct{})
		go func() { wg.Wait(); close(fin) }()
		patience := c08StepTimeout
		if run.Hung != "" {
			patience = time.Second // the hung calls are not coming back; their goroutines are abandoned
		}
		tm := time.NewTimer(patience)
		defer tm.Stop()
	wait:
		for {
			select {
			case <-fin:
				break wait
			case e := <-x.events:
				if e.park != nil { // only on the abort path: let it go
					close(e.park.resume)
				}
			case <-tm.C:
				if free {
					// nothing is ever held back in a free-running case (no parks, gate open)
					run.Hung = fmt.Sprintf("at least one call of the free-running clients (%v after they were started)", c08StepTimeout)
				} else if run.Aborted == "" && run.Hung == "" {
					run.Aborted = "clients did not finish"
				}
				break wait
			}
		}
		if run.Hung != "" {
			// hung client goroutines may still append to their records: leave those alone
			for _, c := range clients {
				if c.state == "" && !free {
					run.Recs = append(run.Recs, c.recs...)
				}
			}
			sort.SliceStable(run.Recs, func(i, j int) bool { return run.Recs[i].Call < run.Recs[j].Call })
			return
		}
		for _, c := range clients {
			run.Recs = append(run.Recs, c.recs...)
		}
		sort.SliceStable(run.Recs, func(i, j int) bool { return run.Recs[i].Call < run.Recs[j].Call })
	}
	if free {
		close(x.start)
		finish()
		sw, lastC := 0, -1
		for _, rc := range run.Recs {
			if rc.Client != lastC && lastC >= 0 {
				sw++
			}
			lastC = rc.Client
		}
		run.Switches = sw
		return run
	}

	var flying []*c08Client     // write-like operations parked behind the gate, oldest first
	lockHolders := func() int { // calls parked while they hold a lock of the layer under test
		n := 0
		for _, c := range clients {
			if c.state == "parked" && c.park.Point == "get-post" {
				n++
			}
		}
		return n
	}
	// note takes in an event of any client; true if it settles client c's running call.
	note := func(e c08Event, c *c08Client) bool {
		o := clients[e.client]
		if e.park != nil {
			o.state, o.park = "parked", e.park
			o.parks = append(o.parks, e.park.Point)
			run.Parked++
		} else {
			o.state, o.park = "", nil
			if len(o.parks) > 0 {
				o.recs[len(o.recs)-1].Parks, o.parks = o.parks, nil
			}
			if o.flying {
				o.flying = false
				o.recs[len(o.recs)-1].Pos = o.flyMark
			}
		}
		return o == c
	}
	// await waits until c's running call returned, parked or sits in the apply queue (poll). While a parked
	// call holds a lock of the layer under test, a call that does none of these within the grace period is
	// taken to wait for that lock ("blocked") and the schedule goes on; the grace period only decides which
	// schedules are seen. With no such park outstanding a call gets c08Patience; after that it is "stuck" and
	// the schedule goes on as well. Blocked and stuck calls that never come back although every park has
	// been released are judged at the end of the schedule (run.Hung).
	await := func(c *c08Client, poll func() bool) bool {
		c.state = "running"
		short := lockHolders() > 0
		d := c08Patience
		if short {
			d = c08Grace
		}
		wait := time.NewTimer(d)
		defer wait.Stop()
		var tick <-chan time.Time
		if poll != nil {
			tk := time.NewTicker(100 * time.Microsecond)
			defer tk.Stop()
			tick = tk.C
		}
		for {
			select {
			case e := <-x.events:
				if note(e, c) {
					return true
				}
				if !short && lockHolders() > 0 { // a suspended call got its lock and parked while holding another
					short = true
					if !wait.Stop() {
						select {
						case <-wait.C:
						default:
						}
					}
					wait.Reset(c08Grace)
				}
			case <-tick:
				if poll() {
					return true
				}
			case <-wait.C:
				if lockHolders() > 0 {
					c.state = "blocked"
					run.Blocked++
					run.Trace = append(run.Trace, fmt.Sprintf("(c%d waits for a lock)", c.sc.Client))
				} else {
					c.state = "stuck"
					run.Trace = append(run.Trace, fmt.Sprintf("(c%d does not return)", c.sc.Client))
				}
				return true
			}
		}
	}
	issue := func(c *c08Client) bool {
		a := c.sc.Acts[c.next]
		c.next++
		run.Trace = append(run.Trace, fmt.Sprintf("c%d:%s", c.sc.Client, a))
		if c.sc.Txn && (a.Kind == "begin" || a.Kind == "beginro") {
			defer func(n int) { run.LagAtBegin[int(x.txCount.Load())-1] = n }(len(flying))
		}
		if gate == nil || !c08WriteLike(c, a) {
			c.goCh <- struct{}{}
			return await(c, nil)
		}
		mark := gate.Mark()
		c.goCh <- struct{}{}
		if !gate.Closed() {
			if !await(c, nil) {
				return false
			}
			if c.state == "" {
				c.recs[len(c.recs)-1].Pos = gate.Position(mark)
			}
			return true
		}
		// gate closed and the operation may reach the log: it either returns at once (nothing to write,
		// refused) or sits in the apply queue.
		return await(c, func() bool {
			pos, ok := gate.Queued(mark)
			if ok {
				c.state, c.flying, c.flyMark = "flying", true, pos
				flying = append(flying, c)
				if len(flying) > run.MaxLag {
					run.MaxLag = len(flying)
				}
			}
			return ok
		})
	}
	release := func() bool {
		c := flying[0]
		flying = flying[1:]
		run.Trace = append(run.Trace, "release")
		gate.Release()
		return await(c, nil)
	}
	openGate := func() bool {
		run.Trace = append(run.Trace, "open")
		for len(flying) > 0 {
			if !release() {
				return false
			}
		}
		gate.Open()
		return true
	}
	resume := func(c *c08Client) bool {
		run.Trace = append(run.Trace, fmt.Sprintf("c%d:resume(%s)", c.sc.Client, c.park.Point))
		p := c.park
		c.park = nil
		close(p.resume)
		return await(c, nil)
	}

	var last *c08Client
	ok := true
	if cs.Shape == "foldercollapse" {
		// directed prefix: the transaction's begin, list(s) and delete; the plain put of the sibling; the commit
		t0, p0 := clients[0], clients[len(clients)-1]
		for _, c := range clients {
			if !c.sc.Txn {
				p0 = c
				break
			}
		}
		n := 3
		if cs.Fold.FirstList {
			n = 4
		}
		for ; n > 0 && ok; n-- {
			ok = issue(t0)
		}
		if ok {
			ok = issue(p0)
		}
		if ok {
			ok = issue(t0)
		}
	}
	if cs.Shape == "relist" && cs.Relist.Directed {
		t0, by := clients[0], clients[cs.Relist.By]
		for n := cs.Relist.Pre; n > 0 && ok; n-- {
			ok = issue(t0)
		}
		for n := cs.Relist.ByN; n > 0 && ok; n-- {
			ok = issue(by)
		}
	}
	if gate != nil && cs.Shape == "burst" {
		// shape "burst": park one write of every plain client, then let every transaction begin and
		// read, then apply everything, then go on at random. (Still drawn from the case's PRNG.)
		run.Trace = append(run.Trace, "close")
		gate.Close()
		for _, c := range clients {
			if !c.sc.Txn && ok {
				ok = issue(c)
			}
		}
		for _, c := range clients {
			if c.sc.Txn && ok {
				n := 1 + rng.Intn(4)
				for ; n > 0 && ok && c.next < len(c.sc.Acts) && c.state == ""; n-- {
					k := c.sc.Acts[c.next].Kind
					if k == "commit" || k == "rollback" {
						break
					}
					ok = issue(c)
				}
			}
		}
		if ok && rng.Chance(3, 4) {
			ok = openGate()
		}
	}
	for ok {
		// take in what suspended calls did meanwhile (a blocked call that got its lock)
		for drained := false; !drained; {
			select {
			case e := <-x.events:
				note(e, nil)
			default:
				drained = true
			}
		}
		type choice struct {
			c *c08Client
			w int
			k string
		}
		var ch []choice
		total, suspended, inCommit := 0, 0, false
		for _, c := range clients {
			if c.state != "" {
				suspended++
				inCommit = inCommit || (c.state == "parked" && c.park.Point != "get-post")
			}
		}
		for _, c := range clients {
			switch {
			case c.state == "parked":
				w := 8
				if c.park.Point != "get-post" {
					w = 5 // keep the commit open for a while: readers first
				}
				ch = append(ch, choice{c, w, "resume"})
				total += w
			case c.state == "" && c.next < len(c.sc.Acts):
				w := 10
				if c == last && cs.Sticky > 0 {
					w = 10 + cs.Sticky // weight, not a percentage; only has to favour the same client
				}
				if inCommit && !c.sc.Txn {
					w = 30
				}
				ch = append(ch, choice{c, w, "step"})
				total += w
			}
		}
		steps := len(ch)
		if gate != nil {
			if gate.Closed() {
				if len(flying) > 0 {
					w := 8
					if steps == 0 {
						w = 1000
					}
					ch = append(ch, choice{nil, w, "release"})
					total += w
				}
				ch = append(ch, choice{nil, 2, "open"})
				total += 2
			} else if steps > 0 {
				ch = append(ch, choice{nil, 4, "close"})
				total += 4
			}
		}
		if steps == 0 && len(flying) == 0 {
			if suspended == 0 {
				break
			}
			// Only blocked / stuck calls are left: no client is parked any more (a parked client would be a
			// choice), every other client has returned from its last call. One of them must come back.
			if gate != nil && gate.Closed() {
				gate.Open()
			}
			select {
			case e := <-x.events:
				note(e, nil)
			case <-time.After(c08HangWait):
				var who []string
				for _, c := range clients {
					if c.state != "" {
						who = append(who, fmt.Sprintf("c%d %s", c.sc.Client, c.sc.Acts[c.next-1]))
					}
				}
				run.Hung = strings.Join(who, ", ")
				ok = false
			}
			continue
		}
		n := rng.Intn(total)
		var pick choice
		for _, c := range ch {
			if n < c.w {
				pick = c
				break
			}
			n -= c.w
		}
		switch pick.k {
		case "step":
			last = pick.c
			ok = issue(pick.c)
		case "resume":
			ok = resume(pick.c)
		case "release":
			ok = release()
		case "open":
			ok = openGate()
		case "close":
			run.Trace = append(run.Trace, "close")
			gate.Close()
		}
	}
	if !ok {
		close(x.abort)
	}
	finish()
	return run
}

const (
	c08Grace    = 25 * time.Millisecond
	c08Patience = 10 * time.Second
	c08HangWait = 15 * time.Second
)

// c08ScanStore reads the whole store through the plain interface: every listed key and every key of the
// key space is fetched with Get. The map is what Get serves; problems are disagreements between List and
// Get (a listed key without a value, a value for a key that is not listed).
func c08ScanStore(ctx context.Context, be c08Store) (map[string]string, []string, error) {
	out := map[string]string{}
	var problems []string
	listed := map[string]bool{}
	var walk func(prefix string) error
	walk = func(prefix string) error {
		es, err := be.List(ctx, prefix)
		if err != nil {
			return err
		}
		for _, e := range es {
			if strings.HasSuffix(e, "/") {
				if err := walk(prefix + e); err != nil {
					return err
				}
				continue
			}
			listed[prefix+e] = true
			v, f, err := be.Get(ctx, prefix+e)
			if err != nil {
				return err
			}
			if !f {
				problems = append(problems, fmt.Sprintf("key %q is listed but Get finds no value", prefix+e))
				continue
			}
			out[prefix+e] = string(v)
		}
		return nil
	}
	if err := walk(""); err != nil {
		return out, problems, err
	}
	for _, k := range c08AllKeys {
		if listed[k] {
			continue
		}
		v, f, err := be.Get(ctx, k)
		if err != nil {
			return out, problems, err
		}
		if f {
			problems = append(problems, fmt.Sprintf("Get(%q) serves %q but the key is not listed", k, v))
			out[k] = string(v)
		}
	}
	return out, problems, nil
}

// ---------------------------------------------------------------------------
// analysis

type c08TxnInfo struct {
	Ord       int
	Client    int
	RO        bool
	Begin     *c08Rec
	End       *c08Rec  // commit or rollback record (first one)
	Script    []c08Obs // successful operations while the transaction was open, in order
	ScriptIdx []int    // index into run.Recs for each script element
	Writes    int
	Reads     int
	Outcome   string // committed conflict rolledback commit-error open
}

type c08Anomaly struct {
	Kind   string `json:"kind"` // stale-commit plain-read ro-snapshot final-state aborted-write-visible
	Txn    int    `json:"txn"`
	What   string `json:"what"`
	ObsIdx int    `json:"obs_idx"` // index into the script for stale-commit
	Key    string `json:"key,omitempty"`
	// for stale-commit: position of the transaction in the effect order
	EffectN int `json:"effect_n"`
}

type c08Effect struct {
	Rec   *c08Rec
	Txn   *c08TxnInfo // nil for plain writes
	Order uint64
}

func c08Analyse(t testing.TB, r *kit.Result, st *c08Stack, run *c08Run, free bool) {
	cs := run.Case
	id := cs.ID
	witness := func(extra map[string]any) map[string]any {
		w := map[string]any{"case": cs, "schedule": run.Trace}
		h := make([]string, 0, len(run.Recs))
		for _, rc := range run.Recs {
			h = append(h, rc.String())
		}
		w["history"] = h
		w["final_scan"] = run.Scan
		for k, v := range extra {
			w[k] = v
		}
		return w
	}
	if run.Hung != "" {
		// "a transaction commits ... otherwise it fails": an operation that neither returns nor fails while
		// nothing it could legitimately wait for is outstanding (all other clients done, no call parked by the
		// scheduler, state machine gate open) is a violation, with the schedule as witness.
		r.Violate("C08-operation-hangs", id,
			fmt.Sprintf("%s: %s never returned although every other client had finished and no call was held back by the scheduler", st.Name, run.Hung), witness(nil))
		return
	}
	if run.Aborted != "" {
		r.Inconc("%s: %s", id, run.Aborted)
		return
	}
	if os.Getenv("VERIF_C08_DUMP") != "" {
		defer func() {
			t.Logf("case %s shape=%s init=%v schedule=%v", id, cs.Shape, cs.Init, run.Trace)
			for _, rc := range run.Recs {
				t.Logf("   %s", rc)
			}
		}()
	}

	// ---- quiescence: all clients are done; what the layer under test serves now must be self-consistent
	// and, where a cache is one of the layers, equal to the store below the cache.
	if len(run.ScanProblems) > 0 {
		r.Violate("C08-quiescent-get-disagrees-with-list", id,
			fmt.Sprintf("%s: after all clients had finished, %s", st.Name, strings.Join(run.ScanProblems, "; ")), witness(nil))
	}
	if run.HasGround {
		r.Count("quiescent_cache_vs_store_comparisons", 1)
		if c08Enc(run.Ground) != c08Enc(run.Scan) {
			var diff []string
			for _, k := range c08AllKeys {
				cv, cf := run.Scan[k]
				gv, gf := run.Ground[k]
				if cf != gf || cv != gv {
					diff = append(diff, fmt.Sprintf("%s: cache serves %s, store has %s", k, c08Shown(cv, cf), c08Shown(gv, gf)))
				}
			}
			r.Violate("C08-cache-stale-at-quiescence", id,
				fmt.Sprintf("%s: after all clients had finished, reads through the cache differ from the store below it: %s", st.Name, strings.Join(diff, "; ")),
				witness(map[string]any{"store_below_cache": run.Ground}))
		}
	}

	// ---- group records by transaction
	txns := map[int]*c08TxnInfo{}
	var ords []int
	for i := range run.Recs {
		rc := &run.Recs[i]
		if rc.Kind == "skipped" {
			r.Inconc("%s: Begin failed, script skipped", id)
			return
		}
		if rc.Txn < 0 {
			if rc.Kind == "begin" || rc.Kind == "beginro" {
				r.Inconc("%s: Begin failed: %s", id, rc.Err)
				return
			}
			if rc.Err != "" {
				r.Inconc("%s: plain operation failed: %s", id, rc)
				return
			}
			continue
		}
		ti := txns[rc.Txn]
		if ti == nil {
			ti = &c08TxnInfo{Ord: rc.Txn, Client: rc.Client, RO: rc.RO, Outcome: "open"}
			txns[rc.Txn] = ti
			ords = append(ords, rc.Txn)
		}
		switch {
		case rc.Kind == "begin" || rc.Kind == "beginro":
			ti.Begin = rc
		case rc.After_:
			// "a finished transaction refuses further use"
			r.Count("misuse_after_end_ops", 1)
			if rc.Err == "" && st.HasCache && c08ServedFromTxnCache(ti, rc) {
				// Disagreement with the unchanged tree, narrow signature: the cache layer's transaction keeps
				// answering Get for keys that sit in its private LRU after Commit/Rollback.
				r.Violate("C08-cache-finished-txn-get-served-from-private-cache", id,
					fmt.Sprintf("%s: get(%s) on transaction T%d after it had ended (%s) was answered from the transaction's private cache instead of being refused", st.Name, rc.Key, rc.Txn, ti.Outcome),
					witness(map[string]any{"op": rc.String()}))
			} else if rc.Err == "" {
				r.Violate("C08-finished-txn-accepted-use", id,
					fmt.Sprintf("%s: %s on transaction T%d after it had ended (%s) returned no error", st.Name, rc.Kind, rc.Txn, ti.Outcome),
					witness(map[string]any{"op": rc.String()}))
			} else if rc.ErrClass != "finished" && !(rc.RO && rc.ErrClass == "readonly") {
				r.Violate("C08-finished-txn-wrong-error", id,
					fmt.Sprintf("%s: %s on ended transaction T%d failed with %q, not with the already-committed error", st.Name, rc.Kind, rc.Txn, rc.Err),
					witness(map[string]any{"op": rc.String()}))
			} else {
				r.Count("misuse_after_end_refused", 1)
			}
		case rc.Kind == "commit" || rc.Kind == "rollback":
			ti.End = rc
			switch {
			case rc.Kind == "rollback" && rc.Err == "":
				ti.Outcome = "rolledback"
			case rc.Kind == "commit" && rc.Err == "":
				ti.Outcome = "committed"
			case rc.Kind == "commit" && rc.ErrClass == "conflict":
				ti.Outcome = "conflict"
			default:
				ti.Outcome = "commit-error"
				// "otherwise it fails with a commit-conflict error"
				r.Violate("C08-commit-error-class", id,
					fmt.Sprintf("%s: %s of T%d failed with %q which is not the commit-conflict class", st.Name, rc.Kind, rc.Txn, rc.Err),
					witness(map[string]any{"op": rc.String()}))
			}
		case rc.RO && (rc.Kind == "put" || rc.Kind == "del"):
			// "read-only transactions refuse writes"
			r.Count("misuse_ro_writes", 1)
			if rc.Err == "" {
				r.Violate("C08-readonly-txn-accepted-write", id,
					fmt.Sprintf("%s: %s in read-only transaction T%d returned no error", st.Name, rc.obs(), rc.Txn), witness(map[string]any{"op": rc.String()}))
			} else if rc.ErrClass != "readonly" {
				r.Violate("C08-readonly-txn-wrong-error", id,
					fmt.Sprintf("%s: %s in read-only transaction T%d failed with %q, not with the read-only error", st.Name, rc.obs(), rc.Txn, rc.Err), witness(map[string]any{"op": rc.String()}))
			} else {
				r.Count("misuse_ro_writes_refused", 1)
			}
		default:
			if rc.Err != "" {
				r.Inconc("%s: operation inside open transaction failed: %s", id, rc)
				return
			}
			ti.Script = append(ti.Script, rc.obs())
			ti.ScriptIdx = append(ti.ScriptIdx, i)
			if rc.Kind == "put" || rc.Kind == "del" {
				ti.Writes++
			} else {
				ti.Reads++
			}
		}
	}
	sort.Ints(ords)

	if cs.Shape == "foldercollapse" && len(ords) > 0 {
		// the directed transaction is the first one begun
		kind := "with_first_list"
		if !cs.Fold.FirstList {
			kind = "without_first_list"
		}
		r.Count("folder_collapse_cases_"+kind, 1)
		r.Count("folder_collapse_"+kind+"_"+txns[ords[0]].Outcome, 1)
	}

	if cs.Shape == "relist" {
		r.Count("relist_cases", 1)
		r.Count("relist_pattern_"+cs.Relist.Pattern, 1)
		if cs.Relist.Directed {
			r.Count("relist_cases_directed", 1)
		}
		if cs.Relist.ByTxn {
			r.Count("relist_cases_interference_by_txn", 1)
		}
		for _, o := range ords {
			if ti := txns[o]; c08IsRelistTxn(cs, ti) {
				r.Count("relist_txn_"+ti.Outcome, 1)
			}
		}
	}

	// ---- evidence: plain readers released inside the Commit of a transaction that wrote the key they read
	for _, o := range ords {
		ti := txns[o]
		if ti.End == nil || ti.End.Eff == 0 || ti.Writes == 0 || ti.End.Err != "" {
			continue
		}
		wrote := map[string]bool{}
		for _, ob := range ti.Script {
			if ob.Kind == "put" || ob.Kind == "del" {
				wrote[ob.Key] = true
			}
		}
		for i := range run.Recs {
			g := &run.Recs[i]
			if g.Txn >= 0 || g.Kind != "get" || !wrote[g.Key] || g.Ret < ti.End.Call || g.Call > ti.End.Ret {
				continue
			}
			switch {
			case g.Ret < ti.End.Eff:
				r.Count("reader_of_written_key_inside_commit_before_storage_commit", 1)
			case g.Call > ti.End.Eff:
				r.Count("reader_of_written_key_inside_commit_after_storage_commit", 1)
			default:
				r.Count("reader_of_written_key_parked_across_storage_commit", 1)
			}
		}
	}

	// ---- own writes are reflected inside the transaction (all transactions, whatever their fate)
	for _, o := range ords {
		ti := txns[o]
		over := map[string]*string{}
		for n, ob := range ti.Script {
			switch ob.Kind {
			case "put":
				v := ob.Val
				over[ob.Key] = &v
			case "del":
				over[ob.Key] = nil
			case "get":
				if w, ok := over[ob.Key]; ok {
					r.Count("own_write_reads", 1)
					if (w == nil) != !ob.Found || (w != nil && *w != ob.Got) {
						r.Violate("C08-txn-own-write-not-reflected", id,
							fmt.Sprintf("%s: T%d step %d %s does not reflect the transaction's own earlier write", st.Name, o, n, ob), witness(map[string]any{"txn": o, "script": ti.Script}))
					}
				}
			case "list":
				for k, w := range over {
					if !strings.HasPrefix(k, ob.Key) {
						continue
					}
					rest := k[len(ob.Key):]
					direct := !strings.Contains(rest, "/")
					if i := strings.IndexByte(rest, '/'); i >= 0 {
						rest = rest[:i+1]
					}
					has := false
					for _, e := range ob.List {
						has = has || e == rest
					}
					r.Count("own_write_lists", 1)
					if (w != nil && !has) || (w == nil && direct && has) {
						r.Violate("C08-txn-own-write-not-reflected", id,
							fmt.Sprintf("%s: T%d step %d %s does not reflect the transaction's own earlier write to %s", st.Name, o, n, ob, k), witness(map[string]any{"txn": o, "script": ti.Script}))
					}
				}
			}
		}
	}

	// ---- porcupine history
	var ops []porcupine.Operation
	add := func(client int, in c08PIn, call, ret int64) {
		ops = append(ops, porcupine.Operation{ClientId: client, Input: in, Call: call, Return: ret})
	}
	// DESIGN §4 C08: through the cache layer a plain Get that runs concurrently with other calls is checked
	// per key only (the parent cache is invalidated key by key after the storage commit; a plain Get is
	// not an atomic observation of several keys). Atomic visibility is asserted with read-only transactions.
	perKey := st.HasCache && (free || run.Parked > 0)
	for i := range run.Recs {
		rc := &run.Recs[i]
		if rc.Txn >= 0 {
			continue
		}
		r.Count("plain_ops", 1)
		if perKey && rc.Kind == "get" {
			continue
		}
		add(rc.Client, c08PIn{Kind: rc.Kind, Obs: rc.obs(), Label: rc.obs().String()}, rc.Call, rc.Ret)
	}
	if perKey {
		for _, k := range c08AllKeys {
			var kops []porcupine.Operation
			reads := 0
			for i := range run.Recs {
				rc := &run.Recs[i]
				if rc.Txn >= 0 || rc.Key != k {
					continue
				}
				switch rc.Kind {
				case "get":
					reads++
					fallthrough
				case "put", "del":
					kops = append(kops, porcupine.Operation{ClientId: rc.Client, Input: c08PIn{Kind: rc.Kind, Obs: rc.obs(), Label: rc.obs().String()}, Call: rc.Call, Return: rc.Ret})
				}
			}
			if reads == 0 {
				continue
			}
			for _, o := range ords {
				ti := txns[o]
				if ti.Outcome != "committed" || ti.Writes == 0 {
					continue
				}
				var last *c08Obs
				for j := range ti.Script {
					if ob := &ti.Script[j]; ob.Key == k && (ob.Kind == "put" || ob.Kind == "del") {
						last = ob
					}
				}
				if last != nil {
					kops = append(kops, porcupine.Operation{ClientId: ti.Client, Input: c08PIn{Kind: last.Kind, Obs: *last, Label: fmt.Sprintf("T%d %s", o, last)}, Call: ti.End.Call, Return: ti.End.Ret})
				}
			}
			init := map[string]string{}
			if v, ok := cs.Init[k]; ok {
				init[k] = v
			}
			r.Count("per_key_plain_get_checks", 1)
			switch porcupine.CheckOperationsTimeout(c08Model(init), kops, 20*time.Second) {
			case porcupine.Unknown:
				r.Inconc("%s: porcupine timed out (key %s)", id, k)
			case porcupine.Illegal:
				r.Violate("C08-plain-read-not-linearizable", id,
					fmt.Sprintf("%s: plain reads of %s fit no order of the writes to that key", st.Name, k), witness(map[string]any{"key": k}))
			}
		}
	}
	for _, o := range ords {
		ti := txns[o]
		r.Count("txn_"+ti.Outcome, 1)
		if ti.End == nil || ti.Begin == nil {
			continue
		}
		lbl := fmt.Sprintf("T%d%v", o, ti.Script)
		switch {
		case ti.Outcome == "committed" && ti.Writes > 0:
			add(ti.Client, c08PIn{Kind: "txn", Script: ti.Script, Label: lbl}, ti.End.Call, ti.End.Ret)
			r.Count("porcupine_rw_txn_steps", 1)
		case (ti.Outcome == "committed" || (ti.RO && ti.Outcome == "rolledback")) && ti.Reads > 0:
			// read-only (or nothing written): all reads must fit one state somewhere in [begin, end]
			add(ti.Client, c08PIn{Kind: "rotxn", Script: ti.Script, Label: lbl}, ti.Begin.Call, ti.End.Ret)
			r.Count("porcupine_ro_txn_steps", 1)
		}
	}
	add(len(cs.Scripts), c08PIn{Kind: "scan", Scan: c08Enc(run.Scan), Label: "final scan"}, run.ScanAt[0], run.ScanAt[1])
	res := porcupine.CheckOperationsTimeout(c08Model(cs.Init), ops, 20*time.Second)
	r.Count("histories_checked", 1)
	r.Count("porcupine_operations", len(ops))

	// ---- ground truth explainer (classification and evidence only)
	var truth *c08Truth
	if st.Truth != nil {
		var err error
		if truth, err = st.Truth(run); err != nil {
			r.Inconc("%s: ground truth unavailable: %v", id, err)
			return
		}
	}
	var anomalies []c08Anomaly
	contended := false
	if !free || truth != nil {
		anomalies, contended = c08Explain(r, st, run, txns, ords, truth)
	}

	switch res {
	case porcupine.Unknown:
		r.Inconc("%s: porcupine timed out", id)
	case porcupine.Ok:
		if len(anomalies) > 0 {
			// A different serial order than the ground-truth one explains the history: allowed.
			r.Count("legal_but_reordered", 1)
			r.Note("%s: serializable, but not in ground-truth order: %s", id, anomalies[0].What)
		}
	case porcupine.Illegal:
		classes := map[string][]any{}
		for i := range anomalies {
			a := &anomalies[i]
			cl, detail := "", any(nil)
			switch a.Kind {
			case "stale-commit":
				cl = "C08-stale-txn-committed"
				if st.ClassifyStale != nil {
					cl, detail = st.ClassifyStale(run, truth, a)
				}
			case "plain-read":
				cl = "C08-plain-read-not-linearizable"
			case "ro-snapshot":
				cl = "C08-ro-txn-inconsistent-snapshot"
			case "final-state":
				cl = "C08-final-state-mismatch"
			case "aborted-write-visible":
				cl = "C08-aborted-txn-write-visible"
			}
			classes[cl] = append(classes[cl], map[string]any{"anomaly": a, "detail": detail})
		}
		if len(classes) == 0 {
			// no explainer for this run: is it the store at quiescence that does not fit?
			if porcupine.CheckOperationsTimeout(c08Model(cs.Init), ops[:len(ops)-1], 20*time.Second) == porcupine.Ok {
				classes["C08-final-state-mismatch"] = nil
			} else {
				classes["C08-nonserializable-history"] = nil
			}
		}
		for cl, det := range classes {
			what := fmt.Sprintf("%s: no serial order of the committed transactions and plain operations explains what the clients observed", st.Name)
			if len(det) == 0 && cl == "C08-final-state-mismatch" {
				what = fmt.Sprintf("%s: what the clients observed is serializable, but the store read at quiescence %v is not the state any such order ends in", st.Name, run.Scan)
			}
			if len(det) > 0 {
				what += ": " + det[0].(map[string]any)["anomaly"].(*c08Anomaly).What
			}
			r.Violate(cl, id, what, witness(map[string]any{"anomalies": det}))
		}
	}

	// ---- evidence
	nontrivial := contended
	for _, o := range ords {
		if txns[o].Outcome == "conflict" {
			nontrivial = true
		}
	}
	if nontrivial {
		h := fnv.New64a()
		fmt.Fprint(h, st.Name, run.Trace)
		for _, rc := range run.Recs {
			fmt.Fprint(h, rc.Kind, rc.Key, rc.Val, rc.Got, rc.List, rc.ErrClass)
		}
		r.Nontrivial(fmt.Sprintf("%s/%x", st.Name, h.Sum64()))
	}
	if nontrivial && len(anomalies) == 0 && r.Get("samples_taken") < 2 {
		r.Count("samples_taken", 1)
		h := make([]string, 0, len(run.Recs))
		for _, rc := range run.Recs {
			h = append(h, rc.String())
		}
		r.Sample(map[string]any{"case": id, "history": h, "final": run.Scan, "verdict": string(res)})
	}
}

// c08IsRelistTxn: ti is the repeated-listing transaction of a case of shape "relist" (the first transaction of client 0).
func c08IsRelistTxn(cs *c08Case, ti *c08TxnInfo) bool {
	return cs.Shape == "relist" && ti != nil && ti.Client == 0 && ti.Begin != nil && ti.Begin.Idx == 0
}

// c08HingesOnEarlierListing: every stale observation of the script is a listing of one (prefix, after), and the
// last listing of that (prefix, after) in the script is not stale.
func c08HingesOnEarlierListing(script []c08Obs, stale []bool) bool {
	type pa struct{ p, a string }
	var which *pa
	for i, ob := range script {
		if !stale[i] {
			continue
		}
		if ob.Kind != "list" && ob.Kind != "page" {
			return false
		}
		k := pa{ob.Key, ob.After}
		if which != nil && *which != k {
			return false
		}
		which = &k
	}
	if which == nil {
		return false
	}
	for i := len(script) - 1; i >= 0; i-- {
		ob := script[i]
		if (ob.Kind == "list" || ob.Kind == "page") && ob.Key == which.p && ob.After == which.a {
			return !stale[i]
		}
	}
	return false
}

// c08ServedFromTxnCache is the signature of the cache-layer finding: a Get on an ended transaction
// succeeds for a key the transaction itself last read or wrote (not deleted) while it was open, and
// returns exactly that remembered value.
func c08ServedFromTxnCache(ti *c08TxnInfo, rc *c08Rec) bool {
	if rc.Kind != "get" {
		return false
	}
	for i := len(ti.Script) - 1; i >= 0; i-- {
		ob := ti.Script[i]
		if ob.Key != rc.Key {
			continue
		}
		switch ob.Kind {
		case "get":
			return ob.Found == rc.Found && ob.Got == rc.Got
		case "put":
			return rc.Found && rc.Got == ob.Val
		case "del":
			return false
		}
	}
	return false
}

// c08Explain replays the effects in ground-truth order against the map and
// reports where the implementation and the map part ways. Scheduled runs on
// stacks without a log: the order in which the (sequential) steps returned.
func c08Explain(r *kit.Result, st *c08Stack, run *c08Run, txns map[int]*c08TxnInfo, ords []int, truth *c08Truth) ([]c08Anomaly, bool) {
	cs := run.Case
	var effs []c08Effect
	for i := range run.Recs {
		rc := &run.Recs[i]
		pos := uint64(rc.Ret)
		if rc.Eff != 0 {
			pos = uint64(rc.Eff) // the storage commit under the cache, not the return of the cache's Commit
		}
		if truth != nil {
			p, ok := truth.Pos[[2]int{rc.Client, rc.Idx}]
			if !ok {
				continue
			}
			pos = p
		}
		switch {
		case rc.Txn < 0 && (rc.Kind == "put" || rc.Kind == "del"):
			effs = append(effs, c08Effect{Rec: rc, Order: pos})
		case rc.Txn >= 0 && rc.Kind == "commit" && !rc.After_:
			ti := txns[rc.Txn]
			if ti.Writes > 0 && (ti.Outcome == "committed" || ti.Outcome == "conflict") {
				effs = append(effs, c08Effect{Rec: rc, Txn: ti, Order: pos})
			}
		}
	}
	sort.SliceStable(effs, func(i, j int) bool { return effs[i].Order < effs[j].Order })

	var out []c08Anomaly
	contended := false
	states := []map[string]string{c08Copy(cs.Init)}
	cur := c08Copy(cs.Init)
	dead := map[string]int{} // values written only by transactions that did not commit
	live := map[string]bool{}
	for _, v := range cs.Init {
		live[v] = true
	}
	for _, o := range ords {
		for _, ob := range txns[o].Script {
			if ob.Kind == "put" && txns[o].Outcome != "committed" {
				dead[ob.Val] = o
			}
		}
	}
	for n, e := range effs {
		if e.Txn == nil {
			c08CheckObs(cur, e.Rec.obs())
			live[e.Rec.Val] = true
		} else {
			// would the map have let this transaction commit here?
			m := c08Copy(cur)
			staleAt, staleWant := -1, ""
			stale := make([]bool, len(e.Txn.Script))
			for i, ob := range e.Txn.Script {
				if ok, want := c08CheckObs(m, ob); !ok {
					stale[i] = true
					if staleAt < 0 {
						staleAt, staleWant = i, want
					}
				}
			}
			busy := false // did anybody else change the store between begin and commit?
			for _, p := range effs[:n] {
				if p.Rec.Ret > e.Txn.Begin.Call && p.Rec.Client != e.Rec.Client && (p.Txn == nil || p.Txn.Outcome == "committed") {
					busy = true
				}
			}
			if busy {
				r.Count("rw_txn_with_concurrent_effects", 1)
				contended = true
			}
			if c08IsRelistTxn(cs, e.Txn) {
				switch {
				case staleAt >= 0:
					r.Count("relist_commit_had_to_fail", 1)
					if e.Txn.Outcome == "conflict" {
						r.Count("relist_commit_had_to_fail_and_failed", 1)
					}
					if c08HingesOnEarlierListing(e.Txn.Script, stale) {
						// the only stale observations are listings of one (prefix, after) and the last listing of
						// that (prefix, after) is still current: the conflict rests on an earlier listing
						r.Count("relist_conflict_rests_on_earlier_listing_of_same_prefix_and_after", 1)
					}
				case busy:
					r.Count("relist_commit_allowed_under_interference", 1)
					if e.Txn.Outcome == "committed" {
						r.Count("relist_committed_under_interference", 1)
					}
				}
			}
			switch {
			case staleAt >= 0 && e.Txn.Outcome == "conflict":
				r.Count("conflicts_required_and_detected", 1)
			case staleAt >= 0 && e.Txn.Outcome == "committed":
				ob := e.Txn.Script[staleAt]
				out = append(out, c08Anomaly{Kind: "stale-commit", Txn: e.Txn.Ord, ObsIdx: staleAt, Key: ob.Key, EffectN: n,
					What: fmt.Sprintf("T%d committed although its %s was stale at commit time (the store then gave %s)", e.Txn.Ord, ob, staleWant)})
			case staleAt < 0 && e.Txn.Outcome == "conflict":
				r.Count("conflicts_spurious_allowed", 1)
			case busy && e.Txn.Reads > 0:
				r.Count("rw_txn_validated_under_contention", 1)
			}
			if e.Txn.Outcome == "committed" {
				cur = m
				for _, ob := range e.Txn.Script {
					if ob.Kind == "put" {
						live[ob.Val] = true
					}
				}
			}
		}
		states = append(states, c08Copy(cur))
	}
	if truth != nil {
		truth.StateAt = func(pos uint64) map[string]string {
			n := 0
			for i, e := range effs {
				if e.Order <= pos {
					n = i + 1
				}
			}
			return c08Copy(states[n])
		}
	}
	// observers: feasible prefixes of the effect order for an interval [call, ret]
	window := func(call, ret int64) (lo, hi int) {
		hi = len(effs)
		for i, e := range effs {
			if e.Rec.Ret < call {
				lo = i + 1
			}
		}
		for i, e := range effs {
			if e.Rec.Call > ret {
				hi = i
				break
			}
		}
		if hi < lo {
			hi = lo
		}
		return lo, hi
	}
	fits := func(script []c08Obs, lo, hi int) bool {
		for n := lo; n <= hi; n++ {
			m := c08Copy(states[n])
			ok := true
			for _, ob := range script {
				if good, _ := c08CheckObs(m, ob); !good {
					ok = false
					break
				}
			}
			if ok {
				return true
			}
		}
		return false
	}
	seeDead := func(ob c08Obs, who string) {
		if ob.Kind == "get" && ob.Found && !live[ob.Got] {
			if o, ok := dead[ob.Got]; ok {
				out = append(out, c08Anomaly{Kind: "aborted-write-visible", Txn: o, Key: ob.Key,
					What: fmt.Sprintf("%s saw %s, a value written only by T%d which did not commit (%s)", who, ob, o, txns[o].Outcome)})
			}
		}
	}
	for i := range run.Recs {
		rc := &run.Recs[i]
		if rc.Txn >= 0 || (rc.Kind != "get" && rc.Kind != "list" && rc.Kind != "page") {
			continue
		}
		r.Count("plain_reads", 1)
		seeDead(rc.obs(), "a plain read")
		lo, hi := window(rc.Call, rc.Ret)
		if !fits([]c08Obs{rc.obs()}, lo, hi) {
			out = append(out, c08Anomaly{Kind: "plain-read", Txn: -1, Key: rc.Key,
				What: fmt.Sprintf("plain %s matches no state the store went through during the call", rc.obs())})
		}
	}
	for _, o := range ords {
		ti := txns[o]
		if ti.Begin == nil || ti.End == nil {
			continue
		}
		if ti.Outcome == "committed" || (ti.RO && ti.Outcome == "rolledback") {
			for _, ob := range ti.Script {
				seeDead(ob, fmt.Sprintf("T%d", o))
			}
		}
		ro := (ti.Outcome == "committed" && ti.Writes == 0) || (ti.RO && ti.Outcome == "rolledback")
		if !ro || ti.Reads == 0 {
			continue
		}
		lo, hi := window(ti.Begin.Call, ti.End.Ret)
		r.Count("ro_txn_observers", 1)
		if hi > lo {
			r.Count("ro_txn_observers_spanning_effects", 1)
		}
		if !fits(ti.Script, lo, hi) {
			out = append(out, c08Anomaly{Kind: "ro-snapshot", Txn: o,
				What: fmt.Sprintf("reads of T%d %v fit no single state between its begin and its end", o, ti.Script)})
		}
	}
	for k, v := range run.Scan {
		if !live[v] {
			if o, ok := dead[v]; ok {
				out = append(out, c08Anomaly{Kind: "aborted-write-visible", Txn: o, Key: k,
					What: fmt.Sprintf("final store has %s=%s, written only by T%d which did not commit (%s)", k, v, o, txns[o].Outcome)})
			}
		}
	}
	if c08Enc(cur) != c08Enc(run.Scan) {
		out = append(out, c08Anomaly{Kind: "final-state", Txn: -1,
			What: fmt.Sprintf("final store %v differs from the serial replay %v", run.Scan, cur)})
	}
	return out, contended
}

// ---------------------------------------------------------------------------
// driver shared by the stacks

func c08Stream(stack, mode string) uint64 {
	h := fnv.New32a()
	h.Write([]byte(stack + "|" + mode))
	return uint64(h.Sum32()) << 32
}

// c08RunCases runs cases [0,n) of a stack in one mode ("sched" or "free"),
// partitioned over shards by case number.
func c08RunCases(t *testing.T, r *kit.Result, st *c08Stack, mode string, n int, seed int64) {
	shard, shards := kit.Shard()
	ctx := context.Background()
	for i := 0; i < n; i++ {
		id := fmt.Sprintf("%s/%s/%d", st.Name, mode, i)
		if i%shards != shard || !kit.WantCase(id) {
			continue
		}
		if h := r.Get("violations:C08-operation-hangs"); h >= 3 || (h >= 1 && st.Truth != nil) {
			// hung calls keep their goroutines and locks; a shared node (raft) is unusable after the first one
			r.Note("%s: remaining %s cases not run after %d hung operation(s)", st.Name, mode, h)
			return
		}
		rng := kit.NewRand(seed, c08Stream(st.Name, mode)+uint64(i))
		var cs *c08Case
		if mode == "relist" {
			cs = c08GenRelist(rng, st, id)
		} else {
			cs = c08GenCase(rng, st, id, mode)
		}
		st.CacheSize = cs.CacheSize
		be, cleanup := st.Open(t)
		func() {
			defer cleanup()
			ks := make([]string, 0, len(cs.Init))
			for k := range cs.Init {
				ks = append(ks, k)
			}
			sort.Strings(ks)
			for _, k := range ks {
				if err := be.Put(ctx, k, []byte(cs.Init[k])); err != nil {
					r.Inconc("%s: cannot populate: %v", id, err)
					return
				}
			}
			if got, probs, err := c08ScanStore(ctx, be); err != nil || len(probs) > 0 || c08Enc(got) != c08Enc(cs.Init) {
				r.Inconc("%s: store not in the initial state: %v %v %v", id, got, probs, err)
				return
			}
			run := c08Execute(cs, be, st, rng, mode == "free")
			if run.Hung != "" {
				r.Eval(1)
				c08Analyse(t, r, st, run, mode == "free")
				return
			}
			t0 := c08LastStamp(run)
			// quiescence: every client has returned from its last call. The scan runs under a watchdog: a Get or
			// List that never returns now (nothing else is running) is a hung operation, not a broken check.
			var scan map[string]string
			var probs []string
			var err error
			if run.Aborted == "" && !c08Within(c08HangWait, func() { scan, probs, err = c08ScanStore(ctx, be) }) {
				run.Hung = "the scan of the store after all clients had finished (plain List/Get through the layer under test)"
				r.Eval(1)
				c08Analyse(t, r, st, run, mode == "free")
				return
			}
			if run.Aborted != "" {
				scan, probs, err = map[string]string{}, nil, nil
			}
			if err != nil {
				r.Inconc("%s: final scan failed with an error: %v", id, err)
				return
			}
			run.Scan, run.ScanProblems, run.ScanAt = scan, probs, [2]int64{t0 + 1, t0 + 2}
			if st.Ground != nil && run.Aborted == "" {
				var g map[string]string
				var gp []string
				if !c08Within(c08HangWait, func() { g, gp, err = st.Ground(ctx) }) {
					run.Hung = "the scan of the store after all clients had finished and the cache had been purged"
					r.Eval(1)
					c08Analyse(t, r, st, run, mode == "free")
					return
				}
				if err != nil || len(gp) > 0 {
					r.Inconc("%s: cannot read the store below the cache: %v %v", id, gp, err)
					return
				}
				run.Ground, run.HasGround = g, true
			}
			if cs.CacheSize > 0 {
				r.Count("cases_with_2_entry_private_txn_cache", 1)
			}
			if run.Parked > 0 {
				r.Count("cases_with_calls_parked_under_cache", 1)
				r.Count("calls_parked_under_cache", run.Parked)
				r.Count("calls_blocked_on_lock_of_parked_call", run.Blocked)
			}
			r.Eval(1)
			r.Count("cases_"+mode, 1)
			if mode == "free" {
				r.Count("free_client_switches", run.Switches)
			}
			if run.MaxLag > 0 {
				r.Count("cases_with_lag", 1)
				if run.MaxLag >= 3 {
					r.Count("cases_with_lag_ge3", 1)
				}
				for _, l := range run.LagAtBegin {
					if l > 0 {
						r.Count("txn_begun_behind_lagging_state_machine", 1)
					}
				}
			}
			c08Analyse(t, r, st, run, mode == "free")
		}()
	}
}

func c08LastStamp(run *c08Run) int64 {
	var m int64
	for _, rc := range run.Recs {
		if rc.Ret > m {
			m = rc.Ret
		}
	}
	return m
}

const c08Rule = "a case = one generated history (2-4 transactional clients of 1-2 transactions each, 1-3 plain clients, 6 keys in 2 prefixes, get/put/delete/list/paginated list, commit or rollback, misuse steps) under one generated interleaving of its calls; cases of mode relist (15 keys) additionally start with a transaction that lists one prefix 2-5 times (unlimited then limited, limited then unlimited, decreasing / increasing / equal limit, different after, own writes in between), after which a plain client or another transaction changes entries of that prefix inside or outside the pages seen, before the transaction writes and commits; it is non-trivial when another client changed the store between the begin and the commit of a read-write transaction or a commit failed with a conflict; distinct = distinct (stack, schedule, observed results)"

func c08RunStack(t *testing.T, name string, st *c08Stack, sched, free int, extra func(r *kit.Result, sched, free int)) {
	seed := kit.Seed(8)
	r := kit.NewResult(t, name, seed, c08Rule)
	defer r.Write(t)
	if os.Getenv("VERIF_RACE") != "" {
		// race-detector build: only the free-running cases (several goroutines really inside the code at once)
		sched, free = 0, free/4
	}
	relist := st.Relist
	if relist == 0 {
		relist = sched / 4
	}
	if sched == 0 {
		relist = 0
	}
	c08RunCases(t, r, st, "sched", sched, seed)
	c08RunCases(t, r, st, "relist", relist, seed)
	c08RunCases(t, r, st, "free", free, seed)
	c08Require(r, sched, free)
	if relist > 0 {
		_, shards := kit.Shard()
		n := int64(relist / shards)
		r.Require("relist_cases", n)
		r.Require("relist_cases_directed", n/2)
		r.Require("relist_commit_had_to_fail_and_failed", n/8)
		r.Require("relist_committed_under_interference", n/20)
		r.Require("relist_conflict_rests_on_earlier_listing_of_same_prefix_and_after", n/40)
		for _, p := range []string{"unlimited-then-limited", "limited-then-unlimited", "decreasing-limit", "increasing-limit", "same-listing-twice", "different-after", "mixed"} {
			r.Require("relist_pattern_"+p, n/20)
		}
	}
	if st.Hooks != nil && sched > 0 {
		_, shards := kit.Shard()
		n := int64(sched / shards)
		r.Require("cases_with_calls_parked_under_cache", n/4)
		r.Require("reader_of_written_key_inside_commit_before_storage_commit", n/50)
		r.Require("reader_of_written_key_inside_commit_after_storage_commit", n/50)
		r.Require("quiescent_cache_vs_store_comparisons", n)
		r.Require("cases_with_2_entry_private_txn_cache", n/4)
	}
	if extra != nil {
		extra(r, sched, free)
	}
}

// c08Require: without these observations "held" would say nothing.
func c08Require(r *kit.Result, sched, free int) {
	_, shards := kit.Shard()
	if sched > 0 {
		n := int64(sched / shards)
		r.Require("cases_sched", n)
		r.Require("conflicts_required_and_detected", n/10)
		r.Require("rw_txn_validated_under_contention", n/10)
		r.Require("porcupine_rw_txn_steps", n/2)
		r.Require("porcupine_ro_txn_steps", n/10)
		r.Require("ro_txn_observers_spanning_effects", n/20)
		r.Require("own_write_reads", n/20)
		r.Require("misuse_after_end_ops", n/10)
		r.Require("misuse_ro_writes", n/40)
		r.Require("plain_reads", n/2)
		r.Require("folder_collapse_cases_with_first_list", n/40)
	}
	if free > 0 {
		r.Require("cases_free", int64(free/shards))
	}
}

// c08ReplayStub stands in, in this package's test binary, for a C08 test that lives in another package:
// /verif/check --replay runs every binary of the plan with the name of the one failing test, and a binary
// that wrote no result would be reported as broken. Outside a replay the stub does nothing.
func c08ReplayStub(t *testing.T, name string) {
	if kit.OnlyCase() == "" {
		t.Skip("lives in another package")
	}
	kit.NewResult(t, name, kit.Seed(8), c08Rule).Write(t)
}

func c08Shown(v string, found bool) string {
	if !found {
		return "<absent>"
	}
	return v
}

// c08Within runs f and reports whether it returned within d. On false f's goroutine is abandoned and
// the variables it assigns must not be read.
func c08Within(d time.Duration, f func()) bool {
	done := make(chan struct{})
	go func() { defer close(done); f() }()
	select {
	case <-done:
		return true
	case <-time.After(d):
		return false
	}
}
