//go:build verif

package inmem_test

import (
	"context"
	"testing"

	log "github.com/hashicorp/go-hclog"
	metrics "github.com/hashicorp/go-metrics/compat"
	kit "github.com/openbao/openbao/sdk/v2/helper/verifkit"
	"github.com/openbao/openbao/sdk/v2/physical"
	"github.com/openbao/openbao/sdk/v2/physical/inmem"
)

// Stacks of the sdk module: the transactional in-memory backend on its own and
// under the physical LRU cache (the cache is switched on, as an unsealed core does).

func c08InmemStack(cache bool) *c08Stack {
	st := &c08Stack{Name: "inmem", MaxPlain: 2, HasCache: cache}
	if cache {
		st.Name = "cache-inmem"
		st.Hooks = &c08Hooks{}
	}
	st.Open = func(t testing.TB) (c08Backend, func()) {
		logger := log.NewNullLogger()
		b, err := inmem.NewInmem(nil, logger)
		if err != nil {
			t.Fatal(err)
		}
		st.Ground = nil
		var c physical.Cache
		if cache {
			c = physical.NewCache(c08UnderCache(b, st.Hooks), st.CacheSize, logger, &metrics.BlackholeSink{})
			c.SetEnabled(true)
			b = c
		}
		be, err := c08NewPhysBackend(b)
		if err != nil {
			t.Fatal(err)
		}
		if cache {
			st.Ground = func(ctx context.Context) (map[string]string, []string, error) {
				c.Purge(ctx)
				return c08ScanStore(ctx, be)
			}
		}
		return be, func() {}
	}
	return st
}

func TestVerif_C08_Inmem(t *testing.T) {
	c08RunStack(t, "c08-inmem", c08InmemStack(false), kit.N(2000, 100000), kit.N(400, 20000), nil)
}

func TestVerif_C08_CacheInmem(t *testing.T) {
	c08RunStack(t, "c08-cache-inmem", c08InmemStack(true), kit.N(2000, 100000), kit.N(400, 20000), nil)
}

// replay stubs for the C08 tests of the other packages (see c08ReplayStub)
func TestVerif_C08_ViewBarrierInmem(t *testing.T) { c08ReplayStub(t, "c08-view-barrier-inmem") }
func TestVerif_C08_ViewBarrierCacheInmem(t *testing.T) {
	c08ReplayStub(t, "c08-view-barrier-cache-inmem")
}
func TestVerif_C08_Raft(t *testing.T)      { c08ReplayStub(t, "c08-raft") }
func TestVerif_C08_CacheRaft(t *testing.T) { c08ReplayStub(t, "c08-cache-raft") }
