//go:build verif

package vault

// C20 (threshold accounting): an unseal / root generation proceeds only once the configured
// threshold of DISTINCT genuine shares has been supplied.

import (
	"bytes"
	"context"
	"fmt"
	"testing"

	"github.com/hashicorp/go-secure-stdlib/base62"
	kit "github.com/openbao/openbao/sdk/v2/helper/verifkit"
	"github.com/openbao/openbao/v2/internal/helper/namespace"
)

type c20Sub struct {
	Kind string `json:"kind"` // genuine:<i> | dup:<j> | flipped:<i> | random | foreign:<i>
	key  []byte
}

func c20InitCore(t *testing.T, n, th int) (*Core, [][]byte, string) {
	c := TestCoreWithSeal(&vT{t}, nil, false)
	ctx := namespace.RootContext(context.Background())
	res, err := c.Initialize(ctx, &InitParams{BarrierConfig: &SealConfig{SecretShares: n, SecretThreshold: th}})
	if err != nil {
		t.Fatalf("verif: init %d/%d: %v", th, n, err)
	}
	return c, res.SecretShares, res.RootToken
}

func c20UnsealProgress(c *Core) int {
	c.stateLock.RLock()
	defer c.stateLock.RUnlock()
	info := c.sealManager.unlockInformationByNamespace[namespace.RootNamespaceUUID]
	if info == nil {
		return 0
	}
	return len(info.Parts)
}

func c20GenSub(rng *kit.Rand, shares, foreign [][]byte, submitted []c20Sub) c20Sub {
	switch x := rng.Intn(100); {
	case x < 55:
		i := rng.Intn(len(shares))
		return c20Sub{Kind: fmt.Sprintf("genuine:%d", i), key: append([]byte(nil), shares[i]...)}
	case x < 75 && len(submitted) > 0:
		j := rng.Intn(len(submitted)) // re-submit ANY earlier share, not only the latest
		return c20Sub{Kind: fmt.Sprintf("dup:%d", j), key: append([]byte(nil), submitted[j].key...)}
	case x < 85:
		i := rng.Intn(len(shares))
		k := append([]byte(nil), shares[i]...)
		k[rng.Intn(len(k)-1)] ^= byte(1 + rng.Intn(255)) // wrong y, same x
		return c20Sub{Kind: fmt.Sprintf("flipped:%d", i), key: k}
	case x < 93:
		i := rng.Intn(len(foreign))
		return c20Sub{Kind: fmt.Sprintf("foreign:%d", i), key: append([]byte(nil), foreign[i]...)}
	default:
		k := rng.Bytes(len(shares[0]))
		if k[len(k)-1] == 0 {
			k[len(k)-1] = 1
		}
		return c20Sub{Kind: "random", key: k}
	}
}

func TestVerif_C20_Threshold(t *testing.T) {
	seed := kit.Seed(20)
	r := kit.NewResult(t, "c20-threshold", seed, "seeded submission histories (genuine shares, re-submission of any earlier share, shares with a flipped byte, shares of a foreign split, random shares) against Core.Unseal and against root-token generation, for (n,t) in {(3,2),(5,3),(4,4),(7,4)}: progress must equal the number of distinct submissions, the core unseals / the root token is produced exactly when t distinct genuine shares were supplied, a wrong share at the threshold leaves it sealed and resets progress; a history is non-trivial when it contained a duplicate of a non-latest share or a wrong share at the threshold")
	defer r.Write(t)
	ctx := namespace.RootContext(context.Background())
	for ci, cfg := range [][2]int{{3, 2}, {5, 3}, {4, 4}, {7, 4}} {
		n, th := cfg[0], cfg[1]
		core, shares, _ := c20InitCore(t, n, th)
		_, foreign, _ := c20InitCore(t, n, th)
		isGenuine := func(k []byte) bool {
			for _, s := range shares {
				if bytes.Equal(s, k) {
					return true
				}
			}
			return false
		}
		for h := 0; h < kit.N(40, 400); h++ {
			caseID := fmt.Sprintf("unseal:%d-of-%d:%d", th, n, h)
			if !kit.WantCase(caseID) {
				continue
			}
			rng := kit.NewRand(seed, uint64(ci*100000+h))
			if !core.Sealed() {
				if err := TestCoreSeal(core); err != nil {
					t.Fatalf("seal: %v", err)
				}
			}
			core.ResetUnsealProcess()
			var parts []c20Sub // model: distinct submissions of the current attempt
			var all []c20Sub
			var trace []string
			nontrivial := false
			for step := 0; step < 4*th+6 && core.Sealed(); step++ {
				sub := c20GenSub(rng, shares, foreign, all)
				all = append(all, sub)
				dup := false
				for i, p := range parts {
					if bytes.Equal(p.key, sub.key) {
						dup = true
						if i != len(parts)-1 {
							nontrivial = true
						}
					}
				}
				unsealed, err := core.Unseal(append([]byte(nil), sub.key...))
				trace = append(trace, fmt.Sprintf("%s->unsealed=%v,err=%v", sub.Kind, unsealed, err != nil))
				r.Count("submissions", 1)
				wit := map[string]any{"n": n, "t": th, "trace": trace}
				if !dup {
					parts = append(parts, sub)
				} else {
					r.Count("duplicate_submissions", 1)
				}
				if len(parts) < th {
					if unsealed {
						r.Violate("C20-unsealed-below-threshold", caseID, fmt.Sprintf("core unsealed with %d distinct shares, threshold %d", len(parts), th), wit)
						break
					}
					if got := c20UnsealProgress(core); got != len(parts) {
						r.Violate("C20-progress-miscounted", caseID, fmt.Sprintf("unseal progress is %d after %d distinct submissions (threshold %d)", got, len(parts), th), wit)
						break
					}
					continue
				}
				// threshold reached
				good := true
				for _, p := range parts {
					if !isGenuine(p.key) {
						good = false
					}
				}
				if good {
					r.Count("threshold_genuine", 1)
					if !unsealed || err != nil {
						r.Violate("C20-genuine-threshold-refused", caseID, fmt.Sprintf("%d distinct genuine shares did not unseal: %v", th, err), wit)
					}
				} else {
					r.Count("threshold_with_wrong_share", 1)
					nontrivial = true
					if unsealed {
						r.Violate("C20-unsealed-with-wrong-share", caseID, "core unsealed although a supplied share was not genuine", wit)
					}
					if err == nil {
						r.Violate("C20-wrong-share-no-error", caseID, "threshold reached with a wrong share but no error was reported", wit)
					}
					if got := c20UnsealProgress(core); got != 0 {
						r.Violate("C20-progress-not-reset", caseID, fmt.Sprintf("progress is %d after a failed combine (must restart)", got), wit)
					}
				}
				parts = nil
				if !good {
					continue
				}
				break
			}
			r.Eval(1)
			if nontrivial {
				r.Nontrivial(fmt.Sprint(trace))
			}
			if h < 2 {
				r.Sample(map[string]any{"n": n, "t": th, "trace": trace})
			}
		}
		// root generation on the unsealed core
		if core.Sealed() {
			core.ResetUnsealProcess()
			for _, s := range shares[:th] {
				if _, err := core.Unseal(append([]byte(nil), s...)); err != nil {
					t.Fatalf("unseal for generate-root: %v", err)
				}
			}
		}
		for h := 0; h < kit.N(15, 150); h++ {
			caseID := fmt.Sprintf("genroot:%d-of-%d:%d", th, n, h)
			if !kit.WantCase(caseID) {
				continue
			}
			rng := kit.NewRand(seed, uint64(900000+ci*10000+h))
			_ = core.GenerateRootCancel(ctx)
			otp, _ := base62.Random(TokenPrefixLength + TokenLength)
			if err := core.GenerateRootInit(ctx, otp, "", GenerateStandardRootTokenStrategy); err != nil {
				t.Fatalf("generate-root init: %v", err)
			}
			conf, err := core.GenerateRootConfiguration(ctx)
			if err != nil || conf == nil {
				t.Fatalf("generate-root conf: %v", err)
			}
			distinctGenuine := map[string]bool{}
			distinctAll := map[string]bool{}
			var all []c20Sub
			var trace []string
			for step := 0; step < 3*th+4; step++ {
				sub := c20GenSub(rng, shares, foreign, all)
				all = append(all, sub)
				res, err := core.GenerateRootUpdate(ctx, append([]byte(nil), sub.key...), conf.Nonce, GenerateStandardRootTokenStrategy)
				r.Count("genroot_submissions", 1)
				distinctAll[string(sub.key)] = true
				if isGenuine(sub.key) {
					distinctGenuine[string(sub.key)] = true
				}
				trace = append(trace, fmt.Sprintf("%s->err=%v", sub.Kind, err != nil))
				wit := map[string]any{"n": n, "t": th, "trace": trace}
				if res != nil && res.EncodedToken != "" {
					if len(distinctGenuine) < th {
						r.Violate("C20-root-token-below-threshold", caseID, fmt.Sprintf("root token generated with %d distinct genuine shares, threshold %d", len(distinctGenuine), th), wit)
					}
					r.Count("genroot_completed", 1)
					break
				}
				if res != nil && res.Progress > len(distinctAll) {
					r.Violate("C20-progress-miscounted", caseID, fmt.Sprintf("root generation progress %d exceeds %d distinct submissions", res.Progress, len(distinctAll)), wit)
					break
				}
				if err != nil {
					// a failed attempt may or may not keep the operation open; re-open if needed
					if c2, _ := core.GenerateRootConfiguration(ctx); c2 == nil {
						if err := core.GenerateRootInit(ctx, otp, "", GenerateStandardRootTokenStrategy); err == nil {
							conf, _ = core.GenerateRootConfiguration(ctx)
						}
						distinctGenuine, distinctAll = map[string]bool{}, map[string]bool{}
					} else if p, _ := core.GenerateRootProgress(ctx); p == 0 {
						distinctGenuine, distinctAll = map[string]bool{}, map[string]bool{}
					}
				}
			}
			r.Eval(1)
		}
		_ = core.GenerateRootCancel(ctx)
		_ = core.Shutdown()
	}
	r.Require("threshold_genuine", 40)
	r.Require("threshold_with_wrong_share", 20)
	r.Require("duplicate_submissions", 40)
	r.Require("genroot_completed", 10)
}
