//go:build verif

package shamir

// C20 ("fewer than t shares are consistent with every possible secret"): the secrecy argument
// needs the non-constant coefficients of every polynomial to be UNIFORM over all 256^(t-1)
// tuples. The statistical monitor can only see gross deviations; this monitor computes the
// exact output distribution of the package's real sampler (makePolynomial) as a function of
// its random input: crypto/rand.Reader is replaced by a scripted stream, and the tree of
// streams is explored breadth first (a call that needs more random bytes than the script
// holds is extended by every possible next byte). A completed call that consumed L bytes
// has probability 256^-L; the probabilities per produced coefficient tuple are summed.

import (
	"crypto/rand"
	"fmt"
	"io"
	"testing"

	kit "github.com/openbao/openbao/sdk/v2/helper/verifkit"
)

type c20Script struct {
	data []byte
	pos  int
}

type c20Exhausted struct{}

func (s *c20Script) Read(p []byte) (int, error) {
	for i := range p {
		if s.pos >= len(s.data) {
			panic(c20Exhausted{})
		}
		p[i] = s.data[s.pos]
		s.pos++
	}
	return len(p), nil
}

// c20RunSampler runs makePolynomial on a scripted random stream. done=false when the stream
// was too short; consumed is the number of random bytes the call used.
func c20RunSampler(intercept, degree uint8, script []byte) (coeff []uint8, consumed int, done bool, err error) {
	s := &c20Script{data: script}
	old := rand.Reader
	rand.Reader = io.Reader(s)
	defer func() {
		rand.Reader = old
		if x := recover(); x != nil {
			if _, ok := x.(c20Exhausted); ok {
				done = false
				return
			}
			panic(x)
		}
	}()
	p, e := makePolynomial(intercept, degree)
	return p.coefficients, s.pos, true, e
}

func TestVerif_C20_CoefficientSpace(t *testing.T) {
	seed := kit.Seed(20)
	r := kit.NewResult(t, "c20-coefficient-space", seed, "exact distribution of the real coefficient sampler: for degree 1 and 2 (threshold 2 and 3) and several intercepts, makePolynomial is run on every scripted random stream of the stream tree (explored to 2 bytes beyond the degree); per produced coefficient tuple the probabilities 256^-L of the streams that produce it are summed; every tuple of the 256^degree must have probability exactly 256^-degree (lower bound from explored streams, upper bound = lower bound + unexplored mass), the intercept must be the secret byte; a case = (degree, intercept) and is non-trivial when distinct")
	defer r.Write(t)
	intercepts := []uint8{0x00, 0x5a, 0xff}
	if kit.Tier() != "quick" {
		intercepts = append(intercepts, 0x01, 0x80, 0xa7)
	}
	for _, degree := range []uint8{1, 2} {
		for _, s := range intercepts {
			caseID := fmt.Sprintf("coeff:%d:%d", degree, s)
			if !kit.WantCase(caseID) {
				continue
			}
			ntuples := 1
			for i := 0; i < int(degree); i++ {
				ntuples *= 256
			}
			// mass[tuple] in units of 256^-(degree+2)
			unit := func(L int) uint64 { // probability of a stream of length L in those units
				u := uint64(1)
				for i := L; i < int(degree)+2; i++ {
					u *= 256
				}
				return u
			}
			total := unit(0)
			mass := make([]uint64, ntuples)
			var unexplored uint64
			streams, deeper := 0, 0
			frontier := [][]byte{{}}
			maxDepth := int(degree) + 2
			bad := false
			for len(frontier) > 0 && !bad {
				var next [][]byte
				for _, pre := range frontier {
					coeff, consumed, done, err := c20RunSampler(s, degree, pre)
					if err != nil {
						r.Violate("C20-sampler-error", caseID, "makePolynomial failed on a scripted stream: "+err.Error(), nil)
						bad = true
						break
					}
					if !done {
						if len(pre) >= maxDepth {
							unexplored += unit(len(pre))
							continue
						}
						for b := 0; b < 256; b++ {
							next = append(next, append(append(make([]byte, 0, len(pre)+1), pre...), byte(b)))
						}
						continue
					}
					streams++
					if consumed != len(pre) {
						// a stream longer than needed would be counted more than once
						r.Violate("C20-harness-stream-accounting", caseID, fmt.Sprintf("sampler consumed %d of %d scripted bytes", consumed, len(pre)), nil)
						bad = true
						break
					}
					if consumed > int(degree) {
						deeper++
					}
					if len(coeff) != int(degree)+1 || coeff[0] != s {
						r.Violate("C20-polynomial-shape", caseID, fmt.Sprintf("polynomial for secret byte %d, degree %d has coefficients %v", s, degree, coeff), nil)
						bad = true
						break
					}
					idx := 0
					for _, c := range coeff[1:] {
						idx = idx<<8 | int(c)
					}
					mass[idx] += unit(consumed)
				}
				frontier = next
			}
			if bad {
				continue
			}
			r.Eval(1)
			r.Nontrivial(caseID)
			r.Count("random_streams_run", streams)
			r.Count("streams_that_consumed_more_than_degree_bytes", deeper)
			want := total / uint64(ntuples)
			nbad := 0
			for idx, m := range mass {
				// exact probability lies in [m, m+unexplored]
				if m > want || m+unexplored < want {
					nbad++
					if nbad <= 2 {
						tuple := make([]int, degree)
						for i := range tuple {
							tuple[int(degree)-1-i] = (idx >> (8 * i)) & 0xff
						}
						r.Violate("C20-coefficients-not-uniform", caseID, fmt.Sprintf("threshold %d, secret byte %d: coefficient tuple %v is produced with probability in [%d, %d]/256^%d, a uniform sampler gives exactly %d/256^%d: with the secret byte fixed, the %d share values this tuple yields are under- or over-represented, so fewer than t shares are not consistent with every secret equally",
							degree+1, s, tuple, m, m+unexplored, degree+2, want, degree+2, degree), nil)
					}
				}
			}
			r.Count("coefficient_tuples_checked", ntuples)
			if nbad == 0 && s == 0x5a {
				r.Sample(map[string]any{"degree": degree, "intercept": s, "streams": streams, "tuples": ntuples, "probability_each": fmt.Sprintf("%d/256^%d", want, degree+2), "unexplored_mass": unexplored})
			}
		}
	}
	r.Require("coefficient_tuples_checked", 3*(256+65536))
}
