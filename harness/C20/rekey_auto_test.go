//go:build verif

package vault

// C20 (threshold accounting, auto-unseal seals): with a stored-key seal the root key rotation
// and the recovery key rotation are authorised by RECOVERY shares; both proceed only once the
// configured RECOVERY threshold of distinct genuine shares has been supplied.

import (
	"bytes"
	"context"
	"fmt"
	"testing"

	kit "github.com/openbao/openbao/sdk/v2/helper/verifkit"
	"github.com/openbao/openbao/sdk/v2/helper/shamir"
	"github.com/openbao/openbao/v2/internal/helper/namespace"
)

func TestVerif_C20_RekeyThresholdAutoSeal(t *testing.T) {
	seed := kit.Seed(20)
	r := kit.NewResult(t, "c20-rekey-threshold-autoseal", seed, "core with a stored-key (auto-unseal) seal whose recovery key is split (n,t) in {(3,2),(5,3),(4,4)}: seeded submission histories (genuine recovery shares, re-submission of any earlier share, flipped, foreign, random shares, shares a Combine cannot digest) against the ROOT key rotation and the RECOVERY key rotation (SealManager.InitRotation / UpdateRotation with recovery=false / true): progress equals the number of distinct submissions, nothing completes below the recovery threshold, t distinct genuine shares complete it, a failed attempt starts over; after a completed root rotation the core still unseals with its stored keys, after a completed recovery rotation the new shares are the valid ones; a history is non-trivial when it contained a duplicate of a non-latest share or a failed attempt at the threshold")
	defer r.Write(t)
	ctx := namespace.RootContext(context.Background())
	ns := namespace.RootNamespace
	for ci, cfg := range [][2]int{{3, 2}, {5, 3}, {4, 4}} {
		v := vBoot(t, vOpts{})
		sm := v.Core.sealManager
		// bring the recovery key to (n,t): a recovery rotation authorised by the initial recovery key
		rk, err := v.Core.seal.RecoveryKey(ctx)
		if err != nil {
			t.Fatalf("recovery key: %v", err)
		}
		rc, err := v.Core.seal.RecoveryConfig(ctx)
		if err != nil || rc == nil {
			t.Fatalf("recovery config: %v", err)
		}
		var cur [][]byte
		if rc.SecretThreshold <= 1 {
			cur = [][]byte{rk}
		} else if cur, err = shamir.Split(rk, rc.SecretShares, rc.SecretThreshold); err != nil {
			t.Fatalf("split: %v", err)
		}
		if _, err := sm.InitRotation(ctx, ns, &SealConfig{Type: rc.Type, SecretShares: cfg[0], SecretThreshold: cfg[1]}, true); err != nil {
			t.Fatalf("InitRotation(recovery): %v", err)
		}
		var res *RekeyResult
		nonce := sm.RotationConfig(ns.UUID, true).Nonce
		for i := 0; i < rc.SecretThreshold && res == nil; i++ {
			if res, err = sm.UpdateRotation(ctx, ns, append([]byte(nil), cur[i]...), nonce, true); err != nil {
				t.Fatalf("initial recovery rotation: %v", err)
			}
		}
		if res == nil || len(res.SecretShares) != cfg[0] {
			t.Fatalf("initial recovery rotation did not complete")
		}
		shares := res.SecretShares
		th := cfg[1]
		// a foreign split of the same shape
		foreign, _ := shamir.Split(kit.NewRand(seed, uint64(50+ci)).Bytes(len(rk)), cfg[0], cfg[1])
		for h := 0; h < kit.N(24, 240); h++ {
			recovery := h%3 == 2 // two root rotations, then a recovery rotation
			caseID := fmt.Sprintf("autorekey:%d:%d", ci, h)
			if !kit.WantCase(caseID) {
				continue
			}
			rng := kit.NewRand(seed, uint64(800000+ci*10000+h))
			isGenuine := func(k []byte) bool {
				for _, s := range shares {
					if bytes.Equal(s, k) {
						return true
					}
				}
				return false
			}
			_ = sm.CancelRotation(ctx, ns.UUID, recovery)
			newCfg := &SealConfig{Type: rc.Type, SecretShares: cfg[0], SecretThreshold: th}
			if !recovery {
				bc, _ := v.Core.seal.BarrierConfig(ctx)
				newCfg = bc.Clone()
			}
			if _, err := sm.InitRotation(ctx, ns, newCfg, recovery); err != nil {
				t.Fatalf("InitRotation(recovery=%v): %v", recovery, err)
			}
			nonce := sm.RotationConfig(ns.UUID, recovery).Nonce
			progress := func() int {
				c := sm.RotationConfig(ns.UUID, recovery)
				if c == nil {
					return -1
				}
				return len(c.RotationProgress)
			}
			var parts, all []c20Sub
			var trace []string
			nontrivial, failedOnce := false, false
			var result *RekeyResult
			for step := 0; step < 5*th+8 && result == nil; step++ {
				var sub c20Sub
				ok := false
				if len(parts) == th-1 && rng.Chance(1, 4) {
					sub, ok = c20Poison(rng, shares, parts)
				}
				if failedOnce && rng.Chance(2, 3) {
					i := rng.Intn(len(shares))
					sub, ok = c20Sub{Kind: fmt.Sprintf("genuine:%d", i), key: append([]byte(nil), shares[i]...)}, true
				}
				if !ok {
					sub = c20GenSub(rng, shares, foreign, all)
				}
				all = append(all, sub)
				dup := false
				for i, p := range parts {
					if bytes.Equal(p.key, sub.key) {
						dup = true
						if i != len(parts)-1 {
							nontrivial = true
						}
					}
				}
				res, err := sm.UpdateRotation(ctx, ns, append([]byte(nil), sub.key...), nonce, recovery)
				trace = append(trace, fmt.Sprintf("%s->done=%v,err=%v", sub.Kind, res != nil, err != nil))
				r.Count("auto_rekey_submissions", 1)
				wit := map[string]any{"recovery_split": cfg, "rotation_of": map[bool]string{true: "recovery key", false: "root key"}[recovery], "trace": trace}
				if dup {
					r.Count("auto_rekey_duplicate_submissions", 1)
					if err == nil || res != nil {
						r.Violate("C20-rekey-duplicate-share-accepted", caseID, "a recovery share already supplied in this attempt was accepted again", wit)
						break
					}
					if got := progress(); got != len(parts) {
						r.Violate("C20-rekey-progress-miscounted", caseID, fmt.Sprintf("progress is %d after %d distinct submissions (a refused duplicate changed it)", got, len(parts)), wit)
						break
					}
					continue
				}
				parts = append(parts, sub)
				if len(parts) < th {
					if res != nil {
						r.Violate("C20-rekey-below-threshold", caseID, fmt.Sprintf("%s rotation on an auto-unseal seal produced a result with %d distinct recovery shares, recovery threshold %d", wit["rotation_of"], len(parts), th), wit)
						break
					}
					if err != nil {
						if len(parts) == 1 || progress() != len(parts) {
							// refused although below the threshold: either a malformed share (must not count) or
							// the attempt was combined too early (threshold taken from the wrong configuration)
							if isGenuine(sub.key) {
								r.Violate("C20-rekey-attempt-judged-below-threshold", caseID, fmt.Sprintf("%s rotation on an auto-unseal seal: the attempt was judged (error: %v) after %d distinct genuine-or-not shares although the recovery threshold is %d", wit["rotation_of"], err, len(parts), th), wit)
								break
							}
						}
						parts = parts[:len(parts)-1]
						continue
					}
					if got := progress(); got != len(parts) {
						r.Violate("C20-rekey-progress-miscounted", caseID, fmt.Sprintf("progress is %d after %d distinct submissions (recovery threshold %d)", got, len(parts), th), wit)
						break
					}
					continue
				}
				good := true
				for _, p := range parts {
					if !isGenuine(p.key) {
						good = false
					}
				}
				parts = nil
				if good {
					r.Count("auto_rekey_threshold_genuine", 1)
					if res == nil || err != nil {
						r.Violate("C20-rekey-genuine-threshold-refused", caseID, fmt.Sprintf("%d distinct genuine recovery shares (after a failed attempt: %v) did not complete the %s rotation: %v", th, failedOnce, wit["rotation_of"], err), wit)
						break
					}
					result = res
					continue
				}
				r.Count("auto_rekey_threshold_with_wrong_share", 1)
				nontrivial, failedOnce = true, true
				if res != nil {
					r.Violate("C20-rekey-with-wrong-share", caseID, "rotation completed although a supplied recovery share was not genuine", wit)
					break
				}
				if got := progress(); got != 0 {
					r.Violate("C20-rekey-progress-not-reset", caseID, fmt.Sprintf("progress is %d after a failed attempt (%s)", got, sub.Kind), wit)
					break
				}
			}
			r.Eval(1)
			if nontrivial {
				r.Nontrivial(fmt.Sprint(recovery, trace))
			}
			if result == nil {
				_ = sm.CancelRotation(ctx, ns.UUID, recovery)
				continue
			}
			if recovery {
				if len(result.SecretShares) != cfg[0] {
					r.Violate("C20-rekey-share-count", caseID, fmt.Sprintf("recovery rotation returned %d shares, asked for %d", len(result.SecretShares), cfg[0]), trace)
					continue
				}
				shares = result.SecretShares
				r.Count("recovery_rotations_completed", 1)
			} else {
				r.Count("root_rotations_completed_on_auto_unseal_seal", 1)
				if h%6 == 0 {
					if err := TestCoreSeal(v.Core); err != nil {
						t.Fatalf("seal: %v", err)
					}
					if err := v.Core.UnsealWithStoredKeys(ctx); err != nil || v.Core.Sealed() {
						r.Violate("C20-rekey-stored-keys-do-not-unseal", caseID, fmt.Sprintf("after a completed root key rotation the core does not unseal with its stored keys: %v", err), trace)
						return
					}
				}
			}
			if h < 3 {
				r.Sample(map[string]any{"recovery_split": cfg, "rotation_of_recovery_key": recovery, "trace": trace})
			}
		}
		v.Close()
	}
	r.Require("auto_rekey_threshold_genuine", 30)
	r.Require("auto_rekey_threshold_with_wrong_share", 15)
	r.Require("root_rotations_completed_on_auto_unseal_seal", 15)
	r.Require("recovery_rotations_completed", 8)
	r.Require("auto_rekey_duplicate_submissions", 20)
}
