//go:build verif

package vault

// C20 (threshold accounting, rekey): a rekey proceeds only once the configured threshold of
// DISTINCT genuine shares of the current key has been supplied, a failed attempt starts over,
// and - when verification is required - the new key takes effect only once the threshold of
// distinct NEW shares has been supplied back.

import (
	"bytes"
	"context"
	"fmt"
	"testing"

	kit "github.com/openbao/openbao/sdk/v2/helper/verifkit"
	"github.com/openbao/openbao/v2/internal/helper/namespace"
)

// c20Poison returns submissions a Combine cannot digest at all (not merely wrong ones).
func c20Poison(rng *kit.Rand, shares [][]byte, submitted []c20Sub) (c20Sub, bool) {
	if len(submitted) == 0 {
		return c20Sub{}, false
	}
	base := submitted[rng.Intn(len(submitted))].key
	switch rng.Intn(2) {
	case 0: // same x as an earlier submission of this attempt, different y
		k := append([]byte(nil), base...)
		k[rng.Intn(len(k)-1)] ^= byte(1 + rng.Intn(255))
		return c20Sub{Kind: "same-x", key: k}, true
	default: // one byte short
		i := rng.Intn(len(shares))
		k := append([]byte(nil), shares[i][1:]...)
		return c20Sub{Kind: fmt.Sprintf("short:%d", i), key: k}, true
	}
}

func TestVerif_C20_RekeyThreshold(t *testing.T) {
	seed := kit.Seed(20)
	r := kit.NewResult(t, "c20-rekey-threshold", seed, "seeded submission histories against the rekey of the root namespace's Shamir seal (SealManager.InitRotation / UpdateRotation / VerifyRotation) for current (n,t) in {(3,2),(5,3),(4,4)} and new (n,t) drawn per history, with and without verification: genuine shares, re-submission of any earlier share, flipped, foreign, random shares and shares a Combine cannot digest (same x as an earlier one, one byte short); progress must equal the number of distinct submissions of the attempt, a duplicate is refused and not counted, the rekey completes exactly when t distinct genuine shares were supplied, a failed attempt resets progress so that t genuine shares under the same nonce then complete it; in the verification phase the same accounting holds for the NEW shares and the new key takes effect (unseals after a seal) only after it completed; a history is non-trivial when it contained a duplicate of a non-latest share or a failed attempt at the threshold")
	defer r.Write(t)
	ctx := namespace.RootContext(context.Background())
	ns := namespace.RootNamespace
	for ci, cfg := range [][2]int{{3, 2}, {5, 3}, {4, 4}} {
		n, th := cfg[0], cfg[1]
		core, shares, _ := c20InitCore(t, n, th)
		_, foreign, _ := c20InitCore(t, n, th)
		for _, s := range shares[:th] {
			if _, err := core.Unseal(append([]byte(nil), s...)); err != nil {
				t.Fatalf("unseal: %v", err)
			}
		}
		sm := core.sealManager
		progress := func() (int, int) {
			c := sm.RotationConfig(ns.UUID, false)
			if c == nil {
				return -1, -1
			}
			return len(c.RotationProgress), len(c.VerificationProgress)
		}
		for h := 0; h < kit.N(30, 300); h++ {
			caseID := fmt.Sprintf("rekey:%d:%d", ci, h)
			if !kit.WantCase(caseID) {
				continue
			}
			rng := kit.NewRand(seed, uint64(700000+ci*10000+h))
			n, th = len(shares), 0
			if bc, err := core.seal.BarrierConfig(ctx); err == nil && bc != nil {
				th = bc.SecretThreshold
			}
			if th == 0 {
				t.Fatalf("no barrier config")
			}
			isGenuine := func(k []byte) bool {
				for _, s := range shares {
					if bytes.Equal(s, k) {
						return true
					}
				}
				return false
			}
			newN := 2 + rng.Intn(4)
			newT := 2 + rng.Intn(newN-1)
			verify := rng.Chance(1, 2)
			_ = sm.CancelRotation(ctx, ns.UUID, false)
			if _, err := sm.InitRotation(ctx, ns, &SealConfig{Type: "shamir", SecretShares: newN, SecretThreshold: newT, VerificationRequired: verify}, false); err != nil {
				t.Fatalf("InitRotation: %v", err)
			}
			nonce := sm.RotationConfig(ns.UUID, false).Nonce
			var parts, all []c20Sub
			var trace []string
			nontrivial := false
			var result *RekeyResult
			failedOnce := false
			for step := 0; step < 5*th+8 && result == nil; step++ {
				var sub c20Sub
				ok := false
				if len(parts) == th-1 && rng.Chance(1, 4) {
					sub, ok = c20Poison(rng, shares, parts)
				}
				if failedOnce && rng.Chance(2, 3) {
					// after a failed attempt prefer genuine shares: t of them must now complete it
					i := rng.Intn(len(shares))
					sub, ok = c20Sub{Kind: fmt.Sprintf("genuine:%d", i), key: append([]byte(nil), shares[i]...)}, true
				}
				if !ok {
					sub = c20GenSub(rng, shares, foreign, all)
				}
				all = append(all, sub)
				dup := false
				for i, p := range parts {
					if bytes.Equal(p.key, sub.key) {
						dup = true
						if i != len(parts)-1 {
							nontrivial = true
						}
					}
				}
				res, err := sm.UpdateRotation(ctx, ns, append([]byte(nil), sub.key...), nonce, false)
				trace = append(trace, fmt.Sprintf("%s->done=%v,err=%v", sub.Kind, res != nil, err != nil))
				r.Count("rekey_submissions", 1)
				wit := map[string]any{"current": [2]int{n, th}, "new": [2]int{newN, newT}, "verify": verify, "trace": trace}
				if dup {
					r.Count("rekey_duplicate_submissions", 1)
					if err == nil || res != nil {
						r.Violate("C20-rekey-duplicate-share-accepted", caseID, "a share already supplied in this attempt was accepted again", wit)
						break
					}
					if got, _ := progress(); got != len(parts) {
						r.Violate("C20-rekey-progress-miscounted", caseID, fmt.Sprintf("rekey progress is %d after %d distinct submissions (a refused duplicate changed it)", got, len(parts)), wit)
						break
					}
					continue
				}
				parts = append(parts, sub)
				if len(parts) < th {
					if res != nil {
						r.Violate("C20-rekey-below-threshold", caseID, fmt.Sprintf("rekey produced a result with %d distinct shares, threshold %d", len(parts), th), wit)
						break
					}
					if err != nil {
						// a malformed share may be refused outright; then it must not count
						parts = parts[:len(parts)-1]
						if got, _ := progress(); got != len(parts) {
							r.Violate("C20-rekey-progress-miscounted", caseID, fmt.Sprintf("rekey progress is %d after %d accepted submissions (a refused share counted)", got, len(parts)), wit)
							break
						}
						continue
					}
					if got, _ := progress(); got != len(parts) {
						r.Violate("C20-rekey-progress-miscounted", caseID, fmt.Sprintf("rekey progress is %d after %d distinct submissions (threshold %d)", got, len(parts), th), wit)
						break
					}
					continue
				}
				// threshold reached
				good := true
				for _, p := range parts {
					if !isGenuine(p.key) {
						good = false
					}
				}
				parts = nil
				if good {
					r.Count("rekey_threshold_genuine", 1)
					if failedOnce {
						r.Count("rekey_completed_after_a_failed_attempt_same_nonce", 1)
					}
					if res == nil || err != nil {
						r.Violate("C20-rekey-genuine-threshold-refused", caseID, fmt.Sprintf("%d distinct genuine shares (after failed attempt: %v) did not complete the rekey: %v", th, failedOnce, err), wit)
						break
					}
					result = res
					continue
				}
				r.Count("rekey_threshold_with_wrong_share", 1)
				nontrivial = true
				failedOnce = true
				if res != nil {
					r.Violate("C20-rekey-with-wrong-share", caseID, "rekey completed although a supplied share was not genuine", wit)
					break
				}
				if err == nil {
					r.Violate("C20-wrong-share-no-error", caseID, "rekey threshold reached with a wrong share but no error was reported", wit)
				}
				if got, _ := progress(); got != 0 {
					r.Violate("C20-rekey-progress-not-reset", caseID, fmt.Sprintf("rekey progress is %d after a failed attempt (%s): the rejected shares still count towards the threshold", got, sub.Kind), wit)
					break
				}
			}
			r.Eval(1)
			if nontrivial {
				r.Nontrivial(fmt.Sprint(trace))
			}
			if result == nil {
				_ = sm.CancelRotation(ctx, ns.UUID, false)
				continue
			}
			r.Count("rekeys_completed_first_phase", 1)
			newShares := result.SecretShares
			if len(newShares) != newN {
				r.Violate("C20-rekey-share-count", caseID, fmt.Sprintf("rekey returned %d shares, asked for %d", len(newShares), newN), trace)
				continue
			}
			if verify {
				if !result.VerificationRequired {
					r.Violate("C20-rekey-verification-skipped", caseID, "verification was required but the rekey completed without it", trace)
					continue
				}
				vnonce := result.VerificationNonce
				var vparts, vall []c20Sub
				done, verified := false, false
				for step := 0; step < 5*newT+8 && !done; step++ {
					sub := c20GenSub(rng, newShares, foreign, vall)
					vall = append(vall, sub)
					dup := false
					for i, p := range vparts {
						if bytes.Equal(p.key, sub.key) {
							dup = true
							if i != len(vparts)-1 {
								nontrivial = true
							}
						}
					}
					res, err := sm.VerifyRotation(ctx, ns, append([]byte(nil), sub.key...), vnonce, false)
					trace = append(trace, fmt.Sprintf("verify %s->complete=%v,err=%v", sub.Kind, res != nil && res.Complete, err != nil))
					r.Count("verify_submissions", 1)
					wit := map[string]any{"new": [2]int{newN, newT}, "trace": trace}
					if dup {
						r.Count("verify_duplicate_submissions", 1)
						_, vp := progress()
						if err == nil || vp != len(vparts) {
							r.Violate("C20-rekey-verify-duplicate-share-counted", caseID, fmt.Sprintf("verification: a share already supplied in this attempt was accepted again (error=%v, progress %d after %d distinct submissions)", err != nil, vp, len(vparts)), wit)
							done = true
						}
						continue
					}
					vparts = append(vparts, sub)
					if len(vparts) < newT {
						if res != nil && res.Complete {
							r.Violate("C20-rekey-verify-below-threshold", caseID, fmt.Sprintf("verification completed with %d distinct shares, threshold %d", len(vparts), newT), wit)
							done = true
						}
						if err != nil {
							vparts = vparts[:len(vparts)-1]
						}
						continue
					}
					good := true
					for _, p := range vparts {
						g := false
						for _, s := range newShares {
							if bytes.Equal(s, p.key) {
								g = true
							}
						}
						if !g {
							good = false
						}
					}
					vparts = nil
					if good {
						r.Count("verify_threshold_genuine", 1)
						if res == nil || !res.Complete || err != nil {
							r.Violate("C20-rekey-verify-genuine-threshold-refused", caseID, fmt.Sprintf("%d distinct genuine new shares did not complete the verification: %v", newT, err), wit)
						}
						done = true
						verified = res != nil && res.Complete
						continue
					}
					r.Count("verify_threshold_with_wrong_share", 1)
					nontrivial = true
					if res != nil && res.Complete {
						r.Violate("C20-rekey-verify-with-wrong-share", caseID, "verification completed although a supplied share was not a new share", wit)
						done = true
						continue
					}
					if res != nil && res.Nonce != "" {
						vnonce = res.Nonce
					} else if c := sm.RotationConfig(ns.UUID, false); c != nil {
						vnonce = c.VerificationNonce
					}
				}
				if !verified {
					_ = sm.CancelRotation(ctx, ns.UUID, false)
					// not verified: the old shares stay in force
					if err := c20ResealUnseal(core, shares[:th]); err != nil {
						r.Violate("C20-rekey-new-key-in-effect-before-verification", caseID, "old shares no longer unseal after an unfinished verification: "+err.Error(), trace)
					}
					continue
				}
			}
			// the rekey took effect: the new shares (threshold newT) are the valid ones
			r.Count("rekeys_in_effect", 1)
			if err := c20ResealUnseal(core, newShares[:newT]); err != nil {
				r.Violate("C20-rekey-new-shares-do-not-unseal", caseID, fmt.Sprintf("after a completed rekey %d new shares do not unseal: %v", newT, err), trace)
				// recover with the old ones if possible
				if err2 := c20ResealUnseal(core, shares[:th]); err2 != nil {
					t.Fatalf("core lost: %v / %v", err, err2)
				}
				continue
			}
			shares = newShares
			if h < 2 {
				r.Sample(map[string]any{"current": cfg, "new": [2]int{newN, newT}, "verify": verify, "trace": trace})
			}
		}
		_ = core.Shutdown()
	}
	r.Require("rekey_threshold_genuine", 30)
	r.Require("rekey_threshold_with_wrong_share", 15)
	r.Require("rekey_completed_after_a_failed_attempt_same_nonce", 10)
	r.Require("rekey_duplicate_submissions", 20)
	r.Require("verify_threshold_genuine", 10)
	r.Require("verify_duplicate_submissions", 10)
	r.Require("rekeys_in_effect", 20)
}

// c20ResealUnseal seals the core and unseals it with exactly the given shares.
func c20ResealUnseal(core *Core, shares [][]byte) error {
	if !core.Sealed() {
		if err := TestCoreSeal(core); err != nil {
			return fmt.Errorf("seal: %w", err)
		}
	}
	core.ResetUnsealProcess()
	for i, s := range shares {
		unsealed, err := core.Unseal(append([]byte(nil), s...))
		if err != nil {
			return err
		}
		if unsealed != (i == len(shares)-1) {
			return fmt.Errorf("unsealed=%v after %d of %d shares", unsealed, i+1, len(shares))
		}
	}
	return nil
}
