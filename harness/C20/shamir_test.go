//go:build verif

package shamir

import (
	"bytes"
	"fmt"
	"testing"

	kit "github.com/openbao/openbao/sdk/v2/helper/verifkit"
)

// ---- independent reference field: GF(2^8) mod x^8+x^4+x^3+x+1 by shift-and-add.
var refMulTab = func() (t [256][256]uint8) {
	for a := 0; a < 256; a++ {
		for b := 0; b < 256; b++ {
			t[a][b] = refMulSlow(uint8(a), uint8(b))
		}
	}
	return
}()

func refMul(a, b uint8) uint8 { return refMulTab[a][b] }

func refMulSlow(a, b uint8) uint8 {
	var p uint16
	aa := uint16(a)
	for i := 0; i < 8; i++ {
		if b&(1<<i) != 0 {
			p ^= aa << i
		}
	}
	for i := 15; i >= 8; i-- {
		if p&(1<<i) != 0 {
			p ^= 0x11B << (i - 8)
		}
	}
	return uint8(p)
}

var refInvTab = func() (t [256]uint8) {
	for a := 1; a < 256; a++ {
		for b := 1; b < 256; b++ {
			if refMulSlow(uint8(a), uint8(b)) == 1 {
				t[a] = uint8(b)
				break
			}
		}
	}
	return
}()

func refInv(a uint8) uint8 { return refInvTab[a] }

// refInterp evaluates at x the unique polynomial of degree < len(xs) through the points.
func refInterp(xs, ys []uint8, x uint8) uint8 {
	var res uint8
	for i := range xs {
		num, den := uint8(1), uint8(1)
		for j := range xs {
			if i == j {
				continue
			}
			num = refMul(num, x^xs[j])
			den = refMul(den, xs[i]^xs[j])
		}
		res ^= refMul(ys[i], refMul(num, refInv(den)))
	}
	return res
}

func subsets(n, k int, f func(idx []int) bool) {
	idx := make([]int, k)
	var rec func(start, d int) bool
	rec = func(start, d int) bool {
		if d == k {
			return f(idx)
		}
		for i := start; i <= n-(k-d); i++ {
			idx[d] = i
			if !rec(i+1, d+1) {
				return false
			}
		}
		return true
	}
	rec(0, 0)
}

func TestVerif_C20_Field(t *testing.T) {
	seed := kit.Seed(20)
	r := kit.NewResult(t, "c20-field", seed, "all 65536 pairs (a,b) of field elements for mult/div/inverse/add against an independent shift-and-add GF(2^8) reference and the commutativity/identity/inverse laws; all 2^24 triples for associativity and distributivity; a pair/triple is non-trivial when no operand is 0 or 1")
	r.Exhaustive = true
	defer r.Write(t)
	for a := 0; a < 256; a++ {
		for b := 0; b < 256; b++ {
			x, y := uint8(a), uint8(b)
			r.Eval(1)
			if a > 1 && b > 1 {
				r.Nontrivial(fmt.Sprintf("p%d,%d", a, b))
			}
			m := mult(x, y)
			if m != refMul(x, y) {
				r.Violate("C20-field-mult", fmt.Sprintf("mult:%d,%d", a, b), fmt.Sprintf("mult(%d,%d)=%d, reference %d", a, b, m, refMul(x, y)), nil)
			}
			if m != mult(y, x) {
				r.Violate("C20-field-law", "", fmt.Sprintf("mult not commutative at %d,%d", a, b), nil)
			}
			if add(x, y) != x^y || add(x, y) != add(y, x) {
				r.Violate("C20-field-law", "", fmt.Sprintf("add wrong at %d,%d", a, b), nil)
			}
			if b != 0 {
				if d := div(m, y); d != x {
					r.Violate("C20-field-div", "", fmt.Sprintf("div(mult(%d,%d),%d)=%d", a, b, b, d), nil)
				}
				if d := div(x, y); mult(d, y) != x {
					r.Violate("C20-field-div", "", fmt.Sprintf("mult(div(%d,%d),%d)!=%d", a, b, b, a), nil)
				}
			}
		}
		x := uint8(a)
		if mult(x, 1) != x || mult(x, 0) != 0 || add(x, 0) != x || add(x, x) != 0 {
			r.Violate("C20-field-law", "", fmt.Sprintf("identity law fails at %d", a), nil)
		}
		if a != 0 {
			if mult(x, inverse(x)) != 1 {
				r.Violate("C20-field-law", "", fmt.Sprintf("inverse(%d)=%d is not an inverse", a, inverse(x)), nil)
			}
		}
	}
	if inverse(0) != 0 {
		r.Note("inverse(0)=%d", inverse(0))
	}
	// associativity / distributivity on all triples (table-driven for speed, the table is the real mult)
	var tab [256][256]uint8
	for a := 0; a < 256; a++ {
		for b := 0; b < 256; b++ {
			tab[a][b] = mult(uint8(a), uint8(b))
		}
	}
	bad := 0
	for a := 0; a < 256; a++ {
		for b := 0; b < 256; b++ {
			ab := tab[a][b]
			for c := 0; c < 256; c++ {
				if tab[ab][c] != tab[a][tab[b][c]] {
					bad++
				}
				if tab[a][b^c] != ab^tab[a][c] {
					bad++
				}
			}
		}
	}
	r.Eval(1 << 24)
	r.Count("triples", 1<<24)
	if bad > 0 {
		r.Violate("C20-field-law", "", fmt.Sprintf("%d associativity/distributivity failures", bad), nil)
	}
	r.Sample(map[string]any{"a": 87, "b": 131, "mult": mult(87, 131), "ref": refMul(87, 131), "div_back": div(mult(87, 131), 131)})
}

func TestVerif_C20_Independence(t *testing.T) {
	seed := kit.Seed(20)
	rng := kit.NewRand(seed, 2001)
	r := kit.NewResult(t, "c20-independence", seed, "for threshold 2 (all 256 coefficient choices) and threshold 3 (all 65536 coefficient pairs), per sampled set of distinct non-zero x and sampled secret byte, the map coefficients -> (t-1 share values) computed with the package's polynomial.evaluate must be a bijection, so the multiset of sub-threshold views is the same for every secret; a case = (t, x-set, secret) and is non-trivial when distinct")
	defer r.Write(t)
	// t = 2: every x, every secret
	for x := 1; x < 256; x++ {
		for s := 0; s < 256; s++ {
			var seen [256]bool
			for c := 0; c < 256; c++ {
				p := polynomial{coefficients: []uint8{uint8(s), uint8(c)}}
				seen[p.evaluate(uint8(x))] = true
			}
			r.Eval(1)
			r.Nontrivial(fmt.Sprintf("t2:%d:%d", x, s))
			for y := 0; y < 256; y++ {
				if !seen[y] {
					r.Violate("C20-independence", fmt.Sprintf("t2:%d:%d", x, s), fmt.Sprintf("t=2 x=%d secret=%d: share value %d is impossible, one share restricts the secret", x, s, y), nil)
					break
				}
			}
		}
	}
	r.Count("t2_cases", 255*256)
	// t = 3
	npairs, nsecrets := kit.N(6, 40), kit.N(4, 16)
	for i := 0; i < npairs; i++ {
		x1 := uint8(1 + rng.Intn(255))
		x2 := uint8(1 + rng.Intn(255))
		if x1 == x2 {
			i--
			continue
		}
		for j := 0; j < nsecrets; j++ {
			s := uint8(rng.Intn(256))
			seen := make([]bool, 65536)
			n := 0
			for c1 := 0; c1 < 256; c1++ {
				for c2 := 0; c2 < 256; c2++ {
					p := polynomial{coefficients: []uint8{s, uint8(c1), uint8(c2)}}
					v := int(p.evaluate(x1))<<8 | int(p.evaluate(x2))
					if !seen[v] {
						seen[v] = true
						n++
					}
				}
			}
			r.Eval(1)
			r.Nontrivial(fmt.Sprintf("t3:%d:%d:%d", x1, x2, s))
			r.Count("t3_cases", 1)
			if n != 65536 {
				r.Violate("C20-independence", "", fmt.Sprintf("t=3 x=(%d,%d) secret=%d: only %d of 65536 share pairs reachable", x1, x2, s, n), nil)
			}
			if i == 0 && j == 0 {
				r.Sample(map[string]any{"t": 3, "x": []int{int(x1), int(x2)}, "secret": s, "reachable_pairs": n})
			}
		}
	}
	// evaluate must refuse x = 0
	func() {
		defer func() {
			if recover() == nil {
				r.Violate("C20-x-zero", "", "polynomial.evaluate(0) did not panic (x=0 leaks the secret byte)", nil)
			}
		}()
		p := polynomial{coefficients: []uint8{1, 2}}
		p.evaluate(0)
	}()
}

func TestVerif_C20_SplitCombine(t *testing.T) {
	seed := kit.Seed(20)
	rng := kit.NewRand(seed, 2002)
	r := kit.NewResult(t, "c20-split", seed, "Split then Combine: every subset of size >= t reconstructs (all subsets for n <= 6, seeded subsets up to n = 255); x distinct and non-zero; shares lie on a polynomial of degree <= t-1 (reference interpolation predicts the other shares); for 16-64 byte secrets no (t-1)-subset reconstructs; Combine rejects duplicate/short/unequal/too-few; a case = (secret,n,t) and is non-trivial when distinct")
	defer r.Write(t)

	checkSplit := func(secret []byte, n, th int, allSubsets bool) {
		id := fmt.Sprintf("split:%x:%d:%d", secret, n, th)
		if !kit.WantCase(id) && kit.OnlyCase() != "" {
			return
		}
		var shares [][]byte
		var err error
		panicked := func() (p any) {
			defer func() { p = recover() }()
			shares, err = Split(secret, n, th)
			return nil
		}()
		r.Eval(1)
		if panicked != nil {
			r.Violate("C20-split-panic", id, fmt.Sprintf("Split(len %d, n=%d, t=%d) with valid parameters panicked: %v", len(secret), n, th, panicked), nil)
			return
		}
		if err != nil {
			r.Violate("C20-split-error", id, fmt.Sprintf("Split(len %d, n=%d, t=%d) failed: %v", len(secret), n, th, err), nil)
			return
		}
		r.Nontrivial(id)
		if len(shares) != n {
			r.Violate("C20-split-count", id, fmt.Sprintf("got %d shares want %d", len(shares), n), nil)
			return
		}
		xs := map[byte]bool{}
		for _, s := range shares {
			if len(s) != len(secret)+1 {
				r.Violate("C20-share-length", id, "share length wrong", nil)
				return
			}
			x := s[len(secret)]
			if x == 0 || xs[x] {
				r.Violate("C20-x-coordinate", id, fmt.Sprintf("x coordinate %d zero or duplicated", x), map[string]any{"shares": shares})
				return
			}
			xs[x] = true
		}
		// degree: predict every share from the first t using reference interpolation
		px := make([]uint8, th)
		py := make([]uint8, th)
		for b := range secret {
			for i := 0; i < th; i++ {
				px[i] = shares[i][len(secret)]
				py[i] = shares[i][b]
			}
			if refInterp(px, py, 0) != secret[b] {
				r.Violate("C20-intercept", id, "polynomial through the first t shares does not have the secret as intercept", nil)
				return
			}
			for i := th; i < n; i++ {
				if refInterp(px, py, shares[i][len(secret)]) != shares[i][b] {
					r.Violate("C20-degree", id, fmt.Sprintf("share %d is not on the degree<=%d polynomial of the first %d shares", i, th-1, th), nil)
					return
				}
			}
		}
		try := func(idx []int, expectSecret bool) bool {
			parts := make([][]byte, len(idx))
			for i, j := range idx {
				parts[i] = shares[j]
			}
			got, err := Combine(parts)
			r.Count("combines", 1)
			// the caller's slice must still hold the shares it was handed, and combining it again gives the same answer
			for i, j := range idx {
				if len(parts[i]) != len(shares[j]) || !bytes.Equal(parts[i], shares[j]) {
					r.Violate("C20-combine-changed-the-callers-shares", id, fmt.Sprintf("after Combine, element %d of the slice handed in is %x, it was share %d = %x", i, parts[i], j, shares[j]), nil)
					return false
				}
			}
			if got2, err2 := Combine(parts); (err == nil) != (err2 == nil) || !bytes.Equal(got, got2) {
				r.Violate("C20-combine-changed-the-callers-shares", id, fmt.Sprintf("combining the same slice twice gave %x (err=%v) then %x (err=%v)", got, err, got2, err2), nil)
				return false
			}
			r.Count("combines_repeated_on_same_slice", 1)
			if expectSecret {
				if err != nil || !bytes.Equal(got, secret) {
					r.Violate("C20-reconstruct", id, fmt.Sprintf("subset %v of size %d (t=%d) gave %x err=%v want %x", idx, len(idx), th, got, err, secret), map[string]any{"shares": shares})
					return false
				}
			} else if len(secret) >= 16 && err == nil && bytes.Equal(got, secret) {
				r.Violate("C20-subthreshold", id, fmt.Sprintf("subset %v of size %d < t=%d reconstructed the secret", idx, len(idx), th), map[string]any{"shares": shares})
				return false
			}
			return true
		}
		if allSubsets {
			for k := 2; k <= n; k++ {
				subsets(n, k, func(idx []int) bool { return try(idx, k >= th) })
			}
		} else {
			for q := 0; q < 6; q++ {
				k := th + rng.Intn(n-th+1)
				if q%3 == 2 && th > 2 {
					k = th - 1
				}
				perm := rng.Perm(n)[:k]
				try(perm, k >= th)
			}
		}
	}

	// exhaustive 1-byte secrets, n <= 5 (quick) / n <= 6 (thorough)
	maxn := kit.N(5, 6)
	for s := 0; s < 256; s++ {
		for n := 2; n <= maxn; n++ {
			for th := 2; th <= n; th++ {
				checkSplit([]byte{byte(s)}, n, th, true)
			}
		}
	}
	if kit.Tier() == "thorough" {
		for s := 0; s < 65536; s += 1 {
			checkSplit([]byte{byte(s >> 8), byte(s)}, 3, 2, true)
		}
	} else {
		for s := 0; s < 65536; s += 37 {
			checkSplit([]byte{byte(s >> 8), byte(s)}, 3, 2, true)
		}
	}
	// 16-64 byte secrets, all subsets for n<=6
	for i := 0; i < kit.N(60, 600); i++ {
		n := 2 + rng.Intn(5)
		th := 2 + rng.Intn(n-1)
		checkSplit(rng.Bytes(16+rng.Intn(49)), n, th, true)
	}
	// large n
	for i := 0; i < kit.N(16, 300); i++ {
		n := 7 + rng.Intn(249)
		th := 2 + rng.Intn(n-1)
		if i == 0 {
			n, th = 255, 255
		}
		if i == 1 {
			n, th = 255, 2
		}
		checkSplit(rng.Bytes(16), n, th, false)
	}
	r.Sample(map[string]any{"secret_len": 16, "n": 5, "t": 3, "oracle": "all subsets of size 2..5; size>=3 must reconstruct, size 2 must not"})

	// parameter rejection
	for _, c := range []struct{ n, t, l int }{{1, 2, 4}, {256, 2, 4}, {5, 1, 4}, {5, 6, 4}, {5, 256, 4}, {3, 2, 0}} {
		if _, err := Split(make([]byte, c.l), c.n, c.t); err == nil {
			r.Violate("C20-split-params", "", fmt.Sprintf("Split accepted n=%d t=%d len=%d", c.n, c.t, c.l), nil)
		}
		r.Eval(1)
	}
	// Combine rejections
	sh, _ := Split([]byte("0123456789abcdef"), 4, 3)
	rej := map[string][][]byte{
		"one-part":    {sh[0]},
		"no-parts":    {},
		"duplicate":   {sh[0], sh[1], sh[0]},
		"dup-x":       {sh[0], append(append([]byte{}, sh[1][:16]...), sh[0][16])},
		"unequal":     {sh[0], sh[1][1:], sh[2]},
		"short":       {{1}, {2}},
		"short-mixed": {sh[0], {1}},
		// parts of unequal length in every position, the longer one first, in the middle and last;
		// bytes appended after the x coordinate, inserted before it, and a doubled share
		"longer-last-appended":    {sh[0], sh[1], append(append([]byte{}, sh[2]...), 9)},
		"longer-middle-appended":  {sh[0], append(append([]byte{}, sh[1]...), 9), sh[2]},
		"longer-first-appended":   {append(append([]byte{}, sh[0]...), 9), sh[1], sh[2]},
		"longer-last-inserted":    {sh[0], sh[1], append(append(append([]byte{}, sh[2][:16]...), 9), sh[2][16])},
		"longer-last-doubled":     {sh[0], sh[1], append(append([]byte{}, sh[2]...), sh[2]...)},
		"longer-last-two-of-four": {sh[0], sh[1], sh[2], append(append([]byte{}, sh[3]...), 1, 2, 3)},
		"shorter-last":            {sh[0], sh[1], sh[2][1:]},
		"shorter-last-x-only":     {sh[0], sh[1], sh[2][16:]},
	}
	// generated: a genuine split of a seeded secret, one part at a seeded position lengthened or shortened
	for i := 0; i < kit.N(200, 2000); i++ {
		n := 2 + rng.Intn(6)
		th := 2 + rng.Intn(n-1)
		sec := rng.Bytes(1 + rng.Intn(40))
		parts, err := Split(sec, n, th)
		if err != nil {
			continue
		}
		k := th + rng.Intn(n-th+1)
		parts = parts[:k]
		pos := rng.Intn(k)
		if i%3 == 0 {
			pos = k - 1
		}
		orig := parts[pos]
		var mod []byte
		how := ""
		switch rng.Intn(4) {
		case 0:
			mod, how = append(append([]byte{}, orig...), rng.Bytes(1+rng.Intn(4))...), "bytes appended after x"
		case 1:
			mod, how = append(append(append([]byte{}, orig[:len(sec)]...), rng.Bytes(1+rng.Intn(4))...), orig[len(sec)]), "y bytes inserted before x"
		case 2:
			if len(sec) < 2 {
				continue
			}
			mod, how = append([]byte{}, orig[1:]...), "first y byte dropped"
		default:
			if len(sec) < 2 {
				continue
			}
			mod, how = append(append([]byte{}, orig[:len(sec)-1]...), orig[len(sec)]), "last y byte dropped"
		}
		parts[pos] = mod
		rej[fmt.Sprintf("gen%d: %d parts of a %d-byte secret, part %d has %s (length %d, others %d)", i, k, len(sec), pos, how, len(mod), len(orig))] = parts
		r.Count("combine_unequal_generated", 1)
	}
	for name, parts := range rej {
		r.Eval(1)
		func() {
			defer func() {
				if p := recover(); p != nil {
					r.Violate("C20-combine-reject", "", fmt.Sprintf("Combine panicked on %s: %v", name, p), nil)
				}
			}()
			if out, err := Combine(parts); err == nil {
				r.Violate("C20-combine-reject", "", fmt.Sprintf("Combine accepted %s parts and returned %x", name, out), nil)
			}
		}()
		r.Count("combine_rejections", 1)
	}
	r.Require("combines", 1000)
	r.Require("combine_unequal_generated", 100)
	r.Require("combines_repeated_on_same_slice", 1000)
}

// Statistical monitor (reported as such): coefficients of fresh polynomials are
// not constant and pass a loose (6 sigma) chi-square uniformity test.
func TestVerif_C20_Randomness(t *testing.T) {
	seed := kit.Seed(20)
	r := kit.NewResult(t, "c20-randomness", seed, "statistical monitor: 25600 single-byte 2-of-2 splits of a fixed secret; the non-constant coefficient c1=(y-s)/x recovered from each split must pass a chi-square uniformity test at 6 sigma (x coordinates are only reported); and the polynomials of two bytes of one 4-byte secret must agree only at the chance rate 256^-(t-1) for t=2,3; each split is a case, distinct recovered (c1,x) values are counted")
	defer r.Write(t)
	const N = 25600
	var hc [256]int
	var hx [256]int
	for i := 0; i < N; i++ {
		sh, err := Split([]byte{0x5a}, 2, 2)
		if err != nil {
			t.Fatal(err)
		}
		x, y := sh[0][1], sh[0][0]
		c1 := refMul(y^0x5a, refInv(x))
		hc[c1]++
		hx[x]++
		r.Eval(1)
		r.Nontrivial(fmt.Sprintf("%d,%d", c1, x))
	}
	chi := func(h []int, cells int) float64 {
		e := float64(N) / float64(cells)
		s := 0.0
		for _, v := range h {
			s += (float64(v) - e) * (float64(v) - e) / e
		}
		return s
	}
	c1 := chi(hc[:], 256)
	cx := chi(hx[1:], 255)
	r.Sample(map[string]any{"chi2_coefficient": c1, "chi2_x_first_share": cx, "threshold": 255 + 6*22.6, "first_share_x_equal_1": hx[1]})
	if c1 > 255+6*22.6 {
		r.Violate("C20-randomness", "", fmt.Sprintf("coefficient distribution chi2=%.1f (dof 255) beyond 6 sigma", c1), nil)
	}
	// The x coordinates are public and the property only requires them to be distinct and
	// non-zero, so their distribution is not a verdict. (Observed on the pinned tree: the shuffle
	// draws j from [0,i) instead of [0,i], i.e. it produces only cyclic permutations, so the first
	// share never has x=1; an earlier version of this monitor tested x for uniformity and raised
	// false alarms because of that.)
	r.Note("x of first share: chi2=%.1f over 1..255, count of x=1: %d (not a verdict)", cx, hx[1])
	if hx[0] != 0 {
		r.Violate("C20-x-coordinate", "", "x=0 handed out", nil)
	}

	// Independence across the bytes of one secret: each byte must get its own polynomial. With the
	// secret known, g_i(x) = y_i(x) xor s_i is the non-constant part of byte i's polynomial at the
	// share's x; for independent polynomials g_0 and g_1 agree on all n shares with probability
	// 256^-(t-1). (A Split that reuses one polynomial for every byte reconstructs perfectly and keeps
	// every other check green, but one share then reveals s_i xor s_j.)
	for _, th := range []int{2, 3} {
		secret := []byte{0x11, 0xa7, 0x3c, 0xe0}
		same := 0
		for i := 0; i < N; i++ {
			sh, err := Split(secret, th, th)
			if err != nil {
				t.Fatal(err)
			}
			eq := true
			for _, share := range sh {
				if share[0]^secret[0] != share[1]^secret[1] {
					eq = false
					break
				}
			}
			if eq {
				same++
			}
			r.Eval(1)
		}
		r.Count(fmt.Sprintf("cross_byte_equal_polynomials_t%d", th), same)
		switch th {
		case 2: // expected N/256 = 100, sigma ~ 10
			if same > 160 || same < 40 {
				r.Violate("C20-cross-byte-dependence", "", fmt.Sprintf("t=2: polynomials of byte 0 and byte 1 of one secret agreed in %d of %d splits (expected about %d)", same, N, N/256), nil)
			}
		case 3: // expected N/65536 < 1
			if same > 10 {
				r.Violate("C20-cross-byte-dependence", "", fmt.Sprintf("t=3: polynomials of byte 0 and byte 1 of one secret agreed in %d of %d splits (expected < 1)", same, N), nil)
			}
		}
	}
}
