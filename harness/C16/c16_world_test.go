//go:build verif

package pki

// C16 — a revoked certificate is reported revoked everywhere until it expires.
//
// This file holds the pieces shared by the three monitors:
//   * c16Store: a logical.Storage wrapper that journals writes, fails a single
//     chosen operation, and whose write journal can be replayed as a prefix
//     into a fresh in-memory store (crash model);
//   * c16World: one PKI mount (real backend from Factory + Initialize) plus the
//     harness' own ledger of revocations that the API reported successful;
//   * the oracle (check): cert/<serial>, OCSP, every issuer's complete CRL and
//     the legacy CRL endpoints, parsed with the standard library only.
//
// Nothing here decides with the wall clock: certificates are either valid for
// many hours or expired for many hours.

import (
	"bytes"
	"context"
	"crypto"
	"crypto/ecdsa"
	"crypto/elliptic"
	"crypto/rand"
	"crypto/sha256"
	"crypto/x509"
	"crypto/x509/pkix"
	"encoding/asn1"
	"encoding/base64"
	"encoding/hex"
	"encoding/json"
	"encoding/pem"
	"errors"
	"fmt"
	"math/big"
	"regexp"
	"sort"
	"strings"
	"sync"
	"time"

	"github.com/hashicorp/go-hclog"
	kit "github.com/openbao/openbao/sdk/v2/helper/verifkit"
	"github.com/openbao/openbao/sdk/v2/logical"
	"golang.org/x/crypto/ocsp"
)

// ------------------------------------------------------------------ storage

var errC16Injected = errors.New("verif: injected storage fault")

type c16Op struct {
	N      int    `json:"n"`
	Op     string `json:"op"`
	Key    string `json:"key"`
	Class  string `json:"class"`
	Occ    int    `json:"occ"`
	Failed bool   `json:"failed,omitempty"`
	Write  bool   `json:"write,omitempty"`
	val    []byte
	del    bool
}

func (o c16Op) id() string { return fmt.Sprintf("%s#%d", o.Class, o.Occ) }

// c16Store wraps the mount's storage for API requests. Background workers of
// the backend (ACME engine) are given the raw store so that they cannot
// consume an armed fault.
type c16Store struct {
	mu        sync.Mutex
	inner     *logical.InmemStorage
	active    bool
	ops       []c16Op
	occ       map[string]int
	failClass string
	failOcc   int
	fired     *c16Op
}

var (
	c16UUIDRe   = regexp.MustCompile(`[0-9a-f]{8}-[0-9a-f]{4}-[0-9a-f]{4}-[0-9a-f]{4}-[0-9a-f]{12}`)
	c16SerialRe = regexp.MustCompile(`([0-9a-f]{2}[-:]){3,}[0-9a-f]{2}`)
)

// c16KeyClass removes identifiers that differ from run to run so that a fault
// point can be named structurally ("the 2nd put under crls/<id>").
func c16KeyClass(key string) string {
	k := c16UUIDRe.ReplaceAllString(key, "<id>")
	k = c16SerialRe.ReplaceAllString(k, "<serial>")
	return k
}

func (s *c16Store) arm(failClass string, failOcc int) {
	s.mu.Lock()
	s.active = true
	s.ops = nil
	s.occ = map[string]int{}
	s.failClass, s.failOcc = failClass, failOcc
	s.fired = nil
	s.mu.Unlock()
}

func (s *c16Store) disarm() ([]c16Op, *c16Op) {
	s.mu.Lock()
	defer s.mu.Unlock()
	s.active = false
	ops, f := s.ops, s.fired
	s.ops, s.fired = nil, nil
	s.failClass = ""
	return ops, f
}

func (s *c16Store) pre(op, key string) (int, error) {
	s.mu.Lock()
	defer s.mu.Unlock()
	if !s.active {
		return -1, nil
	}
	class := op + ":" + c16KeyClass(key)
	s.occ[class]++
	o := c16Op{N: len(s.ops) + 1, Op: op, Key: key, Class: class, Occ: s.occ[class]}
	if s.fired == nil && s.failClass != "" && class == s.failClass && o.Occ == s.failOcc {
		o.Failed = true
		s.ops = append(s.ops, o)
		f := o
		s.fired = &f
		return -1, errC16Injected
	}
	s.ops = append(s.ops, o)
	return len(s.ops) - 1, nil
}

func (s *c16Store) wrote(idx int, val []byte, del bool) {
	if idx < 0 {
		return
	}
	s.mu.Lock()
	if s.active && idx < len(s.ops) {
		s.ops[idx].Write = true
		s.ops[idx].val = append([]byte(nil), val...)
		s.ops[idx].del = del
	}
	s.mu.Unlock()
}

func (s *c16Store) Get(ctx context.Context, key string) (*logical.StorageEntry, error) {
	if _, err := s.pre("get", key); err != nil {
		return nil, err
	}
	return s.inner.Get(ctx, key)
}

func (s *c16Store) Put(ctx context.Context, e *logical.StorageEntry) error {
	idx, err := s.pre("put", e.Key)
	if err != nil {
		return err
	}
	if err := s.inner.Put(ctx, e); err != nil {
		return err
	}
	s.wrote(idx, e.Value, false)
	return nil
}

func (s *c16Store) Delete(ctx context.Context, key string) error {
	idx, err := s.pre("delete", key)
	if err != nil {
		return err
	}
	if err := s.inner.Delete(ctx, key); err != nil {
		return err
	}
	s.wrote(idx, nil, true)
	return nil
}

func (s *c16Store) List(ctx context.Context, prefix string) ([]string, error) {
	if _, err := s.pre("list", prefix); err != nil {
		return nil, err
	}
	return s.inner.List(ctx, prefix)
}

func (s *c16Store) ListPage(ctx context.Context, prefix, after string, limit int) ([]string, error) {
	if _, err := s.pre("list", prefix); err != nil {
		return nil, err
	}
	return s.inner.ListPage(ctx, prefix, after, limit)
}

func c16Snapshot(s logical.Storage) map[string][]byte {
	out := map[string][]byte{}
	ctx := context.Background()
	var walk func(prefix string)
	walk = func(prefix string) {
		names, err := s.List(ctx, prefix)
		if err != nil {
			panic(err)
		}
		for _, n := range names {
			if strings.HasSuffix(n, "/") {
				walk(prefix + n)
				continue
			}
			e, err := s.Get(ctx, prefix+n)
			if err != nil {
				panic(err)
			}
			if e != nil {
				out[prefix+n] = append([]byte(nil), e.Value...)
			}
		}
	}
	walk("")
	return out
}

func c16Restore(m map[string][]byte) *logical.InmemStorage {
	s := &logical.InmemStorage{}
	ctx := context.Background()
	for k, v := range m {
		if err := s.Put(ctx, &logical.StorageEntry{Key: k, Value: append([]byte(nil), v...)}); err != nil {
			panic(err)
		}
	}
	return s
}

// ------------------------------------------------------------------ world

type c16Issuer struct {
	Name    string
	cert    *x509.Certificate
	certPEM string
	signer  crypto.Signer
	ID      string // current issuer id in the mount; "" while removed
	Parent  int    // index of the signing issuer for an intermediate, -1 for a root
	Revoked bool   // issuer/<id>/revoke reported success
	// Group: index of the first issuer with the same subject and key. Issuers of one group are
	// equivalent for revocation purposes and share one CRL (documented behaviour).
	Group int
	KeyID string
	// EverRemoved: the issuer was absent from the mount at some time; certificates of an absent issuer
	// are listed on the then-default issuer's CRL ("unassigned"), so placement checks stop for them.
	EverRemoved bool
	// StaleAssoc: an issuer of this group was deleted or re-imported while CRL building was disabled,
	// i.e. revocation records may still name a deleted issuer id and no build has re-associated them.
	StaleAssoc bool
}

type c16Cert struct {
	Serial    string // lower-case, colon separated (as the API prints it)
	cert      *x509.Certificate
	pem       string
	keyPEM    string
	Iss       int
	secret    *logical.Secret
	Stored    bool // written to certs/ by the mount at issue time
	Expired   bool // forged with a validity that ended a day ago
	Attempted bool // the harness asked for its revocation at least once
	IsIssuer  int  // index into iss when this is an intermediate's own certificate, else -1
}

type c16Entry struct {
	Cert             int
	RevTime          int64
	RevRFC           string // revocation_time_rfc3339 as first reported (nanosecond precision)
	Via              string
	AutoOffAtSuccess bool
	IDAtSuccess      string
	numAtSuccess     *big.Int
	numPending       bool
	// absentPending: at the last oracle pass the entry was not obliged to be on the served complete CRL
	// (revoked under auto_rebuild=true, no complete build since) and indeed was not on it
	absentPending bool
	// rotatedAfter: crl/rotate reported success (CRL building enabled) after this revocation was reported
	rotatedAfter bool
}

// c16Cfg is config/crl as the mount itself reports it (read back after every write).
type c16Cfg struct {
	Auto, Delta, Disable, OcspDisable, AllowExpired bool
	Expiry, Grace, DeltaInt                         string
}

// c16Timings: (expiry, auto_rebuild_grace_period, delta_rebuild_interval) triples that the documentation
// accepts together (grace and interval strictly shorter than the expiry). Every expiry is at least a day
// longer than its grace period, so the periodic function never finds a CRL "about to expire".
var c16Timings = [][3]string{{"72h", "12h", "15m"}, {"48h", "8h", "10m"}, {"36h", "1h", "5m"}, {"96h", "24h", "30m"}}

type c16Obs struct {
	num *big.Int
	sum [32]byte
}

// c16Cut describes an operation the harness interrupted (fault or crash).
type c16Cut struct {
	Kind          string `json:"kind"` // "fault" | "crash"
	At            string `json:"at"`
	Target        string `json:"target"`
	numBefore     map[string]*big.Int
	NumBefore     map[string]string `json:"crl_number_before"`
	RecordExisted map[string]bool   `json:"record_existed"`
	StoredCRL     map[string]string `json:"crl_numbers_stored_by_interrupted_op"` // issuer name -> numbers
	storedCRL     map[int][]*big.Int
}

type c16World struct {
	r      *kit.Result
	caseID string
	raw    *logical.InmemStorage
	st     *c16Store
	b      *backend
	iss    []c16Issuer
	certs  []c16Cert
	ledger map[string]*c16Entry
	order  []string
	cfg    c16Cfg
	obs    map[string]c16Obs
	cut    *c16Cut
	trace  []string
	seen   map[string]bool
	nforge int64
	broken bool
	// issuer ids whose complete CRL a successful crl/rotate must have replaced
	expectRebuilt map[string]bool
	// pendingAbsent: number of ledger entries with absentPending at the last oracle pass
	pendingAbsent int
	nchecks       int
}

var c16Ctx = context.Background()

func c16NewBackend(raw *logical.InmemStorage) (*backend, error) {
	conf := &logical.BackendConfig{
		Logger:      hclog.NewNullLogger(),
		System:      &logical.StaticSystemView{DefaultLeaseTTLVal: 24 * time.Hour, MaxLeaseTTLVal: 87600 * time.Hour, VersionString: "verif"},
		Config:      map[string]string{},
		StorageView: raw,
		BackendUUID: "c16",
	}
	lb, err := Factory(c16Ctx, conf)
	if err != nil {
		return nil, err
	}
	b := lb.(*backend)
	if err := b.Initialize(c16Ctx, &logical.InitializationRequest{Storage: raw}); err != nil {
		return nil, err
	}
	return b, nil
}

func c16NewWorld(r *kit.Result, caseID string) *c16World {
	w := &c16World{r: r, caseID: caseID, raw: &logical.InmemStorage{}, ledger: map[string]*c16Entry{}, obs: map[string]c16Obs{}, seen: map[string]bool{}}
	w.st = &c16Store{inner: w.raw}
	b, err := c16NewBackend(w.raw)
	if err != nil {
		panic(fmt.Sprintf("c16: cannot create backend: %v", err))
	}
	w.b = b
	for _, role := range []struct {
		name  string
		lease bool
	}{{"r", false}, {"rl", true}} {
		_, err := w.do(logical.UpdateOperation, "roles/"+role.name, map[string]any{
			"allow_any_name": true, "enforce_hostnames": false, "key_type": "ec", "key_bits": 256,
			"ttl": "24h", "max_ttl": "48h", "generate_lease": role.lease,
		})
		if err != nil {
			panic(fmt.Sprintf("c16: role: %v", err))
		}
	}
	w.readCfg()
	return w
}

func (w *c16World) close() {
	if w.b != nil {
		w.b.Cleanup(c16Ctx)
		w.b = nil
	}
}

// fork copies the mount (storage bytes) and the harness' knowledge into an
// independent world served by a fresh backend instance.
func (w *c16World) fork(caseID string) *c16World {
	n := &c16World{r: w.r, caseID: caseID, ledger: map[string]*c16Entry{}, obs: map[string]c16Obs{}, seen: map[string]bool{}, cfg: w.cfg, nforge: w.nforge, pendingAbsent: w.pendingAbsent, nchecks: w.nchecks}
	n.raw = c16Restore(c16Snapshot(w.raw))
	n.st = &c16Store{inner: n.raw}
	n.iss = append([]c16Issuer(nil), w.iss...)
	n.certs = append([]c16Cert(nil), w.certs...)
	for k, e := range w.ledger {
		c := *e
		n.ledger[k] = &c
	}
	n.order = append([]string(nil), w.order...)
	for k, o := range w.obs {
		n.obs[k] = o
	}
	n.trace = append([]string(nil), w.trace...)
	b, err := c16NewBackend(n.raw)
	if err != nil {
		panic(fmt.Sprintf("c16: fork backend: %v", err))
	}
	n.b = b
	// A fork stands for "the same running process, continued": the one piece of in-memory state of the
	// original instance that decides what CRL readers do (rebuild before serving or not) is carried over,
	// otherwise every fork would behave like a freshly restarted mount (restarts are exercised explicitly).
	if w.b != nil {
		n.b.crlBuilder.forceRebuild.Store(w.b.crlBuilder.forceRebuild.Load())
	}
	return n
}

// restart replaces the backend instance by a new one on the same storage.
func (w *c16World) restart() {
	w.close()
	b, err := c16NewBackend(w.raw)
	if err != nil {
		w.violate("C16-restart-failed", "backend does not come up on its own storage: "+err.Error(), nil)
		w.broken = true
		return
	}
	w.b = b
	w.step("restart")
	w.r.Count("restarts", 1)
}

func (w *c16World) step(format string, a ...any) {
	w.trace = append(w.trace, fmt.Sprintf(format, a...))
}

func (w *c16World) violate(class, what string, extra map[string]any) {
	key := class + "|" + what
	if w.seen[key] {
		return
	}
	w.seen[key] = true
	wit := map[string]any{"steps": w.trace, "config": w.cfg}
	if w.cut != nil {
		wit["interrupted"] = w.cut
	}
	for k, v := range extra {
		wit[k] = v
	}
	w.r.Violate(class, w.caseID, what, wit)
}

func (w *c16World) do(op logical.Operation, path string, data map[string]any) (*logical.Response, error) {
	if data == nil {
		data = map[string]any{}
	}
	return w.b.HandleRequest(c16Ctx, &logical.Request{Operation: op, Path: path, Data: data, Storage: w.st, MountPoint: "pki/"})
}

// doRaw sends a read on behalf of the harness itself: it goes to the mount's storage directly, so it is
// neither journalled nor able to consume an armed fault.
func (w *c16World) doRaw(op logical.Operation, path string) (*logical.Response, error) {
	return w.b.HandleRequest(c16Ctx, &logical.Request{Operation: op, Path: path, Data: map[string]any{}, Storage: w.raw, MountPoint: "pki/"})
}

func c16OK(resp *logical.Response, err error) bool {
	return err == nil && (resp == nil || !resp.IsError())
}

func c16Why(resp *logical.Response, err error) string {
	if err != nil {
		return "error: " + err.Error()
	}
	if resp != nil && resp.IsError() {
		return "refused: " + resp.Error().Error()
	}
	return "ok"
}

func c16Serial(n *big.Int) string {
	b := n.Bytes()
	parts := make([]string, len(b))
	for i := range b {
		parts[i] = hex.EncodeToString(b[i : i+1])
	}
	return strings.Join(parts, ":")
}

func c16ParseCertPEM(p string) (*x509.Certificate, error) {
	blk, _ := pem.Decode([]byte(p))
	if blk == nil {
		return nil, errors.New("no PEM")
	}
	return x509.ParseCertificate(blk.Bytes)
}

func c16ParseKeyPEM(p string) (crypto.Signer, error) {
	blk, _ := pem.Decode([]byte(p))
	if blk == nil {
		return nil, errors.New("no PEM")
	}
	if k, err := x509.ParseECPrivateKey(blk.Bytes); err == nil {
		return k, nil
	}
	k, err := x509.ParsePKCS8PrivateKey(blk.Bytes)
	if err != nil {
		return nil, err
	}
	s, ok := k.(crypto.Signer)
	if !ok {
		return nil, errors.New("not a signer")
	}
	return s, nil
}

// ---- issuers

func (w *c16World) addRoot() int {
	name := fmt.Sprintf("root%d", len(w.iss))
	resp, err := w.do(logical.UpdateOperation, "issuers/generate/root/exported", map[string]any{
		"common_name": "C16 " + name, "key_type": "ec", "key_bits": 256, "ttl": "80000h", "issuer_name": name,
	})
	if !c16OK(resp, err) || resp == nil {
		panic("c16: generate root: " + c16Why(resp, err))
	}
	c, err := c16ParseCertPEM(resp.Data["certificate"].(string))
	if err != nil {
		panic(err)
	}
	s, err := c16ParseKeyPEM(resp.Data["private_key"].(string))
	if err != nil {
		panic(err)
	}
	w.iss = append(w.iss, c16Issuer{Name: name, cert: c, certPEM: resp.Data["certificate"].(string), signer: s, ID: fmt.Sprint(resp.Data["issuer_id"]), Parent: -1, Group: len(w.iss), KeyID: fmt.Sprint(resp.Data["key_id"])})
	w.step("add %s", name)
	return len(w.iss) - 1
}

// addSibling creates a second self-signed root with the subject and key of
// root i (a re-issued root): both form one issuer group sharing one CRL.
func (w *c16World) addSibling(i int) int {
	name := fmt.Sprintf("%ssib%d", w.iss[i].Name, len(w.iss))
	resp, err := w.do(logical.UpdateOperation, "issuers/generate/root/existing", map[string]any{
		"common_name": "C16 " + w.iss[i].Name, "key_ref": w.iss[i].KeyID, "ttl": "70000h", "issuer_name": name,
	})
	if !c16OK(resp, err) || resp == nil {
		panic("c16: generate sibling root: " + c16Why(resp, err))
	}
	c, err := c16ParseCertPEM(resp.Data["certificate"].(string))
	if err != nil {
		panic(err)
	}
	if !bytes.Equal(c.RawSubject, w.iss[i].cert.RawSubject) {
		panic("c16: sibling root has another subject")
	}
	w.iss = append(w.iss, c16Issuer{Name: name, cert: c, certPEM: resp.Data["certificate"].(string), signer: w.iss[i].signer, ID: fmt.Sprint(resp.Data["issuer_id"]), Parent: -1, Group: w.iss[i].Group, KeyID: w.iss[i].KeyID})
	w.step("add %s (same subject and key as %s)", name, w.iss[i].Name)
	w.r.Count("sibling_issuers", 1)
	return len(w.iss) - 1
}

// groupEverRemoved: some issuer with this subject and key was absent from the mount at some time.
func (w *c16World) groupEverRemoved(g int) bool {
	for j := range w.iss {
		if w.iss[j].Group == g && w.iss[j].EverRemoved {
			return true
		}
	}
	return false
}

// crlIssuer returns the index of a present issuer whose CRL covers certificates of issuer i:
// i itself, else another present member of its group; -1 if none.
func (w *c16World) crlIssuer(i int) int {
	if w.iss[i].ID != "" {
		return i
	}
	for j := range w.iss {
		if w.iss[j].ID != "" && w.iss[j].Group == w.iss[i].Group {
			return j
		}
	}
	return -1
}

// addIntermediate creates an intermediate CA signed by issuer parent inside
// the mount (so its certificate is stored like any issued certificate).
//
// With importNow=false the signed CA certificate is only stored like any other
// issued certificate; it can be revoked by serial and be imported as an issuer
// later (readdIssuer).
func (w *c16World) addIntermediate(parent int, importNow bool) int {
	name := fmt.Sprintf("int%d", len(w.iss))
	resp, err := w.do(logical.UpdateOperation, "issuers/generate/intermediate/exported", map[string]any{
		"common_name": "C16 " + name, "key_type": "ec", "key_bits": 256,
	})
	if !c16OK(resp, err) || resp == nil {
		panic("c16: generate intermediate: " + c16Why(resp, err))
	}
	csr := resp.Data["csr"].(string)
	s, err := c16ParseKeyPEM(resp.Data["private_key"].(string))
	if err != nil {
		panic(err)
	}
	resp, err = w.do(logical.UpdateOperation, "issuer/"+w.iss[parent].ID+"/sign-intermediate", map[string]any{
		"csr": csr, "common_name": "C16 " + name, "ttl": "40000h",
	})
	if !c16OK(resp, err) || resp == nil {
		panic("c16: sign intermediate: " + c16Why(resp, err))
	}
	certPEM := resp.Data["certificate"].(string)
	c, err := c16ParseCertPEM(certPEM)
	if err != nil {
		panic(err)
	}
	if !importNow {
		w.iss = append(w.iss, c16Issuer{Name: name, cert: c, certPEM: certPEM, signer: s, ID: "", Parent: parent, EverRemoved: true, Group: len(w.iss)})
		ii := len(w.iss) - 1
		w.certs = append(w.certs, c16Cert{Serial: c16Serial(c.SerialNumber), cert: c, pem: certPEM, Iss: parent, Stored: true, IsIssuer: ii})
		w.step("sign CA certificate %s (%s) by %s, not imported as issuer", name, c16Serial(c.SerialNumber), w.iss[parent].Name)
		return ii
	}
	resp, err = w.do(logical.UpdateOperation, "issuers/import/cert", map[string]any{"pem_bundle": certPEM})
	if !c16OK(resp, err) || resp == nil {
		panic("c16: import intermediate: " + c16Why(resp, err))
	}
	ids, _ := resp.Data["imported_issuers"].([]string)
	if len(ids) != 1 {
		panic(fmt.Sprintf("c16: import intermediate: imported_issuers=%v", resp.Data["imported_issuers"]))
	}
	if r2, e2 := w.do(logical.UpdateOperation, "issuer/"+ids[0], map[string]any{"issuer_name": name}); !c16OK(r2, e2) {
		panic("c16: name intermediate: " + c16Why(r2, e2))
	}
	w.iss = append(w.iss, c16Issuer{Name: name, cert: c, certPEM: certPEM, signer: s, ID: ids[0], Parent: parent, Group: len(w.iss)})
	ii := len(w.iss) - 1
	w.certs = append(w.certs, c16Cert{Serial: c16Serial(c.SerialNumber), cert: c, pem: certPEM, Iss: parent, Stored: true, IsIssuer: ii})
	w.step("add %s signed by %s", name, w.iss[parent].Name)
	return ii
}

func (w *c16World) removeIssuer(i int) bool {
	is := &w.iss[i]
	resp, err := w.do(logical.DeleteOperation, "issuer/"+is.ID, nil)
	w.step("delete issuer %s -> %s", is.Name, c16Why(resp, err))
	if !c16OK(resp, err) {
		return false
	}
	delete(w.obs, is.ID)
	is.ID = ""
	is.EverRemoved = true
	if w.cfg.Disable {
		for j := range w.iss {
			if w.iss[j].Group == is.Group {
				w.iss[j].StaleAssoc = true
			}
		}
	}
	w.r.Count("issuer_removed", 1)
	return true
}

func (w *c16World) readdIssuer(i int) bool {
	is := &w.iss[i]
	resp, err := w.do(logical.UpdateOperation, "issuers/import/bundle", map[string]any{"pem_bundle": is.certPEM})
	w.step("re-import issuer %s -> %s", is.Name, c16Why(resp, err))
	if !c16OK(resp, err) || resp == nil {
		return false
	}
	ids, _ := resp.Data["imported_issuers"].([]string)
	if len(ids) != 1 {
		return false
	}
	is.ID = ids[0]
	is.Revoked = false // a re-imported issuer entry starts unrevoked; its old revocation record (if any) stays in the ledger
	if w.cfg.Disable {
		for j := range w.iss {
			if w.iss[j].Group == is.Group {
				w.iss[j].StaleAssoc = true
			}
		}
	}
	w.r.Count("issuer_readded", 1)
	return true
}

func (w *c16World) defaultID() string {
	resp, err := w.do(logical.ReadOperation, "config/issuers", nil)
	if !c16OK(resp, err) || resp == nil {
		return ""
	}
	return fmt.Sprint(resp.Data["default"])
}

func (w *c16World) present() []int {
	var out []int
	for i := range w.iss {
		if w.iss[i].ID != "" {
			out = append(out, i)
		}
	}
	return out
}

// ---- certificates

func (w *c16World) issue(i int, lease bool) int {
	role := "r"
	if lease {
		role = "rl"
	}
	resp, err := w.do(logical.UpdateOperation, "issuer/"+w.iss[i].ID+"/issue/"+role, map[string]any{
		"common_name": fmt.Sprintf("leaf%d.c16.example", len(w.certs)), "ttl": "24h",
	})
	if !c16OK(resp, err) || resp == nil {
		w.step("issue from %s -> %s", w.iss[i].Name, c16Why(resp, err))
		return -1
	}
	p := resp.Data["certificate"].(string)
	c, err := c16ParseCertPEM(p)
	if err != nil {
		panic(err)
	}
	kp, _ := resp.Data["private_key"].(string)
	w.certs = append(w.certs, c16Cert{Serial: c16Serial(c.SerialNumber), cert: c, pem: p, keyPEM: kp, Iss: i, secret: resp.Secret, Stored: true, IsIssuer: -1})
	w.step("issue %s from %s", c16Serial(c.SerialNumber), w.iss[i].Name)
	w.r.Count("certs_issued", 1)
	return len(w.certs) - 1
}

// forge signs a leaf outside the mount with the issuer's exported key: the
// mount has never seen it (bring-your-own-certificate revocation), and its
// validity can lie entirely in the past.
func (w *c16World) forge(i int, expired bool) int {
	k, err := ecdsa.GenerateKey(elliptic.P256(), rand.Reader)
	if err != nil {
		panic(err)
	}
	w.nforge++
	sn := make([]byte, 16)
	if _, err := rand.Read(sn); err != nil {
		panic(err)
	}
	sn[0] = 0x10 | (sn[0] & 0x6f)
	now := time.Now()
	nb, na := now.Add(-time.Hour), now.Add(24*time.Hour)
	if expired {
		nb, na = now.Add(-72*time.Hour), now.Add(-24*time.Hour)
	}
	tpl := &x509.Certificate{
		SerialNumber: new(big.Int).SetBytes(sn),
		Subject:      pkix.Name{CommonName: fmt.Sprintf("forged%d.c16.example", w.nforge)},
		NotBefore:    nb, NotAfter: na,
		KeyUsage:    x509.KeyUsageDigitalSignature,
		ExtKeyUsage: []x509.ExtKeyUsage{x509.ExtKeyUsageServerAuth},
	}
	der, err := x509.CreateCertificate(rand.Reader, tpl, w.iss[i].cert, &k.PublicKey, w.iss[i].signer)
	if err != nil {
		panic(err)
	}
	c, err := x509.ParseCertificate(der)
	if err != nil {
		panic(err)
	}
	kd, err := x509.MarshalECPrivateKey(k)
	if err != nil {
		panic(err)
	}
	w.certs = append(w.certs, c16Cert{
		Serial: c16Serial(c.SerialNumber), cert: c, Iss: i, Expired: expired, IsIssuer: -1,
		pem:    string(pem.EncodeToMemory(&pem.Block{Type: "CERTIFICATE", Bytes: der})),
		keyPEM: string(pem.EncodeToMemory(&pem.Block{Type: "EC PRIVATE KEY", Bytes: kd})),
	})
	w.step("forge %s under %s expired=%v", c16Serial(c.SerialNumber), w.iss[i].Name, expired)
	w.r.Count("certs_forged", 1)
	return len(w.certs) - 1
}

// revoke asks for revocation of certificate ci through one of the API's
// routes and records a ledger entry iff the API reported success.
// via: serial | serial-hyphen | serial-upper | cert | key-serial | key-cert | lease | issuer
func (w *c16World) revoke(ci int, via string) bool {
	c := &w.certs[ci]
	var resp *logical.Response
	var err error
	switch via {
	case "serial":
		resp, err = w.do(logical.UpdateOperation, "revoke", map[string]any{"serial_number": c.Serial})
	case "serial-hyphen":
		resp, err = w.do(logical.UpdateOperation, "revoke", map[string]any{"serial_number": strings.ReplaceAll(c.Serial, ":", "-")})
	case "serial-upper":
		resp, err = w.do(logical.UpdateOperation, "revoke", map[string]any{"serial_number": strings.ToUpper(c.Serial)})
	case "cert":
		resp, err = w.do(logical.UpdateOperation, "revoke", map[string]any{"certificate": c.pem})
	case "key-serial":
		resp, err = w.do(logical.UpdateOperation, "revoke-with-key", map[string]any{"serial_number": c.Serial, "private_key": c.keyPEM})
	case "key-cert":
		resp, err = w.do(logical.UpdateOperation, "revoke-with-key", map[string]any{"certificate": c.pem, "private_key": c.keyPEM})
	case "lease":
		resp, err = w.b.HandleRequest(c16Ctx, &logical.Request{Operation: logical.RevokeOperation, Path: "issue/rl", Secret: c.secret, Storage: w.st, MountPoint: "pki/", Data: map[string]any{}})
	case "issuer":
		resp, err = w.do(logical.UpdateOperation, "issuer/"+w.iss[c.IsIssuer].ID+"/revoke", nil)
	default:
		panic("c16: unknown revoke route " + via)
	}
	c.Attempted = true
	var rt int64
	var rfc string
	ok := false
	if c16OK(resp, err) && resp != nil {
		rfc, _ = resp.Data["revocation_time_rfc3339"].(string)
		if via == "issuer" {
			if rv, _ := resp.Data["revoked"].(bool); rv {
				rt, _ = resp.Data["revocation_time"].(int64)
				ok = rt > 0
			}
		} else if st, _ := resp.Data["state"].(string); st == "revoked" {
			rt, _ = resp.Data["revocation_time"].(int64)
			ok = true
		}
	}
	w.step("revoke %s via %s -> %s success=%v", c.Serial, via, c16Why(resp, err), ok)
	if !ok {
		return false
	}
	w.r.Count("revoke_success:"+via, 1)
	if via == "issuer" {
		w.iss[c.IsIssuer].Revoked = true
	}
	if e, have := w.ledger[c.Serial]; have {
		w.r.Count("rerevoke_success", 1)
		if via == "issuer" || e.Via == "issuer" {
			// issuer/<ref>/revoke is outside the property's wording (see check): observation only
			if rt != e.RevTime {
				w.r.Count("outside_wording_observations", 1)
				w.r.Count("outside_wording:C16-rerevoke-changed-revocation-time", 1)
				if c16NoteOnce(w.r.Name + "|C16-rerevoke-changed-revocation-time") {
					w.r.Note("outside the property's wording (issuer/<ref>/revoke), case %s: re-revoking %s reported revocation time %d, the first success reported %d", w.caseID, c.Serial, rt, e.RevTime)
				}
			}
		} else if (rt != e.RevTime || (rfc != "" && e.RevRFC != "" && rfc != e.RevRFC)) && !c.Expired {
			w.violate("C16-rerevoke-changed-revocation-time", fmt.Sprintf("re-revoking %s via %s reported revocation time %d (%s), the first success reported %d (%s)", c.Serial, via, rt, rfc, e.RevTime, e.RevRFC), nil)
		}
		return true
	}
	idAt := ""
	if k := w.crlIssuer(c.Iss); k >= 0 {
		idAt = w.iss[k].ID
	}
	if rt <= 0 {
		w.violate("C16-revoke-success-without-time", fmt.Sprintf("revocation of %s via %s reported state=revoked with revocation_time=%d", c.Serial, via, rt), nil)
	}
	w.ledger[c.Serial] = &c16Entry{Cert: ci, RevTime: rt, RevRFC: rfc, Via: via, AutoOffAtSuccess: !w.cfg.Auto, IDAtSuccess: idAt, numPending: true}
	w.order = append(w.order, c.Serial)
	w.r.Count("ledger_entries", 1)
	return true
}

// routes lists the revocation routes usable for a certificate.
func (w *c16World) routes(ci int) []string {
	c := &w.certs[ci]
	if c.IsIssuer >= 0 {
		if w.iss[c.IsIssuer].ID != "" {
			return []string{"issuer"}
		}
		return []string{"serial"}
	}
	var r []string
	if c.Stored {
		r = append(r, "serial", "serial-hyphen", "serial-upper", "cert")
		if c.keyPEM != "" {
			r = append(r, "key-serial", "key-cert")
		}
		if c.secret != nil {
			r = append(r, "lease")
		}
		return r
	}
	r = append(r, "cert", "key-cert")
	if c.Attempted {
		// a bring-your-own certificate is stored by its first revocation request
		r = append(r, "serial")
	}
	return r
}

// ---- other operations

func (w *c16World) rotate() bool {
	resp, err := w.do(logical.ReadOperation, "crl/rotate", nil)
	ok := c16OK(resp, err)
	w.step("crl/rotate -> %s", c16Why(resp, err))
	if ok {
		w.r.Count("rotations", 1)
		if !w.cfg.Disable {
			for _, e := range w.ledger {
				e.rotatedAfter = true
			}
			w.expectRebuilt = map[string]bool{}
			for _, i := range w.present() {
				w.expectRebuilt[w.iss[i].ID] = true
			}
		}
	}
	return ok
}

func (w *c16World) rotateDelta() bool {
	resp, err := w.do(logical.ReadOperation, "crl/rotate-delta", nil)
	w.step("crl/rotate-delta -> %s", c16Why(resp, err))
	return c16OK(resp, err)
}

func (w *c16World) periodic() bool {
	resp, err := w.b.HandleRequest(c16Ctx, &logical.Request{Operation: logical.RollbackOperation, Path: "", Storage: w.st, MountPoint: "pki/", Data: map[string]any{}})
	w.step("periodic -> %s", c16Why(resp, err))
	w.r.Count("periodic_runs", 1)
	return c16OK(resp, err)
}

// tidy starts a manual tidy and waits for the background worker to finish.
// The wait is bounded; running out of it is inconclusive, never a verdict.
func (w *c16World) tidy(certStore, revoked, assoc bool) bool {
	resp, err := w.do(logical.UpdateOperation, "tidy", map[string]any{
		"tidy_cert_store": certStore, "tidy_revoked_certs": revoked, "tidy_revoked_cert_issuer_associations": assoc,
		"safety_buffer": 1,
	})
	if !c16OK(resp, err) {
		w.step("tidy -> %s", c16Why(resp, err))
		return false
	}
	deadline := time.Now().Add(60 * time.Second)
	for w.b.tidyCASGuard.Load() {
		if time.Now().After(deadline) {
			w.r.Inconc("case %s: tidy did not finish within 60s", w.caseID)
			w.broken = true
			return false
		}
		time.Sleep(200 * time.Microsecond)
	}
	state := ""
	if sr, e := w.do(logical.ReadOperation, "tidy-status", nil); e == nil && sr != nil {
		state = fmt.Sprint(sr.Data["state"])
	}
	w.step("tidy cert_store=%v revoked=%v assoc=%v -> %s", certStore, revoked, assoc, state)
	w.r.Count("tidy_runs", 1)
	if assoc && state == "Finished" {
		for i := range w.iss {
			w.iss[i].StaleAssoc = false
		}
	}
	return state == "Finished"
}

// setCfg writes every field of config/crl (a "full" write). Empty timing fields mean the defaults.
func (w *c16World) setCfg(n c16Cfg) bool {
	if !n.Auto {
		n.Delta = false
	}
	if n.Expiry == "" {
		n.Expiry = c16Timings[0][0]
	}
	if n.Grace == "" {
		n.Grace = c16Timings[0][1]
	}
	if n.DeltaInt == "" {
		n.DeltaInt = c16Timings[0][2]
	}
	return w.writeCfg(map[string]any{
		"auto_rebuild": n.Auto, "enable_delta": n.Delta, "disable": n.Disable, "ocsp_disable": n.OcspDisable,
		"allow_expired_cert_revocation": n.AllowExpired,
		"expiry":                        n.Expiry, "auto_rebuild_grace_period": n.Grace, "delta_rebuild_interval": n.DeltaInt,
	})
}

// writeCfg sends the given fields (possibly only some) to config/crl. Whatever the answer, the mount's
// own report of its configuration (read back through the API, bypassing fault injection) is what the
// oracle uses from then on: "auto-rebuild off" in the property is what config/crl says.
func (w *c16World) writeCfg(data map[string]any) bool {
	old := w.cfg
	resp, err := w.do(logical.UpdateOperation, "config/crl", data)
	ok := c16OK(resp, err)
	w.readCfg()
	js, _ := json.Marshal(data)
	w.step("config/crl %s -> %s; config/crl now reads %+v", js, c16Why(resp, err), w.cfg)
	w.r.Count("config_writes", 1)
	if !ok {
		w.r.Count("config_writes_not_accepted", 1)
		if w.cfg != old {
			w.r.Count("config_changed_by_unaccepted_write", 1)
		}
	} else {
		w.r.Count("config_changes", 1)
		// what was asked for and accepted should be what is read back; a difference is not covered by the
		// property's wording (the oracle follows the read-back), it is noted
		cur := map[string]any{"auto_rebuild": w.cfg.Auto, "enable_delta": w.cfg.Delta, "disable": w.cfg.Disable, "ocsp_disable": w.cfg.OcspDisable,
			"allow_expired_cert_revocation": w.cfg.AllowExpired, "expiry": w.cfg.Expiry, "auto_rebuild_grace_period": w.cfg.Grace, "delta_rebuild_interval": w.cfg.DeltaInt}
		for k, v := range data {
			if cv, have := cur[k]; have && cv != v {
				w.r.Count("config_readback_differs_from_accepted_write", 1)
				if c16NoteOnce(w.r.Name + "|cfg-readback|" + k) {
					w.r.Note("case %s: config/crl accepted %s=%v but reads back %v", w.caseID, k, v, cv)
				}
			}
		}
	}
	w.countTransitions(old, w.cfg)
	return ok
}

// countTransitions records which kinds of configuration transitions the run exercised.
func (w *c16World) countTransitions(old, n c16Cfg) {
	c := func(k string) { w.r.Count("cfgtrans:"+k, 1) }
	if old == n {
		c("none")
		return
	}
	switch {
	case !old.Auto && n.Auto && n.Delta:
		c("auto_on_with_delta")
	case !old.Auto && n.Auto:
		c("auto_on_without_delta")
	case old.Auto && !n.Auto:
		c("auto_off")
		if old.Delta {
			c("auto_off_from_delta")
		} else {
			c("auto_off_from_no_delta")
		}
		if w.pendingAbsent > 0 && !n.Disable {
			// revocations reported successful under auto-rebuild that no complete CRL lists yet
			c("auto_off_with_pending_revocations")
			if !old.Delta {
				c("auto_off_with_pending_revocations_delta_never_on")
			}
		}
	}
	if old.Auto && n.Auto && old.Delta != n.Delta {
		if n.Delta {
			c("delta_on")
		} else {
			c("delta_off")
		}
	}
	if old.Disable != n.Disable {
		if n.Disable {
			c("disable_on")
		} else {
			c("disable_off")
			if len(w.ledger) > 0 {
				c("disable_off_with_ledger")
			}
			if n.Auto {
				c("disable_off_under_auto_rebuild")
			}
		}
	}
	if old.Expiry != n.Expiry {
		c("expiry_change")
	}
	if old.Grace != n.Grace {
		c("grace_period_change")
	}
	if old.DeltaInt != n.DeltaInt {
		c("delta_interval_change")
	}
	if old.OcspDisable != n.OcspDisable {
		c("ocsp_disable_flip")
	}
	if old.AllowExpired != n.AllowExpired {
		c("allow_expired_flip")
	}
}

func (w *c16World) readCfg() {
	resp, err := w.doRaw(logical.ReadOperation, "config/crl")
	if !c16OK(resp, err) || resp == nil {
		return
	}
	g := func(k string) bool { v, _ := resp.Data[k].(bool); return v }
	s := func(k string) string { v, _ := resp.Data[k].(string); return v }
	w.cfg = c16Cfg{Auto: g("auto_rebuild"), Delta: g("enable_delta"), Disable: g("disable"), OcspDisable: g("ocsp_disable"), AllowExpired: g("allow_expired_cert_revocation"),
		Expiry: s("expiry"), Grace: s("auto_rebuild_grace_period"), DeltaInt: s("delta_rebuild_interval")}
}

// ------------------------------------------------------------------ oracle

var (
	c16NotedMu sync.Mutex
	c16Noted   = map[string]bool{}
)

// c16NoteOnce is true the first time key is seen in this process.
func c16NoteOnce(key string) bool {
	c16NotedMu.Lock()
	defer c16NotedMu.Unlock()
	if c16Noted[key] {
		return false
	}
	c16Noted[key] = true
	return true
}

var c16DeltaOID = asn1.ObjectIdentifier{2, 5, 29, 27}

func c16IsDelta(rl *x509.RevocationList) bool {
	for _, e := range rl.Extensions {
		if e.Id.Equal(c16DeltaOID) {
			return true
		}
	}
	return false
}

func (w *c16World) rawBody(path string) ([]byte, string) {
	resp, err := w.do(logical.ReadOperation, path, nil)
	if err != nil {
		return nil, "error: " + err.Error()
	}
	if resp == nil {
		return nil, "nil response"
	}
	if resp.IsError() {
		return nil, "refused: " + resp.Error().Error()
	}
	b, _ := resp.Data[logical.HTTPRawBody].([]byte)
	if len(b) == 0 {
		return nil, fmt.Sprintf("empty body (status %v)", resp.Data[logical.HTTPStatusCode])
	}
	return b, ""
}

// crlDER fetches a CRL through any of the API's CRL endpoints and returns its DER bytes: raw DER bodies,
// raw PEM bodies and the JSON forms ("crl" / "certificate" holding PEM) are all understood.
func (w *c16World) crlDER(path string) ([]byte, string) {
	resp, err := w.do(logical.ReadOperation, path, nil)
	if err != nil {
		return nil, "error: " + err.Error()
	}
	if resp == nil {
		return nil, "nil response"
	}
	if resp.IsError() {
		return nil, "refused: " + resp.Error().Error()
	}
	w.r.Count("crl_endpoint_reads", 1)
	var pemBytes []byte
	if _, isRaw := resp.Data[logical.HTTPRawBody]; isRaw {
		b, _ := resp.Data[logical.HTTPRawBody].([]byte)
		if len(b) == 0 {
			return nil, fmt.Sprintf("empty body (status %v)", resp.Data[logical.HTTPStatusCode])
		}
		if !strings.HasSuffix(path, "/pem") {
			return b, ""
		}
		pemBytes = b
	} else if v, ok := resp.Data["crl"].(string); ok {
		pemBytes = []byte(v)
	} else if v, ok := resp.Data["certificate"].(string); ok {
		pemBytes = []byte(v)
	} else {
		return nil, "response carries no CRL"
	}
	blk, _ := pem.Decode(pemBytes)
	if blk == nil || blk.Type != "X509 CRL" {
		return nil, "body is not a PEM X509 CRL"
	}
	return blk.Bytes, ""
}

// c16IssuerCRLPaths: every endpoint that serves the complete CRL of one issuer reference.
func c16IssuerCRLPaths(ref string) []string {
	return []string{"issuer/" + ref + "/crl/der", "issuer/" + ref + "/crl/pem", "issuer/" + ref + "/crl"}
}

// c16DefaultCRLPaths: the endpoints that serve the default issuer's complete CRL.
var c16DefaultCRLPaths = []string{"crl", "crl/pem", "cert/crl", "issuer/default/crl/der", "issuer/default/crl/pem", "issuer/default/crl"}

type c16Status struct {
	found bool
	rt    int64
	rfc   string
	why   string
}

func (w *c16World) certStatus(serial string) c16Status {
	resp, err := w.do(logical.ReadOperation, "cert/"+serial, nil)
	if err != nil {
		return c16Status{why: "error: " + err.Error()}
	}
	if resp == nil {
		return c16Status{why: "not found"}
	}
	if resp.IsError() {
		return c16Status{why: "refused: " + resp.Error().Error()}
	}
	rt, _ := resp.Data["revocation_time"].(int64)
	rfc, _ := resp.Data["revocation_time_rfc3339"].(string)
	return c16Status{found: true, rt: rt, rfc: rfc}
}

type c16Ocsp struct {
	status    string // good | revoked | unknown | error:<...>
	verified  bool   // signature verified under the certificate's issuer
	revokedAt int64
}

func (w *c16World) ocspStatus(c *c16Cert) c16Ocsp {
	is := &w.iss[c.Iss]
	reqDER, err := ocsp.CreateRequest(c.cert, is.cert, &ocsp.RequestOptions{Hash: crypto.SHA256})
	if err != nil {
		panic(err)
	}
	raw, why := w.rawBody("ocsp/" + base64.StdEncoding.EncodeToString(reqDER))
	if raw == nil {
		return c16Ocsp{status: "error:" + why}
	}
	resp, err := ocsp.ParseResponse(raw, nil)
	if err != nil {
		// non-successful responder status (unauthorized, internal error, malformed)
		return c16Ocsp{status: "error:" + err.Error()}
	}
	out := c16Ocsp{}
	switch resp.Status {
	case ocsp.Good:
		out.status = "good"
	case ocsp.Revoked:
		out.status = "revoked"
		out.revokedAt = resp.RevokedAt.Unix()
	default:
		out.status = "unknown"
	}
	if resp.SerialNumber == nil || resp.SerialNumber.Cmp(c.cert.SerialNumber) != 0 {
		out.status = "error:response for another serial"
		return out
	}
	if _, err := ocsp.ParseResponseForCert(raw, c.cert, is.cert); err == nil {
		out.verified = true
	}
	return out
}

// c16DescribeCRL renders what an endpoint served, for witnesses.
func c16DescribeCRL(der []byte, why string) string {
	if der == nil {
		return "no CRL (" + why + ")"
	}
	rl, err := x509.ParseRevocationList(der)
	if err != nil {
		return "unparsable bytes"
	}
	var ss []string
	for _, e := range rl.RevokedCertificateEntries {
		ss = append(ss, c16Serial(e.SerialNumber))
	}
	sort.Strings(ss)
	return fmt.Sprintf("CRL #%s listing %d serial(s) %v", c16NumStr(rl.Number), len(ss), ss)
}

func c16NumStr(n *big.Int) string {
	if n == nil {
		return "<none>"
	}
	return n.String()
}

// check is the oracle. It is run after every step of every workload.
func (w *c16World) check(at string) {
	if w.broken {
		return
	}
	r := w.r
	r.Count("oracle_checks", 1)
	now := time.Now()
	def := w.defaultID()

	// serial -> certificate index, for spurious-entry detection
	bySerial := map[string]int{}
	for i := range w.certs {
		bySerial[w.certs[i].Serial] = i
	}

	// ---- which CRL endpoint is read first in this pass rotates from pass to pass: a pending rebuild (after a
	// restart, after a failed build) has to be carried out by whichever reader comes first, so what the first
	// reader is served must be what every other endpoint of the same issuer serves right afterwards
	w.nchecks++
	type firstRead struct {
		path string
		iss  string // issuer id
		der  []byte
		why  string
	}
	var first *firstRead
	{
		type ep struct{ path, iss string }
		var all []ep
		for i := range w.iss {
			if w.iss[i].ID == "" {
				continue
			}
			for _, p := range c16IssuerCRLPaths(w.iss[i].ID) {
				all = append(all, ep{p, w.iss[i].ID})
			}
			if w.iss[i].ID == def {
				for _, p := range c16DefaultCRLPaths {
					all = append(all, ep{p, def})
				}
			}
		}
		if len(all) > 0 {
			e := all[w.nchecks%len(all)]
			first = &firstRead{path: e.path, iss: e.iss}
			first.der, first.why = w.crlDER(e.path)
			r.Count("first_read_endpoint:"+strings.ReplaceAll(e.path, e.iss, "<id>"), 1)
		}
	}

	// ---- every present issuer's complete CRL
	crls := map[int]*x509.RevocationList{}
	for i := range w.iss {
		is := &w.iss[i]
		if is.ID == "" {
			continue
		}
		raw, why := w.crlDER("issuer/" + is.ID + "/crl/der")
		if first != nil && first.iss == is.ID && !bytes.Equal(first.der, raw) {
			w.violate("C16-crl-endpoints-disagree", fmt.Sprintf("[%s] %s, the first CRL endpoint read in this pass, served %s for issuer %s; issuer/<id>/crl/der read right afterwards serves %s", at, strings.ReplaceAll(first.path, is.ID, "<id>"), c16DescribeCRL(first.der, first.why), is.Name, c16DescribeCRL(raw, why)), nil)
		}
		if raw == nil {
			w.violate("C16-crl-unavailable", fmt.Sprintf("[%s] no complete CRL is served for issuer %s: %s", at, is.Name, why), nil)
			continue
		}
		rl, err := x509.ParseRevocationList(raw)
		if err != nil {
			w.violate("C16-crl-unparsable", fmt.Sprintf("[%s] CRL of issuer %s does not parse: %v", at, is.Name, err), nil)
			continue
		}
		if err := rl.CheckSignatureFrom(is.cert); err != nil {
			w.violate("C16-crl-bad-signature", fmt.Sprintf("[%s] CRL of issuer %s does not verify under the issuer: %v", at, is.Name, err), nil)
			continue
		}
		if c16IsDelta(rl) {
			w.violate("C16-crl-delta-served-as-complete", fmt.Sprintf("[%s] complete-CRL endpoint of issuer %s serves a delta CRL", at, is.Name), nil)
			continue
		}
		if rl.Number == nil {
			w.violate("C16-crl-no-number", fmt.Sprintf("[%s] CRL of issuer %s carries no CRL number", at, is.Name), nil)
			continue
		}
		r.Count("crls_verified", 1)
		r.Count("crls_parsed", 1)
		sum := sha256.Sum256(raw)
		if _, ok := w.obs[is.ID]; ok {
			r.Count("crl_number_comparisons", 1)
		}
		if prev, ok := w.obs[is.ID]; ok && prev.sum == sum && w.expectRebuilt[is.ID] {
			w.violate("C16-rotate-did-not-rebuild", fmt.Sprintf("[%s] crl/rotate reported success but issuer %s still serves the same complete CRL #%s", at, is.Name, rl.Number), nil)
		}
		if prev, ok := w.obs[is.ID]; ok && prev.sum != sum {
			r.Count("crl_rebuilds_observed", 1)
			if rl.Number.Cmp(prev.num) > 0 {
				r.Count("crl_number_increase_confirmed", 1)
				if w.cfg.Auto {
					r.Count("crl_number_increase_confirmed_under_auto_rebuild", 1)
				}
			}
			if !w.cfg.Disable {
				for j := range w.iss {
					if w.iss[j].Group == is.Group {
						w.iss[j].StaleAssoc = false // a full build re-associates revocation records with present issuers
					}
				}
			}
			if cmp := rl.Number.Cmp(prev.num); cmp <= 0 {
				class := "C16-crl-number-not-increasing"
				if cmp == 0 && w.cut != nil {
					for _, n := range w.cut.storedCRL[i] {
						if n.Cmp(rl.Number) == 0 {
							class = "C16-crl-number-reused-after-interrupted-build"
						}
					}
				}
				w.violate(class, fmt.Sprintf("[%s] issuer %s: a different complete CRL is served with number %s after number %s", at, is.Name, rl.Number, prev.num),
					map[string]any{"issuer": is.Name, "previous_number": prev.num.String(), "number": rl.Number.String()})
			}
		}
		w.obs[is.ID] = c16Obs{num: rl.Number, sum: sum}
		crls[i] = rl

		// every other endpoint of this issuer serves the same bytes
		paths := c16IssuerCRLPaths(is.ID)[1:]
		if is.ID == def {
			paths = append(paths, c16DefaultCRLPaths...)
		}
		for _, p := range paths {
			got, gwhy := w.crlDER(p)
			if is.ID == def {
				r.Count("legacy_endpoint_checks", 1)
			}
			r.Count("crl_endpoint_comparisons", 1)
			if !bytes.Equal(got, raw) {
				// a rebuild triggered by the first fetch cannot explain a difference: all fetch paths rebuild first
				w.violate("C16-crl-endpoints-disagree", fmt.Sprintf("[%s] %s serves %s, issuer/<id>/crl/der of issuer %s serves complete CRL #%s", at, strings.ReplaceAll(p, is.ID, "<id>"), c16DescribeCRL(got, gwhy), is.Name, rl.Number), nil)
			}
		}

		// no entry that nobody asked to revoke, and none on the wrong issuer's list
		for _, e := range rl.RevokedCertificateEntries {
			s := c16Serial(e.SerialNumber)
			ci, known := bySerial[s]
			if !known || !w.certs[ci].Attempted {
				w.violate("C16-crl-lists-unrevoked-serial", fmt.Sprintf("[%s] CRL of issuer %s lists %s whose revocation was never requested", at, is.Name, s), nil)
				continue
			}
			ciss := w.certs[ci].Iss
			if w.iss[ciss].Group != is.Group && !w.iss[ciss].EverRemoved {
				w.violate("C16-crl-wrong-issuer", fmt.Sprintf("[%s] CRL of issuer %s lists %s which was issued by %s", at, is.Name, s, w.iss[ciss].Name), nil)
			}
		}
	}

	w.expectRebuilt = nil

	// ---- revoked listing
	listed := map[string]bool{}
	if resp, err := w.do(logical.ListOperation, "certs/revoked", nil); c16OK(resp, err) && resp != nil {
		if ks, ok := resp.Data["keys"].([]string); ok {
			for _, k := range ks {
				listed[k] = true
			}
		}
	}

	// ---- every ledger entry
	ev := func(e *c16Entry, class, what string, extra map[string]any) {
		if e.Via == "issuer" {
			// issuer/<ref>/revoke is not among the operations the property quantifies over
			// (issue/revoke/rotate/tidy/issuer add-remove/config): recorded as an observation, not a verdict.
			r.Count("outside_wording_observations", 1)
			r.Count("outside_wording:"+class, 1)
			if c16NoteOnce(r.Name + "|" + class) {
				r.Note("outside the property's wording (revocation through issuer/<ref>/revoke), case %s: [%s] %s", w.caseID, class, what)
			}
			return
		}
		w.violate(class, what, extra)
	}
	pendingAbsent := 0
	for _, serial := range w.order {
		e := w.ledger[serial]
		c := &w.certs[e.Cert]
		is := &w.iss[c.Iss]
		if c.Expired || !c.cert.NotAfter.After(now.Add(time.Hour)) {
			r.Count("expired_entries_not_obliged", 1)
			if st := w.certStatus(serial); !st.found || st.rt == 0 {
				r.Count("expired_entries_seen_removed", 1)
			}
			continue
		}
		r.Count("entry_checks", 1)
		// certificate status API
		st := w.certStatus(serial)
		switch {
		case !st.found:
			ev(e, "C16-cert-status-unavailable", fmt.Sprintf("[%s] cert/%s of a revoked, unexpired certificate: %s", at, serial, st.why), nil)
		case st.rt == 0:
			ev(e, "C16-cert-status-not-revoked", fmt.Sprintf("[%s] cert/%s reports revocation_time=0 after revocation was reported successful (via %s)", at, serial, e.Via), nil)
		case st.rt != e.RevTime || (e.Via != "issuer" && e.RevRFC != "" && st.rfc != e.RevRFC):
			ev(e, "C16-revocation-time-altered", fmt.Sprintf("[%s] cert/%s reports revocation time %d (%s), the revoke call reported %d (%s)", at, serial, st.rt, st.rfc, e.RevTime, e.RevRFC), nil)
		default:
			r.Count("cert_status_revoked", 1)
		}
		if !listed[serial] {
			ev(e, "C16-revoked-list-missing", fmt.Sprintf("[%s] certs/revoked does not list %s", at, serial), nil)
		}
		// OCSP
		if !w.cfg.OcspDisable {
			o := w.ocspStatus(c)
			if is.ID != "" {
				noAnswer := o.status != "revoked" && o.status != "good" // unknown, or unauthorized when there is no default issuer to sign "unknown"
				if noAnswer && is.StaleAssoc {
					// the issuer was deleted and imported again while CRL building is disabled: nothing has
					// re-associated the revocation record with the new issuer id, and OCSP only looks at the old id
					ev(e, "C16-ocsp-no-answer-stale-issuer-association-while-crl-disabled", fmt.Sprintf("[%s] OCSP for %s answers %q although the certificate is revoked and its issuer %s is present: an issuer with this subject and key was deleted or re-imported while config/crl disable=true, nothing has re-associated the revocation record since, and OCSP only looks at the recorded (deleted) issuer id", at, serial, o.status, is.Name), nil)
				} else if noAnswer && w.groupEverRemoved(is.Group) && c.IsIssuer >= 0 && w.iss[c.IsIssuer].ID != "" {
					// same root cause as the CRL symptom of this class: the CRL builder skips the revocation
					// record of a certificate that is itself an issuer, so the record is never re-associated
					// with its (re-imported) issuer either, and OCSP keeps looking at the deleted issuer id
					ev(e, "C16-revoked-ca-cert-missing-from-crl-while-imported-as-issuer", fmt.Sprintf("[%s] OCSP for the revoked CA certificate %s answers unknown: its revocation record still names the deleted id of issuer %s because records of certificates that are imported as issuers are skipped by the CRL builder", at, serial, is.Name), nil)
				} else if o.status != "revoked" || !o.verified {
					ev(e, "C16-ocsp-not-revoked", fmt.Sprintf("[%s] OCSP for %s (issuer %s present) answers %q verified=%v", at, serial, is.Name, o.status, o.verified), nil)
				} else if o.revokedAt != e.RevTime {
					ev(e, "C16-revocation-time-altered", fmt.Sprintf("[%s] OCSP for %s reports revokedAt=%d, the revoke call reported %d", at, serial, o.revokedAt, e.RevTime), nil)
				} else {
					r.Count("ocsp_revoked", 1)
				}
			} else {
				if o.status == "good" {
					ev(e, "C16-ocsp-good-for-revoked", fmt.Sprintf("[%s] OCSP for %s answers good (its issuer %s is removed)", at, serial, is.Name), nil)
				} else {
					r.Count("ocsp_issuer_removed_not_good", 1)
				}
			}
		}
		// complete CRL of its issuer (or of a present issuer with the same subject and key)
		ciss := w.crlIssuer(c.Iss)
		if ciss < 0 {
			r.Count("crl_not_obliged_issuer_removed", 1)
			e.absentPending = false
			continue
		}
		if ciss != c.Iss {
			r.Count("crl_checked_on_equivalent_issuer", 1)
			is = &w.iss[ciss]
		}
		rl := crls[ciss]
		if rl == nil {
			continue
		}
		if w.cfg.Disable {
			r.Count("crl_not_obliged_disabled", 1)
			e.absentPending = false
			e.numPending = false // any CRL built once building is enabled again is "built afterwards"
			e.IDAtSuccess = ""
			continue
		}
		builtAfter := e.IDAtSuccess != is.ID || (!e.numPending && e.numAtSuccess != nil && rl.Number.Cmp(e.numAtSuccess) > 0)
		// The obligation follows the configuration in force NOW (as config/crl reports it):
		//  * auto-rebuild off: "the CRL served once the revoke call has returned already lists the serial" -
		//    every call that reported this serial revoked has returned, so the CRL served now lists it,
		//    whatever the configuration was when the revocation was first reported;
		//  * auto-rebuild on: the serial is on every complete CRL built after the report, in particular on
		//    the one built by an explicit crl/rotate that succeeded after the report, and on all later ones.
		must := !w.cfg.Auto || e.AutoOffAtSuccess || builtAfter || e.rotatedAfter
		if e.numPending && e.IDAtSuccess == is.ID {
			e.numAtSuccess = rl.Number
			e.numPending = false
		}
		var hit *x509.RevocationListEntry
		for k := range rl.RevokedCertificateEntries {
			if rl.RevokedCertificateEntries[k].SerialNumber.Cmp(c.cert.SerialNumber) == 0 {
				hit = &rl.RevokedCertificateEntries[k]
				break
			}
		}
		if !must {
			r.Count("crl_not_obliged_auto_rebuild_pending", 1)
			if hit == nil {
				e.absentPending = true
				pendingAbsent++
				r.Count("crl_absent_while_auto_rebuild_pending", 1)
			}
			continue
		}
		switch {
		case !w.cfg.Auto && !e.AutoOffAtSuccess:
			r.Count("crl_obliged_auto_off_now_revoked_under_auto", 1)
		case !w.cfg.Auto:
			r.Count("crl_obliged_auto_off", 1)
		case e.rotatedAfter:
			r.Count("crl_obliged_after_rotate_under_auto", 1)
		default:
			r.Count("crl_obliged_later_build_under_auto", 1)
		}
		if hit != nil {
			if hit.RevocationTime.Unix() != e.RevTime {
				ev(e, "C16-revocation-time-altered", fmt.Sprintf("[%s] CRL of %s lists %s revoked at %d, the revoke call reported %d", at, is.Name, serial, hit.RevocationTime.Unix(), e.RevTime), nil)
			}
			r.Count("crl_presence_confirmed", 1)
			if builtAfter {
				r.Count("crl_presence_confirmed_in_later_build", 1)
			}
			if e.absentPending {
				// was pending (absent, not obliged) at the previous pass, is obliged and present now
				r.Count("pending_revocation_seen_published", 1)
				if !w.cfg.Auto {
					r.Count("pending_revocation_seen_published_on_leaving_auto_rebuild", 1)
				}
				e.absentPending = false
			}
			continue
		}
		wasPending := e.absentPending
		e.absentPending = false
		// missing: classify
		class := "C16-serial-missing-from-crl"
		extra := map[string]any{"serial": serial, "issuer": is.Name, "served_crl_number": rl.Number.String(), "via": e.Via, "revocation_record_visible": st.found && st.rt > 0,
			"auto_rebuild_now": w.cfg.Auto, "auto_rebuild_off_when_first_reported": e.AutoOffAtSuccess, "complete_crl_built_since_report": builtAfter, "crl_rotate_succeeded_since_report": e.rotatedAfter}
		// The most specific signature first: a revoked CA certificate that is at present imported as an issuer
		// is missing with or without any interruption, so an interruption elsewhere does not explain it.
		if c.IsIssuer >= 0 && w.iss[c.IsIssuer].ID != "" && class == "C16-serial-missing-from-crl" {
			if resp, err := w.do(logical.ReadOperation, "issuer/"+w.iss[c.IsIssuer].ID, nil); c16OK(resp, err) && resp != nil {
				if rv, _ := resp.Data["revoked"].(bool); !rv {
					// the revoked certificate is a CA certificate that is (now) imported as an issuer whose entry is
					// not marked revoked: the CRL builder skips revocation records of issuer certificates
					class = "C16-revoked-ca-cert-missing-from-crl-while-imported-as-issuer"
					extra["imported_as_issuer"] = w.iss[c.IsIssuer].Name
				}
			}
		}
		if class == "C16-serial-missing-from-crl" && w.cut != nil && w.cut.RecordExisted[serial] && !w.cfg.Auto && st.found && st.rt > 0 {
			if nb := w.cut.numBefore[is.ID]; nb != nil && nb.Cmp(rl.Number) == 0 {
				// F5 signature: the record exists, the CRL build that followed it was interrupted, no build
				// has succeeded since (the served CRL is still the one from before), auto-rebuild is off.
				class = "C16-F5-revoked-serial-missing-from-crl-after-failed-rebuild"
				extra["f5_signature"] = map[string]any{
					"revocation_record_exists": true, "auto_rebuild": false, "crl_disabled": false,
					"operation_interrupted_after_record_was_written": w.cut.Kind + " " + w.cut.At,
					"crl_number_before_interruption":                 nb.String(), "crl_number_served_now": rl.Number.String(),
					"no_complete_build_succeeded_since": true,
				}
			}
		}
		if class == "C16-serial-missing-from-crl" {
			switch {
			case !w.cfg.Auto && !e.AutoOffAtSuccess && !builtAfter && w.cut == nil:
				// reported revoked while auto-rebuild was on, never published since; auto-rebuild is off now and
				// nothing was interrupted: leaving auto-rebuild mode did not publish the pending revocations
				class = "C16-pending-revocation-missing-from-crl-with-auto-rebuild-off"
				extra["was_pending_at_previous_pass"] = wasPending
			case w.cfg.Auto && e.rotatedAfter && !e.AutoOffAtSuccess && w.cut == nil:
				// reported revoked under auto-rebuild, an explicit crl/rotate succeeded afterwards, still not listed
				class = "C16-revocation-under-auto-rebuild-missing-from-crl-after-rotate"
			}
		}
		ev(e, class, fmt.Sprintf("[%s] complete CRL #%s of issuer %s does not list %s although its revocation was reported successful (via %s) and config/crl reads auto_rebuild=%v disable=%v", at, rl.Number, is.Name, serial, e.Via, w.cfg.Auto, w.cfg.Disable), extra)
	}
	w.pendingAbsent = pendingAbsent

	// ---- certificates nobody revoked stay unrevoked (a few per check)
	n := 0
	for i := len(w.certs) - 1; i >= 0 && n < 2; i-- {
		c := &w.certs[i]
		if c.Attempted || !c.Stored || c.Expired || c.IsIssuer >= 0 {
			continue
		}
		n++
		st := w.certStatus(c.Serial)
		if st.found && st.rt != 0 {
			w.violate("C16-unrevoked-reported-revoked", fmt.Sprintf("[%s] cert/%s reports a revocation nobody requested", at, c.Serial), nil)
		}
		if !w.cfg.OcspDisable && w.iss[c.Iss].ID != "" {
			if o := w.ocspStatus(c); o.status == "revoked" {
				w.violate("C16-unrevoked-reported-revoked", fmt.Sprintf("[%s] OCSP reports %s revoked, nobody requested that", at, c.Serial), nil)
			} else if o.status == "good" {
				r.Count("ocsp_good_for_unrevoked", 1)
			}
		}
	}
}

// unrevoked returns indices of certificates without a ledger entry that can
// still be submitted for revocation.
func (w *c16World) unrevoked() []int {
	var out []int
	for i := range w.certs {
		c := &w.certs[i]
		if _, have := w.ledger[c.Serial]; have {
			continue
		}
		out = append(out, i)
	}
	return out
}

func (w *c16World) ledgerSerials() []string {
	s := append([]string(nil), w.order...)
	sort.Strings(s)
	return s
}
