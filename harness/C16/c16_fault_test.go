//go:build verif

package pki

import (
	"crypto/x509"
	"fmt"
	"hash/fnv"
	"math/big"
	"strings"
	"testing"

	kit "github.com/openbao/openbao/sdk/v2/helper/verifkit"
	"github.com/openbao/openbao/sdk/v2/logical"
)

// c16Target is the operation a fault/crash case interrupts. run performs the
// client call on the given world and tells whether success was reported.
type c16Target struct {
	desc string
	cert int // certificate whose revocation is the target, -1 otherwise
	run  func(w *c16World) bool
}

type c16Scenario struct {
	name  string
	build func(r *kit.Result, rng *kit.Rand, id string) (*c16World, c16Target)
}

// c16Base: two roots and an intermediate under root0; a few certificates of
// every kind; one revocation per root already on the CRLs.
//
//	certs: [0]=intermediate's own cert, then a0 a1 a2 (root0), b0 b1(lease) b2 (root1),
//	       i0 (intermediate), f0 (forged, root1), x0 (forged, expired, root0)
type c16BaseIdx struct{ intc, a0, a1, a2, b0, b1, b2, i0, f0, x0 int }

// c16Mode is the CRL configuration a scenario runs under.
type c16Mode struct {
	name string
	cfg  c16Cfg
}

var c16Modes = []c16Mode{{"manual", c16Cfg{}}, {"auto", c16Cfg{Auto: true}}, {"auto-delta", c16Cfg{Auto: true, Delta: true}}}

// c16Base builds the start state under the given mode. Under the auto-rebuild modes one more certificate
// per root is revoked after the switch, so that revocations are pending (reported successful, on no
// complete CRL yet) when the target operation starts.
func c16Base(r *kit.Result, id string, m c16Mode) (*c16World, c16BaseIdx) {
	w := c16NewWorld(r, id)
	w.addRoot()
	w.addRoot()
	in := w.addIntermediate(0, true)
	var x c16BaseIdx
	x.intc = 0
	x.a0 = w.issue(0, false)
	x.a1 = w.issue(0, false)
	x.a2 = w.issue(0, false)
	x.b0 = w.issue(1, false)
	x.b1 = w.issue(1, true)
	x.b2 = w.issue(1, false)
	x.i0 = w.issue(in, false)
	x.f0 = w.forge(1, false)
	x.x0 = w.forge(0, true)
	w.revoke(x.a0, "serial")
	w.revoke(x.b0, "cert")
	w.check("base")
	if m.cfg.Auto {
		w.setCfg(m.cfg)
		w.check("base")
		w.revoke(x.a2, "serial")
		w.check("base")
		w.revoke(x.b2, "serial-hyphen")
		w.check("base")
	}
	return w, x
}

func c16RevokeTarget(ci int, via string) c16Target {
	return c16Target{desc: "revoke via " + via, cert: ci, run: func(w *c16World) bool { return w.revoke(ci, via) }}
}

func c16CfgTarget(desc string, data map[string]any) c16Target {
	return c16Target{desc: "config/crl " + desc, cert: -1, run: func(w *c16World) bool { return w.writeCfg(data) }}
}

// c16Proto is a scenario before a mode is chosen: prep brings the base world into the state the target
// needs, target names the interrupted operation.
type c16Proto struct {
	name   string
	modes  []string // nil: every mode
	prep   func(w *c16World, x c16BaseIdx, m c16Mode)
	target func(x c16BaseIdx, m c16Mode) c16Target
}

func c16Protos() []c16Proto {
	rev := func(pick func(x c16BaseIdx) int, via string) func(x c16BaseIdx, m c16Mode) c16Target {
		return func(x c16BaseIdx, _ c16Mode) c16Target { return c16RevokeTarget(pick(x), via) }
	}
	cfgT := func(desc string, data map[string]any) func(x c16BaseIdx, m c16Mode) c16Target {
		return func(c16BaseIdx, c16Mode) c16Target { return c16CfgTarget(desc, data) }
	}
	return []c16Proto{
		{name: "revoke-serial", target: rev(func(x c16BaseIdx) int { return x.a1 }, "serial")},
		{name: "revoke-byoc", target: rev(func(x c16BaseIdx) int { return x.f0 }, "cert")},
		{name: "revoke-with-key", target: rev(func(x c16BaseIdx) int { return x.i0 }, "key-serial")},
		{name: "revoke-lease", target: rev(func(x c16BaseIdx) int { return x.b1 }, "lease")},
		{name: "rerevoke", target: rev(func(x c16BaseIdx) int { return x.a0 }, "serial-upper")},
		{name: "rerevoke-pending", modes: []string{"auto", "auto-delta"}, target: rev(func(x c16BaseIdx) int { return x.a2 }, "serial")},
		{name: "revoke-issuer", target: rev(func(x c16BaseIdx) int { return x.intc }, "issuer")},
		{name: "revoke-while-issuer-removed",
			prep:   func(w *c16World, _ c16BaseIdx, _ c16Mode) { w.removeIssuer(1); w.check("base") },
			target: rev(func(x c16BaseIdx) int { return x.b1 }, "serial")},
		{name: "rotate", target: func(c16BaseIdx, c16Mode) c16Target {
			return c16Target{desc: "crl/rotate", cert: -1, run: func(w *c16World) bool { return w.rotate() }}
		}},
		{name: "rotate-delta", modes: []string{"auto-delta"}, target: func(c16BaseIdx, c16Mode) c16Target {
			return c16Target{desc: "crl/rotate-delta", cert: -1, run: func(w *c16World) bool { return w.rotateDelta() }}
		}},
		{name: "tidy-expired",
			prep: func(w *c16World, x c16BaseIdx, m c16Mode) {
				c := m.cfg
				c.AllowExpired = true
				w.setCfg(c)
				w.revoke(x.x0, "cert")
				w.check("base")
			},
			target: func(c16BaseIdx, c16Mode) c16Target {
				return c16Target{desc: "tidy", cert: -1, run: func(w *c16World) bool { return w.tidy(true, true, true) }}
			}},
		{name: "enable-crl",
			prep: func(w *c16World, x c16BaseIdx, m c16Mode) {
				c := m.cfg
				c.Disable = true
				w.setCfg(c)
				w.revoke(x.a1, "serial")
				w.check("base")
			},
			target: cfgT("disable=false", map[string]any{"disable": false})},
		{name: "disable-crl", target: cfgT("disable=true", map[string]any{"disable": true})},
		{name: "auto-to-manual", modes: []string{"auto", "auto-delta"}, target: func(_ c16BaseIdx, m c16Mode) c16Target {
			if m.cfg.Delta {
				return c16CfgTarget("auto_rebuild=false enable_delta=false", map[string]any{"auto_rebuild": false, "enable_delta": false})
			}
			return c16CfgTarget("auto_rebuild=false", map[string]any{"auto_rebuild": false})
		}},
		{name: "auto-to-manual-full-write", modes: []string{"auto"}, target: func(c16BaseIdx, c16Mode) c16Target {
			return c16Target{desc: "config/crl (all fields) auto_rebuild=false", cert: -1, run: func(w *c16World) bool { return w.setCfg(c16Cfg{}) }}
		}},
		{name: "manual-to-auto", modes: []string{"manual"}, target: cfgT("auto_rebuild=true", map[string]any{"auto_rebuild": true})},
		{name: "manual-to-auto-delta", modes: []string{"manual"}, target: cfgT("auto_rebuild=true enable_delta=true", map[string]any{"auto_rebuild": true, "enable_delta": true})},
		{name: "delta-on", modes: []string{"auto"}, target: cfgT("enable_delta=true", map[string]any{"enable_delta": true})},
		{name: "delta-off", modes: []string{"auto-delta"}, target: cfgT("enable_delta=false", map[string]any{"enable_delta": false})},
		{name: "expiry-change", target: cfgT("expiry=48h grace=8h", map[string]any{"expiry": "48h", "auto_rebuild_grace_period": "8h"})},
	}
}

// c16Scenarios: every proto under every mode it applies to (named proto@mode; the manual mode keeps the
// bare name), then generated start states. thin (single-fault monitor, quick tier) keeps one in three of
// the auto-mode variants of the protos that apply to every mode; the crash monitor always gets all.
func c16Scenarios(nRandom int, thin bool) []c16Scenario {
	var sc []c16Scenario
	for pi, p := range c16Protos() {
		for mi, m := range c16Modes {
			if p.modes != nil {
				ok := false
				for _, n := range p.modes {
					ok = ok || n == m.name
				}
				if !ok {
					continue
				}
			}
			name := p.name
			if m.name != "manual" {
				name += "@" + m.name
				if thin && p.modes == nil && (pi+mi)%3 != 0 {
					continue
				}
			}
			p, m := p, m
			sc = append(sc, c16Scenario{name, func(r *kit.Result, _ *kit.Rand, id string) (*c16World, c16Target) {
				w, x := c16Base(r, id, m)
				if p.prep != nil {
					p.prep(w, x, m)
				}
				return w, p.target(x, m)
			}})
		}
	}
	for i := 0; i < nRandom; i++ {
		i := i
		sc = append(sc, c16Scenario{fmt.Sprintf("random-state-%d", i), func(r *kit.Result, rng *kit.Rand, id string) (*c16World, c16Target) {
			// a generated history prefix (which also moves through CRL configurations), then one more
			// revocation, a rotation or a configuration write as the interrupted operation
			w, _ := c16History(r, rng, id, 10+rng.Intn(12), 1+i%4, false)
			var cand []int
			for _, ci := range w.unrevoked() {
				c := &w.certs[ci]
				if c.Expired || c.IsIssuer >= 0 {
					continue
				}
				if !c.Stored && w.iss[c.Iss].ID == "" {
					continue
				}
				cand = append(cand, ci)
			}
			if len(cand) == 0 {
				if p := w.present(); len(p) > 0 {
					if ci := w.issue(kit.Pick(rng, p), rng.Chance(1, 2)); ci >= 0 {
						cand = append(cand, ci)
					}
				}
			}
			w.check("base")
			x := rng.Intn(20)
			switch {
			case len(cand) == 0 || x < 4:
				return w, c16Target{desc: "crl/rotate", cert: -1, run: func(w *c16World) bool { return w.rotate() }}
			case x < 6 && w.cfg.Auto:
				if w.cfg.Delta {
					return w, c16CfgTarget("auto_rebuild=false enable_delta=false", map[string]any{"auto_rebuild": false, "enable_delta": false})
				}
				return w, c16CfgTarget("auto_rebuild=false", map[string]any{"auto_rebuild": false})
			case x < 6:
				return w, c16CfgTarget("auto_rebuild=true", map[string]any{"auto_rebuild": true})
			case x < 8:
				return w, c16CfgTarget(fmt.Sprintf("disable=%v", !w.cfg.Disable), map[string]any{"disable": !w.cfg.Disable})
			}
			ci := kit.Pick(rng, cand)
			return w, c16RevokeTarget(ci, kit.Pick(rng, w.routes(ci)))
		}})
	}
	return sc
}

// c16MakeCut records what the harness knows about an interrupted operation.
func c16MakeCut(w *c16World, kind, at string, tg c16Target, executed []c16Op) *c16Cut {
	cut := &c16Cut{Kind: kind, At: at, Target: tg.desc, numBefore: map[string]*big.Int{}, NumBefore: map[string]string{}, RecordExisted: map[string]bool{}, StoredCRL: map[string]string{}, storedCRL: map[int][]*big.Int{}}
	for id, o := range w.obs {
		cut.numBefore[id] = o.num
	}
	for i := range w.iss {
		if w.iss[i].ID != "" {
			cut.NumBefore[w.iss[i].Name] = c16NumStr(cut.numBefore[w.iss[i].ID])
		}
	}
	for s := range w.ledger {
		cut.RecordExisted[s] = true
	}
	// complete CRLs the interrupted operation had already stored
	for _, op := range executed {
		if !op.Write || op.del || len(op.val) == 0 {
			continue
		}
		rl, err := x509.ParseRevocationList(op.val)
		if err != nil || rl.Number == nil || c16IsDelta(rl) {
			continue
		}
		for i := range w.iss {
			if rl.CheckSignatureFrom(w.iss[i].cert) == nil {
				cut.storedCRL[i] = append(cut.storedCRL[i], rl.Number)
				cut.StoredCRL[w.iss[i].Name] += rl.Number.String() + " "
			}
		}
	}
	return cut
}

// c16AfterInterruption: oracle, client retry, oracle, then ordinary life goes
// on (rotation, a fresh revocation, switch to manual rebuild, restart) with
// the oracle after each of them.
func c16AfterInterruption(w *c16World, tg c16Target, reported bool, rng *kit.Rand) {
	r := w.r
	if tg.cert >= 0 {
		s := w.certs[tg.cert].Serial
		if st := w.certStatus(s); st.found && st.rt > 0 {
			w.cut.RecordExisted[s] = true
			if !reported {
				r.Count("interrupted_after_record_before_success", 1)
			}
		}
	}
	w.check("after interruption")
	if !reported {
		ok := false
		for try := 0; try < 3 && !ok; try++ {
			ok = tg.run(w)
		}
		if ok {
			r.Count("retry_reported_success", 1)
		} else {
			r.Count("retry_never_succeeded", 1)
			r.Note("case %s: %s still fails after three fault-free retries", w.caseID, tg.desc)
		}
		w.check("after retry")
	}
	if w.rotate() {
		w.check("after follow-up rotation")
	}
	if p := w.present(); len(p) > 0 {
		var can []int
		for _, i := range p {
			if !w.iss[i].Revoked {
				can = append(can, i)
			}
		}
		if len(can) > 0 {
			if ci := w.issue(can[len(can)-1], false); ci >= 0 {
				w.revoke(ci, "serial")
				w.check("after follow-up revocation")
				// once more through the already-revoked branch: success again, and whatever the current
				// configuration obliges must hold after this call too
				w.revoke(ci, "serial-hyphen")
				w.check("after repeated follow-up revocation")
				if w.cfg.Auto && !w.cfg.Disable {
					// under auto-rebuild the fresh revocation is published by an explicit rotation: a new
					// complete CRL, listing more than the previous one, with a larger number
					if w.rotate() {
						r.Count("rotations_after_interruption_under_auto_rebuild", 1)
						w.check("after second follow-up rotation")
					}
					// and one more revocation that stays unpublished, so that the switch to manual rebuild
					// below happens with a pending revocation
					if cj := w.issue(can[0], false); cj >= 0 {
						w.revoke(cj, "cert")
						w.check("after follow-up revocation left pending")
					}
				}
			}
		}
	}
	for i := range w.iss {
		if w.iss[i].ID == "" {
			w.readdIssuer(i)
			w.check("after issuer re-import")
		}
	}
	if w.cfg.Auto || w.cfg.Disable {
		w.setCfg(c16Cfg{AllowExpired: w.cfg.AllowExpired})
		w.check("after switch to manual rebuild")
	}
	w.restart()
	w.check("after follow-up restart")
}

type c16Point struct {
	id  string
	op  c16Op
	idx int // crash: number of writes kept
}

func c16Run(t *testing.T, mode string, r *kit.Result, seed int64) {
	shard, shards := kit.Shard()
	scs := c16Scenarios(kit.N(5, 250), mode == "fault" && kit.N(1, 0) == 1)
	only := kit.OnlyCase()
	global := 0
	for si, sc := range scs {
		if only != "" && !strings.HasPrefix(only, sc.name+"|") {
			continue
		}
		// whole scenarios are dealt to shards (each needs its own base world)
		if only == "" && si%shards != shard {
			continue
		}
		// the PRNG stream of a scenario depends on its name only, so both monitors see the same start states
		hn := fnv.New32a()
		hn.Write([]byte(sc.name))
		rng := kit.NewRand(seed, uint64(5000+hn.Sum32()%100000))
		base, tg := sc.build(r, rng, sc.name+"|base")
		if base.broken {
			base.close()
			continue
		}
		r.Count("scenarios", 1)
		switch {
		case base.cfg.Auto && base.cfg.Delta:
			r.Count("scenarios_auto_rebuild_delta", 1)
		case base.cfg.Auto:
			r.Count("scenarios_auto_rebuild", 1)
		}
		if base.pendingAbsent > 0 {
			r.Count("scenarios_with_pending_revocations", 1)
		}
		// dry run: which storage operations does the target perform here?
		dry := base.fork(sc.name + "|dry")
		dry.st.arm("", 0)
		okDry := tg.run(dry)
		ops, _ := dry.st.disarm()
		dry.check("dry run")
		dry.close()
		if !okDry {
			r.Note("scenario %s: target %q is not reported successful even without interruption", sc.name, tg.desc)
		}
		var points []c16Point
		if mode == "fault" {
			// quick tier: of the auto-rebuild variants of a scenario (name@mode) every other fault point is
			// taken, the seed's parity decides which half; the manual-mode scenarios, the generated start
			// states and the thorough tier take every point
			half := kit.N(1, 0) == 1 && strings.Contains(sc.name, "@") && only == ""
			for k, op := range ops {
				if half && (int64(k)+seed)%2 != 0 {
					r.Count("fault_points_left_to_other_seed_parity", 1)
					continue
				}
				points = append(points, c16Point{id: sc.name + "|fault|" + op.id(), op: op})
			}
		} else {
			var writes []c16Op
			for _, op := range ops {
				if op.Write {
					writes = append(writes, op)
				}
			}
			for j := 0; j <= len(writes); j++ {
				at := "before-first-write"
				if j > 0 {
					at = "after:" + writes[j-1].id()
				}
				points = append(points, c16Point{id: sc.name + "|crash|" + at, idx: j})
			}
			// keep the executed writes for the cases
			ops = writes
		}
		if si < 2 && len(ops) > 0 {
			var keys []string
			for _, op := range ops {
				keys = append(keys, op.id())
			}
			r.Sample(map[string]any{"scenario": sc.name, "target": tg.desc, "mode": mode, "points": keys})
		}
		r.Count("points:"+sc.name, len(points))
		for _, pt := range points {
			global++
			if !kit.WantCase(pt.id) {
				continue
			}
			w := base.fork(pt.id)
			crng := kit.NewRand(seed, uint64(900000+global))
			r.Eval(1)
			reported := false
			if mode == "fault" {
				w.st.arm(pt.op.Class, pt.op.Occ)
				reported = tg.run(w)
				executed, fired := w.st.disarm()
				if fired == nil {
					// the structural position was not reached in this execution (map order); nothing was injected
					r.Count("fault_not_reached", 1)
					w.check("no fault reached")
					w.close()
					continue
				}
				r.Count("faults_fired", 1)
				if base.cfg.Auto {
					r.Count("faults_fired_under_auto_rebuild", 1)
				}
				r.Count("fault_on:"+fired.Op, 1)
				r.Nontrivial(pt.id)
				if reported {
					r.Count("success_reported_despite_fault", 1)
				}
				w.step("FAULT injected at %s (%s)", fired.id(), fired.Key)
				w.cut = c16MakeCut(w, "fault", fired.id(), tg, executed)
				if tg.cert < 0 {
					w.readCfg()
				}
			} else {
				for _, op := range ops[:pt.idx] {
					var err error
					if op.del {
						err = w.raw.Delete(c16Ctx, op.Key)
					} else {
						err = w.raw.Put(c16Ctx, &logical.StorageEntry{Key: op.Key, Value: append([]byte(nil), op.val...)})
					}
					if err != nil {
						panic(err)
					}
				}
				if tg.cert >= 0 {
					// the client did send the request that the crash cut short
					w.certs[tg.cert].Attempted = true
				}
				w.cut = c16MakeCut(w, "crash", strings.TrimPrefix(pt.id, sc.name+"|crash|"), tg, ops[:pt.idx])
				w.step("CRASH %s of the %d writes of %q, restart on what was written", strings.TrimPrefix(pt.id, sc.name+"|crash|"), len(ops), tg.desc)
				w.restart()
				w.readCfg()
				r.Count("crash_prefixes", 1)
				inside := pt.idx > 0 && pt.idx < len(ops)
				if inside {
					r.Nontrivial(pt.id)
					r.Count("crash_inside_write_sequence", 1)
				}
				// was the cut between the write of a complete CRL and the write of the CRL bookkeeping
				// (crls/config, which carries the next CRL number)?
				crlPut, bookkept := false, true
				for _, op := range ops[:pt.idx] {
					switch {
					case op.Key == "crls/config":
						bookkept = true
					case strings.HasPrefix(op.Key, "crls/") && !op.del && !strings.HasSuffix(op.Key, "-delta"):
						crlPut, bookkept = true, false
					}
				}
				if crlPut && !bookkept {
					r.Count("crash_between_crl_and_crl_bookkeeping", 1)
				}
				if w.cfg.Auto {
					r.Count("crash_prefixes_auto_rebuild", 1)
					if w.cfg.Delta {
						r.Count("crash_prefixes_auto_rebuild_delta", 1)
					} else {
						r.Count("crash_prefixes_auto_rebuild_no_delta", 1)
					}
					if inside {
						r.Count("crash_inside_write_sequence_auto_rebuild", 1)
					}
					if crlPut {
						r.Count("crash_after_crl_write_auto_rebuild", 1)
					}
					if crlPut && !bookkept {
						r.Count("crash_between_crl_and_crl_bookkeeping_auto_rebuild", 1)
					}
				}
			}
			c16AfterInterruption(w, tg, reported, crng)
			w.close()
		}
		base.close()
	}
}

func TestVerif_C16_Faults(t *testing.T) {
	t.Parallel() // the three monitors share nothing but the read-only scenario definitions
	seed := kit.Seed(16)
	r := kit.NewResult(t, "c16-faults", seed, "scenarios = operation x CRL configuration mode (manual, auto_rebuild, auto_rebuild+delta; under the auto modes revocations are pending when the operation starts): revocation through every route, of a bring-your-own certificate, of an intermediate issuer, with the issuer removed, re-revocation (also of a still unpublished serial); crl/rotate, crl/rotate-delta; tidy removing an expired entry; config/crl writes: disable on/off, auto->manual (partial and full write), manual->auto(+delta), delta on/off, expiry change; plus generated history prefixes followed by one more revocation, a rotation or a configuration write. Every storage operation the target performs fails once (named structurally: n-th op of a key class; quick tier: all points of the manual-mode and generated scenarios, one in three auto-mode variants of the mode-independent operations, every other point of an auto-mode variant chosen by seed parity); the client retries until success is reported; the oracle (see c16-histories) runs after the fault, after the retry and after a follow-up rotation, fresh revocation, repeated revocation, second rotation (auto modes), issuer re-import, switch to manual rebuild and restart; a case is one (scenario, fault point) and is non-trivial when the fault actually fired inside the target operation")
	defer r.Write(t)
	c16Run(t, "fault", r, seed)
	_, shards := kit.Shard()
	r.Require("scenarios", 1)
	r.Require("faults_fired", int64(300/shards))
	r.Require("fault_on:put", int64(40/shards))
	r.Require("fault_on:get", int64(100/shards))
	r.Require("interrupted_after_record_before_success", int64(20/shards))
	r.Require("retry_reported_success", int64(200/shards))
	r.Require("entry_checks", int64(3000/shards))
	r.Require("crl_presence_confirmed", int64(2000/shards))
	r.Require("faults_fired_under_auto_rebuild", int64(150/shards))
	r.Require("scenarios_auto_rebuild", 1)
	r.Require("scenarios_auto_rebuild_delta", 1)
	r.Require("cfgtrans:auto_off_with_pending_revocations", int64(100/shards))
	r.Require("crls_parsed", int64(3000/shards))
	r.Require("crl_number_comparisons", int64(3000/shards))
	r.Require("crl_number_increase_confirmed", int64(1500/shards))
	r.Require("rotations_after_interruption_under_auto_rebuild", int64(100/shards))
}

func TestVerif_C16_Crash(t *testing.T) {
	t.Parallel() // the three monitors share nothing but the read-only scenario definitions
	seed := kit.Seed(16)
	r := kit.NewResult(t, "c16-crash", seed, "for each scenario of the fault monitor (all operations under all three CRL configuration modes: manual, auto_rebuild, auto_rebuild+delta) the target's storage writes are journalled in a dry run; for every prefix of that write sequence (including none and all) the prefix is applied to a copy of the store, a new backend instance is created on it (Factory + Initialize), config/crl is read back, the oracle checks that earlier revocations survived and reads the served CRLs, the client retries the operation until success is reported, and the oracle runs again, also after a follow-up rotation, a fresh revocation, its repetition, a second rotation under auto-rebuild (a changed complete CRL must carry a strictly larger number than any served before, across the crash), issuer re-import, switch to manual rebuild and another restart; a case is one (scenario, write prefix) and is non-trivial when the cut lies strictly inside the write sequence")
	defer r.Write(t)
	c16Run(t, "crash", r, seed)
	_, shards := kit.Shard()
	r.Require("scenarios", 1)
	r.Require("crash_prefixes", int64(60/shards))
	r.Require("crash_inside_write_sequence", int64(30/shards))
	r.Require("interrupted_after_record_before_success", int64(10/shards))
	r.Require("retry_reported_success", int64(40/shards))
	r.Require("restarts", int64(120/shards))
	r.Require("entry_checks", int64(800/shards))
	r.Require("crash_prefixes_auto_rebuild_no_delta", int64(60/shards))
	r.Require("crash_prefixes_auto_rebuild_delta", int64(60/shards))
	r.Require("crash_inside_write_sequence_auto_rebuild", int64(60/shards))
	r.Require("crash_after_crl_write_auto_rebuild", int64(30/shards))
	r.Require("crash_between_crl_and_crl_bookkeeping", int64(20/shards))
	r.Require("crash_between_crl_and_crl_bookkeeping_auto_rebuild", int64(10/shards))
	r.Require("rotations_after_interruption_under_auto_rebuild", int64(60/shards))
	r.Require("cfgtrans:auto_off_with_pending_revocations", int64(60/shards))
	r.Require("crls_parsed", int64(1500/shards))
	r.Require("crl_number_comparisons", int64(1500/shards))
	r.Require("crl_number_increase_confirmed", int64(800/shards))
	r.Require("crl_number_increase_confirmed_under_auto_rebuild", int64(100/shards))
}
