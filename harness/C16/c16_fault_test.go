//go:build verif

package pki

import (
	"crypto/x509"
	"fmt"
	"math/big"
	"strings"
	"testing"

	kit "github.com/openbao/openbao/sdk/v2/helper/verifkit"
	"github.com/openbao/openbao/sdk/v2/logical"
)

// c16Target is the operation a fault/crash case interrupts. run performs the
// client call on the given world and tells whether success was reported.
type c16Target struct {
	desc string
	cert int // certificate whose revocation is the target, -1 otherwise
	run  func(w *c16World) bool
}

type c16Scenario struct {
	name  string
	build func(r *kit.Result, rng *kit.Rand, id string) (*c16World, c16Target)
}

// c16Base: two roots and an intermediate under root0; a few certificates of
// every kind; one revocation per root already on the CRLs.
//
//	certs: [0]=intermediate's own cert, then a0 a1 (root0), b0 b1(lease) (root1),
//	       i0 (intermediate), f0 (forged, root1), x0 (forged, expired, root0)
type c16BaseIdx struct{ intc, a0, a1, b0, b1, i0, f0, x0 int }

func c16Base(r *kit.Result, id string) (*c16World, c16BaseIdx) {
	w := c16NewWorld(r, id)
	w.addRoot()
	w.addRoot()
	in := w.addIntermediate(0, true)
	var x c16BaseIdx
	x.intc = 0
	x.a0 = w.issue(0, false)
	x.a1 = w.issue(0, false)
	x.b0 = w.issue(1, false)
	x.b1 = w.issue(1, true)
	x.i0 = w.issue(in, false)
	x.f0 = w.forge(1, false)
	x.x0 = w.forge(0, true)
	w.revoke(x.a0, "serial")
	w.revoke(x.b0, "cert")
	w.check("base")
	return w, x
}

func c16RevokeTarget(ci int, via string) c16Target {
	return c16Target{desc: "revoke via " + via, cert: ci, run: func(w *c16World) bool { return w.revoke(ci, via) }}
}

func c16Scenarios(nRandom int) []c16Scenario {
	sc := []c16Scenario{
		{"revoke-serial", func(r *kit.Result, _ *kit.Rand, id string) (*c16World, c16Target) {
			w, x := c16Base(r, id)
			return w, c16RevokeTarget(x.a1, "serial")
		}},
		{"revoke-byoc", func(r *kit.Result, _ *kit.Rand, id string) (*c16World, c16Target) {
			w, x := c16Base(r, id)
			return w, c16RevokeTarget(x.f0, "cert")
		}},
		{"revoke-with-key", func(r *kit.Result, _ *kit.Rand, id string) (*c16World, c16Target) {
			w, x := c16Base(r, id)
			return w, c16RevokeTarget(x.i0, "key-serial")
		}},
		{"revoke-lease", func(r *kit.Result, _ *kit.Rand, id string) (*c16World, c16Target) {
			w, x := c16Base(r, id)
			return w, c16RevokeTarget(x.b1, "lease")
		}},
		{"revoke-auto-delta", func(r *kit.Result, _ *kit.Rand, id string) (*c16World, c16Target) {
			w, x := c16Base(r, id)
			w.setCfg(c16Cfg{Auto: true, Delta: true})
			w.revoke(x.b1, "serial")
			w.check("base")
			return w, c16RevokeTarget(x.a1, "serial")
		}},
		{"rerevoke", func(r *kit.Result, _ *kit.Rand, id string) (*c16World, c16Target) {
			w, x := c16Base(r, id)
			return w, c16RevokeTarget(x.a0, "serial-upper")
		}},
		{"revoke-issuer", func(r *kit.Result, _ *kit.Rand, id string) (*c16World, c16Target) {
			w, x := c16Base(r, id)
			return w, c16RevokeTarget(x.intc, "issuer")
		}},
		{"revoke-while-issuer-removed", func(r *kit.Result, _ *kit.Rand, id string) (*c16World, c16Target) {
			w, x := c16Base(r, id)
			w.removeIssuer(1)
			w.check("base")
			return w, c16RevokeTarget(x.b1, "serial")
		}},
		{"rotate", func(r *kit.Result, _ *kit.Rand, id string) (*c16World, c16Target) {
			w, _ := c16Base(r, id)
			return w, c16Target{desc: "crl/rotate", cert: -1, run: func(w *c16World) bool { return w.rotate() }}
		}},
		{"tidy-expired", func(r *kit.Result, _ *kit.Rand, id string) (*c16World, c16Target) {
			w, x := c16Base(r, id)
			w.setCfg(c16Cfg{AllowExpired: true})
			w.revoke(x.x0, "cert")
			w.check("base")
			return w, c16Target{desc: "tidy", cert: -1, run: func(w *c16World) bool { return w.tidy(true, true, true) }}
		}},
		{"enable-crl", func(r *kit.Result, _ *kit.Rand, id string) (*c16World, c16Target) {
			w, x := c16Base(r, id)
			w.setCfg(c16Cfg{Disable: true})
			w.revoke(x.a1, "serial")
			w.check("base")
			return w, c16Target{desc: "config/crl disable=false", cert: -1, run: func(w *c16World) bool { return w.setCfg(c16Cfg{}) }}
		}},
		{"auto-to-manual", func(r *kit.Result, _ *kit.Rand, id string) (*c16World, c16Target) {
			w, x := c16Base(r, id)
			w.setCfg(c16Cfg{Auto: true})
			w.revoke(x.a1, "serial")
			w.check("base")
			return w, c16Target{desc: "config/crl auto_rebuild=false", cert: -1, run: func(w *c16World) bool { return w.setCfg(c16Cfg{}) }}
		}},
	}
	for i := 0; i < nRandom; i++ {
		i := i
		sc = append(sc, c16Scenario{fmt.Sprintf("random-state-%d", i), func(r *kit.Result, rng *kit.Rand, id string) (*c16World, c16Target) {
			// a generated history prefix, then the revocation of one more certificate (or a rotation)
			w, _ := c16History(r, rng, id, 10+rng.Intn(12), 1+i%3, false)
			var cand []int
			for _, ci := range w.unrevoked() {
				c := &w.certs[ci]
				if c.Expired || c.IsIssuer >= 0 {
					continue
				}
				if !c.Stored && w.iss[c.Iss].ID == "" {
					continue
				}
				cand = append(cand, ci)
			}
			if len(cand) == 0 {
				if p := w.present(); len(p) > 0 {
					if ci := w.issue(kit.Pick(rng, p), rng.Chance(1, 2)); ci >= 0 {
						cand = append(cand, ci)
					}
				}
			}
			w.check("base")
			if len(cand) == 0 || rng.Chance(1, 5) {
				return w, c16Target{desc: "crl/rotate", cert: -1, run: func(w *c16World) bool { return w.rotate() }}
			}
			ci := kit.Pick(rng, cand)
			return w, c16RevokeTarget(ci, kit.Pick(rng, w.routes(ci)))
		}})
	}
	return sc
}

// c16MakeCut records what the harness knows about an interrupted operation.
func c16MakeCut(w *c16World, kind, at string, tg c16Target, executed []c16Op) *c16Cut {
	cut := &c16Cut{Kind: kind, At: at, Target: tg.desc, numBefore: map[string]*big.Int{}, NumBefore: map[string]string{}, RecordExisted: map[string]bool{}, StoredCRL: map[string]string{}, storedCRL: map[int][]*big.Int{}}
	for id, o := range w.obs {
		cut.numBefore[id] = o.num
	}
	for i := range w.iss {
		if w.iss[i].ID != "" {
			cut.NumBefore[w.iss[i].Name] = c16NumStr(cut.numBefore[w.iss[i].ID])
		}
	}
	for s := range w.ledger {
		cut.RecordExisted[s] = true
	}
	// complete CRLs the interrupted operation had already stored
	for _, op := range executed {
		if !op.Write || op.del || len(op.val) == 0 {
			continue
		}
		rl, err := x509.ParseRevocationList(op.val)
		if err != nil || rl.Number == nil || c16IsDelta(rl) {
			continue
		}
		for i := range w.iss {
			if rl.CheckSignatureFrom(w.iss[i].cert) == nil {
				cut.storedCRL[i] = append(cut.storedCRL[i], rl.Number)
				cut.StoredCRL[w.iss[i].Name] += rl.Number.String() + " "
			}
		}
	}
	return cut
}

// c16AfterInterruption: oracle, client retry, oracle, then ordinary life goes
// on (rotation, a fresh revocation, switch to manual rebuild, restart) with
// the oracle after each of them.
func c16AfterInterruption(w *c16World, tg c16Target, reported bool, rng *kit.Rand) {
	r := w.r
	if tg.cert >= 0 {
		s := w.certs[tg.cert].Serial
		if st := w.certStatus(s); st.found && st.rt > 0 {
			w.cut.RecordExisted[s] = true
			if !reported {
				r.Count("interrupted_after_record_before_success", 1)
			}
		}
	}
	w.check("after interruption")
	if !reported {
		ok := false
		for try := 0; try < 3 && !ok; try++ {
			ok = tg.run(w)
		}
		if ok {
			r.Count("retry_reported_success", 1)
		} else {
			r.Count("retry_never_succeeded", 1)
			r.Note("case %s: %s still fails after three fault-free retries", w.caseID, tg.desc)
		}
		w.check("after retry")
	}
	if w.rotate() {
		w.check("after follow-up rotation")
	}
	if p := w.present(); len(p) > 0 {
		var can []int
		for _, i := range p {
			if !w.iss[i].Revoked {
				can = append(can, i)
			}
		}
		if len(can) > 0 {
			if ci := w.issue(can[len(can)-1], false); ci >= 0 {
				w.revoke(ci, "serial")
				w.check("after follow-up revocation")
			}
		}
	}
	for i := range w.iss {
		if w.iss[i].ID == "" {
			w.readdIssuer(i)
			w.check("after issuer re-import")
		}
	}
	if w.cfg.Auto || w.cfg.Disable {
		w.setCfg(c16Cfg{AllowExpired: w.cfg.AllowExpired})
		w.check("after switch to manual rebuild")
	}
	w.restart()
	w.check("after follow-up restart")
}

type c16Point struct {
	id  string
	op  c16Op
	idx int // crash: number of writes kept
}

func c16Run(t *testing.T, mode string, r *kit.Result, seed int64) {
	shard, shards := kit.Shard()
	scs := c16Scenarios(kit.N(3, 250))
	only := kit.OnlyCase()
	global := 0
	for si, sc := range scs {
		if only != "" && !strings.HasPrefix(only, sc.name+"|") {
			continue
		}
		// whole scenarios are dealt to shards (each needs its own base world)
		if only == "" && si%shards != shard {
			continue
		}
		rng := kit.NewRand(seed, uint64(5000+si))
		base, tg := sc.build(r, rng, sc.name+"|base")
		if base.broken {
			base.close()
			continue
		}
		r.Count("scenarios", 1)
		// dry run: which storage operations does the target perform here?
		dry := base.fork(sc.name + "|dry")
		dry.st.arm("", 0)
		okDry := tg.run(dry)
		ops, _ := dry.st.disarm()
		dry.check("dry run")
		dry.close()
		if !okDry {
			r.Note("scenario %s: target %q is not reported successful even without interruption", sc.name, tg.desc)
		}
		var points []c16Point
		if mode == "fault" {
			for _, op := range ops {
				points = append(points, c16Point{id: sc.name + "|fault|" + op.id(), op: op})
			}
		} else {
			var writes []c16Op
			for _, op := range ops {
				if op.Write {
					writes = append(writes, op)
				}
			}
			for j := 0; j <= len(writes); j++ {
				at := "before-first-write"
				if j > 0 {
					at = "after:" + writes[j-1].id()
				}
				points = append(points, c16Point{id: sc.name + "|crash|" + at, idx: j})
			}
			// keep the executed writes for the cases
			ops = writes
		}
		if si < 2 && len(ops) > 0 {
			var keys []string
			for _, op := range ops {
				keys = append(keys, op.id())
			}
			r.Sample(map[string]any{"scenario": sc.name, "target": tg.desc, "mode": mode, "points": keys})
		}
		for _, pt := range points {
			global++
			if !kit.WantCase(pt.id) {
				continue
			}
			w := base.fork(pt.id)
			crng := kit.NewRand(seed, uint64(900000+global))
			r.Eval(1)
			reported := false
			if mode == "fault" {
				w.st.arm(pt.op.Class, pt.op.Occ)
				reported = tg.run(w)
				executed, fired := w.st.disarm()
				if fired == nil {
					// the structural position was not reached in this execution (map order); nothing was injected
					r.Count("fault_not_reached", 1)
					w.check("no fault reached")
					w.close()
					continue
				}
				r.Count("faults_fired", 1)
				r.Count("fault_on:"+fired.Op, 1)
				r.Nontrivial(pt.id)
				if reported {
					r.Count("success_reported_despite_fault", 1)
				}
				w.step("FAULT injected at %s (%s)", fired.id(), fired.Key)
				w.cut = c16MakeCut(w, "fault", fired.id(), tg, executed)
				if tg.cert < 0 {
					w.readCfg()
				}
			} else {
				for _, op := range ops[:pt.idx] {
					var err error
					if op.del {
						err = w.raw.Delete(c16Ctx, op.Key)
					} else {
						err = w.raw.Put(c16Ctx, &logical.StorageEntry{Key: op.Key, Value: append([]byte(nil), op.val...)})
					}
					if err != nil {
						panic(err)
					}
				}
				if tg.cert >= 0 {
					// the client did send the request that the crash cut short
					w.certs[tg.cert].Attempted = true
				}
				w.cut = c16MakeCut(w, "crash", strings.TrimPrefix(pt.id, sc.name+"|crash|"), tg, ops[:pt.idx])
				w.step("CRASH %s of the %d writes of %q, restart on what was written", strings.TrimPrefix(pt.id, sc.name+"|crash|"), len(ops), tg.desc)
				w.restart()
				w.readCfg()
				r.Count("crash_prefixes", 1)
				if pt.idx > 0 && pt.idx < len(ops) {
					r.Nontrivial(pt.id)
					r.Count("crash_inside_write_sequence", 1)
				}
			}
			c16AfterInterruption(w, tg, reported, crng)
			w.close()
		}
		base.close()
	}
}

func TestVerif_C16_Faults(t *testing.T) {
	seed := kit.Seed(16)
	r := kit.NewResult(t, "c16-faults", seed, "for each scenario (revocation through every route, under manual and auto+delta rebuild, of a bring-your-own certificate, of an intermediate issuer, with the issuer removed, re-revocation; crl/rotate; tidy removing an expired entry; re-enabling CRL building; auto->manual; plus generated history prefixes followed by one more revocation) every storage operation the target performs fails once (named structurally: n-th op of a key class); the client retries until success is reported; the oracle runs after the fault, after the retry and after a follow-up rotation, fresh revocation, issuer re-import, switch to manual rebuild and restart; a case is one (scenario, fault point) and is non-trivial when the fault actually fired inside the target operation")
	defer r.Write(t)
	c16Run(t, "fault", r, seed)
	_, shards := kit.Shard()
	r.Require("scenarios", 1)
	r.Require("faults_fired", int64(300/shards))
	r.Require("fault_on:put", int64(40/shards))
	r.Require("fault_on:get", int64(100/shards))
	r.Require("interrupted_after_record_before_success", int64(20/shards))
	r.Require("retry_reported_success", int64(200/shards))
	r.Require("entry_checks", int64(3000/shards))
	r.Require("crl_presence_confirmed", int64(2000/shards))
}

func TestVerif_C16_Crash(t *testing.T) {
	seed := kit.Seed(16)
	r := kit.NewResult(t, "c16-crash", seed, "for each scenario of the fault monitor the target's storage writes are journalled in a dry run; for every prefix of that write sequence (including none and all) the prefix is applied to a copy of the store, a new backend instance is created on it (Factory + Initialize), the oracle checks that earlier revocations survived, the client retries the operation until success is reported, and the oracle runs again, also after a follow-up rotation, fresh revocation, issuer re-import, switch to manual rebuild and another restart; a case is one (scenario, write prefix) and is non-trivial when the cut lies strictly inside the write sequence")
	defer r.Write(t)
	c16Run(t, "crash", r, seed)
	_, shards := kit.Shard()
	r.Require("scenarios", 1)
	r.Require("crash_prefixes", int64(60/shards))
	r.Require("crash_inside_write_sequence", int64(30/shards))
	r.Require("interrupted_after_record_before_success", int64(10/shards))
	r.Require("retry_reported_success", int64(40/shards))
	r.Require("restarts", int64(120/shards))
	r.Require("entry_checks", int64(800/shards))
}
