//go:build verif

package pki

import (
	"fmt"
	"testing"

	kit "github.com/openbao/openbao/sdk/v2/helper/verifkit"
	"github.com/openbao/openbao/sdk/v2/logical"
)

// c16Kinds remembers which kinds of non-revocation operations a history ran
// while its ledger was non-empty (for the non-triviality rule).
type c16Kinds map[string]bool

func (w *c16World) randomStep(rng *kit.Rand, kinds c16Kinds) {
	mark := func(k string) {
		if len(w.ledger) > 0 {
			kinds[k] = true
		}
		w.r.Count("step:"+k, 1)
	}
	pres := w.present()
	x := rng.Intn(100)
	switch {
	case x < 14 && len(pres) > 0:
		w.issue(kit.Pick(rng, pres), rng.Chance(1, 3))
		mark("issue")
	case x < 19 && len(pres) > 0:
		w.forge(kit.Pick(rng, pres), rng.Chance(1, 2))
		mark("forge")
	case x < 42:
		un := w.unrevoked()
		if len(un) == 0 {
			if len(pres) > 0 {
				w.issue(kit.Pick(rng, pres), false)
			}
			return
		}
		ci := kit.Pick(rng, un)
		w.revoke(ci, kit.Pick(rng, w.routes(ci)))
		mark("revoke")
	case x < 50:
		if len(w.order) == 0 {
			return
		}
		s := kit.Pick(rng, w.order)
		e := w.ledger[s]
		c := &w.certs[e.Cert]
		if c.IsIssuer >= 0 && w.iss[c.IsIssuer].ID != "" && e.Via != "issuer" {
			// the only route left for a CA certificate that is now an issuer is issuer/<ref>/revoke,
			// which is outside the property's wording
			return
		}
		ok := w.revoke(e.Cert, kit.Pick(rng, w.routes(e.Cert)))
		if !ok && !c.Expired && (c.Stored || w.iss[c.Iss].ID != "") {
			w.violate("C16-rerevoke-not-successful", fmt.Sprintf("re-revoking the revoked, unexpired certificate %s is not reported successful", s), nil)
		}
		mark("rerevoke")
	case x < 58:
		if w.rotate() {
			w.r.Count("rotate_ok", 1)
		} else if len(pres) > 0 {
			w.violate("C16-rotate-failed", "crl/rotate failed without any injected fault", nil)
		}
		mark("rotate")
	case x < 61:
		w.rotateDelta()
		mark("rotate-delta")
	case x < 68:
		w.tidy(rng.Chance(1, 2), rng.Chance(2, 3), rng.Chance(1, 2))
		mark("tidy")
	case x < 81:
		k := w.randomCfgStep(rng)
		w.r.Count("cfgstep:"+k, 1)
		mark("config")
	case x < 85:
		if len(pres) < 2 {
			return
		}
		w.removeIssuer(kit.Pick(rng, pres))
		mark("issuer-remove")
	case x < 90:
		var gone []int
		for i := range w.iss {
			if w.iss[i].ID == "" {
				gone = append(gone, i)
			}
		}
		if len(gone) == 0 {
			return
		}
		w.readdIssuer(kit.Pick(rng, gone))
		mark("issuer-readd")
	case x < 92:
		if len(w.iss) >= 4 {
			return
		}
		w.addRoot()
		mark("issuer-new")
	case x < 94:
		if len(pres) == 0 {
			return
		}
		i := kit.Pick(rng, pres)
		resp, err := w.do(logical.UpdateOperation, "config/issuers", map[string]any{"default": w.iss[i].ID})
		w.step("set default %s -> %s", w.iss[i].Name, c16Why(resp, err))
		mark("set-default")
	case x < 98:
		w.restart()
		mark("restart")
	default:
		w.periodic()
		mark("periodic")
	}
}

// randomCfgStep performs one generated write to config/crl and returns its kind. Writes are "full" (every
// field) or "partial" (only the fields that change, as an operator would send them); some are requests the
// documentation says are refused (delta CRLs without auto-rebuild, a grace period not shorter than the
// expiry). Leaving auto-rebuild mode while revocations are still unpublished, and re-enabling a disabled CRL,
// are made more likely than a uniform choice would make them.
func (w *c16World) randomCfgStep(rng *kit.Rand) string {
	cur := w.cfg
	full := rng.Chance(1, 2)
	send := func(kind string, want c16Cfg, part map[string]any) string {
		if full {
			w.setCfg(want)
			return kind + "/full"
		}
		w.writeCfg(part)
		return kind + "/partial"
	}
	switch {
	case cur.Disable && rng.Chance(2, 5):
		n := cur
		n.Disable = false
		return send("disable-off", n, map[string]any{"disable": false})
	case cur.Auto && w.pendingAbsent > 0 && rng.Chance(2, 5):
		n := cur
		n.Auto, n.Delta = false, false
		part := map[string]any{"auto_rebuild": false}
		if cur.Delta || rng.Chance(1, 2) {
			part["enable_delta"] = false
		}
		return send("auto-off", n, part)
	case cur.Auto && rng.Chance(1, 4):
		n := cur
		n.Delta = !cur.Delta
		return send("delta-flip", n, map[string]any{"enable_delta": n.Delta})
	}
	switch rng.Intn(14) {
	case 0:
		n := cur
		n.Auto, n.Delta = true, false
		return send("auto-on", n, map[string]any{"auto_rebuild": true, "enable_delta": false})
	case 1:
		n := cur
		n.Auto, n.Delta = true, true
		return send("auto-on-delta", n, map[string]any{"auto_rebuild": true, "enable_delta": true})
	case 2, 3:
		n := cur
		n.Auto, n.Delta = false, false
		return send("auto-off", n, map[string]any{"auto_rebuild": false, "enable_delta": false})
	case 4:
		if !cur.Auto {
			// refused by the documentation: "This option requires auto_rebuild to also be enabled"
			w.writeCfg(map[string]any{"enable_delta": true})
			return "invalid-delta-without-auto"
		}
		n := cur
		n.Delta = !cur.Delta
		return send("delta-flip", n, map[string]any{"enable_delta": n.Delta})
	case 5, 6:
		n := cur
		n.Disable = !cur.Disable
		return send("disable-flip", n, map[string]any{"disable": n.Disable})
	case 7, 8:
		t := kit.Pick(rng, c16Timings)
		n := cur
		n.Expiry, n.Grace, n.DeltaInt = t[0], t[1], t[2]
		return send("timing", n, map[string]any{"expiry": t[0], "auto_rebuild_grace_period": t[1], "delta_rebuild_interval": t[2]})
	case 9:
		n := cur
		n.OcspDisable = !cur.OcspDisable
		return send("ocsp-flip", n, map[string]any{"ocsp_disable": n.OcspDisable})
	case 10:
		n := cur
		n.AllowExpired = !cur.AllowExpired
		return send("allow-expired-flip", n, map[string]any{"allow_expired_cert_revocation": n.AllowExpired})
	case 11:
		// refused by the documentation: the grace period "must be shorter than the CRL expiry period"
		w.writeCfg(map[string]any{"auto_rebuild": true, "expiry": "10h", "auto_rebuild_grace_period": "10h"})
		return "invalid-grace-not-shorter-than-expiry"
	case 12:
		// only the auto_rebuild field: refused while delta CRLs are enabled, a plain mode switch otherwise
		w.writeCfg(map[string]any{"auto_rebuild": !cur.Auto})
		return "auto-flip-only-field"
	default:
		// an expiry change alone (the other timing fields stay)
		e := kit.Pick(rng, []string{"60h", "72h", "84h", "120h"})
		w.writeCfg(map[string]any{"expiry": e})
		return "expiry-only"
	}
}

// c16History runs one generated history with the oracle after every step and
// returns the world (the fault monitors use such worlds as start states).
func c16History(r *kit.Result, rng *kit.Rand, id string, nsteps int, prologue int, audit bool) (*c16World, c16Kinds) {
	w := c16NewWorld(r, id)
	kinds := c16Kinds{}
	nroots := 2 + rng.Intn(2)
	for i := 0; i < nroots; i++ {
		w.addRoot()
	}
	if rng.Chance(2, 5) {
		w.addIntermediate(0, rng.Chance(2, 3))
	}
	if rng.Chance(1, 3) {
		w.addSibling(rng.Intn(nroots))
	}
	w.check("setup")
	switch prologue {
	case 1:
		// an expired and an unexpired bring-your-own certificate, both revoked, so that a later tidy
		// has something to remove next to something it must keep
		n := w.cfg
		n.AllowExpired = true
		w.setCfg(n)
		a := w.forge(0, true)
		b := w.forge(0, false)
		c := w.issue(1, true)
		w.revoke(a, "cert")
		w.check("prologue")
		w.revoke(b, "key-cert")
		w.check("prologue")
		w.revoke(c, "lease")
		w.check("prologue")
	case 2:
		// revocations pending under auto-rebuild, made visible by a rotation
		w.setCfg(c16Cfg{Auto: true, Delta: true})
		a := w.issue(0, false)
		b := w.issue(1, false)
		w.revoke(a, "serial")
		w.check("prologue")
		w.revoke(b, "serial-hyphen")
		w.check("prologue")
		w.rotateDelta()
		w.check("prologue")
		w.rotate()
		w.check("prologue")
	case 3:
		// a revoked certificate whose issuer leaves and comes back
		a := w.issue(1, false)
		w.revoke(a, "serial")
		w.check("prologue")
		w.removeIssuer(1)
		w.check("prologue")
		w.tidy(false, false, true)
		w.check("prologue")
		w.readdIssuer(1)
		w.check("prologue")
		// the same once more with CRL building disabled while the issuer returns: OCSP is then the
		// only channel and has to find the issuer without help from a CRL build
		b := w.issue(1, false)
		w.revoke(b, "serial")
		w.setCfg(c16Cfg{Disable: true})
		w.removeIssuer(1)
		w.tidy(false, false, true)
		w.check("prologue")
		w.readdIssuer(1)
		w.check("prologue")
		w.setCfg(c16Cfg{})
		w.check("prologue")
	case 4:
		// a walk through generated configuration writes; between two writes one more certificate is revoked
		// and an already revoked one is revoked again, the oracle runs after each of these
		for k := 0; k < 7 && !w.broken; k++ {
			w.r.Count("cfgstep:"+w.randomCfgStep(rng), 1)
			w.check("prologue")
			if ci := w.issue(rng.Intn(nroots), false); ci >= 0 {
				w.revoke(ci, kit.Pick(rng, []string{"serial", "serial-hyphen", "cert", "key-serial"}))
				w.check("prologue")
			}
			if len(w.order) > 0 {
				e := w.ledger[kit.Pick(rng, w.order)]
				if c := &w.certs[e.Cert]; c.IsIssuer < 0 && !c.Expired {
					w.revoke(e.Cert, "serial")
					w.check("prologue")
				}
			}
		}
	}
	for s := 0; s < nsteps && !w.broken; s++ {
		w.randomStep(rng, kinds)
		w.check(fmt.Sprintf("step %d", s))
		r.Eval(1)
	}
	if audit && !w.broken {
		// final audit: CRL building enabled, auto-rebuild off, every removed issuer back, one rotation:
		// every unexpired ledger entry must now be visible through every channel.
		w.setCfg(c16Cfg{AllowExpired: w.cfg.AllowExpired})
		for i := range w.iss {
			if w.iss[i].ID == "" {
				w.readdIssuer(i)
			}
		}
		w.rotate()
		w.check("final audit")
		w.restart()
		w.check("final audit after restart")
		r.Count("final_audits", 1)
	}
	return w, kinds
}

func TestVerif_C16_Histories(t *testing.T) {
	t.Parallel() // the three monitors share nothing but the read-only scenario definitions
	seed := kit.Seed(16)
	r := kit.NewResult(t, "c16-histories", seed, "generated histories of issue / forge (bring-your-own, also long expired) / revoke through every route (serial in three spellings, certificate, with-key, lease, issuer) / re-revoke / rotate / rotate-delta / tidy / writes to config/crl as first-class operations (auto_rebuild on and off with and without enable_delta, delta flips, disable on/off, expiry + grace period + delta interval changes, ocsp_disable, allow-expired; full and partial writes; requests the documentation refuses; leaving auto-rebuild while revocations are unpublished is made likely; one prologue in five is a walk through generated configurations with a revocation and a repeated revocation between writes) / issuer remove, re-import, add, set-default / restart / periodic tick over 2-5 issuers (distinct roots, optionally a re-issued root sharing subject and key, optionally an intermediate whose own CA certificate is revocable); after every step the oracle reads config/crl back, cert/<serial>, OCSP, certs/revoked and the complete CRL of every issuer through every CRL endpoint (issuer/<ref>/crl, /pem, /der, and for the default issuer crl, crl/pem, cert/crl, issuer/default/...; which endpoint is read first rotates; all must serve the same bytes; parsed and verified with crypto/x509; a changed CRL must carry a larger number) and compares them with the ledger of revocations the API reported successful under the configuration in force now: auto-rebuild off and CRL enabled -> every unexpired ledger serial is on the CRL served now; auto-rebuild on -> on every complete CRL built after the report, in particular after a successful crl/rotate; status and OCSP say revoked in every mode; an evaluation is one step+oracle pass; a history is non-trivial when it ends with >= 3 ledger entries and ran >= 3 different kinds of non-revocation operations while the ledger was non-empty")
	defer r.Write(t)
	shard, shards := kit.Shard()
	n := kit.N(50, 4000)
	steps := kit.N(30, 40)
	for h := 0; h < n; h++ {
		if h%shards != shard {
			continue
		}
		id := fmt.Sprintf("hist:%d", h)
		if !kit.WantCase(id) {
			continue
		}
		rng := kit.NewRand(seed, uint64(1000+h))
		w, kinds := c16History(r, rng, id, steps, h%5, true)
		nk := 0
		for k := range kinds {
			if k != "revoke" && k != "rerevoke" && k != "issue" && k != "forge" {
				nk++
			}
		}
		if len(w.ledger) >= 3 && nk >= 3 {
			r.Nontrivial(id)
		}
		if h < 3 {
			tr := w.trace
			if len(tr) > 14 {
				tr = tr[:14]
			}
			r.Sample(map[string]any{"case": id, "first_steps": tr, "ledger": len(w.ledger), "issuers": len(w.iss)})
		}
		r.Count("histories", 1)
		w.close()
	}
	per := int64(n / shards)
	r.Require("histories", per)
	r.Require("entry_checks", 40*per)
	r.Require("cert_status_revoked", 40*per)
	r.Require("ocsp_revoked", 20*per)
	r.Require("crl_presence_confirmed", 20*per)
	r.Require("crl_presence_confirmed_in_later_build", 5*per)
	r.Require("crl_rebuilds_observed", 10*per)
	r.Require("crls_verified", 60*per)
	r.Require("restarts", per)
	r.Require("crls_parsed", 60*per)
	r.Require("crl_endpoint_comparisons", 150*per)
	r.Require("crl_number_comparisons", 50*per)
	r.Require("crl_number_increase_confirmed", 10*per)
	r.Require("config_writes", 3*per)
	if per >= 8 {
		// configuration transitions, per kind
		r.Require("cfgtrans:auto_on_without_delta", per/4)
		r.Require("cfgtrans:auto_on_with_delta", per/4)
		r.Require("cfgtrans:auto_off", per/3)
		r.Require("cfgtrans:auto_off_from_no_delta", per/8)
		r.Require("cfgtrans:auto_off_from_delta", per/8)
		r.Require("cfgtrans:auto_off_with_pending_revocations", per/8)
		r.Require("cfgtrans:auto_off_with_pending_revocations_delta_never_on", 3)
		r.Require("pending_revocation_seen_published_on_leaving_auto_rebuild", per/8)
		r.Require("cfgtrans:delta_on", 2)
		r.Require("cfgtrans:delta_off", 2)
		r.Require("cfgtrans:disable_on", per/4)
		r.Require("cfgtrans:disable_off", per/4)
		r.Require("cfgtrans:disable_off_with_ledger", per/8)
		r.Require("cfgtrans:expiry_change", per/4)
		r.Require("cfgtrans:grace_period_change", per/8)
		r.Require("config_writes_not_accepted", 3)
		r.Require("crl_obliged_auto_off_now_revoked_under_auto", per)
		r.Require("crl_obliged_after_rotate_under_auto", per)
		r.Require("crl_absent_while_auto_rebuild_pending", per)
		r.Require("crl_number_increase_confirmed_under_auto_rebuild", per)
		r.Require("rerevoke_success", per)
		r.Require("crl_not_obliged_auto_rebuild_pending", 1)
		r.Require("ocsp_issuer_removed_not_good", 1)
		r.Require("expired_entries_seen_removed", 1)
		r.Require("issuer_readded", 1)
		r.Require("rerevoke_success", 1)
		r.Require("revoke_success:lease", 1)
		r.Require("revoke_success:cert", 1)
		r.Require("revoke_success:key-cert", 1)
		r.Require("tidy_runs", 1)
		r.Require("sibling_issuers", 1)
		r.Require("crl_checked_on_equivalent_issuer", 1)
		r.Require("ocsp_good_for_unrevoked", per)
		r.Require("legacy_endpoint_checks", 10*per)
	}
}
