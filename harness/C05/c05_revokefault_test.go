//go:build verif

package vault

// C05, oracle O2 under single storage faults inside REVOCATIONS.
//
//   TestVerif_C05_RevokeFaults  every revocation flow (sys/leases/revoke sync / queued, revoke-prefix sync / queued,
//                               revoke-force, final use of a use-limited token, auth/token/revoke cascading to
//                               the token's leases and children, the automatic expiry job) x lease kind: all
//                               storage operations made from the moment the flow starts until the core is quiet
//                               again (the request's own and those of the revocation workers; gets, lists and
//                               deletes as well as puts) are enumerated, and the flow is run once per operation
//                               with exactly that operation failing.
//
// Whatever fails, a lease record that is still in storage afterwards has to be pending with a timer (or
// irrevocable, or a non-expiring root token's): a revocation that could not finish must leave the lease where the
// manager's retry finds it. Judged at once from the tracking sets and the store, then by the strict comparison
// over all namespaces; then every lease whose stored expiry has passed must disappear through the manager's own
// retry (retry base 60ms) within a bounded wait, or end up irrevocable.

import (
	"fmt"
	"strings"
	"sync"
	"testing"
	"time"

	kit "github.com/openbao/openbao/sdk/v2/helper/verifkit"
	"github.com/openbao/openbao/sdk/v2/logical"
)

type c05VFCase struct {
	flow string // sync | queued | prefix-sync | prefix-queued | force | final-use | token-revoke | expiry
	kind string
	ns   string
}

func (c c05VFCase) String() string { return fmt.Sprintf("%s:%s:%s", c.flow, c.kind, c.ns) }

func c05VFCases() []c05VFCase {
	var out []c05VFCase
	add := func(flow string, kn ...string) {
		for i := 0; i+1 < len(kn); i += 2 {
			out = append(out, c05VFCase{flow, kn[i], kn[i+1]})
		}
	}
	if kit.Tier() == "quick" {
		// the short list: every flow, every kind at least once, the dependants trimmed to one secret lease
		// except in the cascading token revocation
		add("sync", "secret", "", "secret-of-batch", "ns1/", "token+secret", "ns1/", "root-nonexp+secret", "")
		add("queued", "secret", "ns1/", "token+secret", "", "root-nonexp+secret", "", "login", "ns1/", "periodic", "", "orphan", "ns1/", "root-exp", "")
		add("prefix-sync", "secret", "ns1/ns2/")
		add("prefix-queued", "token+secret", "ns1/ns2/")
		add("force", "secret", "ns1/ns2/")
		add("final-use", "root-nonexp-uses", "", "login-uses", "ns1/")
		add("token-revoke", "token+deps", "")
		add("expiry", "secret", "ns1/", "token", "")
		return out
	}
	add("sync", "secret", "", "secret-of-batch", "ns1/", "token+deps", "ns1/", "root-nonexp+deps", "", "login", "", "periodic", "ns1/")
	add("queued", "secret", "ns1/", "secret-of-batch", "", "token+deps", "", "root-nonexp+deps", "", "login", "ns1/", "periodic", "", "orphan", "ns1/", "root-exp", "")
	add("prefix-sync", "secret", "ns1/ns2/", "token+deps", "ns1/ns2/")
	add("prefix-queued", "secret", "ns1/ns2/", "token+deps", "ns1/ns2/")
	add("force", "secret", "ns1/ns2/", "login", "ns1/ns2/")
	add("final-use", "root-nonexp-uses", "", "token-uses", "ns1/", "login-uses", "")
	add("token-revoke", "token+deps", "", "root-nonexp+deps", "", "login", "ns1/")
	add("expiry", "secret", "ns1/", "token+deps", "", "login", "ns1/")
	return out
}

// c05VFMake issues the objects of one run and returns the one the flow addresses.
func c05VFMake(h *c05KHist, c c05VFCase) *c05KObj {
	n := h.e.ns(c.ns)
	ttl := time.Hour
	if c.flow == "expiry" {
		ttl = time.Second
	}
	switch c.kind {
	case "secret":
		if strings.HasPrefix(c.flow, "prefix") || c.flow == "force" {
			h.create("secret", n, nil, time.Hour)
		}
		return h.create("secret", n, nil, ttl)
	case "secret-of-batch":
		b := h.create("batch", n, nil, time.Hour)
		if b == nil {
			return nil
		}
		return h.create("secret", n, b, ttl)
	case "token+deps", "root-nonexp+deps", "token+secret", "root-nonexp+secret":
		k := "token"
		if strings.HasPrefix(c.kind, "root-nonexp") {
			k = "root-nonexp"
		}
		o := h.create(k, n, nil, ttl)
		if o == nil {
			return nil
		}
		h.create("secret", n, o, time.Hour)
		if strings.HasSuffix(c.kind, "+deps") {
			h.create("token", n, o, time.Hour)
		}
		return o
	case "login":
		o := h.create("login", n, nil, ttl)
		if o != nil {
			h.create("secret", n, o, time.Hour)
		}
		return o
	case "root-nonexp-uses", "token-uses", "login-uses":
		o := h.create(c.kind, n, nil, time.Hour)
		if o == nil {
			return nil
		}
		for o.Uses > 1 {
			resp, err := h.e.v.Do(vReq{Op: logical.ReadOperation, Path: "auth/token/lookup-self", Token: o.TokenID, NS: c.ns})
			if !vOK(resp, err) {
				return nil
			}
			o.Uses--
		}
		return o
	}
	return h.create(c.kind, n, nil, ttl)
}

// c05VFStart sends the request that starts the flow (nothing for the expiry flow).
func c05VFStart(v *vCore, c c05VFCase, o *c05KObj) (*logical.Response, error) {
	ns := o.NS.Path
	pfx := o.LeasePath
	for _, p := range c05KPrefixes {
		if o.LeasePath == p || strings.HasPrefix(o.LeasePath, p+"/") {
			pfx = p
		}
	}
	switch c.flow {
	case "sync", "queued":
		return v.Do(vReq{Tag: "vf", Op: logical.UpdateOperation, Path: "sys/leases/revoke", Token: v.Root, NS: ns, Data: map[string]any{"lease_id": o.LeaseID, "sync": c.flow == "sync"}})
	case "prefix-sync", "prefix-queued":
		return v.Do(vReq{Tag: "vf", Op: logical.UpdateOperation, Path: "sys/leases/revoke-prefix/" + pfx, Token: v.Root, NS: ns, Data: map[string]any{"sync": c.flow == "prefix-sync"}})
	case "force":
		return v.Do(vReq{Tag: "vf", Op: logical.UpdateOperation, Path: "sys/leases/revoke-force/" + pfx, Token: v.Root, NS: ns})
	case "final-use":
		return v.Do(vReq{Tag: "vf", Op: logical.ReadOperation, Path: "auth/token/lookup-self", Token: o.TokenID, NS: ns})
	case "token-revoke":
		return v.Do(vReq{Tag: "vf", Op: logical.UpdateOperation, Path: "auth/token/revoke", Token: v.Root, NS: ns, Data: map[string]any{"token": o.TokenID}})
	case "expiry":
		return nil, nil
	}
	panic("c05: unknown flow " + c.flow)
}

func TestVerif_C05_RevokeFaults(t *testing.T) {
	t.Parallel()
	seed := kit.Seed(5)
	shard, shards := kit.Shard()
	r := kit.NewResult(t, "c05-revoke-faults", seed, "for every revocation flow (sys/leases/revoke sync=true and sync=false; revoke-prefix sync and queued on the secrets' and on the tokens' lease path prefix; revoke-force; the final use of a use-limited non-expiring root / service / login token; auth/token/revoke of a token that owns a secret lease and a child token; the expiry job of a 1s secret and of a 1s token with dependants) x lease kind (secret, secret of a batch token, service token with a secret and a child token, non-expiring root token with the same dependants, login, periodic, orphan, expiring root-policy token; root, child and grand-child namespace) x store kind: the storage operations made between the start of the flow and the core going quiet again are logged on a fault-free run (request and revocation workers; gets, lists, deletes, puts); then the flow is run on fresh objects once per operation index with exactly that operation failing (retry base of the revocation worker: 60ms). After the core went quiet: (a) at once, tracking sets read under the manager's lock before the store: every lease record of the run's objects that is still stored must be pending with a timer, irrevocable, or (zero stored expiry, non-expiring root token) non-expiring - a stored lease in none of the sets after the fault fired is the narrow class; (b) the strict comparison of c05-lease-kinds over all stored leases; (c) with the fault gone every stored lease whose expiry has passed must be gone or irrevocable within a bounded wait (an unarmed one is a violation at once, not reached = inconclusive), and the comparison again. A case is non-trivial when the fault fired (distinct by flow, kind, store kind, failed operation)")
	defer r.Write(t)
	cases := c05VFCases()
	base := 60 * time.Millisecond
	envs := map[bool]*c05Env{}
	var smu sync.Mutex
	nSampled := 0
	// runCase enumerates one (flow, kind, namespace) on the given core; nothing else may use that core meanwhile
	runCase := func(e *c05Env, c c05VFCase, tx bool, pre string) {
		v := e.v
		// bystanders that every run finds in place (a cleanup removes them as well)
		bystanders := func() {
			bh := &c05KHist{e: e, r: r, id: "revokefault:base"}
			bh.create("root-nonexp", e.ns(""), nil, 0)
			bh.create("token", e.ns("ns1/"), nil, time.Hour)
			bh.create("secret", e.ns(""), nil, time.Hour)
		}
		bystanders()
		perRunCleanup := strings.HasPrefix(c.flow, "prefix") || c.flow == "force"
		var ops []string
		nops := 0
		for i := 0; i <= nops+1; i++ {
			caseID := fmt.Sprintf("%s%d", pre, i)
			if i > 0 && !kit.WantCase(caseID) {
				continue
			}
			h := &c05KHist{e: e, r: r, id: caseID}
			o := c05VFMake(h, c)
			if o == nil {
				r.Inconc("%s: cannot issue the objects: %v", caseID, h.steps)
				break
			}
			var due time.Time
			if c.flow == "expiry" {
				if le := c05ReadLease(v, o.NS, o.LeaseID); le != nil {
					due = le.ExpireTime
				}
			}
			v.WaitQuiet(15*time.Millisecond, time.Second)
			// ---- no storage access by the harness from here until the core is quiet again
			var faulted kit.Event
			if i == 0 {
				v.Probe.StartLog(false)
			} else {
				v.Probe.FailNth(func(ev kit.Event) bool {
					faulted = ev
					return true
				}, i)
			}
			resp, err := c05VFStart(v, c, o)
			if !due.IsZero() {
				for !time.Now().After(due) {
					time.Sleep(10 * time.Millisecond)
				}
				time.Sleep(40 * time.Millisecond)
			}
			v.WaitQuiet(30*time.Millisecond, 3*time.Second)
			if i == 0 {
				evs := v.Probe.StopLog()
				nops = len(evs)
				for k, ev := range evs {
					ops = append(ops, fmt.Sprintf("%d %s %s", k+1, ev.Op, c05KeyClass(ev.Key)))
				}
				r.Count("flow_storage_operations", nops)
				if !vOK(resp, err) {
					r.Inconc("%s: the fault-free flow was refused: %s", caseID, vErrStr(resp, err))
					break
				}
				smu.Lock()
				nSampled++
				first := nSampled <= 5
				smu.Unlock()
				if first {
					r.Sample(map[string]any{"flow": c.String(), "transactional": tx, "storage_operations_of_the_flow": ops})
				}
			}
			fired := v.Probe.ClearFaults()
			// ----
			fault := "no fault"
			if i > 0 {
				r.Eval(1)
				if fired == 0 {
					r.Count("fault_not_reached", 1)
				} else {
					fault = fmt.Sprintf("operation %d of the flow (%s %s, tag %q) failing", i, faulted.Op, c05KeyClass(faulted.Key), faulted.Tag)
					r.Count("faults_fired", 1)
					r.Count("faults_fired:"+faulted.Op, 1)
					r.Count("faults_fired_in_flow:"+c.flow, 1)
					if faulted.Tag == "" {
						r.Count("faults_fired_in_a_revocation_worker", 1)
					}
					if faulted.Op == "delete" && strings.Contains(faulted.Key, c05LeaseMarker) {
						r.Count("faults_fired_on_a_lease_record_delete", 1)
					}
					r.Nontrivial(fmt.Sprintf("%s|%v|%s|%s", c, tx, faulted.Op, c05KeyClass(faulted.Key)))
					if vOK(resp, err) {
						r.Count("request_accepted_although_an_operation_failed", 1)
					} else {
						r.Count("request_refused", 1)
					}
				}
			}
			wit := map[string]any{"case": caseID, "flow": c.String(), "transactional": tx, "fault": fault, "answer": vErrStr(resp, err), "storage_operations_of_the_fault_free_flow": ops, "objects": h.steps}
			stage := fmt.Sprintf("after %s of %s with %s", c.flow, o, fault)
			// (a) at once
			mem := c05Members(v.Core)
			now := time.Now()
			bad := false
			for _, x := range h.objs {
				if x.LeaseID == "" {
					continue
				}
				le := c05ReadLease(v, x.NS, x.LeaseID)
				if le == nil {
					continue
				}
				r.Count("leases_still_stored_after_the_flow", 1)
				m := mem[x.LeaseID]
				if !le.ExpireTime.IsZero() && le.ExpireTime.Before(now) && !le.isIrrevocable() {
					r.Count("past_expiry_tracking_checks", 1)
					if m.armed() && fired > 0 {
						r.Count("expired_lease_seen_pending_for_retry_after_a_failed_revocation", 1)
					}
				}
				if (m != nil && (m.P || m.I)) || c05IsRevocationLease(le) {
					continue
				}
				for _, f := range c05JudgeLease(x.LeaseID, &c05Stored{ID: x.LeaseID, NS: x.NS, Entry: le}, m, now) {
					class := f.class
					if class == "C05-stored-lease-untracked" && fired > 0 {
						class = "C05-stored-lease-untracked-after-failed-revocation"
					}
					r.Violate(class, caseID, fmt.Sprintf("%s [%s] (answer: %s): %s", stage, caseID, vErrStr(resp, err), f.what), wit)
					bad = true
					break
				}
			}
			// (b), (c)
			held := false
			if !bad && e.checkKinds(v, r, caseID, stage, wit) {
				st0, _ := e.stored(v, false)
				if e.awaitDue(v, r, caseID, stage+", fault cleared", 0, wit) {
					st1, _ := e.stored(v, false)
					if len(st1) == len(st0) { // nothing was due
						held = true
					} else {
						v.WaitQuiet(20*time.Millisecond, 2*time.Second)
						held = e.checkKinds(v, r, caseID, stage+", after the due leases were awaited", wit)
					}
				}
			}
			if held {
				r.Count("runs_held", 1)
			}
			if perRunCleanup || !held { // (what a failed run leaves behind must not be blamed on the next one)
				h.cleanup()
				bystanders()
			}
			if r.NViolations() > 20 {
				return
			}
		}
		(&c05KHist{e: e, r: r}).cleanup()
	}
	// the expiry flows wait a second per run: each gets a core of its own and runs beside the others
	var wg sync.WaitGroup
	for ci, c := range cases {
		for si, tx := range []bool{false, true} {
			if kit.Tier() == "quick" && (ci+shard)%2 != si {
				continue
			}
			if kit.Tier() != "quick" && (2*ci+si)%shards != shard {
				continue
			}
			pre := fmt.Sprintf("revokefault:%v:%s:", tx, c)
			if kit.OnlyCase() != "" && !strings.HasPrefix(kit.OnlyCase(), pre) {
				continue
			}
			if r.NViolations() > 20 {
				break
			}
			if c.flow == "expiry" {
				c, tx := c, tx
				own := c05Boot(t, tx, false, base)
				wg.Add(1)
				go func() {
					defer wg.Done()
					runCase(own, c, tx, pre)
					own.v.Close()
				}()
				continue
			}
			e := envs[tx]
			if e == nil {
				e = c05Boot(t, tx, false, base)
				envs[tx] = e
			}
			runCase(e, c, tx, pre)
		}
	}
	wg.Wait()
	for _, e := range envs {
		e.v.Close()
	}
	r.Require("faults_fired", 150)
	r.Require("faults_fired:delete", 30)
	r.Require("faults_fired:get", 40)
	r.Require("faults_fired:put", 20)
	r.Require("faults_fired_on_a_lease_record_delete", 20)
	r.Require("faults_fired_in_a_revocation_worker", 40)
	for _, f := range []string{"sync", "queued", "prefix-sync", "prefix-queued", "force", "final-use", "token-revoke", "expiry"} {
		r.Require("faults_fired_in_flow:"+f, 6)
	}
	r.Require("leases_still_stored_after_the_flow", 100)
	r.Require("expired_lease_seen_pending_for_retry_after_a_failed_revocation", 10)
	r.Require("expired_leases_seen_revoked", 20)
	r.Require("set_comparisons", 150)
	r.Require("runs_held", 150)
}
