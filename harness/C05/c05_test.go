//go:build verif

package vault

// C05: lifetimes are bounded by max TTL; every stored lease is tracked to expiry.
//
//   TestVerif_C05_APIBound     O1 at the API: issue / renew sequences of secrets, login tokens, created
//                              tokens, role tokens, batch tokens under generated mount/system tuning
//   TestVerif_C05_Tracking     O2: stored leases (physical key scan, all namespaces) vs. the expiration
//                              manager's pending/nonexpiring/irrevocable maps after histories, restarts,
//                              namespace seal/unseal; bounded progress of expiry
//   TestVerif_C05_Crash        O2 after a restart on every prefix of the durable writes of register /
//                              renew / revoke flows
//   TestVerif_C05_RetryBudget  O3: failing revocations end in the irrevocable state within the retry
//                              budget; expired / irrevocable leases refuse renewal; recovery
//   TestVerif_C05_LeaseKinds / _LeaseKindsCrash (c05_kinds_test.go)
//                              O2, strict form, over every lease kind (non-expiring root tokens, use-limited,
//                              periodic, orphan, batch lessees, child namespaces) x queued / sync revocation
//                              paths x restarts and crash prefixes
//
// The reference is written from the property text and docs (concepts/tokens.mdx, api/auth/token.mdx).

import (
	"context"
	"fmt"
	"path"
	"strings"
	"sync"
	"testing"
	"time"

	kit "github.com/openbao/openbao/sdk/v2/helper/verifkit"
	"github.com/openbao/openbao/sdk/v2/logical"
	"github.com/openbao/openbao/sdk/v2/physical"
	"github.com/openbao/openbao/v2/internal/helper/namespace"
	"github.com/openbao/openbao/v2/internal/vault/barrier"
)

const c05Policy = `
path "*" { capabilities = ["create","read","update","delete","list","sudo"] }
`

const c05SystemMaxDefault = 32 * 24 * time.Hour

// ------------------------------------------------------------------ environment

type c05NS struct {
	Path     string // "" root, "ns1/", ...
	NS       *namespace.Namespace
	Prefix   string // physical key prefix of the namespace's storage
	Sealable bool
	Keys     []string
	Sealed   bool // as far as the harness knows (it performed the transitions)
}

type c05Env struct {
	t   *testing.T
	v   *vCore
	nss []*c05NS
	tx  bool
}

func c05Secs(d time.Duration) string { return fmt.Sprintf("%ds", int64(d/time.Second)) }

func c05NSCtx(v *vCore, nsPath string) context.Context {
	if nsPath == "" {
		return namespace.RootContext(context.Background())
	}
	ns, err := v.Core.namespaceStore.GetNamespaceByPath(namespace.RootContext(context.Background()), nsPath)
	if err != nil || ns == nil {
		panic(fmt.Sprintf("namespace %q: %v", nsPath, err))
	}
	return namespace.ContextWithNamespace(context.Background(), ns)
}

func (e *c05Env) ns(p string) *c05NS {
	for _, n := range e.nss {
		if n.Path == p {
			return n
		}
	}
	return nil
}

func (e *c05Env) setRetryBase(v *vCore, base time.Duration) {
	if base <= 0 {
		return
	}
	// in-package knob: the retry base of the revocation worker (default 10s)
	v.Core.expirationRevokeRetryBase = base
	// A manager created after the knob was set already carries the value; writing the field of a
	// running manager again would race with its revocation workers (seen by the race detector).
	if v.Core.expiration != nil && v.Core.expiration.revokeRetryBase != base {
		v.Core.expiration.revokeRetryBase = base
	}
}

// c05Boot builds a core with namespaces ns1/, ns1/ns2/ (plain) and optionally sns/ (own shamir seal).
func c05Boot(t *testing.T, tx bool, sealable bool, retryBase time.Duration) *c05Env {
	return c05BootOn(t, tx, nil, sealable, retryBase)
}

// c05BootOn: like c05Boot, on the given (empty) store when phys is not nil; phys must come from kit.NewProbe.
func c05BootOn(t *testing.T, tx bool, phys physical.Backend, sealable bool, retryBase time.Duration) *c05Env {
	v := vBoot(t, vOpts{Transactional: tx, Phys: phys,
		Logical:    map[string]logical.Factory{"c05rb": c05RBFactory(logical.TypeLogical)},
		Credential: map[string]logical.Factory{"c05rb": c05RBFactory(logical.TypeCredential)}})
	e := &c05Env{t: t, v: v, tx: tx}
	e.setRetryBase(v, retryBase)
	e.nss = append(e.nss, &c05NS{Path: "", NS: namespace.RootNamespace})
	v.MustDo(vReq{Op: logical.UpdateOperation, Path: "sys/namespaces/ns1", Token: v.Root})
	v.MustDo(vReq{Op: logical.UpdateOperation, Path: "sys/namespaces/ns2", Token: v.Root, NS: "ns1/"})
	for _, p := range []string{"ns1/", "ns1/ns2/"} {
		e.addNS(p, false, nil)
	}
	if sealable {
		e.addSealable("sns")
	}
	for _, n := range e.nss {
		v.Policy("c05", c05Policy, n.Path)
		v.Mount("c05rec", "verifrec", n.Path, nil)
		v.EnableAuth("c05auth", "verifrec", n.Path)
	}
	return e
}

// addSealable creates a namespace with its own shamir seal, unseals it and registers it.
func (e *c05Env) addSealable(name string) *c05NS {
	t, v := e.t, e.v
	var keys []string
	var resp *logical.Response
	var err error
	for _, cfg := range []string{"seal \"shamir\" {\n shares = 1\n threshold = 1\n}", "seal \"shamir\" {\n shares = 3\n threshold = 2\n}"} {
		resp, err = v.Do(vReq{Op: logical.UpdateOperation, Path: "sys/namespaces/" + name, Token: v.Root, Data: map[string]any{"seal": cfg}})
		if vOK(resp, err) && resp != nil {
			break
		}
	}
	if !vOK(resp, err) || resp == nil {
		t.Fatalf("verif: cannot create sealable namespace: %s", vErrStr(resp, err))
	}
	switch ks := resp.Data["key_shares"].(type) {
	case []string:
		keys = ks
	case []any:
		for _, k := range ks {
			keys = append(keys, fmt.Sprint(k))
		}
	}
	if len(keys) == 0 {
		t.Fatalf("verif: sealable namespace returned no key shares: %v", resp.Data)
	}
	n := &c05NS{Path: name + "/", Sealable: true, Keys: keys, Sealed: true}
	e.nss = append(e.nss, n)
	if err := e.unsealNS(v, n); err != nil {
		t.Fatalf("verif: cannot unseal namespace %s: %v", name, err)
	}
	ns, err := v.Core.namespaceStore.GetNamespaceByPath(namespace.RootContext(context.Background()), name+"/")
	if err != nil || ns == nil {
		t.Fatalf("verif: namespace %s: %v", name, err)
	}
	n.NS = ns.Clone(false)
	n.Prefix = NamespaceStoragePathPrefix(ns)
	return n
}

func (e *c05Env) addNS(p string, sealable bool, keys []string) {
	ns, err := e.v.Core.namespaceStore.GetNamespaceByPath(namespace.RootContext(context.Background()), p)
	if err != nil || ns == nil {
		e.t.Fatalf("verif: namespace %q: %v", p, err)
	}
	e.nss = append(e.nss, &c05NS{Path: p, NS: ns.Clone(false), Prefix: NamespaceStoragePathPrefix(ns), Sealable: sealable, Keys: keys})
}

func (e *c05Env) unsealNS(v *vCore, n *c05NS) error {
	name := strings.TrimSuffix(n.Path, "/")
	for _, k := range n.Keys {
		resp, err := v.Do(vReq{Op: logical.UpdateOperation, Path: "sys/namespaces/" + name + "/unseal", Token: v.Root, Data: map[string]any{"key": k}})
		if !vOK(resp, err) || resp == nil {
			return fmt.Errorf("unseal: %s", vErrStr(resp, err))
		}
		if sealed, ok := resp.Data["sealed"].(bool); ok && !sealed {
			n.Sealed = false
			return nil
		}
	}
	return fmt.Errorf("namespace %s still sealed after all key shares", n.Path)
}

func (e *c05Env) sealNS(v *vCore, n *c05NS) error {
	name := strings.TrimSuffix(n.Path, "/")
	resp, err := v.Do(vReq{Op: logical.UpdateOperation, Path: "sys/namespaces/" + name + "/seal", Token: v.Root})
	if !vOK(resp, err) {
		return fmt.Errorf("seal: %s", vErrStr(resp, err))
	}
	n.Sealed = true
	return nil
}

// ------------------------------------------------------------------ observation: storage and tracker

var c05LeaseMarker = barrier.SystemBarrierPrefix + expirationSubPath + leaseViewPrefix // "sys/expire/id/"

// c05PhysKeys lists every key of the physical store (keys only).
func c05PhysKeys(p *kit.Probe) []string {
	var out []string
	ctx := context.Background()
	var walk func(prefix string)
	walk = func(prefix string) {
		names, err := p.Inner().List(ctx, prefix)
		if err != nil {
			return
		}
		for _, n := range names {
			if strings.HasSuffix(n, "/") {
				walk(prefix + n)
			} else {
				out = append(out, prefix+n)
			}
		}
	}
	walk("")
	return out
}

type c05Stored struct {
	ID    string
	NS    *c05NS
	Key   string
	Entry *leaseEntry // nil when the namespace is sealed / unreadable
}

// stored scans the physical store for lease records of every namespace. The
// set of namespaces is NOT taken from the server: any key that contains the
// lease-view marker counts.
func (e *c05Env) stored(v *vCore, decode bool) (map[string]*c05Stored, []string) {
	out := map[string]*c05Stored{}
	var unknown []string
	for _, k := range c05PhysKeys(v.Probe) {
		i := strings.Index(k, c05LeaseMarker)
		if i < 0 {
			continue
		}
		prefix, id := k[:i], k[i+len(c05LeaseMarker):]
		var owner *c05NS
		for _, n := range e.nss {
			if n.NS != nil && n.Prefix == prefix {
				owner = n
			}
		}
		if owner == nil {
			unknown = append(unknown, k)
			continue
		}
		s := &c05Stored{ID: id, NS: owner, Key: k}
		if decode && !owner.Sealed {
			s.Entry = c05ReadLease(v, owner, id)
		}
		out[id] = s
	}
	return out, unknown
}

// c05ReadLease reads and decodes one stored lease record (nil if absent/unreadable).
func c05ReadLease(v *vCore, n *c05NS, id string) *leaseEntry {
	exp := v.Core.expiration
	if exp == nil {
		return nil
	}
	ctx := namespace.ContextWithNamespace(context.Background(), n.NS)
	ent, err := exp.leaseView(n.NS).Get(ctx, id)
	if err != nil || ent == nil {
		return nil
	}
	le, err := decodeLeaseEntry(ent.Value)
	if err != nil {
		return nil
	}
	return le
}

type c05Tracked struct {
	Where    string // pending | nonexpiring | irrevocable
	Expire   time.Time
	HasTimer bool
	Attempts uint8
}

// c05Tracker copies the in-memory tracking state under the manager's lock.
func c05Tracker(c *Core) map[string]c05Tracked {
	out := map[string]c05Tracked{}
	m := c.expiration
	if m == nil {
		return out
	}
	m.pendingLock.RLock()
	defer m.pendingLock.RUnlock()
	m.pending.Range(func(k, val any) bool {
		pi := val.(pendingInfo)
		tr := c05Tracked{Where: "pending", HasTimer: pi.timer != nil, Attempts: pi.revokesAttempted}
		if pi.cachedLeaseInfo != nil {
			tr.Expire = pi.cachedLeaseInfo.ExpireTime
		}
		out[k.(string)] = tr
		return true
	})
	m.nonexpiring.Range(func(k, val any) bool {
		out[k.(string)] = c05Tracked{Where: "nonexpiring"}
		return true
	})
	m.irrevocable.Range(func(k, val any) bool {
		tr := c05Tracked{Where: "irrevocable"}
		if le, ok := val.(*leaseEntry); ok && le != nil {
			tr.Expire = le.ExpireTime
		}
		out[k.(string)] = tr
		return true
	})
	return out
}

// c05WaitRestored waits (bounded) until the manager left restore mode.
func c05WaitRestored(v *vCore, max time.Duration) bool {
	deadline := time.Now().Add(max)
	for time.Now().Before(deadline) {
		if m := v.Core.expiration; m != nil && !m.inRestoreMode() {
			return true
		}
		time.Sleep(5 * time.Millisecond)
	}
	return false
}

func c05Short(id string) string {
	if len(id) > 70 {
		return id[:34] + ".." + id[len(id)-30:]
	}
	return id
}

// checkTracking is oracle O2. The tracker is read first and the store second,
// so a lease revoked in between shows up only in the (ignored) direction
// tracked-but-not-stored. Repeated until clean; a mismatch that persists over
// all polls on an otherwise idle core is reported.
func (e *c05Env) checkTracking(v *vCore, r *kit.Result, caseID, stage string, extra any) bool {
	type finding struct{ class, what string }
	var last []finding
	polls := 40
	for p := 0; p < polls; p++ {
		last = nil
		tr := c05Tracker(v.Core)
		st, unknown := e.stored(v, true)
		for _, k := range unknown {
			last = append(last, finding{"C05-harness-unknown-namespace-prefix", "lease record under a storage prefix the harness does not know: " + k})
		}
		ghosts := 0
		for id := range tr {
			if _, ok := st[id]; !ok {
				ghosts++
			}
		}
		nCompared := 0
		for id, s := range st {
			if s.NS.Sealed {
				continue
			}
			nCompared++
			t, ok := tr[id]
			if !ok {
				last = append(last, finding{"C05-stored-lease-untracked", fmt.Sprintf("lease %s (namespace %q) is in storage but in none of pending/nonexpiring/irrevocable", c05Short(id), s.NS.Path)})
				continue
			}
			if s.Entry == nil {
				continue // vanished between the listing and the read
			}
			switch t.Where {
			case "pending":
				if !t.HasTimer {
					last = append(last, finding{"C05-pending-without-timer", fmt.Sprintf("lease %s (namespace %q) is pending without a timer", c05Short(id), s.NS.Path)})
				}
				if !t.Expire.Equal(s.Entry.ExpireTime) {
					last = append(last, finding{"C05-tracked-expiry-differs-from-stored", fmt.Sprintf("lease %s (namespace %q): tracked expiry %s, stored expiry %s", c05Short(id), s.NS.Path, t.Expire.Format(time.RFC3339Nano), s.Entry.ExpireTime.Format(time.RFC3339Nano))})
				}
			case "nonexpiring":
				if !s.Entry.ExpireTime.IsZero() {
					last = append(last, finding{"C05-expiring-lease-tracked-as-nonexpiring", fmt.Sprintf("lease %s (namespace %q) has stored expiry %s but is tracked as non-expiring", c05Short(id), s.NS.Path, s.Entry.ExpireTime.Format(time.RFC3339Nano))})
				}
			}
		}
		if len(last) == 0 {
			r.Count("tracking_checks", 1)
			r.Count("tracking_leases_compared", nCompared)
			if ghosts > 0 {
				r.Count("tracked_but_not_stored_seen(not judged)", ghosts)
			}
			byWhere := map[string]int{}
			for id, t := range tr {
				if _, ok := st[id]; ok {
					byWhere[t.Where]++
				}
			}
			for w, n := range byWhere {
				r.Count("tracking_compared_"+w, n)
			}
			return true
		}
		time.Sleep(50 * time.Millisecond)
	}
	seen := map[string]bool{}
	for _, f := range last {
		if seen[f.class] {
			continue
		}
		seen[f.class] = true
		r.Violate(f.class, caseID, fmt.Sprintf("%s [%s]: %s", stage, caseID, f.what), map[string]any{"stage": stage, "all": c05FindingsText(last), "extra": extra})
	}
	return false
}

func c05FindingsText[T any](fs []T) []string {
	var out []string
	for i, f := range fs {
		if i >= 12 {
			out = append(out, fmt.Sprintf("... %d more", len(fs)-i))
			break
		}
		out = append(out, fmt.Sprintf("%v", f))
	}
	return out
}

// awaitGone: bounded progress. For the given leases (with their stored expiry)
// the harness first observes the clock pass the latest expiry, then polls
// until every one disappeared from storage. Not reached => inconclusive.
func (e *c05Env) awaitGone(v *vCore, r *kit.Result, caseID string, ids map[string]*c05Stored) {
	if len(ids) == 0 {
		return
	}
	var latest time.Time
	for _, s := range ids {
		if s.Entry != nil && s.Entry.ExpireTime.After(latest) {
			latest = s.Entry.ExpireTime
		}
	}
	for !time.Now().After(latest) {
		time.Sleep(20 * time.Millisecond)
	}
	deadline := time.Now().Add(12 * time.Second)
	for {
		remaining := 0
		for id, s := range ids {
			if c05ReadLease(v, s.NS, id) != nil {
				remaining++
			}
		}
		if remaining == 0 {
			r.Count("expired_leases_seen_revoked", len(ids))
			return
		}
		if time.Now().After(deadline) {
			r.Inconc("%s: %d of %d leases still stored 12s after the clock passed their expiry (bounded progress not reached)", caseID, remaining, len(ids))
			return
		}
		time.Sleep(25 * time.Millisecond)
	}
}

func c05TokenLeaseID(v *vCore, nsPath, tokenID string) (string, error) {
	ctx := c05NSCtx(v, nsPath)
	te, err := v.Core.tokenStore.Lookup(ctx, tokenID)
	if err != nil || te == nil {
		return "", fmt.Errorf("token lookup: %v", err)
	}
	salted, err := v.Core.tokenStore.SaltID(ctx, te.ID)
	if err != nil {
		return "", err
	}
	id := path.Join(te.Path, salted)
	ns, _ := namespace.FromContext(ctx)
	if ns != nil && ns.ID != namespace.RootNamespaceID {
		id = fmt.Sprintf("%s.%s", id, ns.ID)
	}
	return id, nil
}

// ------------------------------------------------------------------ O1 at the API

type c05Step struct {
	Wait   time.Duration `json:"wait"`
	Inc    time.Duration `json:"increment"`
	Tune   bool          `json:"tune,omitempty"`
	NewMax time.Duration `json:"new_mount_max,omitempty"`
	// RoleOp (token-role kinds): what happens to the token's role before this renewal:
	// delete | raise-max | lower-max | remove-max | change-period | recreate; the role's values afterwards:
	RoleOp        string        `json:"role_op,omitempty"`
	NewRoleXMax   time.Duration `json:"new_role_explicit_max,omitempty"`
	NewRolePeriod time.Duration `json:"new_role_period,omitempty"`
	Outcome       string        `json:"outcome,omitempty"`
}

type c05Spec struct {
	Kind       string        `json:"kind"` // secret | secret-batch | login | login-batch | token | token-role
	NS         string        `json:"ns"`
	MountMax   time.Duration `json:"mount_max"`
	MountDef   time.Duration `json:"mount_default"`
	SysMax     time.Duration `json:"system_max"`
	TTL        time.Duration `json:"ttl"`
	BMax       time.Duration `json:"backend_max"`
	Period     time.Duration `json:"period"`
	XMax       time.Duration `json:"explicit_max"`
	RoleXMax   time.Duration `json:"role_explicit_max"`
	RolePeriod time.Duration `json:"role_period"`
	Renewable  bool          `json:"renewable"`
	// RenewMode: how the backend answers the renew operation (secret / login kinds on a c05rb mount):
	// "" or "echo" = the request's Secret/Auth is handed back; "fresh-ttl" = newly built lease options with only
	// the TTL; "fresh-ttl-max" = TTL and the backend max; "fresh-issue-future" / "fresh-issue-past" = additionally
	// an issue time one hour ahead / back
	RenewMode string     `json:"backend_renew_mode,omitempty"`
	Steps     []*c05Step `json:"steps"`
	Text      string     `json:"text"` // the same, readable (durations in the other fields are nanoseconds)
}

func (sp *c05Spec) describe() {
	var st []string
	for _, x := range sp.Steps {
		t := fmt.Sprintf("wait %s renew +%s", x.Wait, x.Inc)
		if x.Tune {
			t = fmt.Sprintf("wait %s tune mount max=%s renew +%s", x.Wait, x.NewMax, x.Inc)
		}
		if x.RoleOp != "" {
			t = fmt.Sprintf("wait %s role %s (role explicit max=%s period=%s afterwards) renew +%s", x.Wait, x.RoleOp, x.NewRoleXMax, x.NewRolePeriod, x.Inc)
		}
		st = append(st, t)
	}
	sp.Text = fmt.Sprintf("%s ns=%q mount max/default=%s/%s system max=%s ttl=%s backend max=%s period=%s explicit max=%s role explicit max=%s role period=%s renewable=%v; %s",
		sp.Kind, sp.NS, sp.MountMax, sp.MountDef, sp.SysMax, sp.TTL, sp.BMax, sp.Period, sp.XMax, sp.RoleXMax, sp.RolePeriod, sp.Renewable, strings.Join(st, "; "))
	if sp.RenewMode != "" {
		sp.Text += "; backend answers renewals: " + sp.RenewMode
	}
}

type c05Round struct {
	SysMax, SysDef, TokMax, TokDef time.Duration
}

type c05Worker struct {
	idx    int
	ns     string
	secret string // mount path of the worker's verifrec secrets engine
	auth   string // mount path (below auth/) of the worker's verifrec auth method
	role   string
}

func c05MinPos(ds ...time.Duration) time.Duration {
	var m time.Duration
	for _, d := range ds {
		if d > 0 && (m == 0 || d < m) {
			m = d
		}
	}
	return m
}

func c05GenSpec(rng *kit.Rand, round c05Round, ns string) c05Spec {
	pick := func(xs ...time.Duration) time.Duration { return xs[rng.Intn(len(xs))] }
	s := time.Second
	sp := c05Spec{NS: ns, Renewable: !rng.Chance(1, 6), SysMax: round.SysMax}
	sp.Kind = kit.Pick(rng, []string{"secret", "secret", "secret-batch", "login", "login", "login-batch", "token", "token", "token-role", "token-role"})
	sp.TTL = pick(0, 3*s, 6*s, 20*s, time.Hour)
	sp.BMax = pick(0, 0, 8*s, 14*s, 40*s, time.Hour)
	sp.MountMax = pick(0, 0, 10*s, 25*s, 2*time.Hour)
	sp.MountDef = pick(0, 0, 5*s)
	if sp.MountMax > 0 && sp.MountDef > sp.MountMax {
		sp.MountDef = 0
	}
	switch sp.Kind {
	case "login", "token", "token-role":
		sp.Period = pick(0, 0, 0, 4*s, 9*s, 30*s)
		sp.XMax = pick(0, 0, 7*s, 12*s, 40*s)
	}
	switch sp.Kind {
	case "token", "token-role":
		sp.BMax = 0
		sp.MountMax, sp.MountDef = round.TokMax, round.TokDef // the token mount is tuned per round, not per case
	}
	if sp.Kind == "token-role" {
		sp.RoleXMax = pick(0, 0, 7*s, 12*s, 40*s)
		sp.RolePeriod = pick(0, 0, 0, 4*s, 9*s)
		if rng.Chance(1, 2) {
			sp.Period = 0 // a period given in the call and one in the role is the rarer case
		}
	}
	if sp.Kind == "login-batch" || sp.Kind == "secret-batch" {
		sp.Period, sp.XMax = 0, 0
	}
	if sp.TTL == 0 && sp.Kind != "secret" && sp.Kind != "secret-batch" && sp.Period == 0 && sp.RolePeriod == 0 {
		// a zero TTL falls back to the default; keep that case but make sure a default exists that is not 32 days only
		if sp.MountDef == 0 && rng.Chance(1, 2) {
			sp.TTL = 6 * s
		}
	}
	n := 2 + rng.Intn(2)
	for i := 0; i < n; i++ {
		// waits are whole seconds + 400ms so that a renewal is never sent at the very instant a whole-second TTL runs out
		st := &c05Step{Wait: pick(1*s, 2*s, 2*s, 3*s, 3*s) + 400*time.Millisecond, Inc: pick(0, 0, 5*s, 15*s, time.Hour)}
		if (sp.Kind == "secret" || sp.Kind == "login" || sp.Kind == "secret-batch") && rng.Chance(1, 5) {
			st.Tune = true
			st.NewMax = pick(0, 4*s, 10*s, 25*s, 2*time.Hour)
		}
		sp.Steps = append(sp.Steps, st)
	}
	sp.describe()
	return sp
}

// c05Lease is what the harness knows about one lease under observation.
type c05Lease struct {
	sp        c05Spec
	ns        *c05NS
	leaseID   string
	tokenID   string // for token kinds
	isToken   bool
	batchOwn  bool // the lease belongs to a batch token (secret-batch)
	batchTok  bool // the object itself is a batch token (no lease record)
	issueLo   time.Time
	issueHi   time.Time
	xmax      time.Duration // explicit max fixed at issue
	lastBound time.Time     // bound of the last grant
	lastAlt   time.Time     // bound of the last grant had the role's explicit max been used instead of the token's own
	lastStore time.Time     // stored expiry after the last observation
	bmax      time.Duration // backend max as stated by the backend in its last granting answer
	lastRenew time.Time     // bound of the last grant had the cap been counted from the renewal (narrow class only)
}

// observe returns the expiry as the API reports it and as it is stored.
func (e *c05Env) observe(v *vCore, l *c05Lease) (api time.Time, apiOK bool, stored time.Time, storedOK bool) {
	if l.isToken {
		resp, err := v.Do(vReq{Op: logical.UpdateOperation, Path: "auth/token/lookup", Token: v.Root, NS: l.sp.NS, Data: map[string]any{"token": l.tokenID}})
		if vOK(resp, err) && resp != nil && resp.Data != nil {
			if t, ok := resp.Data["expire_time"].(time.Time); ok {
				api, apiOK = t, true
			}
		}
	} else {
		resp, err := v.Do(vReq{Op: logical.UpdateOperation, Path: "sys/leases/lookup", Token: v.Root, NS: l.sp.NS, Data: map[string]any{"lease_id": l.leaseID}})
		if vOK(resp, err) && resp != nil && resp.Data != nil {
			if t, ok := resp.Data["expire_time"].(time.Time); ok {
				api, apiOK = t, true
			}
		}
	}
	if l.leaseID != "" {
		if le := c05ReadLease(v, l.ns, l.leaseID); le != nil {
			stored, storedOK = le.ExpireTime, true
		}
	}
	return
}

// bound computes the latest admissible expiry of a grant made by a request
// that ran in [b0,b1], from the configuration in force at that time.
func (l *c05Lease) bound(b0, b1 time.Time, mountMax, sysMax time.Duration, period time.Duration) (time.Time, string) {
	slack := time.Second + b1.Sub(b0)
	ms := mountMax
	if ms <= 0 {
		ms = sysMax
	}
	if ms <= 0 {
		ms = c05SystemMaxDefault
	}
	if period > 0 {
		b := b1.Add(period + time.Second)
		why := fmt.Sprintf("grant time + period %s", period)
		if l.xmax > 0 {
			if x := l.issueHi.Add(l.xmax + slack); x.Before(b) {
				b, why = x, fmt.Sprintf("issue + explicit max %s", l.xmax)
			}
		}
		return b, why
	}
	eff := c05MinPos(ms, l.bmax, l.xmax)
	return l.issueHi.Add(eff + slack), fmt.Sprintf("issue + effective max %s (mount/system %s, backend %s, explicit %s)", eff, ms, l.bmax, l.xmax)
}

func (e *c05Env) tuneMount(v *vCore, ns, apiPath string, max, def time.Duration) error {
	data := map[string]any{"max_lease_ttl": c05Secs(max), "default_lease_ttl": c05Secs(def)}
	resp, err := v.Do(vReq{Op: logical.UpdateOperation, Path: apiPath, Token: v.Root, NS: ns, Data: data})
	if !vOK(resp, err) {
		return fmt.Errorf("tune %s: %s", apiPath, vErrStr(resp, err))
	}
	return nil
}

func (e *c05Env) runBoundCase(r *kit.Result, w *c05Worker, caseID string, sp c05Spec, rng *kit.Rand) {
	v := e.v
	r.Eval(1)
	wit := func(extra ...any) map[string]any {
		return map[string]any{"spec": sp, "extra": extra}
	}
	l := &c05Lease{sp: sp, ns: e.ns(sp.NS), bmax: sp.BMax}
	ownMount := sp.Kind == "secret" || sp.Kind == "secret-batch" || sp.Kind == "login" || sp.Kind == "login-batch"
	tunePath := "sys/mounts/" + w.secret + "/tune"
	if sp.Kind == "login" || sp.Kind == "login-batch" {
		tunePath = "sys/auth/" + w.auth + "/tune"
	}
	mountMax := sp.MountMax
	if ownMount {
		if err := e.tuneMount(v, sp.NS, tunePath, sp.MountMax, sp.MountDef); err != nil {
			r.Inconc("%s: %v", caseID, err)
			return
		}
	}
	period := sp.Period
	renewableExpected := sp.Renewable
	// token-role kinds: the last mutation of the role since the token was issued
	roleChanged, roleDeleted, curRolePeriod := "", false, sp.RolePeriod

	// ---- issue
	var resp *logical.Response
	var err error
	reqTok := v.Root
	if sp.Kind == "secret-batch" {
		bt, bresp, berr := v.CreateToken(v.Root, map[string]any{"type": "batch", "ttl": "1h", "policies": []string{"c05"}}, false, sp.NS)
		if bt == nil {
			r.Inconc("%s: cannot create batch token: %s", caseID, vErrStr(bresp, berr))
			return
		}
		reqTok = bt.ID
		l.batchOwn = true
	}
	a0 := time.Now()
	switch sp.Kind {
	case "secret", "secret-batch":
		resp, err = v.Do(vReq{Op: logical.ReadOperation, Path: w.secret + "/lease/x", Token: reqTok, NS: sp.NS,
			Data: map[string]any{"ttl": c05Secs(sp.TTL), "max_ttl": c05Secs(sp.BMax), "non_renewable": !sp.Renewable, "renew_mode": sp.RenewMode}})
	case "login", "login-batch":
		tt := "service"
		if sp.Kind == "login-batch" {
			tt = "batch"
		}
		resp, err = v.Do(vReq{Op: logical.UpdateOperation, Path: "auth/" + w.auth + "/login/u", NS: sp.NS,
			Data: map[string]any{"ttl": c05Secs(sp.TTL), "max_ttl": c05Secs(sp.BMax), "period": c05Secs(sp.Period), "explicit_max_ttl": c05Secs(sp.XMax),
				"policies": "default", "token_type": tt, "renewable": sp.Renewable, "renew_mode": sp.RenewMode}})
	case "token":
		data := map[string]any{"policies": []string{"default"}, "renewable": sp.Renewable}
		if sp.TTL > 0 {
			data["ttl"] = c05Secs(sp.TTL)
		}
		if sp.Period > 0 {
			data["period"] = c05Secs(sp.Period)
		}
		if sp.XMax > 0 {
			data["explicit_max_ttl"] = c05Secs(sp.XMax)
		}
		resp, err = v.Do(vReq{Op: logical.UpdateOperation, Path: "auth/token/create", Token: v.Root, NS: sp.NS, Data: data})
	case "token-role":
		rresp, rerr := v.Do(vReq{Op: logical.UpdateOperation, Path: "auth/token/roles/" + w.role, Token: v.Root, NS: sp.NS,
			Data: map[string]any{"allowed_policies": "default", "renewable": true, "token_explicit_max_ttl": c05Secs(sp.RoleXMax), "token_period": c05Secs(sp.RolePeriod)}})
		if !vOK(rresp, rerr) {
			r.Inconc("%s: cannot write token role: %s", caseID, vErrStr(rresp, rerr))
			return
		}
		data := map[string]any{"policies": []string{"default"}, "renewable": sp.Renewable}
		if sp.TTL > 0 {
			data["ttl"] = c05Secs(sp.TTL)
		}
		if sp.Period > 0 {
			data["period"] = c05Secs(sp.Period)
		}
		if sp.XMax > 0 {
			data["explicit_max_ttl"] = c05Secs(sp.XMax)
		}
		resp, err = v.Do(vReq{Op: logical.UpdateOperation, Path: "auth/token/create/" + w.role, Token: v.Root, NS: sp.NS, Data: data})
		// periodic via role: the lesser of call and role applies at issue; the role's current value at renewal (documented)
		period = c05MinPos(sp.Period, sp.RolePeriod)
	}
	a1 := time.Now()
	l.issueLo, l.issueHi = a0, a1
	if !vOK(resp, err) || resp == nil || (resp.Secret == nil && resp.Auth == nil) {
		// a refusal is always acceptable
		r.Count("issue_refused", 1)
		r.Count("issue_refused:"+sp.Kind, 1)
		return
	}
	var respTTL time.Duration
	switch {
	case resp.Secret != nil:
		l.leaseID = resp.Secret.LeaseID
		respTTL = resp.Secret.TTL
	case resp.Auth != nil:
		l.isToken = true
		l.tokenID = resp.Auth.ClientToken
		respTTL = resp.Auth.TTL
		if resp.Auth.TokenType == logical.TokenTypeBatch {
			l.batchTok = true
			renewableExpected = false
		} else {
			id, lerr := c05TokenLeaseID(v, sp.NS, l.tokenID)
			if lerr != nil {
				r.Inconc("%s: cannot derive the token's lease id: %v", caseID, lerr)
				return
			}
			l.leaseID = id
		}
	}
	switch sp.Kind {
	case "token-role":
		l.xmax = c05MinPos(sp.XMax, sp.RoleXMax)
	default:
		l.xmax = sp.XMax
	}
	sysMax := sp.SysMax
	bnd, why := l.bound(a0, a1, mountMax, sysMax, period)
	l.lastBound = bnd
	altBound := func(b0, b1 time.Time) time.Time {
		alt := *l
		alt.xmax = sp.RoleXMax
		ab, _ := alt.bound(b0, b1, mountMax, sysMax, period)
		return ab
	}
	check := func(stage string, b0 time.Time, respTTL time.Duration, hasResp bool) bool {
		api, apiOK, stored, storedOK := e.observe(v, l)
		r.Count("expiry_observations", 1)
		if !apiOK && !storedOK {
			r.Count("lease_gone_at_observation", 1)
			return true
		}
		if storedOK {
			l.lastStore = stored
			if stored.IsZero() {
				r.Violate("C05-lease-without-expiry", caseID, fmt.Sprintf("%s [%s]: stored lease of a non-root %s has no expiry", stage, caseID, sp.Kind), wit(stage))
				return false
			}
		}
		class := "C05-expiry-past-issue-plus-max"
		if period > 0 {
			class = "C05-periodic-expiry-past-period-or-explicit-max"
		}
		if roleChanged != "" && strings.HasPrefix(stage, "renewal") {
			// narrow signature: token issued through a role, the role was deleted / rewritten since, and a later renewal
			// carried the token past the bound it was issued with (explicit max encoded at issue; period as the role has it now)
			class = "C05-role-token-renewed-past-explicit-max-after-role-" + roleChanged
		}
		roleSig := roleChanged == "" && sp.Kind == "token-role" && sp.XMax > 0 && (sp.RoleXMax == 0 || sp.RoleXMax > sp.XMax) && stage != "issue" && l.xmax == sp.XMax
		for _, o := range []struct {
			name string
			t    time.Time
			ok   bool
		}{{"stored lease record", stored, storedOK}, {"API lookup", api, apiOK}} {
			if o.ok && o.t.After(l.lastBound) {
				if c05FreshMode(sp.RenewMode) && strings.HasPrefix(stage, "renewal") && !l.lastRenew.IsZero() && !o.t.After(l.lastRenew) {
					// narrow signature: the backend answered the renewal with newly built lease options (no issue time
					// echoed) and the expiry is past issue + max but within (time of this renewal, or the bogus issue
					// time it stated) + max
					class = "C05-renewal-bound-measured-from-renew-time"
				}
				if roleSig && !o.t.After(l.lastAlt) {
					// narrow signature: a token created through a role with its own explicit_max_ttl below the role's
					// (or the role has none) was renewed past its own explicit max but within what the role's value allows
					class = "C05-role-token-renewed-past-own-explicit-max"
				}
				r.Violate(class, caseID, fmt.Sprintf("%s [%s]: expiry per %s is %s, %s past the bound %s = %s (issued within [%s,%s])", stage, caseID, o.name,
					o.t.Format(time.RFC3339Nano), o.t.Sub(l.lastBound).Round(time.Millisecond), l.lastBound.Format(time.RFC3339Nano), why, a0.Format("15:04:05.000"), a1.Format("15:04:05.000")), wit(stage))
				return false
			}
		}
		if hasResp && b0.Add(respTTL).After(l.lastBound.Add(time.Second)) {
			r.Violate("C05-response-ttl-past-bound", caseID, fmt.Sprintf("%s [%s]: response ttl %s counted from the start of the request ends %s past the bound (%s)", stage, caseID, respTTL,
				b0.Add(respTTL).Sub(l.lastBound).Round(time.Millisecond), why), wit(stage))
			return false
		}
		r.Count("grants_within_bound", 1)
		return true
	}
	r.Count("issued:"+sp.Kind, 1)
	if !check("issue", a0, respTTL, true) {
		return
	}
	nontrivial := false

	// ---- renew sequence
	for si, st := range sp.Steps {
		time.Sleep(st.Wait)
		if st.RoleOp != "" && sp.Kind == "token-role" {
			rolePath := "auth/token/roles/" + w.role
			var oresp *logical.Response
			var oerr error
			if st.RoleOp == "delete" || st.RoleOp == "recreate" {
				oresp, oerr = v.Do(vReq{Op: logical.DeleteOperation, Path: rolePath, Token: v.Root, NS: sp.NS})
			}
			if vOK(oresp, oerr) && st.RoleOp != "delete" {
				oresp, oerr = v.Do(vReq{Op: logical.UpdateOperation, Path: rolePath, Token: v.Root, NS: sp.NS,
					Data: map[string]any{"allowed_policies": "default", "renewable": true, "token_explicit_max_ttl": c05Secs(st.NewRoleXMax), "token_period": c05Secs(st.NewRolePeriod)}})
			}
			if !vOK(oresp, oerr) {
				r.Inconc("%s: role %s failed: %s", caseID, st.RoleOp, vErrStr(oresp, oerr))
				return
			}
			roleChanged, roleDeleted, curRolePeriod = st.RoleOp, st.RoleOp == "delete", st.NewRolePeriod
			r.Count("role_changed_between_grants:"+st.RoleOp, 1)
		}
		if st.Tune && ownMount {
			def := sp.MountDef
			if st.NewMax > 0 && def > st.NewMax {
				def = 0
			}
			if terr := e.tuneMount(v, sp.NS, tunePath, st.NewMax, def); terr != nil {
				r.Inconc("%s: %v", caseID, terr)
				return
			}
			mountMax = st.NewMax
			r.Count("mount_tuned_between_grants", 1)
		}
		// what the harness knows before the request
		_, _, storedBefore, storedOKBefore := e.observe(v, l)
		knownExpired := false
		if storedOKBefore && !storedBefore.IsZero() && time.Now().After(storedBefore) {
			knownExpired = true
		}
		var rresp *logical.Response
		var rerr error
		b0 := time.Now()
		if l.isToken {
			rresp, rerr = v.Do(vReq{Op: logical.UpdateOperation, Path: "auth/token/renew", Token: v.Root, NS: sp.NS, Data: map[string]any{"token": l.tokenID, "increment": int(st.Inc / time.Second)}})
		} else {
			rresp, rerr = v.Do(vReq{Op: logical.UpdateOperation, Path: "sys/leases/renew", Token: v.Root, NS: sp.NS, Data: map[string]any{"lease_id": l.leaseID, "increment": int(st.Inc / time.Second)}})
		}
		b1 := time.Now()
		ok := vOK(rresp, rerr) && rresp != nil && (rresp.Secret != nil || rresp.Auth != nil)
		stage := fmt.Sprintf("renewal %d (after %s, increment %s)", si+1, st.Wait, st.Inc)
		if !ok {
			st.Outcome = "refused: " + vErrStr(rresp, rerr)
			r.Count("renewals_refused", 1)
			if roleChanged != "" {
				r.Count("renewals_refused_after_role_"+roleChanged, 1)
			}
			switch {
			case !renewableExpected:
				r.Count("nonrenewable_renewal_refused", 1)
				nontrivial = true
			case knownExpired:
				r.Count("expired_renewal_refused", 1)
			}
			// a refused renewal must leave the expiry where it was
			if !check(stage+" refused", b0, 0, false) {
				return
			}
			continue
		}
		var gttl time.Duration
		if rresp.Secret != nil {
			gttl = rresp.Secret.TTL
		} else {
			gttl = rresp.Auth.TTL
		}
		st.Outcome = "granted " + gttl.String()
		r.Count("renewals_granted", 1)
		batchSig := ""
		if l.batchOwn {
			batchSig = "-of-batch-token-lease"
		}
		if !renewableExpected {
			r.Violate("C05-nonrenewable-lease-renewed"+batchSig, caseID, fmt.Sprintf("%s [%s]: %s issued as non-renewable was renewed (granted %s)", stage, caseID, sp.Kind, gttl), wit(stage))
			return
		}
		if knownExpired {
			r.Violate("C05-expired-lease-renewed"+batchSig, caseID, fmt.Sprintf("%s [%s]: the stored expiry %s had passed before the renewal was sent, yet it was granted %s", stage, caseID, storedBefore.Format(time.RFC3339Nano), gttl), wit(stage))
			return
		}
		if sp.Kind == "token-role" && !roleDeleted {
			period = curRolePeriod // documented: the role's current period is used at renewal time
		}
		if roleChanged != "" {
			r.Count("renewals_granted_after_role_"+roleChanged, 1)
		}
		if sp.RenewMode == "fresh-ttl" {
			l.bmax = 0 // the renewal answer states no backend max: only mount / system / explicit max bind from here on
		}
		nb, nwhy := l.bound(b0, b1, mountMax, sysMax, period)
		l.lastBound, why = nb, nwhy
		l.lastAlt = altBound(b0, b1)
		if c05FreshMode(sp.RenewMode) {
			fr := *l
			fr.issueHi = b1
			if sp.RenewMode == "fresh-issue-future" {
				fr.issueHi = b1.Add(time.Hour)
			}
			l.lastRenew, _ = fr.bound(b0, b1, mountMax, sysMax, period)
			r.Count("renewals_granted_by_backend_answering_with_fresh_lease_options", 1)
			if st.Inc > 0 && gttl < st.Inc-time.Second {
				r.Count("fresh_answer_renewals_capped_below_increment", 1)
			}
		}
		if !check(stage, b0, gttl, true) {
			return
		}
		want := st.Inc
		if want > 0 && gttl < want-time.Second {
			r.Count("renewals_capped_below_increment", 1)
			nontrivial = true
		}
		if period > 0 {
			r.Count("periodic_renewals", 1)
		}
		if st.Tune {
			r.Count("renewals_after_mount_tune", 1)
		}
	}
	if nontrivial {
		r.Nontrivial(fmt.Sprintf("%+v", sp))
	}
	r.Sample(map[string]any{"case": caseID, "spec": sp})
}

func TestVerif_C05_APIBound(t *testing.T) {
	t.Parallel()
	seed := kit.Seed(5)
	shard, _ := kit.Shard()
	r := kit.NewResult(t, "c05-api-bound", seed, "seeded cases of issue + 2..3 renewals (real waits of 1..3 s, whole-second TTLs) for: leased secrets (recording backend; own mount tuned per case and between renewals), secrets leased to a batch token, logins (service and batch) through a recording auth method with ttl/backend max/period/explicit max, tokens from auth/token/create (ttl/period/explicit max/renewable) and through token roles; root, child and grand-child namespaces; rounds with different token-mount and system max/default TTL. After every grant and every refused renewal the expiry reported by the lookup API and the stored lease record must lie within (harness-observed issue time) + effective max (+1 s + request duration); periodic: within grant time + period and issue + explicit max; non-renewable, batch and expired leases must refuse renewal. A case is non-trivial when a renewal was capped below its increment or a must-refuse renewal was attempted")
	defer r.Write(t)
	e := c05Boot(t, shard%2 == 1, false, 0)
	v := e.v
	nWorkers := 32
	var workers []*c05Worker
	for i := 0; i < nWorkers; i++ {
		w := &c05Worker{idx: i, ns: []string{"", "ns1/", "ns1/ns2/"}[i%3], secret: fmt.Sprintf("c05s%d", i), auth: fmt.Sprintf("c05a%d", i), role: fmt.Sprintf("c05r%d", i)}
		v.Mount(w.secret, "verifrec", w.ns, nil)
		v.EnableAuth(w.auth, "verifrec", w.ns)
		workers = append(workers, w)
	}
	s := time.Second
	rounds := []c05Round{
		{0, 0, 0, 0},
		{0, 0, 25 * s, 5 * s},
		{50 * s, 20 * s, 0, 0},
		{50 * s, 20 * s, 10 * s, 0},
	}
	total := kit.N(240, 2000)
	per := total / len(rounds)
	origMax, origDef := v.Core.maxLeaseTTL, v.Core.defaultLeaseTTL
	for ri, round := range rounds {
		// system tuning (in-package: the values the server configuration would supply)
		v.Core.maxLeaseTTL, v.Core.defaultLeaseTTL = origMax, origDef
		if round.SysMax > 0 {
			v.Core.maxLeaseTTL, v.Core.defaultLeaseTTL = round.SysMax, round.SysDef
		}
		for _, n := range e.nss {
			if err := e.tuneMount(v, n.Path, "sys/auth/token/tune", round.TokMax, round.TokDef); err != nil {
				t.Fatalf("verif: %v", err)
			}
		}
		// case i of a round always runs on worker i % nWorkers, so its spec is a function of (seed, case id)
		var wg sync.WaitGroup
		for _, w := range workers {
			w := w
			wg.Add(1)
			go func() {
				defer wg.Done()
				for i := w.idx; i < per; i += nWorkers {
					id := fmt.Sprintf("bound:%d:%d:%d", ri, shard, i)
					if !kit.WantCase(id) {
						continue
					}
					if r.NViolations() > 2000 {
						return
					}
					rng := kit.NewRand(seed, uint64(1_000_000*(shard+1)+10_000*ri+i))
					sp := c05GenSpec(rng, round, w.ns)
					e.runBoundCase(r, w, id, sp, rng)
				}
			}()
		}
		wg.Wait()
	}
	v.Core.maxLeaseTTL, v.Core.defaultLeaseTTL = origMax, origDef
	r.Require("grants_within_bound", 300)
	r.Require("renewals_granted", 80)
	r.Require("renewals_capped_below_increment", 20)
	r.Require("nonrenewable_renewal_refused", 10)
	r.Require("periodic_renewals", 5)
	r.Require("renewals_after_mount_tune", 5)
}
