//go:build verif

package vault

// C05, oracle O1 for tokens issued through token-store roles whose role changes afterwards.
//
// "If set, tokens created via this role carry an explicit maximum TTL. During renewal, the current maximum TTL
// values of the role and the mount are not checked for changes, and any updates to these values will have no
// effect on the token being renewed" (help text of auth/token/roles), "This value becomes a hard limit on the
// token's lifetime" (concepts/tokens): the explicit max a token was ISSUED with - the lesser of the caller's
// and the role's value at that time - bounds every later renewal, whatever happens to the role. A refusal is
// always acceptable; a role value lowered afterwards may only make renewals stricter (not judged). The period is
// documented to follow the role: "the current value of the role's period setting will be used at renewal time".
//
//   TestVerif_C05_RoleChanges  lattice (who set the explicit max x periodic x role mutation) + seeded specs,
//                              judged by the bound oracle of c05-api-bound (runBoundCase)

import (
	"fmt"
	"sync"
	"testing"
	"time"

	kit "github.com/openbao/openbao/sdk/v2/helper/verifkit"
)

var c05RoleOps = []string{"delete", "raise-max", "lower-max", "remove-max", "change-period", "recreate"}

// c05RoleOpValues returns the role's explicit max and period after the mutation.
func c05RoleOpValues(op string, xmax, period time.Duration) (time.Duration, time.Duration) {
	s := time.Second
	switch op {
	case "raise-max":
		return 40 * s, period
	case "lower-max":
		return 5 * s, period
	case "remove-max":
		return 0, period
	case "change-period":
		return xmax, 9 * s
	case "recreate":
		return 40 * s, 0
	}
	return 0, 0 // delete
}

func TestVerif_C05_RoleChanges(t *testing.T) {
	t.Parallel()
	seed := kit.Seed(5)
	shard, _ := kit.Shard()
	r := kit.NewResult(t, "c05-role-changes", seed, "tokens issued through auth/token/create/<role> (root, child and grand-child namespace) whose role is mutated between the issue and later renewals: deleted, explicit max raised (40s) / lowered (5s) / removed, period changed (9s), deleted and re-created with other values. Lattice: who set the 8s explicit max (the role only; the caller only; both with the caller's smaller; both with the role's smaller) x periodic role (4s) or not x mutation, issued with 6s, renewed +1h after 2.4s (role untouched), the role mutated, renewed +1h after another 2.4s and again after 3.4s (past issue + 8s); then seeded token-role specs of c05-api-bound's generator with a seeded mutation before a seeded renewal. Oracle: the one of c05-api-bound with the explicit max fixed at issue (lesser of the caller's and the role's value then): after every grant and refused renewal the expiry per lookup API and stored lease record lies within issue + min(mount/system max, that explicit max) (+1s + request duration); periodic: grant time + the role's CURRENT period (documented) and issue + that explicit max; refusals are always fine. A case is non-trivial when a renewal was capped below its increment or refused")
	defer r.Write(t)
	e := c05Boot(t, shard%2 == 1, false, 0)
	nWorkers := 24
	var workers []*c05Worker
	for i := 0; i < nWorkers; i++ {
		workers = append(workers, &c05Worker{idx: i, ns: []string{"", "ns1/", "ns1/ns2/"}[i%3], secret: fmt.Sprintf("c05cs%d", i), auth: fmt.Sprintf("c05ca%d", i), role: fmt.Sprintf("c05cr%d", i)})
	}
	s := time.Second
	var specs []c05Spec
	for _, src := range []struct{ xmax, rxmax time.Duration }{{0, 8 * s}, {8 * s, 0}, {8 * s, 14 * s}, {14 * s, 8 * s}} {
		for _, rperiod := range []time.Duration{0, 4 * s} {
			for _, op := range c05RoleOps {
				sp := c05Spec{Kind: "token-role", Renewable: true, TTL: 6 * s, XMax: src.xmax, RoleXMax: src.rxmax, RolePeriod: rperiod}
				nx, np := c05RoleOpValues(op, src.rxmax, rperiod)
				sp.Steps = []*c05Step{{Wait: 2*s + 400*time.Millisecond, Inc: time.Hour},
					{Wait: 2*s + 400*time.Millisecond, Inc: time.Hour, RoleOp: op, NewRoleXMax: nx, NewRolePeriod: np},
					{Wait: 3*s + 400*time.Millisecond, Inc: time.Hour}}
				specs = append(specs, sp)
			}
		}
	}
	nLattice := len(specs)
	total := nLattice + kit.N(24, 400)
	var wg sync.WaitGroup
	for _, w := range workers {
		w := w
		wg.Add(1)
		go func() {
			defer wg.Done()
			for i := w.idx; i < total; i += nWorkers {
				var sp c05Spec
				var id string
				rng := kit.NewRand(seed, uint64(5_000_000*(shard+1)+i))
				if i < nLattice {
					sp = specs[i]
					steps := make([]*c05Step, len(sp.Steps))
					for k, st := range sp.Steps {
						c := *st
						steps[k] = &c
					}
					sp.Steps = steps
					id = fmt.Sprintf("rolechange:lattice:%d:%s:x%s:rx%s:rp%s", i, sp.Steps[1].RoleOp, sp.XMax, sp.RoleXMax, sp.RolePeriod)
				} else {
					for {
						sp = c05GenSpec(rng, c05Round{}, w.ns)
						if sp.Kind == "token-role" {
							break
						}
					}
					st := sp.Steps[rng.Intn(len(sp.Steps))]
					st.RoleOp = kit.Pick(rng, c05RoleOps)
					st.NewRoleXMax, st.NewRolePeriod = c05RoleOpValues(st.RoleOp, sp.RoleXMax, sp.RolePeriod)
					id = fmt.Sprintf("rolechange:seeded:%d:%d", shard, i)
				}
				sp.NS = w.ns
				sp.describe()
				if !kit.WantCase(id) {
					continue
				}
				if r.NViolations() > 200 {
					return
				}
				e.runBoundCase(r, w, id, sp, rng)
			}
		}()
	}
	wg.Wait()
	r.Require("grants_within_bound", 150)
	r.Require("renewals_granted", 60)
	r.Require("renewals_refused", 40)
	for _, op := range c05RoleOps {
		r.Require("role_changed_between_grants:"+op, 8)
	}
	r.Require("renewals_refused_after_role_delete", 8)
	r.Require("renewals_capped_below_increment", 20)
	r.Require("periodic_renewals", 5)
}
