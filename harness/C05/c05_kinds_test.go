//go:build verif

package vault

// C05, oracle O2 over the "special" lease kinds and the queued revocation paths:
//
//   TestVerif_C05_LeaseKinds       a population with one lease of every kind (non-expiring root tokens, also
//                                  use-limited; expiring root-policy tokens; periodic, orphan, login, use-limited
//                                  tokens; leases of batch tokens; tokens and secrets in child namespaces; secret
//                                  leases of each of those tokens, also across namespaces) x one revocation
//                                  operation (sys/leases/revoke sync / async, revoke-prefix sync / async,
//                                  revoke-force, auth/token/revoke, final use, renew, plain expiry) x restart
//                                  (none, seal+unseal, new core) directly after the operation; then seeded
//                                  histories mixing all of them.
//   TestVerif_C05_LeaseKindsCrash  the queued revocations of those kinds, restarted on every prefix of their
//                                  durable writes.
//
// The oracle is decided from storage and the manager's own tracking structures (read under its lock):
// every stored lease record is pending with a timer and the stored expiry, or irrevocable, or - only if its
// stored expiry is zero and it is the lease of a non-expiring root token - in the non-expiring set. A stored
// lease whose expiry has passed and that is neither pending nor irrevocable is a violation at once; one that
// is tracked must disappear (or become irrevocable) within a bounded wait. The token of a token lease that
// has left storage must be refused.

import (
	"fmt"
	"sort"
	"strings"
	"testing"
	"time"

	kit "github.com/openbao/openbao/sdk/v2/helper/verifkit"
	"github.com/openbao/openbao/sdk/v2/logical"
)

// ------------------------------------------------------------------ observation

type c05Member struct {
	P, N, I  bool
	HasTimer bool
	Expire   time.Time // expiry cached with the pending entry
}

// c05Members copies, under the manager's lock, which of the three tracking sets hold each lease id.
func c05Members(c *Core) map[string]*c05Member {
	out := map[string]*c05Member{}
	m := c.expiration
	if m == nil {
		return out
	}
	get := func(k any) *c05Member {
		id := k.(string)
		x := out[id]
		if x == nil {
			x = &c05Member{}
			out[id] = x
		}
		return x
	}
	m.pendingLock.RLock()
	defer m.pendingLock.RUnlock()
	m.pending.Range(func(k, val any) bool {
		x := get(k)
		x.P = true
		if pi, ok := val.(pendingInfo); ok {
			x.HasTimer = pi.timer != nil
			if pi.cachedLeaseInfo != nil {
				x.Expire = pi.cachedLeaseInfo.ExpireTime
			}
		}
		return true
	})
	m.nonexpiring.Range(func(k, _ any) bool {
		get(k).N = true
		return true
	})
	m.irrevocable.Range(func(k, _ any) bool {
		get(k).I = true
		return true
	})
	return out
}

func (x *c05Member) String() string {
	if x == nil {
		return "none"
	}
	var in []string
	if x.P {
		t := "pending"
		if !x.HasTimer {
			t += "(no timer)"
		}
		in = append(in, t)
	}
	if x.N {
		in = append(in, "nonexpiring")
	}
	if x.I {
		in = append(in, "irrevocable")
	}
	if len(in) == 0 {
		return "none"
	}
	return strings.Join(in, "+")
}

func (x *c05Member) armed() bool { return x != nil && ((x.P && x.HasTimer) || x.I) }

// c05IsNonexpiringRoot is the harness's own reading of "lease of a non-expiring root token":
// a token lease without TTL whose only policy is root, in the root namespace.
func c05IsNonexpiringRoot(le *leaseEntry, n *c05NS) bool {
	return le != nil && le.Auth != nil && le.Auth.TTL == 0 && len(le.Auth.Policies) == 1 && le.Auth.Policies[0] == "root" && n.Path == ""
}

// c05IsRevocationLease recognises the record CreateOrFetchRevocationLeaseByToken writes for a token that
// has no lease (1ns lifetime, nothing but the client token): it is written to storage and then revoked
// synchronously by the same call, without ever being handed to the manager's timers.
func c05IsRevocationLease(le *leaseEntry) bool {
	return le != nil && le.Auth != nil && le.Secret == nil && len(le.Auth.Policies) == 0 && le.Auth.TTL == time.Nanosecond && le.Auth.Accessor == ""
}

// c05LeaseKind classifies a stored lease record (evidence only).
func c05LeaseKind(le *leaseEntry, n *c05NS) string {
	k := "?"
	switch {
	case le.Auth == nil:
		k = "secret"
		if le.ClientTokenType == logical.TokenTypeBatch {
			k = "secret-of-batch-token"
		}
	case len(le.Auth.Policies) == 0 && le.Auth.TTL <= time.Nanosecond && le.Auth.TTL > 0:
		k = "revocation-lease"
	case len(le.Auth.Policies) == 1 && le.Auth.Policies[0] == "root":
		switch {
		case le.Auth.TTL == 0 && le.Auth.NumUses > 0:
			k = "root-nonexpiring-use-limited"
		case le.Auth.TTL == 0:
			k = "root-nonexpiring"
		default:
			k = "root-expiring"
		}
	case le.Auth.Period > 0:
		k = "periodic-token"
	case strings.HasPrefix(le.Path, "auth/token/create-orphan"):
		k = "orphan-token"
	case strings.HasPrefix(le.Path, "auth/token/"):
		k = "token"
		if le.Auth.NumUses > 0 {
			k = "token-use-limited"
		}
	default:
		k = "login"
		if le.Auth.NumUses > 0 {
			k = "login-use-limited"
		}
	}
	if n.Path != "" {
		k += "@child-ns"
	}
	return k
}

type c05KFinding struct{ class, what string }

// c05JudgeLease applies the per-lease rule to one stored record and the sets that held its id.
func c05JudgeLease(id string, s *c05Stored, x *c05Member, now time.Time) []c05KFinding {
	le := s.Entry
	kind := c05LeaseKind(le, s.NS)
	zero := le.ExpireTime.IsZero()
	past := !zero && le.ExpireTime.Before(now)
	exp := "none"
	if !zero {
		exp = le.ExpireTime.Format(time.RFC3339Nano)
	}
	desc := fmt.Sprintf("lease %s (%s, namespace %q, stored expiry %s)", c05Short(id), kind, s.NS.Path, exp)
	var out []c05KFinding
	add := func(class, f string, a ...any) {
		out = append(out, c05KFinding{class, desc + " " + fmt.Sprintf(f, a...)})
	}
	switch {
	case x == nil || (!x.P && !x.N && !x.I):
		add("C05-stored-lease-untracked", "is in storage but in none of pending/nonexpiring/irrevocable")
	case x.N && !x.P && !x.I:
		switch {
		case past:
			add("C05-expired-lease-filed-as-nonexpiring", "expired %s ago but is held in the non-expiring set only: no timer, neither pending nor irrevocable, it is never revoked", now.Sub(le.ExpireTime).Round(time.Millisecond))
		case !zero:
			add("C05-expiring-lease-tracked-as-nonexpiring", "has an expiry but is held in the non-expiring set only (no timer)")
		case !c05IsNonexpiringRoot(le, s.NS):
			add("C05-lease-without-expiry-tracked-as-nonexpiring", "is not the lease of a non-expiring root token, has no expiry and is held in the non-expiring set")
		}
	case x.P && x.I:
		add("C05-lease-in-two-tracking-sets", "is held as %s", x)
	case x.P:
		if !x.HasTimer {
			add("C05-pending-without-timer", "is pending without a timer")
		}
		if !x.Expire.Equal(le.ExpireTime) {
			add("C05-tracked-expiry-differs-from-stored", "is pending with expiry %s", x.Expire.Format(time.RFC3339Nano))
		}
		if x.N && zero {
			add("C05-lease-in-two-tracking-sets", "has no expiry and is held as %s", x)
		}
	}
	return out
}

// checkKinds is the strict O2 comparison. The tracking sets are read first and the store second, so a
// lease revoked in between is only seen as tracked-but-not-stored (ignored). A finding must persist over
// all polls on the idle core (it costs time only when something is wrong).
func (e *c05Env) checkKinds(v *vCore, r *kit.Result, caseID, stage string, extra any) bool {
	var last []c05KFinding
	for p := 0; p < 30; p++ {
		last = nil
		mem := c05Members(v.Core)
		st, unknown := e.stored(v, true)
		now := time.Now()
		for _, k := range unknown {
			last = append(last, c05KFinding{"C05-harness-unknown-namespace-prefix", "lease record under a storage prefix the harness does not know: " + k})
		}
		kinds := map[string]int{}
		where := map[string]int{}
		nCompared, nPast, nBoth := 0, 0, 0
		for id, s := range st {
			if s.NS.Sealed || s.Entry == nil {
				continue
			}
			nCompared++
			x := mem[id]
			kinds[c05LeaseKind(s.Entry, s.NS)]++
			where[x.String()]++
			if !s.Entry.ExpireTime.IsZero() && s.Entry.ExpireTime.Before(now) && !s.Entry.isIrrevocable() {
				nPast++
			}
			if x != nil && x.P && x.N {
				nBoth++
			}
			last = append(last, c05JudgeLease(id, s, x, now)...)
		}
		if len(last) == 0 {
			r.Count("set_comparisons", 1)
			r.Count("leases_compared", nCompared)
			r.Count("past_expiry_tracking_checks", nPast)
			if nBoth > 0 {
				r.Count("revocation_due_lease_seen_pending_and_nonexpiring(not judged)", nBoth)
				r.Note("%s: %s: %d lease(s) with a stored expiry held as pending+nonexpiring (revocation due; not judged)", caseID, stage, nBoth)
			}
			for k, n := range kinds {
				r.Count("kind_compared:"+k, n)
			}
			for w, n := range where {
				r.Count("compared_held_as:"+w, n)
			}
			return true
		}
		time.Sleep(50 * time.Millisecond)
	}
	seen := map[string]bool{}
	var all []string
	for i, f := range last {
		if i < 12 {
			all = append(all, "["+f.class+"] "+f.what)
		}
	}
	for _, f := range last {
		if seen[f.class] {
			continue
		}
		seen[f.class] = true
		r.Violate(f.class, caseID, fmt.Sprintf("%s [%s]: %s", stage, caseID, f.what), map[string]any{"stage": stage, "findings": all, "n_findings": len(last), "extra": extra})
	}
	return false
}

// probeLease judges one lease right now (no waiting): used directly after a queued revocation was
// accepted. The sets are read before the store, so "stored and not tracked" cannot be an artefact of
// the revocation finishing in between.
func (e *c05Env) probeLease(v *vCore, r *kit.Result, caseID, stage string, n *c05NS, id string, extra any) bool {
	mem := c05Members(v.Core)
	le := c05ReadLease(v, n, id)
	if le == nil {
		r.Count("probe_lease_already_gone", 1)
		return true
	}
	now := time.Now()
	if le.ExpireTime.IsZero() || !le.ExpireTime.Before(now) || le.isIrrevocable() {
		return true
	}
	x := mem[id]
	if c05IsRevocationLease(le) && !x.armed() {
		// not the record the accepted revocation was about: the token's lease was deleted meanwhile and a
		// concurrent token lookup wrote a revocation lease under the same id, which its creator revokes
		// synchronously (it is never handed to the timers). Whether it stays is decided by the comparisons
		// that follow (a finding there must persist), not at this instant.
		r.Count("probe_revocation_lease_being_revoked_by_its_creator(not judged here)", 1)
		return true
	}
	r.Count("past_expiry_tracking_checks", 1)
	r.Count("probe_past_expiry_lease_still_stored", 1)
	if x.armed() {
		return true
	}
	for _, f := range c05JudgeLease(id, &c05Stored{ID: id, NS: n, Entry: le}, x, now) {
		r.Violate(f.class, caseID, fmt.Sprintf("%s [%s]: %s", stage, caseID, f.what), map[string]any{"stage": stage, "held_as": x.String(), "extra": extra})
		return false
	}
	return true
}

// awaitDue: bounded progress with the tracking structures consulted at every poll. All stored leases whose
// expiry lies before now+horizon are awaited: after the harness saw the clock pass the latest expiry each of
// them must leave storage or become irrevocable. A remaining lease that is neither pending (with a timer)
// nor irrevocable is a violation at once; a tracked one that does not go within the bound is inconclusive.
func (e *c05Env) awaitDue(v *vCore, r *kit.Result, caseID, stage string, horizon time.Duration, extra any) bool {
	st, _ := e.stored(v, true)
	lim := time.Now().Add(horizon)
	due := map[string]*c05Stored{}
	var latest time.Time
	for id, s := range st {
		if s.NS.Sealed || s.Entry == nil || s.Entry.ExpireTime.IsZero() || s.Entry.isIrrevocable() || !s.Entry.ExpireTime.Before(lim) {
			continue
		}
		due[id] = s
		if s.Entry.ExpireTime.After(latest) {
			latest = s.Entry.ExpireTime
		}
	}
	if len(due) == 0 {
		return true
	}
	for !time.Now().After(latest) {
		time.Sleep(20 * time.Millisecond)
	}
	checked := map[string]bool{}
	deadline := time.Now().Add(12 * time.Second)
	for {
		mem := c05Members(v.Core)
		now := time.Now()
		remaining, irrev := 0, 0
		for id, s := range due {
			le := c05ReadLease(v, s.NS, id)
			if le == nil {
				continue
			}
			if le.isIrrevocable() {
				irrev++
				continue
			}
			if le.ExpireTime.IsZero() || !le.ExpireTime.Before(now) {
				continue // renewed meanwhile: no longer due
			}
			if !checked[id] {
				checked[id] = true
				r.Count("past_expiry_tracking_checks", 1)
			}
			x := mem[id]
			if !x.armed() && !c05IsRevocationLease(le) { // (a revocation lease is revoked synchronously by its creator: judged at the deadline)
				for _, f := range c05JudgeLease(id, &c05Stored{ID: id, NS: s.NS, Entry: le}, x, now) {
					r.Violate(f.class, caseID, fmt.Sprintf("%s [%s]: %s", stage, caseID, f.what), map[string]any{"stage": stage, "held_as": x.String(), "extra": extra})
					return false
				}
			}
			remaining++
		}
		if remaining == 0 {
			r.Count("expired_leases_seen_revoked", len(due)-irrev)
			if irrev > 0 {
				r.Count("expired_leases_seen_irrevocable", irrev)
			}
			return true
		}
		if time.Now().After(deadline) {
			// still stored 12s after its expiry: if the manager's timer is armed for another time than the
			// stored expiry the lease is not tracked for ITS expiry - decidable, not a matter of waiting longer
			mem := c05Members(v.Core)
			for id, s := range due {
				le := c05ReadLease(v, s.NS, id)
				if le == nil || le.isIrrevocable() || le.ExpireTime.IsZero() || !le.ExpireTime.Before(time.Now()) {
					continue
				}
				for _, f := range c05JudgeLease(id, &c05Stored{ID: id, NS: s.NS, Entry: le}, mem[id], time.Now()) {
					r.Violate(f.class, caseID, fmt.Sprintf("%s [%s]: 12s after the clock passed its stored expiry: %s", stage, caseID, f.what), map[string]any{"stage": stage, "held_as": mem[id].String(), "extra": extra})
					return false
				}
			}
			r.Inconc("%s: %s: %d of %d tracked leases still stored 12s after the clock passed their expiry (bounded progress not reached)", caseID, stage, remaining, len(due))
			return false
		}
		time.Sleep(25 * time.Millisecond)
	}
}

// ------------------------------------------------------------------ population

type c05KObj struct {
	Kind      string
	NS        *c05NS
	By        *c05KObj // token that created / leased it (nil: the core's root token)
	TokenID   string
	Accessor  string
	LeaseID   string
	LeasePath string
	SecretID  string
	Uses      int  // remaining uses of a use-limited token (0: unlimited)
	Limited   bool // use-limited token
	Dead      bool // a revocation that covers it was accepted (workload bookkeeping only)
	Bystander bool
}

func (o *c05KObj) isToken() bool { return o.Kind != "secret" }
func (o *c05KObj) String() string {
	by := ""
	if o.By != nil {
		by = " of " + o.By.Kind
	}
	return fmt.Sprintf("%s%s@%q", o.Kind, by, o.NS.Path)
}

type c05KHist struct {
	e     *c05Env
	r     *kit.Result
	id    string
	objs  []*c05KObj
	steps []string
}

func (h *c05KHist) step(f string, a ...any) { h.steps = append(h.steps, fmt.Sprintf(f, a...)) }

const c05KUses = 3

// create issues one object. ttl 0 = kind default (non-expiring for the root kinds).
func (h *c05KHist) create(kind string, n *c05NS, by *c05KObj, ttl time.Duration) *c05KObj {
	v := h.e.v
	tok := v.Root
	if by != nil {
		if by.Dead || (by.Limited && by.Uses <= 1) {
			return nil
		}
		tok = by.TokenID
	}
	o := &c05KObj{Kind: kind, NS: n, By: by}
	var resp *logical.Response
	var err error
	switch kind {
	case "secret":
		resp, err = v.Do(vReq{Op: logical.ReadOperation, Path: "c05rec/lease/k", Token: tok, NS: n.Path, Data: map[string]any{"ttl": c05Secs(ttl)}})
		if by != nil && by.Limited {
			by.Uses--
		}
		if !vOK(resp, err) || resp == nil || resp.Secret == nil {
			h.step("%s ttl=%s -> %s", o, ttl, vErrStr(resp, err))
			h.r.Count("create_refused:"+kind, 1)
			return nil
		}
		o.LeaseID, o.SecretID, o.LeasePath = resp.Secret.LeaseID, c05SecretID(resp), "c05rec/lease/k"
	case "login", "login-uses":
		data := map[string]any{"ttl": c05Secs(ttl), "policies": "c05"}
		if kind == "login-uses" {
			data["num_uses"] = c05KUses
			o.Limited, o.Uses = true, c05KUses
		}
		resp, err = v.Do(vReq{Op: logical.UpdateOperation, Path: "auth/c05auth/login/u", NS: n.Path, Data: data})
		o.LeasePath = "auth/c05auth/login/u"
	default:
		data := map[string]any{"policies": []string{"c05"}}
		p := "auth/token/create"
		switch kind {
		case "root-nonexp":
			data["policies"] = []string{"root"}
		case "root-nonexp-uses":
			data["policies"] = []string{"root"}
			data["num_uses"] = c05KUses
			o.Limited, o.Uses = true, c05KUses
		case "root-exp":
			data["policies"] = []string{"root"}
			data["ttl"] = c05Secs(ttl)
		case "token":
			data["ttl"] = c05Secs(ttl)
		case "token-uses":
			data["ttl"] = c05Secs(ttl)
			data["num_uses"] = c05KUses
			o.Limited, o.Uses = true, c05KUses
		case "periodic":
			data["period"] = c05Secs(ttl)
		case "orphan":
			data["ttl"] = c05Secs(ttl)
			p = "auth/token/create-orphan"
		case "batch":
			data["ttl"] = c05Secs(ttl)
			data["type"] = "batch"
		default:
			panic("c05: unknown kind " + kind)
		}
		resp, err = v.Do(vReq{Op: logical.UpdateOperation, Path: p, Token: tok, NS: n.Path, Data: data})
		if by != nil && by.Limited {
			by.Uses--
		}
		o.LeasePath = p
	}
	if o.isToken() {
		if !vOK(resp, err) || resp == nil || resp.Auth == nil {
			h.step("%s ttl=%s -> %s", o, ttl, vErrStr(resp, err))
			h.r.Count("create_refused:"+kind, 1)
			return nil
		}
		o.TokenID, o.Accessor = resp.Auth.ClientToken, resp.Auth.Accessor
		if (kind == "root-nonexp" || kind == "root-nonexp-uses") && resp.Auth.TTL != 0 {
			h.r.Count("root_token_without_ttl_got_a_ttl(not judged)", 1)
		}
		if kind != "batch" {
			id, lerr := c05TokenLeaseID(v, n.Path, o.TokenID)
			if lerr != nil {
				h.step("%s: lease id not derivable: %v", o, lerr)
				h.r.Count("create_refused:"+kind, 1)
				return nil
			}
			o.LeaseID = id
		}
	}
	h.objs = append(h.objs, o)
	h.r.Count("created:"+kind, 1)
	if n.Path != "" {
		h.r.Count("created_in_child_namespace", 1)
	}
	return o
}

// populate creates one object of every kind (plus the secret leases of every token kind) over the root,
// child and grand-child namespace. ttl is the lifetime of the expiring kinds.
func (h *c05KHist) populate(ttl time.Duration) {
	e := h.e
	root, n1, n2 := e.ns(""), e.ns("ns1/"), e.ns("ns1/ns2/")
	long := time.Hour
	rn := h.create("root-nonexp", root, nil, 0)
	ru := h.create("root-nonexp-uses", root, nil, 0)
	rx := h.create("root-exp", root, nil, ttl)
	if rn != nil {
		if ct := h.create("token", root, rn, ttl); ct != nil {
			h.create("secret", root, ct, ttl)
		}
		h.create("secret", root, rn, ttl)
		h.create("secret", n1, rn, ttl) // a lease in a child namespace that belongs to a root-namespace token
		h.create("periodic", n1, rn, ttl)
	}
	if ru != nil {
		h.create("secret", root, ru, long)
	}
	if rx != nil {
		h.create("secret", root, rx, ttl)
	}
	for _, n := range []*c05NS{root, n1} {
		for _, k := range []string{"token", "periodic", "orphan", "login", "batch"} {
			kt := ttl
			if k == "batch" {
				kt = long
			}
			if o := h.create(k, n, nil, kt); o != nil {
				h.create("secret", n, o, ttl)
			}
		}
		for _, k := range []string{"token-uses", "login-uses"} {
			if o := h.create(k, n, nil, long); o != nil {
				h.create("secret", n, o, long)
			}
		}
		h.create("secret", n, nil, ttl)
	}
	if tk := h.create("token", n2, nil, ttl); tk != nil {
		h.create("secret", n2, tk, ttl)
	}
	h.create("secret", n2, nil, ttl)
	h.step("population: %d objects (expiring kinds: ttl %s)", len(h.objs), ttl)
}

// bystanders are created after the operations and never targeted individually: long-lived leases and
// a non-expiring root token that must simply stay tracked over the restart.
func (h *c05KHist) bystanders() {
	e := h.e
	for _, k := range []string{"root-nonexp", "root-nonexp-uses"} {
		if o := h.create(k, e.ns(""), nil, 0); o != nil {
			o.Bystander = true
		}
	}
	for _, n := range []*c05NS{e.ns(""), e.ns("ns1/ns2/")} {
		if o := h.create("token", n, nil, time.Hour); o != nil {
			o.Bystander = true
			if s := h.create("secret", n, o, time.Hour); s != nil {
				s.Bystander = true
			}
		}
	}
}

func (h *c05KHist) kill(o *c05KObj) {
	if o.Dead {
		return
	}
	o.Dead = true
	for _, x := range h.objs {
		if x.By == o && x.Kind != "orphan" {
			h.kill(x)
		}
	}
}

// targets returns the live, individually addressable objects ordered leaves first (secrets, then tokens
// that have a parent object, then the rest), so that a parent's revocation does not pre-empt the others.
func (h *c05KHist) targets(pred func(*c05KObj) bool) []*c05KObj {
	var out []*c05KObj
	for _, o := range h.objs {
		if !o.Dead && !o.Bystander && pred(o) {
			out = append(out, o)
		}
	}
	rank := func(o *c05KObj) int {
		switch {
		case !o.isToken():
			return 0
		case o.By != nil:
			return 1
		}
		return 2
	}
	sort.SliceStable(out, func(i, j int) bool { return rank(out[i]) < rank(out[j]) })
	return out
}

var c05KPrefixes = []string{"c05rec/lease", "auth/c05auth/login", "auth/token/create-orphan", "auth/token/create"}

// apply runs one operation on one object (or, for the prefix operations, on o's namespace and lease
// path prefix). It returns whether the server accepted it.
func (h *c05KHist) apply(op string, o *c05KObj) bool {
	v, r := h.e.v, h.r
	var resp *logical.Response
	var err error
	ns := o.NS.Path
	switch op {
	case "lease-revoke-sync", "lease-revoke-async":
		sync := op == "lease-revoke-sync"
		resp, err = v.Do(vReq{Op: logical.UpdateOperation, Path: "sys/leases/revoke", Token: v.Root, NS: ns, Data: map[string]any{"lease_id": o.LeaseID, "sync": sync}})
		if !vOK(resp, err) {
			break
		}
		h.kill(o)
		if sync {
			r.Count("sync_revocations_accepted", 1)
			if c05ReadLease(v, o.NS, o.LeaseID) != nil {
				r.Violate("C05-lease-stored-after-sync-revocation", h.id, fmt.Sprintf("[%s] sys/leases/revoke sync=true of the lease of %s was accepted but the lease record is still stored", h.id, o), h.steps)
			}
		} else {
			r.Count("async_revocations_accepted", 1)
			r.Count("async_revocations_accepted:"+o.Kind, 1)
			h.e.probeLease(v, r, h.id, fmt.Sprintf("directly after sys/leases/revoke sync=false of the lease of %s was accepted", o), o.NS, o.LeaseID, h.steps)
		}
	case "token-revoke":
		resp, err = v.Do(vReq{Op: logical.UpdateOperation, Path: "auth/token/revoke", Token: v.Root, NS: ns, Data: map[string]any{"token": o.TokenID}})
		if vOK(resp, err) {
			h.kill(o)
			r.Count("token_revocations_accepted", 1)
		}
	case "renew":
		if o.isToken() {
			resp, err = v.Do(vReq{Op: logical.UpdateOperation, Path: "auth/token/renew", Token: v.Root, NS: ns, Data: map[string]any{"token": o.TokenID, "increment": 1800}})
		} else {
			resp, err = v.Do(vReq{Op: logical.UpdateOperation, Path: "sys/leases/renew", Token: v.Root, NS: ns, Data: map[string]any{"lease_id": o.LeaseID, "increment": 1800}})
		}
		if vOK(resp, err) {
			r.Count("renewals_granted", 1)
		} else {
			r.Count("renewals_refused", 1)
		}
	case "use":
		resp, err = v.Do(vReq{Op: logical.ReadOperation, Path: "auth/token/lookup-self", Token: o.TokenID, NS: ns})
		if !vOK(resp, err) {
			break
		}
		o.Uses--
		if o.Uses == 0 {
			h.kill(o)
			r.Count("final_uses_spent", 1)
			r.Count("final_uses_spent:"+o.Kind, 1)
			r.Count("async_revocations_accepted", 1)
			h.e.probeLease(v, r, h.id, fmt.Sprintf("directly after the final use of %s", o), o.NS, o.LeaseID, h.steps)
		}
	case "prefix-sync", "prefix-async", "force":
		pfx := ""
		for _, p := range c05KPrefixes {
			if strings.HasPrefix(o.LeasePath, p+"/") || o.LeasePath == p {
				pfx = p
			}
		}
		switch op {
		case "force":
			resp, err = v.Do(vReq{Op: logical.UpdateOperation, Path: "sys/leases/revoke-force/" + pfx, Token: v.Root, NS: ns})
		default:
			resp, err = v.Do(vReq{Op: logical.UpdateOperation, Path: "sys/leases/revoke-prefix/" + pfx, Token: v.Root, NS: ns, Data: map[string]any{"sync": op == "prefix-sync"}})
		}
		if !vOK(resp, err) {
			break
		}
		hit := 0
		for _, x := range h.objs {
			if x.NS == o.NS && x.LeaseID != "" && (x.LeasePath == pfx || strings.HasPrefix(x.LeasePath, pfx+"/")) {
				if !x.Dead {
					hit++
				}
				h.kill(x)
				if op == "prefix-async" {
					h.e.probeLease(v, r, h.id, fmt.Sprintf("directly after sys/leases/revoke-prefix/%s sync=false in namespace %q was accepted (lease of %s)", pfx, ns, x), x.NS, x.LeaseID, h.steps)
				}
			}
		}
		r.Count("prefix_revocations_accepted:"+op, 1)
		if op == "prefix-async" {
			r.Count("async_revocations_accepted", 1)
			r.Count("async_prefix_revocation_leases_covered", hit)
		}
		h.step("%s %s in %q -> ok (%d live objects covered)", op, pfx, ns, hit)
		return true
	default:
		panic("c05: unknown op " + op)
	}
	h.step("%s %s -> %s", op, o, vErrStr(resp, err))
	if !vOK(resp, err) {
		r.Count("op_refused:"+op, 1)
		return false
	}
	return true
}

// checkRefused: a (service) token whose lease record has left storage has been revoked: it must no longer
// be found nor be usable. Decided from storage, not from the workload's bookkeeping.
func (h *c05KHist) checkRefused(stage string) bool {
	v, r := h.e.v, h.r
	ok := true
	for _, o := range h.objs {
		if !o.isToken() || o.LeaseID == "" || o.NS.Sealed {
			continue
		}
		if c05ReadLease(v, o.NS, o.LeaseID) != nil {
			continue
		}
		resp, err := v.Do(vReq{Op: logical.UpdateOperation, Path: "auth/token/lookup", Token: v.Root, NS: o.NS.Path, Data: map[string]any{"token": o.TokenID}})
		found := vOK(resp, err) && resp != nil && resp.Data != nil
		usable := v.TokenUsable(o.TokenID, o.NS.Path)
		if usable {
			r.Violate("C05-token-usable-after-its-lease-left-storage", h.id, fmt.Sprintf("%s [%s]: the lease record of %s is gone from storage but the token is still accepted (lookup-self succeeds; found by auth/token/lookup: %v)", stage, h.id, o, found), h.steps)
			ok = false
			continue
		}
		if found {
			// auth/token/lookup also shows entries that carry the revocation-pending mark; such a token is
			// refused. (Seen after a crash between the deletion of the token's lease and of its entry.)
			r.Count("refused_token_entry_still_listed_by_lookup(not judged)", 1)
		}
		r.Count("tokens_refused_after_lease_gone", 1)
		if o.Dead {
			r.Count("revoked_tokens_refused", 1)
		}
	}
	return ok
}

// cleanup force-revokes whatever the case left behind so that cases on the same core stay independent.
func (h *c05KHist) cleanup() {
	v := h.e.v
	for _, n := range h.e.nss {
		if n.Sealed {
			continue
		}
		for _, p := range c05KPrefixes {
			_, _ = v.Do(vReq{Op: logical.UpdateOperation, Path: "sys/leases/revoke-force/" + p, Token: v.Root, NS: n.Path})
		}
	}
	v.WaitQuiet(20*time.Millisecond, 2*time.Second)
}

// restart performs the transition and waits for the lease restore. mode: none | seal | newcore.
func (h *c05KHist) restart(mode string, base time.Duration) bool {
	e, r := h.e, h.r
	switch mode {
	case "none":
		return true
	case "seal":
		if !e.restartSameCore(r) {
			return false
		}
		e.setRetryBase(e.v, base)
	case "newcore":
		if !e.restartNewCore(r, base) {
			return false
		}
	}
	r.Count("restarts", 1)
	r.Count("restarts:"+mode, 1)
	h.step("restart: %s", mode)
	if !c05WaitRestored(e.v, 20*time.Second) {
		r.Inconc("%s: lease restore did not finish within 20s", h.id)
		return false
	}
	return true
}

// ------------------------------------------------------------------ the monitor

const c05KRetryBase = 250 * time.Millisecond

var (
	c05KOps      = []string{"lease-revoke-async", "final-use", "prefix-async", "lease-revoke-sync", "prefix-sync", "force", "token-revoke", "renew", "expire"}
	c05KRestarts = []string{"seal", "none", "newcore"}
)

func TestVerif_C05_LeaseKinds(t *testing.T) {
	t.Parallel()
	seed := kit.Seed(5)
	shard, _ := kit.Shard()
	r := kit.NewResult(t, "c05-lease-kinds", seed, "matrix rounds: a population with one lease of every kind (non-expiring root token, use-limited non-expiring root token, expiring root-policy token, service / periodic / orphan / login / use-limited tokens, batch tokens as lessees; root, child and grand-child namespace; a secret lease of every token kind, one of them in a child namespace for a root-namespace token) x one operation applied to every object (sys/leases/revoke sync=false, spending every use of the use-limited tokens, revoke-prefix sync=false on every lease path prefix of every namespace, the same three synchronously, revoke-force, auth/token/revoke, renew, letting 2s lifetimes run out) x the transition that follows directly, without waiting for the queued work (none, seal+unseal of the core, a new core on the same store); one more secret whose backend revocation fails is revoked with sync=false before the transition so that an expired lease is in storage when the oracle looks. Then seeded histories of 12..20 such operations with restarts at seeded points. Oracle (storage scan of all namespaces vs. the manager's pending / nonexpiring / irrevocable sets read under its lock): directly after every accepted queued revocation, after the transition, and after the due leases were awaited: every stored lease is pending with a timer and the stored expiry, or irrevocable, or - only with a zero stored expiry and only for a non-expiring root token - in the non-expiring set; a stored lease with a past expiry that is neither pending nor irrevocable is a violation without waiting, a tracked one must go within a bounded wait (else inconclusive); a token whose lease record left storage must be refused. Every (operation, transition, store kind) and every history is a distinct case")
	defer r.Write(t)
	type combo struct{ op, restart string }
	var rounds []combo
	for _, op := range c05KOps {
		for _, rs := range c05KRestarts {
			rounds = append(rounds, combo{op, rs})
		}
	}
	stores := []bool{false, true}
	envs := map[bool]*c05Env{}
	env := func(tx bool) *c05Env {
		if envs[tx] == nil {
			envs[tx] = c05Boot(t, tx, false, c05KRetryBase)
		}
		return envs[tx]
	}
	for ri, cb := range rounds {
		for si, tx := range stores {
			// quick: every (operation, transition) once, the store kind alternating; thorough: both store kinds
			if kit.Tier() == "quick" && (ri+shard)%2 != si {
				continue
			}
			caseID := fmt.Sprintf("kinds:%v:%s:%s", tx, cb.op, cb.restart)
			if !kit.WantCase(caseID) {
				continue
			}
			h := &c05KHist{e: env(tx), r: r, id: caseID}
			c05KindsRound(h, cb.op, cb.restart)
			if r.NViolations() > 20 {
				return
			}
		}
	}
	nh := kit.N(4, 40)
	for hi := 0; hi < nh; hi++ {
		tx := hi%2 == 1
		caseID := fmt.Sprintf("kindshist:%v:%d:%d", tx, shard, hi)
		if !kit.WantCase(caseID) {
			continue
		}
		h := &c05KHist{e: env(tx), r: r, id: caseID}
		c05KindsHistory(h, kit.NewRand(seed, uint64(60_000+1000*shard+hi)))
		if r.NViolations() > 20 {
			return
		}
	}
	for _, e := range envs {
		e.v.Close()
	}
	r.Require("set_comparisons", 60)
	r.Require("leases_compared", 1500)
	r.Require("restarts:seal", 9)
	r.Require("restarts:newcore", 9)
	r.Require("async_revocations_accepted", 60)
	r.Require("async_revocations_accepted:root-nonexp", 3)
	r.Require("final_uses_spent:root-nonexp-uses", 3)
	r.Require("final_uses_spent", 9)
	r.Require("prefix_revocations_accepted:prefix-async", 12)
	r.Require("restart_directly_after_async_revocation", 6)
	r.Require("past_expiry_tracking_checks", 20)
	r.Require("stubborn_expired_lease_seen_tracked", 6)
	r.Require("expired_leases_seen_revoked", 40)
	r.Require("revoked_tokens_refused", 60)
	for _, k := range []string{"root-nonexpiring", "root-nonexpiring-use-limited", "root-expiring", "token", "periodic-token", "orphan-token", "login", "token-use-limited", "secret", "secret-of-batch-token",
		"token@child-ns", "periodic-token@child-ns", "orphan-token@child-ns", "login@child-ns", "secret@child-ns", "secret-of-batch-token@child-ns"} {
		r.Require("kind_compared:"+k, 12)
	}
	r.Require("compared_held_as:nonexpiring", 20)
	r.Require("compared_held_as:pending", 1000)
}

// stubborn issues a secret whose backend revocation fails and queues its revocation: until the harness
// lets the backend recover there is an expired lease in storage, which the manager must keep pending.
func (h *c05KHist) stubborn() *c05KObj {
	s := h.create("secret", h.e.ns("ns1/"), nil, time.Hour)
	if s == nil {
		return nil
	}
	s.Bystander = true
	sid := s.SecretID
	c05SetFailRevoke(h.e.v, func(x string) bool { return x == sid })
	resp, err := h.e.v.Do(vReq{Op: logical.UpdateOperation, Path: "sys/leases/revoke", Token: h.e.v.Root, NS: s.NS.Path, Data: map[string]any{"lease_id": s.LeaseID, "sync": false}})
	h.step("secret whose backend revocation fails: sys/leases/revoke sync=false -> %s", vErrStr(resp, err))
	if !vOK(resp, err) {
		return nil
	}
	s.Dead = true
	return s
}

// settle is the common tail of a case: oracle after the transition, backend recovery, bounded progress,
// oracle again, refusal of revoked tokens.
func (h *c05KHist) settle(stub *c05KObj, horizon time.Duration, after string) bool {
	e, r := h.e, h.r
	v := e.v
	if stub != nil && e.v.Rec != nil {
		// a new core has a fresh recording backend: keep the revocation failing there as well
		sid := stub.SecretID
		c05SetFailRevoke(v, func(x string) bool { return x == sid })
	}
	v.WaitQuiet(30*time.Millisecond, 3*time.Second)
	if !e.checkKinds(v, r, h.id, after, h.steps) {
		return false
	}
	if stub != nil {
		if le := c05ReadLease(v, stub.NS, stub.LeaseID); le != nil && !le.isIrrevocable() && le.ExpireTime.Before(time.Now()) {
			r.Count("stubborn_expired_lease_seen_tracked", 1)
		}
		c05SetFailRevoke(v, nil)
	}
	if !e.awaitDue(v, r, h.id, after+", awaiting the leases that are due", horizon, h.steps) {
		return false
	}
	v.WaitQuiet(30*time.Millisecond, 3*time.Second)
	if !e.checkKinds(v, r, h.id, after+", after the due leases were awaited", h.steps) {
		return false
	}
	return h.checkRefused(after + ", after the due leases were awaited")
}

func c05KindsRound(h *c05KHist, op, restart string) {
	e, r := h.e, h.r
	r.Eval(1)
	r.Nontrivial(h.id)
	defer func() {
		c05SetFailRevoke(h.e.v, nil)
		h.cleanup()
	}()
	ttl := time.Hour
	horizon := time.Duration(0)
	if op == "expire" {
		ttl, horizon = 2*time.Second, 4*time.Second
	}
	h.populate(ttl)
	e.v.WaitQuiet(20*time.Millisecond, 2*time.Second)
	async := false
	switch op {
	case "lease-revoke-sync", "lease-revoke-async":
		for _, o := range h.targets(func(o *c05KObj) bool { return o.LeaseID != "" }) {
			if !o.Dead {
				h.apply(op, o)
			}
		}
		async = op == "lease-revoke-async"
	case "token-revoke":
		for _, o := range h.targets(func(o *c05KObj) bool { return o.isToken() && o.Kind != "batch" }) {
			if !o.Dead {
				h.apply(op, o)
			}
		}
	case "renew":
		for _, o := range h.targets(func(o *c05KObj) bool { return o.LeaseID != "" }) {
			h.apply(op, o)
		}
	case "final-use":
		for _, o := range h.targets(func(o *c05KObj) bool { return o.Limited }) {
			for o.Uses > 0 && !o.Dead {
				if !h.apply("use", o) {
					break
				}
			}
		}
		async = true
	case "prefix-sync", "prefix-async", "force":
		done := map[string]bool{}
		for _, o := range h.targets(func(o *c05KObj) bool { return o.LeaseID != "" }) {
			key := o.NS.Path + "|" + o.LeasePath
			if done[key] {
				continue
			}
			done[key] = true
			h.apply(op, o)
		}
		async = op == "prefix-async"
	case "expire":
	}
	h.bystanders()
	stub := h.stubborn()
	if async && restart != "none" {
		r.Count("restart_directly_after_async_revocation", 1)
	}
	if !h.restart(restart, c05KRetryBase) {
		return
	}
	if h.settle(stub, horizon, fmt.Sprintf("after %s on every object and transition %q", op, restart)) {
		r.Count("rounds_held", 1)
	}
	r.Sample(map[string]any{"case": h.id, "steps": h.steps})
}

func c05KindsHistory(h *c05KHist, rng *kit.Rand) {
	e, r := h.e, h.r
	r.Eval(1)
	defer func() {
		c05SetFailRevoke(h.e.v, nil)
		h.cleanup()
	}()
	s := time.Second
	h.populate(kit.Pick(rng, []time.Duration{3 * s, time.Hour, time.Hour}))
	nops := 12 + rng.Intn(9)
	restartAt := map[int]string{rng.Intn(nops): kit.Pick(rng, c05KRestarts[:1]), rng.Intn(nops): "newcore"}
	kinds := []string{"root-nonexp", "root-nonexp-uses", "root-exp", "token", "periodic", "orphan", "login", "token-uses", "login-uses", "batch", "secret", "secret", "secret"}
	nsOf := func(kind string) *c05NS {
		if strings.HasPrefix(kind, "root-") {
			return e.ns("")
		}
		return kit.Pick(rng, []*c05NS{e.ns(""), e.ns("ns1/"), e.ns("ns1/"), e.ns("ns1/ns2/")})
	}
	lastAsync := false
	for i := 0; i < nops; i++ {
		if mode, ok := restartAt[i]; ok {
			if lastAsync {
				r.Count("restart_directly_after_async_revocation", 1)
			}
			if !h.restart(mode, c05KRetryBase) {
				return
			}
			e.v.WaitQuiet(30*time.Millisecond, 3*time.Second)
			if !e.checkKinds(e.v, r, h.id, fmt.Sprintf("after restart %q at step %d", mode, i), h.steps) {
				return
			}
		}
		lastAsync = false
		live := h.targets(func(o *c05KObj) bool { return o.LeaseID != "" })
		op := rng.Intn(100)
		switch {
		case op < 22 || len(live) == 0:
			kind := kit.Pick(rng, kinds)
			n := nsOf(kind)
			var by *c05KObj
			if kind == "secret" {
				if c := h.targets(func(o *c05KObj) bool {
					return o.isToken() && (o.NS == n || strings.HasPrefix(o.Kind, "root-"))
				}); len(c) > 0 && rng.Chance(3, 4) {
					by = kit.Pick(rng, c)
				}
			}
			h.create(kind, n, by, kit.Pick(rng, []time.Duration{2 * s, 3 * s, time.Hour}))
		case op < 32:
			h.apply("renew", kit.Pick(rng, live))
		case op < 52:
			h.apply("lease-revoke-async", kit.Pick(rng, live))
			lastAsync = true
		case op < 60:
			h.apply("lease-revoke-sync", kit.Pick(rng, live))
		case op < 68:
			if c := h.targets(func(o *c05KObj) bool { return o.isToken() && o.Kind != "batch" }); len(c) > 0 {
				h.apply("token-revoke", kit.Pick(rng, c))
			}
		case op < 82:
			if c := h.targets(func(o *c05KObj) bool { return o.Limited }); len(c) > 0 {
				o := kit.Pick(rng, c)
				h.apply("use", o)
				lastAsync = o.Dead
			}
		case op < 92:
			h.apply("prefix-async", kit.Pick(rng, live))
			lastAsync = true
		case op < 96:
			h.apply("prefix-sync", kit.Pick(rng, live))
		default:
			h.apply("force", kit.Pick(rng, live))
		}
		if r.NViolations() > 20 {
			return
		}
	}
	h.bystanders()
	stub := h.stubborn()
	if h.settle(stub, 4*s, "end of history") {
		r.Count("histories_held", 1)
		r.Nontrivial(strings.Join(h.steps, ";"))
	}
	r.Sample(map[string]any{"case": h.id, "steps": h.steps})
}

// ------------------------------------------------------------------ crash prefixes of the queued revocations

type c05KFlow struct {
	name string
	ns   string
	prep func(h *c05KHist, n *c05NS) *c05KObj
	run  func(h *c05KHist, o *c05KObj) bool
}

func c05KFlows() []c05KFlow {
	withDependants := func(kind string, ttl time.Duration) func(h *c05KHist, n *c05NS) *c05KObj {
		return func(h *c05KHist, n *c05NS) *c05KObj {
			o := h.create(kind, n, nil, ttl)
			if o == nil || o.Limited {
				return o
			}
			h.create("secret", n, o, time.Hour)
			if kind != "batch" {
				h.create("token", n, o, time.Hour)
			}
			return o
		}
	}
	useLimited := func(kind string) func(h *c05KHist, n *c05NS) *c05KObj {
		return func(h *c05KHist, n *c05NS) *c05KObj {
			o := h.create(kind, n, nil, time.Hour)
			if o == nil {
				return nil
			}
			h.create("secret", n, o, time.Hour)
			for o.Uses > 1 {
				if !h.apply("use", o) {
					return nil
				}
			}
			return o
		}
	}
	op := func(name string) func(h *c05KHist, o *c05KObj) bool {
		return func(h *c05KHist, o *c05KObj) bool { return h.apply(name, o) }
	}
	return []c05KFlow{
		{"lazy-revoke-nonexpiring-root-token-lease", "", withDependants("root-nonexp", 0), op("lease-revoke-async")},
		{"final-use-of-nonexpiring-root-token", "", useLimited("root-nonexp-uses"), op("use")},
		{"lazy-revoke-prefix-auth-token-create", "", withDependants("root-nonexp", 0), op("prefix-async")},
		{"sync-revoke-nonexpiring-root-token-lease", "", withDependants("root-nonexp", 0), op("lease-revoke-sync")},
		{"lazy-revoke-expiring-root-token-lease", "", withDependants("root-exp", time.Hour), op("lease-revoke-async")},
		{"final-use-of-token", "ns1/", useLimited("token-uses"), op("use")},
		{"final-use-of-login-token", "", useLimited("login-uses"), op("use")},
		{"lazy-revoke-periodic-token-lease", "ns1/", withDependants("periodic", time.Hour), op("lease-revoke-async")},
		{"lazy-revoke-orphan-token-lease", "ns1/ns2/", withDependants("orphan", time.Hour), op("lease-revoke-async")},
		{"lazy-revoke-secret-of-batch-token", "ns1/", func(h *c05KHist, n *c05NS) *c05KObj {
			b := h.create("batch", n, nil, time.Hour)
			if b == nil {
				return nil
			}
			return h.create("secret", n, b, time.Hour)
		}, op("lease-revoke-async")},
		{"register-nonexpiring-root-token", "", nil, func(h *c05KHist, _ *c05KObj) bool {
			// the token is not remembered: after a crash inside the request nobody holds it
			s := &c05KHist{e: h.e, r: h.r, id: h.id}
			ok := s.create("root-nonexp-uses", h.e.ns(""), nil, 0) != nil
			h.step("auth/token/create policies=[root] num_uses=%d -> %v", c05KUses, ok)
			return ok
		}},
		{"renew-periodic-token", "ns1/", withDependants("periodic", 30*time.Second), op("renew")},
	}
}

func TestVerif_C05_LeaseKindsCrash(t *testing.T) {
	t.Parallel()
	seed := kit.Seed(5)
	shard, shards := kit.Shard()
	r := kit.NewResult(t, "c05-lease-kinds-crash", seed, "for each flow (sys/leases/revoke sync=false of the lease of a non-expiring root token that has a child token and a secret lease, the final use of a use-limited non-expiring root token, revoke-prefix auth/token/create sync=false, the same lease revoked with sync=true, the queued revocation of expiring root / periodic / orphan token leases and of a batch token's secret, the final use of a service and of a login token, registration of a use-limited non-expiring root token, renewal of a periodic token) on a journaling store that already holds one lease of every kind in three namespaces: first the live core is judged once the flow and its queued work went quiet; then for every prefix k of the durable writes made meanwhile a new core with the same seal is booted on the store as a crash after k writes would leave it, and after its lease restore: the strict storage-vs-tracking comparison of c05-lease-kinds, every stored lease with a past expiry must be pending or irrevocable (violation without waiting otherwise) and must be gone within a bounded wait, tokens whose lease record is gone must be refused. Every (flow, store kind, k) is a distinct case")
	r.Exhaustive = true
	defer r.Write(t)
	flows := c05KFlows()
	stores := []bool{false, true}
	envs := map[bool]*c05Env{}
	base := 15 * time.Millisecond
	for fi, flow := range flows {
		for si, tx := range stores {
			if kit.Tier() == "quick" && fi%2 != si {
				continue
			}
			if (fi*2+si)%shards != shard {
				continue
			}
			pre := fmt.Sprintf("kindscrash:%v:%s:", tx, flow.name)
			if kit.OnlyCase() != "" && !strings.HasPrefix(kit.OnlyCase(), pre) {
				continue
			}
			e := envs[tx]
			if e == nil {
				e = c05Boot(t, tx, false, base)
				envs[tx] = e
				bh := &c05KHist{e: e, r: r, id: "kindscrash:base"}
				bh.populate(time.Hour)
				bh.bystanders()
			}
			v := e.v
			h := &c05KHist{e: e, r: r, id: pre + "live"}
			var o *c05KObj
			if flow.prep != nil {
				if o = flow.prep(h, e.ns(flow.ns)); o == nil {
					r.Inconc("%s: preparation failed: %v", pre, h.steps)
					continue
				}
			}
			v.WaitQuiet(20*time.Millisecond, 2*time.Second)
			v.Probe.StartJournal()
			ok := flow.run(h, o)
			v.WaitQuiet(30*time.Millisecond, 3*time.Second)
			j := v.Probe.StopJournal()
			if !ok {
				r.Inconc("%s: fault-free flow was refused: %v", pre, h.steps)
				continue
			}
			r.Count("flow_writes:"+flow.name, len(j))
			wit := map[string]any{"flow": flow.name, "transactional": tx, "steps": h.steps, "journal": c05JournalKeys(j)}
			if kit.WantCase(h.id) {
				r.Eval(1)
				r.Nontrivial(h.id)
				if e.checkKinds(v, r, h.id, "live core after "+flow.name+" went quiet", wit) &&
					e.awaitDue(v, r, h.id, "live core after "+flow.name, 0, wit) {
					h.checkRefused("live core after " + flow.name)
					r.Count("live_flows_checked", 1)
				}
			}
			for k := 0; k <= len(j); k++ {
				caseID := fmt.Sprintf("%s%d", pre, k)
				if !kit.WantCase(caseID) {
					continue
				}
				r.Eval(1)
				r.Nontrivial(caseID)
				phys, _ := kit.NewProbe(v.Probe.Materialise(k, tx))
				v2, berr := v.RestartOn(phys)
				if berr != nil {
					r.Violate("C05-restart-failed", caseID, fmt.Sprintf("core does not come up on write prefix %d/%d of %s: %v", k, len(j), flow.name, berr), c05JournalKeys(j))
					if v2 != nil {
						v2.Close()
					}
					continue
				}
				e.setRetryBase(v2, base)
				r.Count("restarts", 1)
				if !c05WaitRestored(v2, 20*time.Second) {
					r.Inconc("%s: lease restore did not finish within 20s", caseID)
					v2.Close()
					continue
				}
				v2.WaitQuiet(20*time.Millisecond, 2*time.Second)
				kw := map[string]any{"flow": flow.name, "transactional": tx, "prefix": k, "steps": h.steps, "journal": c05JournalKeys(j)}
				stage := fmt.Sprintf("after restart on write prefix %d/%d of %s", k, len(j), flow.name)
				e2 := &c05Env{t: e.t, v: v2, nss: e.nss, tx: e.tx}
				h2 := &c05KHist{e: e2, r: r, id: caseID, objs: h.objs, steps: h.steps}
				if e.checkKinds(v2, r, caseID, stage, kw) && e.awaitDue(v2, r, caseID, stage, 0, kw) {
					v2.WaitQuiet(20*time.Millisecond, 2*time.Second)
					if e.checkKinds(v2, r, caseID, stage+", after the due leases were awaited", kw) && h2.checkRefused(stage) {
						r.Count("prefixes_checked", 1)
					}
				}
				v2.Close()
				if r.NViolations() > 20 {
					return
				}
			}
			r.Sample(wit)
		}
	}
	for _, e := range envs {
		e.v.Close()
	}
	r.Require("live_flows_checked", 9)
	r.Require("prefixes_checked", 60)
	r.Require("async_revocations_accepted", 8)
	r.Require("final_uses_spent", 3)
	// (how many expired leases are still stored when a restarted core is looked at depends on how fast it
	// revokes them: past_expiry_tracking_checks / expired_leases_seen_revoked are reported, not required here)
	r.Require("revoked_tokens_refused", 60)
	r.Require("kind_compared:root-nonexpiring", 30)
	r.Require("compared_held_as:nonexpiring", 30)
}
