//go:build verif

package vault

// C05, oracle O2 under single storage faults inside RENEW requests.
//
//   TestVerif_C05_RenewFaults  for every lease kind of the lease-kinds population and every renew endpoint
//                              (sys/leases/renew, also sent by the lease's owner; auth/token/renew, renew-self,
//                              renew-accessor): the storage operations of the renew request are enumerated and
//                              the request is run once per operation with exactly that operation failing.
//
// A renewal whose lease record could not be written must leave the lease as it was: the durable expiry is the
// one the manager has to act on. The oracle looks at the renewed lease at once (tracking sets read under the
// manager's lock, then the stored record), at every stored lease after each (kind, endpoint), again after a
// seal+unseal and after a new core, and - for leases with a 5s lifetime - waits (bounded) past the STORED expiry
// and requires the revocation.

import (
	"fmt"
	"strings"
	"testing"
	"time"

	kit "github.com/openbao/openbao/sdk/v2/helper/verifkit"
	"github.com/openbao/openbao/sdk/v2/logical"
)

type c05RFCombo struct {
	kind     string // lease kind (c05KHist.create kinds, plus secret-of-batch / secret-of-token / secret-of-root-nonexp-in-child)
	ns       string
	endpoint string // lease-renew | lease-renew-by-owner | renew | renew-self | renew-accessor
}

func (c c05RFCombo) String() string { return fmt.Sprintf("%s:%s:%s", c.kind, c.ns, c.endpoint) }

func c05RFCombos() []c05RFCombo {
	out := []c05RFCombo{
		{"secret", "", "lease-renew"}, {"secret", "ns1/", "lease-renew"}, {"secret", "ns1/ns2/", "lease-renew"},
		{"secret-of-batch", "", "lease-renew"}, {"secret-of-batch", "ns1/", "lease-renew-by-owner"},
		{"secret-of-token", "ns1/", "lease-renew-by-owner"}, {"secret-of-token", "", "lease-renew"},
		{"secret-of-root-nonexp-in-child", "ns1/", "lease-renew"},
	}
	for _, k := range []string{"token", "periodic", "orphan", "login", "root-exp", "token-uses", "login-uses"} {
		for _, ns := range []string{"", "ns1/"} {
			if k == "root-exp" && ns != "" {
				continue
			}
			for _, ep := range []string{"renew", "renew-self", "renew-accessor"} {
				out = append(out, c05RFCombo{k, ns, ep})
			}
		}
	}
	out = append(out, c05RFCombo{"token", "ns1/ns2/", "renew"}, c05RFCombo{"periodic", "ns1/ns2/", "renew-self"},
		c05RFCombo{"root-nonexp", "", "renew"}, c05RFCombo{"root-nonexp", "", "renew-self"}, c05RFCombo{"root-nonexp-uses", "", "renew-accessor"})
	return out
}

func (c c05RFCombo) renewable() bool { return !strings.HasPrefix(c.kind, "root-nonexp") }

type c05RFCase struct {
	id     string
	combo  c05RFCombo
	i      int
	o      *c05KObj // the object whose lease is renewed
	owner  *c05KObj // token that leased the secret (nil: the core's root token)
	s0     time.Time
	s1     time.Time // stored expiry after the request (zero: lease gone)
	failed bool      // the renewal was refused and the stored expiry did not move
	fault  string
}

// c05RFMake issues the object of a combo. ttl is the lifetime of the lease that will be renewed.
func c05RFMake(h *c05KHist, c c05RFCombo, ttl time.Duration) (o, owner *c05KObj) {
	e := h.e
	n := e.ns(c.ns)
	switch c.kind {
	case "secret":
		return h.create("secret", n, nil, ttl), nil
	case "secret-of-batch":
		if owner = h.create("batch", n, nil, time.Hour); owner == nil {
			return nil, nil
		}
		return h.create("secret", n, owner, ttl), owner
	case "secret-of-token":
		if owner = h.create("token", n, nil, time.Hour); owner == nil {
			return nil, nil
		}
		return h.create("secret", n, owner, ttl), owner
	case "secret-of-root-nonexp-in-child":
		if owner = h.create("root-nonexp", e.ns(""), nil, 0); owner == nil {
			return nil, nil
		}
		return h.create("secret", n, owner, ttl), owner
	}
	return h.create(c.kind, n, nil, ttl), nil
}

const c05RFIncrement = 7200 // seconds; above every lifetime used here, so a granted renewal moves the expiry forward

func c05RFRenew(v *vCore, cs *c05RFCase, tag string) (*logical.Response, error) {
	o, ns := cs.o, cs.o.NS.Path
	switch cs.combo.endpoint {
	case "lease-renew":
		return v.Do(vReq{Tag: tag, Op: logical.UpdateOperation, Path: "sys/leases/renew", Token: v.Root, NS: ns, Data: map[string]any{"lease_id": o.LeaseID, "increment": c05RFIncrement}})
	case "lease-renew-by-owner":
		return v.Do(vReq{Tag: tag, Op: logical.UpdateOperation, Path: "sys/leases/renew", Token: cs.owner.TokenID, NS: ns, Data: map[string]any{"lease_id": o.LeaseID, "increment": c05RFIncrement}})
	case "renew":
		return v.Do(vReq{Tag: tag, Op: logical.UpdateOperation, Path: "auth/token/renew", Token: v.Root, NS: ns, Data: map[string]any{"token": o.TokenID, "increment": c05RFIncrement}})
	case "renew-self":
		return v.Do(vReq{Tag: tag, Op: logical.UpdateOperation, Path: "auth/token/renew-self", Token: o.TokenID, NS: ns, Data: map[string]any{"increment": c05RFIncrement}})
	case "renew-accessor":
		return v.Do(vReq{Tag: tag, Op: logical.UpdateOperation, Path: "auth/token/renew-accessor", Token: v.Root, NS: ns, Data: map[string]any{"accessor": o.Accessor, "increment": c05RFIncrement}})
	}
	panic("c05: unknown renew endpoint " + cs.combo.endpoint)
}

// c05RFRun runs the renewal of one case with storage operation i of the request failing once (i = 0: no
// fault) and judges the renewed lease immediately. It returns false when a violation was recorded.
func c05RFRun(e *c05Env, r *kit.Result, cs *c05RFCase) bool {
	v := e.v
	o := cs.o
	before := c05ReadLease(v, o.NS, o.LeaseID)
	if before == nil {
		r.Count("lease_gone_before_renewal", 1)
		return true
	}
	cs.s0 = before.ExpireTime
	var faulted kit.Event
	if cs.i > 0 {
		v.Probe.FailNth(func(ev kit.Event) bool {
			if ev.Tag != "rn" {
				return false
			}
			faulted = ev
			return true
		}, cs.i)
	}
	b0 := time.Now()
	resp, err := c05RFRenew(v, cs, "rn")
	b1 := time.Now()
	fired := v.Probe.ClearFaults()
	if cs.i > 0 && fired == 0 {
		r.Count("fault_not_reached", 1)
	}
	if fired > 0 {
		cs.fault = fmt.Sprintf("operation %d of the request (%s %s)", cs.i, faulted.Op, c05KeyClass(faulted.Key))
		r.Count("faults_fired", 1)
		r.Count("faults_fired:"+faulted.Op, 1)
		if faulted.Op == "put" && strings.Contains(faulted.Key, c05LeaseMarker) {
			r.Count("faults_fired_on_the_lease_record_write", 1)
		}
		r.Nontrivial(fmt.Sprintf("%s|%v|%s|%s", cs.combo, e.tx, faulted.Op, c05KeyClass(faulted.Key)))
	} else {
		cs.fault = "no fault"
	}
	// the sets first, the store second
	mem := c05Members(v.Core)
	after := c05ReadLease(v, o.NS, o.LeaseID)
	var told time.Duration
	granted := false
	if vOK(resp, err) && resp != nil {
		switch {
		case resp.Secret != nil:
			granted, told = true, resp.Secret.TTL
		case resp.Auth != nil:
			granted, told = true, resp.Auth.TTL
		}
	}
	wit := map[string]any{"case": cs.id, "lease": fmt.Sprint(o), "endpoint": cs.combo.endpoint, "transactional": e.tx, "fault": cs.fault, "answer": vErrStr(resp, err),
		"stored_expiry_before": cs.s0.Format(time.RFC3339Nano)}
	if after == nil {
		r.Count("lease_gone_after_renewal_request", 1)
		if granted {
			r.Violate("C05-renewal-granted-but-lease-not-stored", cs.id, fmt.Sprintf("[%s] %s of %s with %s: a ttl of %s was granted but no lease record is stored", cs.id, cs.combo.endpoint, o, cs.fault, told), wit)
			return false
		}
		return true
	}
	cs.s1 = after.ExpireTime
	wit["stored_expiry_after"] = cs.s1.Format(time.RFC3339Nano)
	x := mem[o.LeaseID]
	wit["held_as"] = x.String()
	moved := !cs.s1.Equal(cs.s0)
	switch {
	case granted:
		r.Count("renewals_granted", 1)
		if fired > 0 {
			r.Count("renewals_granted_despite_the_fault", 1)
		}
		// what the client was told must be what is stored
		lo, hi := b0.Add(told-time.Second), b1.Add(told+time.Second)
		if cs.s1.Before(lo) || cs.s1.After(hi) {
			class := "C05-renewal-granted-but-stored-expiry-differs"
			if !moved {
				class = "C05-renewal-granted-but-stored-expiry-unchanged"
			}
			r.Violate(class, cs.id, fmt.Sprintf("[%s] %s of %s with %s: the client was granted a ttl of %s (expiry within [%s, %s]) but the stored lease expires at %s (before the request: %s)", cs.id, cs.combo.endpoint, o, cs.fault,
				told, lo.Format("15:04:05.000"), hi.Format("15:04:05.000"), cs.s1.Format(time.RFC3339Nano), cs.s0.Format(time.RFC3339Nano)), wit)
			return false
		}
	case moved:
		// refused towards the client although the record was rewritten (fault after the write): ambiguous outcome, not judged
		r.Count("renewals_refused_but_stored_expiry_moved(not judged)", 1)
	default:
		cs.failed = true
		r.Count("renewals_refused_stored_expiry_unchanged", 1)
		if fired > 0 && faulted.Op == "put" && strings.Contains(faulted.Key, c05LeaseMarker) {
			r.Count("renewals_refused_because_the_lease_record_write_failed", 1)
		}
	}
	// tracking of the renewed lease, decided now
	r.Count("renewed_lease_tracking_checks", 1)
	if !cs.combo.renewable() {
		if granted {
			r.Count("nonexpiring_root_token_renewal_granted(not judged)", 1)
		}
	}
	if x != nil && x.P && !x.I && !cs.s1.IsZero() && !x.Expire.Equal(cs.s1) && x.Expire.After(cs.s1) && !granted && !moved {
		r.Violate("C05-failed-renew-left-tracked-expiry-ahead-of-stored", cs.id, fmt.Sprintf("[%s] %s of %s with %s was refused (%s) and the stored lease keeps its expiry %s, but the manager's pending entry and timer now stand at %s (%s later): the lease is not revoked when its stored expiry passes",
			cs.id, cs.combo.endpoint, o, cs.fault, vErrStr(resp, err), cs.s1.Format(time.RFC3339Nano), x.Expire.Format(time.RFC3339Nano), x.Expire.Sub(cs.s1).Round(time.Second)), wit)
		return false
	}
	for _, f := range c05JudgeLease(o.LeaseID, &c05Stored{ID: o.LeaseID, NS: o.NS, Entry: after}, x, time.Now()) {
		r.Violate(f.class, cs.id, fmt.Sprintf("[%s] directly after %s of %s with %s (answer: %s): %s", cs.id, cs.combo.endpoint, o, cs.fault, vErrStr(resp, err), f.what), wit)
		return false
	}
	return true
}

// c05RFOps runs one fault-free renewal of a fresh object and returns the storage operations of the request.
func c05RFOps(h *c05KHist, c c05RFCombo, ttl time.Duration) ([]kit.Event, bool) {
	v := h.e.v
	o, owner := c05RFMake(h, c, ttl)
	if o == nil {
		return nil, false
	}
	cs := &c05RFCase{id: h.id, combo: c, o: o, owner: owner}
	v.WaitQuiet(10*time.Millisecond, time.Second)
	v.Probe.StartLog(false)
	resp, err := c05RFRenew(v, cs, "rn")
	evs := v.Probe.StopLog()
	var out []kit.Event
	for _, ev := range evs {
		if ev.Tag == "rn" {
			out = append(out, ev)
		}
	}
	if c.renewable() && !(vOK(resp, err) && resp != nil && (resp.Secret != nil || resp.Auth != nil)) {
		h.r.Count("fault_free_renewal_refused:"+c.String(), 1)
	}
	return out, true
}

func c05RFOpList(evs []kit.Event) []string {
	var out []string
	for i, ev := range evs {
		out = append(out, fmt.Sprintf("%d %s %s", i+1, ev.Op, c05KeyClass(ev.Key)))
	}
	return out
}

func TestVerif_C05_RenewFaults(t *testing.T) {
	t.Parallel()
	seed := kit.Seed(5)
	shard, shards := kit.Shard()
	r := kit.NewResult(t, "c05-renew-faults", seed, "for every lease kind (secrets in root / child / grand-child namespace, secrets of a batch token, of a service token, of a root-namespace non-expiring root token in a child namespace; service, periodic, orphan, login, expiring root-policy, use-limited tokens in root and child namespace; non-expiring root tokens, whose renewal must be refused) x renew endpoint (sys/leases/renew sent by root or by the owner; auth/token/renew, renew-self, renew-accessor) x store kind: the storage operations a fault-free renewal performs on the request's goroutine are enumerated; for each i a fresh lease (1h) is renewed (+2h) with operation i failing once. Judged at once, from the manager's sets read under its lock and then the stored record: a granted ttl must be the stored one; the renewed lease must be pending with a timer and exactly the stored expiry (a refused renewal that left the stored expiry alone but moved the tracked one is the narrow class); after each (kind, endpoint) every stored lease goes through the strict comparison of c05-lease-kinds, and again after seal+unseal. Second pass with 5s lifetimes for the operations that are writes (plus one seeded other operation per combination): after the faulted renewals the harness waits past the stored expiries: every lease whose renewal was refused must be revoked (a lease still stored 12s later whose timer stands at another time is a violation, otherwise inconclusive), then a new core is booted on the store and compared again. A case is non-trivial when the fault fired (distinct by kind, endpoint, store kind and failed operation)")
	defer r.Write(t)
	combos := c05RFCombos()
	stores := []bool{false, true}
	base := 250 * time.Millisecond
	nSampled := 0
	for si, tx := range stores {
		var mine []c05RFCombo
		for ci, c := range combos {
			// quick: every combination once, the store kind alternating; thorough: both store kinds, shards split the combinations
			if kit.Tier() == "quick" && (ci+shard)%2 != si {
				continue
			}
			if kit.Tier() != "quick" && ci%shards != shard {
				continue
			}
			mine = append(mine, c)
		}
		if len(mine) == 0 {
			continue
		}
		e := c05Boot(t, tx, false, base)
		h := &c05KHist{e: e, r: r, id: fmt.Sprintf("renewfault:%v", tx)}
		writes := map[c05RFCombo][]int{}
		nops := map[c05RFCombo]int{}
		var kept []*c05RFCase
		// ---- pass A: every operation, 1h leases
		for _, c := range mine {
			pre := fmt.Sprintf("renewfault:%v:%s:", tx, c)
			if kit.OnlyCase() != "" && !strings.HasPrefix(kit.OnlyCase(), pre) && !strings.HasPrefix(kit.OnlyCase(), "renewfault-short:") {
				continue
			}
			evs, ok := c05RFOps(h, c, time.Hour)
			if !ok {
				r.Inconc("%s: cannot issue the lease: %v", pre, h.steps)
				continue
			}
			nops[c] = len(evs)
			for i, ev := range evs {
				if ev.Op == "put" || ev.Op == "delete" || ev.Op == "commit" {
					writes[c] = append(writes[c], i+1)
				}
			}
			r.Count("request_storage_operations", len(evs))
			for i := 1; i <= len(evs)+1; i++ {
				cs := &c05RFCase{id: fmt.Sprintf("%s%d", pre, i), combo: c, i: i}
				if !kit.WantCase(cs.id) {
					continue
				}
				r.Eval(1)
				if cs.o, cs.owner = c05RFMake(h, c, time.Hour); cs.o == nil {
					r.Inconc("%s: cannot issue the lease", cs.id)
					continue
				}
				if !c05RFRun(e, r, cs) && r.NViolations() > 20 {
					return
				}
				kept = append(kept, cs)
			}
			e.v.WaitQuiet(10*time.Millisecond, time.Second)
			if !e.checkKinds(e.v, r, pre+"all", fmt.Sprintf("after %s with each of its %d storage operations failing once", c, len(evs)), c05RFOpList(evs)) {
				if r.NViolations() > 20 {
					return
				}
			}
			if nSampled++; nSampled <= 4 {
				r.Sample(map[string]any{"combination": c.String(), "transactional": tx, "operations_of_the_renew_request": c05RFOpList(evs)})
			}
		}
		if kit.OnlyCase() == "" || strings.HasPrefix(kit.OnlyCase(), "renewfault:") {
			if !h.restart("seal", base) {
				return
			}
			e.v.WaitQuiet(30*time.Millisecond, 3*time.Second)
			if e.checkKinds(e.v, r, h.id+":after-seal", "after seal+unseal following the faulted renewals", nil) {
				n := 0
				for _, cs := range kept {
					if cs.failed && c05ReadLease(e.v, cs.o.NS, cs.o.LeaseID) != nil {
						n++
					}
				}
				r.Count("leases_with_refused_renewal_compared_after_restart", n)
			}
		}
		h.cleanup()

		// ---- pass B: 5s leases, the write operations (+ one seeded other operation), wait past the stored expiry
		rng := kit.NewRand(seed, uint64(95_000+10*shard+si))
		var short []*c05RFCase
		for _, c := range mine {
			if !c.renewable() {
				continue
			}
			idx := append([]int(nil), writes[c]...)
			if nops[c] > 0 {
				idx = append(idx, 1+rng.Intn(nops[c]))
			}
			for _, i := range idx {
				cs := &c05RFCase{id: fmt.Sprintf("renewfault-short:%v:%s:%d", tx, c, i), combo: c, i: i}
				if !kit.WantCase(cs.id) {
					continue
				}
				short = append(short, cs)
			}
		}
		for _, cs := range short {
			if cs.o, cs.owner = c05RFMake(h, cs.combo, 5*time.Second); cs.o == nil {
				r.Inconc("%s: cannot issue the lease", cs.id)
			}
		}
		stop := false
		for _, cs := range short {
			if cs.o == nil {
				continue
			}
			r.Eval(1)
			if !c05RFRun(e, r, cs) {
				stop = true
			}
		}
		nFailed := 0
		for _, cs := range short {
			if cs.failed {
				nFailed++
			}
		}
		r.Count("short_leases_with_refused_renewal", nFailed)
		if !stop && len(short) > 0 {
			stage := "after the faulted renewals of the 5s leases, awaiting the stored expiries"
			if e.awaitDue(e.v, r, h.id+":short", stage, 7*time.Second, nil) {
				for _, cs := range short {
					if cs.failed && c05ReadLease(e.v, cs.o.NS, cs.o.LeaseID) == nil {
						r.Count("refused_renewal_leases_seen_revoked_at_stored_expiry", 1)
					}
				}
				e.v.WaitQuiet(30*time.Millisecond, 3*time.Second)
				e.checkKinds(e.v, r, h.id+":short", "after the 5s leases with refused renewals expired", nil)
			}
			if h.restart("newcore", base) {
				e.v.WaitQuiet(30*time.Millisecond, 3*time.Second)
				e.checkKinds(e.v, r, h.id+":after-newcore", "on a new core after the faulted renewals", nil)
			}
		}
		e.v.Close()
		if r.NViolations() > 20 {
			return
		}
	}
	r.Require("faults_fired", 200)
	r.Require("faults_fired:put", 40)
	r.Require("faults_fired_on_the_lease_record_write", 40)
	r.Require("renewals_refused_because_the_lease_record_write_failed", 40)
	r.Require("renewals_refused_stored_expiry_unchanged", 200)
	r.Require("renewed_lease_tracking_checks", 200)
	r.Require("renewals_granted", 24)
	r.Require("set_comparisons", 30)
	r.Require("restarts:seal", 2)
	r.Require("restarts:newcore", 2)
	r.Require("leases_with_refused_renewal_compared_after_restart", 150)
	r.Require("short_leases_with_refused_renewal", 30)
	r.Require("refused_renewal_leases_seen_revoked_at_stored_expiry", 30)
}
