//go:build verif

package vault

// C05, oracle O1 against backends that do not echo the lease options on renewal.
//
// c05rb is a second recording backend (secrets engine and auth method) whose renew handlers answer in one of
// five ways, chosen per lease when it is issued (request field renew_mode, remembered in the lease's internal
// data): "echo" hands the request's Secret/Auth back (what framework.LeaseExtend and the verifrec backend do),
// "fresh-ttl" builds new lease options with only the TTL, "fresh-ttl-max" with TTL and the backend max,
// "fresh-issue-future" / "fresh-issue-past" additionally state an issue time one hour ahead / back. The max-TTL
// bound of a lease counts from the time it was registered, whatever the backend says when asked to renew.
//
//   TestVerif_C05_RenewModes  lattice (kind x mode x which cap binds) + seeded specs, judged by the
//                             unchanged bound oracle of c05-api-bound (runBoundCase)

import (
	"context"
	"fmt"
	"strings"
	"sync"
	"testing"
	"time"

	"github.com/openbao/openbao/sdk/v2/framework"
	kit "github.com/openbao/openbao/sdk/v2/helper/verifkit"
	"github.com/openbao/openbao/sdk/v2/logical"
)

var c05RenewModes = []string{"echo", "fresh-ttl", "fresh-ttl-max", "fresh-issue-future", "fresh-issue-past"}

func c05FreshMode(m string) bool { return strings.HasPrefix(m, "fresh-") }

type c05RB struct {
	*framework.Backend
}

func c05RBFactory(typ logical.BackendType) logical.Factory {
	return func(ctx context.Context, conf *logical.BackendConfig) (logical.Backend, error) {
		b := &c05RB{}
		ops := func(h framework.OperationFunc, o ...logical.Operation) map[logical.Operation]framework.OperationHandler {
			m := map[logical.Operation]framework.OperationHandler{}
			for _, op := range o {
				m[op] = &framework.PathOperation{Callback: h}
			}
			return m
		}
		b.Backend = &framework.Backend{
			BackendType:  typ,
			PathsSpecial: &logical.Paths{Unauthenticated: []string{"login/*"}},
			Paths: []*framework.Path{
				{Pattern: "lease/.*", Fields: map[string]*framework.FieldSchema{}, Operations: ops(b.handleLease, logical.ReadOperation, logical.UpdateOperation)},
				{Pattern: "login/.*", Fields: map[string]*framework.FieldSchema{}, Operations: ops(b.handleLogin, logical.UpdateOperation)},
			},
			Secrets: []*framework.Secret{{
				Type:   "c05rb",
				Revoke: b.handleRevoke,
				Renew:  b.handleRenew,
			}},
			AuthRenew: b.handleAuthRenew,
		}
		if err := b.Setup(ctx, conf); err != nil {
			return nil, err
		}
		return b, nil
	}
}

// c05RBRevState steers and counts the revocations of the secrets issued with one tag (request field "tag").
// While hang != 0 an attempt blocks until its context is done and answers with the context's error, as a
// backend waiting on an external system that does not answer would.
type c05RBRevState struct {
	mu       sync.Mutex
	hang     int // attempts still to hang; -1: every attempt
	attempts int // revoke calls that reached the backend
	returned int // ... and returned
	hung     int // ... after having waited for the context
}

func (st *c05RBRevState) snapshot() (attempts, returned, hung int) {
	st.mu.Lock()
	defer st.mu.Unlock()
	return st.attempts, st.returned, st.hung
}

func (st *c05RBRevState) setHang(n int) {
	st.mu.Lock()
	st.hang = n
	st.mu.Unlock()
}

var c05RBRev sync.Map // tag -> *c05RBRevState

func (b *c05RB) handleRevoke(ctx context.Context, req *logical.Request, d *framework.FieldData) (*logical.Response, error) {
	tag, _ := req.Secret.InternalData["tag"].(string)
	x, ok := c05RBRev.Load(tag)
	if tag == "" || !ok {
		return nil, nil
	}
	st := x.(*c05RBRevState)
	st.mu.Lock()
	st.attempts++
	hang := st.hang != 0
	if st.hang > 0 {
		st.hang--
	}
	st.mu.Unlock()
	var err error
	if hang {
		<-ctx.Done()
		err = ctx.Err()
	}
	st.mu.Lock()
	st.returned++
	if hang {
		st.hung++
	}
	st.mu.Unlock()
	return nil, err
}

func c05RBDur(v any) time.Duration {
	switch x := v.(type) {
	case string:
		d, _ := time.ParseDuration(x)
		return d
	case int:
		return time.Duration(x) * time.Second
	case float64:
		return time.Duration(x) * time.Second
	}
	return 0
}

func (b *c05RB) handleLease(ctx context.Context, req *logical.Request, d *framework.FieldData) (*logical.Response, error) {
	ttl, max := c05RBDur(req.Data["ttl"]), c05RBDur(req.Data["max_ttl"])
	mode, _ := req.Data["renew_mode"].(string)
	internal := map[string]any{"renew_mode": mode, "ttl": ttl.String(), "max_ttl": max.String()}
	if tag, ok := req.Data["tag"].(string); ok && tag != "" {
		internal["tag"] = tag
	}
	resp := b.Secret("c05rb").Response(map[string]any{"value": "x"}, internal)
	resp.Secret.TTL, resp.Secret.MaxTTL = ttl, max
	resp.Secret.Renewable = true
	if nr, ok := req.Data["non_renewable"].(bool); ok && nr {
		resp.Secret.Renewable = false
	}
	return resp, nil
}

func (b *c05RB) handleLogin(ctx context.Context, req *logical.Request, d *framework.FieldData) (*logical.Response, error) {
	mode, _ := req.Data["renew_mode"].(string)
	a := &logical.Auth{Renewable: true}
	a.TTL, a.MaxTTL = c05RBDur(req.Data["ttl"]), c05RBDur(req.Data["max_ttl"])
	a.Period, a.ExplicitMaxTTL = c05RBDur(req.Data["period"]), c05RBDur(req.Data["explicit_max_ttl"])
	a.InternalData = map[string]any{"renew_mode": mode, "ttl": a.TTL.String(), "max_ttl": a.MaxTTL.String()}
	if p, ok := req.Data["policies"].(string); ok && p != "" {
		a.Policies = strings.Split(p, ",")
	}
	if v, ok := req.Data["renewable"].(bool); ok {
		a.Renewable = v
	}
	switch req.Data["token_type"] {
	case "batch":
		a.TokenType = logical.TokenTypeBatch
	case "service":
		a.TokenType = logical.TokenTypeService
	}
	return &logical.Response{Auth: a}, nil
}

// c05RBFresh builds the lease options of a renew answer that does not start from the request's.
func c05RBFresh(mode string, internal map[string]any, renewable bool) logical.LeaseOptions {
	lo := logical.LeaseOptions{TTL: c05RBDur(internal["ttl"]), Renewable: renewable}
	if mode != "fresh-ttl" {
		lo.MaxTTL = c05RBDur(internal["max_ttl"])
	}
	switch mode {
	case "fresh-issue-future":
		lo.IssueTime = time.Now().Add(time.Hour)
	case "fresh-issue-past":
		lo.IssueTime = time.Now().Add(-time.Hour)
	}
	return lo
}

func (b *c05RB) handleRenew(ctx context.Context, req *logical.Request, d *framework.FieldData) (*logical.Response, error) {
	mode, _ := req.Secret.InternalData["renew_mode"].(string)
	if !c05FreshMode(mode) {
		return &logical.Response{Secret: req.Secret}, nil
	}
	s := *req.Secret
	s.LeaseOptions = c05RBFresh(mode, req.Secret.InternalData, req.Secret.Renewable)
	return &logical.Response{Secret: &s}, nil
}

func (b *c05RB) handleAuthRenew(ctx context.Context, req *logical.Request, d *framework.FieldData) (*logical.Response, error) {
	mode, _ := req.Auth.InternalData["renew_mode"].(string)
	if !c05FreshMode(mode) {
		return &logical.Response{Auth: req.Auth}, nil
	}
	a := *req.Auth
	a.LeaseOptions = c05RBFresh(mode, req.Auth.InternalData, req.Auth.Renewable)
	return &logical.Response{Auth: &a}, nil
}

func TestVerif_C05_RenewModes(t *testing.T) {
	t.Parallel()
	seed := kit.Seed(5)
	shard, _ := kit.Shard()
	r := kit.NewResult(t, "c05-renew-modes", seed, "leases of a second recording backend (secrets engine and auth method; root, child and grand-child namespace) whose renew handler answers, per lease, by echoing the request's Secret/Auth, or with newly built lease options carrying only the TTL, TTL and backend max, or additionally an issue time one hour ahead / back. Lattice: kind (secret, secret leased to a batch token, login, periodic login with explicit max) x answer mode x binding cap (backend max 8s; mount max 10s; backend max 14s under mount max 25s), issued with 6s and renewed three times (+1h, +15s, +1h) after real waits of 2.4s, 2.4s and 3.4s, so that issue + max is closer than the increment at every renewal; then seeded specs of c05-api-bound's generator (secret / login kinds, mount tuning between renewals included) with a seeded answer mode. Oracle: the one of c05-api-bound, unchanged - after every grant and refused renewal the expiry per lookup API and per stored lease record lies within (harness-observed issue time) + effective max (+1s + request duration), the backend max counting as the backend stated it in its last granting answer; periodic: grant time + period and issue + explicit max. A case is non-trivial when a renewal was capped below its increment or a must-refuse renewal was attempted")
	defer r.Write(t)
	e := c05Boot(t, shard%2 == 1, false, 0)
	v := e.v
	nWorkers := 24
	var workers []*c05Worker
	for i := 0; i < nWorkers; i++ {
		w := &c05Worker{idx: i, ns: []string{"", "ns1/", "ns1/ns2/"}[i%3], secret: fmt.Sprintf("c05ms%d", i), auth: fmt.Sprintf("c05ma%d", i), role: fmt.Sprintf("c05mr%d", i)}
		v.Mount(w.secret, "c05rb", w.ns, nil)
		v.EnableAuth(w.auth, "c05rb", w.ns)
		workers = append(workers, w)
	}
	s := time.Second
	type capv struct{ bmax, mmax time.Duration }
	var specs []c05Spec
	for _, kind := range []string{"secret", "login", "secret-batch", "login-periodic"} {
		for _, mode := range c05RenewModes {
			for _, cp := range []capv{{8 * s, 0}, {0, 10 * s}, {14 * s, 25 * s}} {
				sp := c05Spec{Kind: kind, Renewable: true, TTL: 6 * s, BMax: cp.bmax, MountMax: cp.mmax, RenewMode: mode}
				if kind == "login-periodic" {
					if cp.mmax == 0 {
						continue
					}
					sp.Kind, sp.Period, sp.XMax = "login", 4*s, 7*s
				}
				sp.Steps = []*c05Step{{Wait: 2*s + 400*time.Millisecond, Inc: time.Hour}, {Wait: 2*s + 400*time.Millisecond, Inc: 15 * s}, {Wait: 3*s + 400*time.Millisecond, Inc: time.Hour}}
				specs = append(specs, sp)
			}
		}
	}
	nLattice := len(specs)
	total := nLattice + kit.N(48, 600)
	var wg sync.WaitGroup
	for _, w := range workers {
		w := w
		wg.Add(1)
		go func() {
			defer wg.Done()
			for i := w.idx; i < total; i += nWorkers {
				var sp c05Spec
				var id string
				rng := kit.NewRand(seed, uint64(3_000_000*(shard+1)+i))
				if i < nLattice {
					sp = specs[i]
					sp.Steps = append([]*c05Step(nil), sp.Steps...)
					for k, st := range sp.Steps {
						c := *st
						sp.Steps[k] = &c
					}
					id = fmt.Sprintf("modes:lattice:%d:%s:%s:%s:%s", i, sp.Kind, sp.RenewMode, sp.BMax, sp.MountMax)
				} else {
					for {
						sp = c05GenSpec(rng, c05Round{}, w.ns)
						if sp.Kind == "secret" || sp.Kind == "login" || sp.Kind == "secret-batch" {
							break
						}
					}
					sp.RenewMode = kit.Pick(rng, c05RenewModes)
					id = fmt.Sprintf("modes:seeded:%d:%d", shard, i)
				}
				sp.NS = w.ns
				sp.describe()
				if !kit.WantCase(id) {
					continue
				}
				if r.NViolations() > 200 {
					return
				}
				r.Count("cases:"+sp.RenewMode, 1)
				e.runBoundCase(r, w, id, sp, rng)
			}
		}()
	}
	wg.Wait()
	r.Require("grants_within_bound", 200)
	r.Require("renewals_granted", 100)
	r.Require("renewals_granted_by_backend_answering_with_fresh_lease_options", 80)
	r.Require("fresh_answer_renewals_capped_below_increment", 40)
	r.Require("renewals_capped_below_increment", 60)
	r.Require("periodic_renewals", 5)
	r.Require("renewals_refused", 20)
}
