//go:build verif

package framework

// C05 (function level): the TTL that CalculateTTL grants never carries a lease
// past issue time + effective maximum TTL; periodic leases are capped by their
// period and by the explicit maximum; a call made past the bound is refused.
//
// The reference below is written from the property statement and from
// website/content/docs/concepts/tokens.mdx ("Token Time-To-Live, periodic
// tokens, and explicit max TTLs"); it only states bounds, it does not compute
// the TTL.

import (
	"fmt"
	"testing"
	"time"

	kit "github.com/openbao/openbao/sdk/v2/helper/verifkit"
	"github.com/openbao/openbao/sdk/v2/logical"
)

type c05Params struct {
	SysMax, SysDef                                      time.Duration
	Increment, BackendTTL, Period, BackendMax, Explicit time.Duration
	Elapsed                                             time.Duration // time since issue; <0 = zero start time ("issue = now")
}

func (p c05Params) String() string {
	return fmt.Sprintf("sysmax=%s sysdef=%s inc=%s ttl=%s period=%s bmax=%s xmax=%s elapsed=%s",
		p.SysMax, p.SysDef, p.Increment, p.BackendTTL, p.Period, p.BackendMax, p.Explicit, p.Elapsed)
}

// c05Eff is the effective maximum: the smallest positive one of system/mount
// maximum, backend maximum and explicit maximum (0 = none is positive).
func c05Eff(p c05Params) time.Duration {
	var eff time.Duration
	for _, d := range []time.Duration{p.SysMax, p.BackendMax, p.Explicit} {
		if d > 0 && (eff == 0 || d < eff) {
			eff = d
		}
	}
	return eff
}

const c05Slack = time.Second // CalculateTTL works on whole seconds

// c05Check runs one call and applies the bound oracle. It returns the granted ttl and error.
func c05Check(r *kit.Result, caseID string, p c05Params) (time.Duration, error) {
	sv := logical.StaticSystemView{DefaultLeaseTTLVal: p.SysDef, MaxLeaseTTLVal: p.SysMax}
	t0 := time.Now()
	var start time.Time
	if p.Elapsed >= 0 {
		start = t0.Add(-p.Elapsed)
	}
	ttl, _, err := CalculateTTL(sv, p.Increment, p.BackendTTL, p.Period, p.BackendMax, p.Explicit, start)
	t1 := time.Now()
	r.Eval(1)

	issueHi := start // latest instant the lease can have been issued at
	if p.Elapsed < 0 {
		issueHi = t1
	}
	elapsed := p.Elapsed
	if elapsed < 0 {
		elapsed = 0
	}
	eff := c05Eff(p)
	periodic := p.Period > 0
	// witness, built only when a violation is recorded
	mk := func() map[string]any {
		return map[string]any{"params": p.String(), "ttl": ttl.String(), "err": fmt.Sprint(err), "eff": eff.String()}
	}

	if p.SysMax <= 0 {
		// no system/mount maximum at all cannot happen in a running server; only the bound
		// against the remaining positive maxima is checked when the call succeeds
		r.Count("no_system_max", 1)
		if err != nil || eff == 0 {
			return ttl, err
		}
	}

	// refusal clauses: a call made clearly after the bound has passed must fail
	if !periodic && elapsed >= eff+2*time.Second && err == nil {
		r.Violate("C05-calc-renew-past-max-not-refused", caseID, fmt.Sprintf("CalculateTTL granted %s although %s have passed since issue and the effective max TTL is %s (%s)", ttl, elapsed, eff, p), mk())
		return ttl, err
	}
	if periodic && p.Explicit > 0 && elapsed >= p.Explicit+2*time.Second && err == nil {
		r.Violate("C05-calc-periodic-past-explicit-max-not-refused", caseID, fmt.Sprintf("CalculateTTL granted %s to a periodic lease although %s have passed since issue and its explicit max TTL is %s (%s)", ttl, elapsed, p.Explicit, p), mk())
		return ttl, err
	}
	if err != nil {
		r.Count("refused", 1)
		if (!periodic && elapsed >= eff) || (periodic && p.Explicit > 0 && elapsed >= p.Explicit) {
			r.Count("refused_past_bound", 1)
		}
		return ttl, err
	}
	r.Count("granted", 1)
	if ttl <= 0 {
		r.Violate("C05-calc-nonpositive-ttl", caseID, fmt.Sprintf("CalculateTTL returned ttl=%s without error: the lease would have no expiry (%s)", ttl, p), mk())
		return ttl, err
	}
	if periodic {
		cap := p.Period
		if eff < cap {
			cap = eff
		}
		if ttl > cap {
			r.Violate("C05-calc-periodic-ttl-exceeds-period-or-max", caseID, fmt.Sprintf("periodic ttl %s exceeds min(period %s, effective max %s) (%s)", ttl, p.Period, eff, p), mk())
			return ttl, err
		}
		if p.Explicit > 0 {
			r.Count("periodic_with_explicit_max", 1)
			if t0.Add(ttl).After(issueHi.Add(p.Explicit + c05Slack)) {
				r.Violate("C05-calc-periodic-expiry-past-explicit-max", caseID, fmt.Sprintf("periodic ttl %s granted %s after issue carries the lease past issue+explicit max %s (%s)", ttl, elapsed, p.Explicit, p), mk())
				return ttl, err
			}
			if ttl < cap {
				r.Count("periodic_capped_by_explicit_max", 1)
				r.Nontrivial("pcap|" + p.String())
			}
		}
		return ttl, err
	}
	if ttl > eff {
		r.Violate("C05-calc-ttl-exceeds-max", caseID, fmt.Sprintf("ttl %s exceeds the effective max TTL %s (%s)", ttl, eff, p), mk())
		return ttl, err
	}
	if t0.Add(ttl).After(issueHi.Add(eff + c05Slack)) {
		r.Violate("C05-calc-expiry-past-issue-plus-max", caseID, fmt.Sprintf("ttl %s granted %s after issue carries the lease past issue+effective max %s (%s)", ttl, elapsed, eff, p), mk())
		return ttl, err
	}
	// what was asked for (not a verdict; used for the non-triviality counters)
	want := p.SysDef
	if p.Increment > 0 {
		want = p.Increment
	} else if p.BackendTTL > 0 {
		want = p.BackendTTL
	}
	switch {
	case want > eff-elapsed && elapsed > 0:
		r.Count("capped_by_issue_relative_bound", 1)
		r.Nontrivial("icap|" + p.String())
	case want > eff:
		r.Count("capped_by_max", 1)
		r.Nontrivial("mcap|" + p.String())
	case ttl == want:
		r.Count("uncapped_granted_as_requested", 1)
	default:
		r.Count("uncapped_granted_less_than_requested", 1)
	}
	return ttl, err
}

func TestVerif_C05_CalculateTTL(t *testing.T) {
	seed := kit.Seed(5)
	r := kit.NewResult(t, "c05-calculate-ttl", seed, "exhaustive lattice over {-10s,0,10s,40s,100s,1000s,100000s (thorough: +3s,3600s)}^5 for increment/backend TTL/period/backend max/explicit max x system max {0,60s,500s,32d} x system default {20s,32d} x elapsed since issue {issue=now(zero time), 0, 1/2, bound-5s, bound+5s, 3*bound+100s}; then seeded random parameters with sub-second values; the bound oracle is applied to every call; a case is non-trivial when the grant was capped by a maximum (distinct by parameters)")
	defer r.Write(t)
	mags := []time.Duration{-10 * time.Second, 0, 10 * time.Second, 40 * time.Second, 100 * time.Second, 1000 * time.Second, 100000 * time.Second}
	if kit.Tier() == "thorough" {
		mags = append(mags, 3*time.Second, 3600*time.Second)
	}
	sysMaxes := []time.Duration{0, 60 * time.Second, 500 * time.Second, 32 * 24 * time.Hour}
	sysDefs := []time.Duration{20 * time.Second, 32 * 24 * time.Hour}
	shard, shards := kit.Shard()
	n := 0
	for _, sm := range sysMaxes {
		for _, sd := range sysDefs {
			for _, inc := range mags {
				for _, bt := range mags {
					for _, per := range mags {
						for _, bm := range mags {
							for _, xm := range mags {
								n++
								if n%shards != shard {
									continue
								}
								p := c05Params{SysMax: sm, SysDef: sd, Increment: inc, BackendTTL: bt, Period: per, BackendMax: bm, Explicit: xm}
								bound := c05Eff(p)
								if per > 0 && xm > 0 {
									bound = xm
								}
								for ei, el := range []time.Duration{-1, 0, bound / 2, bound - 5*time.Second, bound + 5*time.Second, 3*bound + 100*time.Second} {
									if ei > 1 && bound <= 0 {
										continue
									}
									if el < -1 {
										el = 0
									}
									p.Elapsed = el
									caseID := fmt.Sprintf("lat:%d:%d", n, ei)
									if !kit.WantCase(caseID) {
										continue
									}
									c05Check(r, caseID, p)
								}
								if r.NViolations() > 200 {
									return
								}
							}
						}
					}
				}
			}
		}
	}
	r.Exhaustive = true
	// seeded random, arbitrary (sub-second) values
	rng := kit.NewRand(seed, uint64(100+shard))
	rd := func(max time.Duration) time.Duration {
		switch rng.Intn(4) {
		case 0:
			return 0
		case 1:
			return time.Duration(rng.Int64N(int64(max)))
		case 2:
			return time.Duration(rng.Int64N(int64(max/100)+1)) + time.Second
		}
		return time.Duration(rng.Int64N(int64(max)/int64(time.Second))+1) * time.Second
	}
	for i := 0; i < kit.N(200000, 2000000); i++ {
		caseID := fmt.Sprintf("rnd:%d:%d", shard, i)
		p := c05Params{SysMax: rd(40*24*time.Hour) + time.Second, SysDef: rd(24*time.Hour) + time.Second, Increment: rd(2 * time.Hour), BackendTTL: rd(2 * time.Hour),
			Period: rd(2 * time.Hour), BackendMax: rd(3 * time.Hour), Explicit: rd(3 * time.Hour)}
		if rng.Chance(1, 2) {
			p.Period = 0
		}
		switch rng.Intn(5) {
		case 0:
			p.Elapsed = -1
		case 1:
			p.Elapsed = 0
		default:
			p.Elapsed = rd(4 * time.Hour)
		}
		if !kit.WantCase(caseID) {
			continue
		}
		c05Check(r, caseID, p)
	}
	r.Sample(map[string]any{"example": "inc=0 ttl=100s bmax=40s sysmax=60s elapsed=35s -> at most 5s(+1s) may be granted; elapsed=45s -> refused"})
	r.Require("capped_by_issue_relative_bound", 1000)
	r.Require("capped_by_max", 1000)
	r.Require("refused_past_bound", 1000)
	r.Require("periodic_capped_by_explicit_max", 200)
	r.Require("uncapped_granted_as_requested", 1000)
}

// Renew sequences: a lease is issued and then renewed at increasing instants
// (each before its current expiry); the expiry may never pass issue + bound.
func TestVerif_C05_RenewSequences(t *testing.T) {
	seed := kit.Seed(5)
	shard, _ := kit.Shard()
	r := kit.NewResult(t, "c05-renew-sequences", seed, "seeded random renew sequences at function level: issue, then up to 12 renewals with random increments at random instants before the current expiry (the instant is passed as start time = now - elapsed); after every grant expiry-issue must stay within the effective max (or explicit max for periodic leases); a sequence is non-trivial when at least one renewal was capped or refused")
	defer r.Write(t)
	rng := kit.NewRand(seed, uint64(200+shard))
	pick := func(xs ...time.Duration) time.Duration { return xs[rng.Intn(len(xs))] }
	for i := 0; i < kit.N(20000, 200000); i++ {
		caseID := fmt.Sprintf("seq:%d:%d", shard, i)
		if !kit.WantCase(caseID) {
			continue
		}
		base := c05Params{SysMax: pick(60*time.Second, 500*time.Second, 32*24*time.Hour), SysDef: pick(20*time.Second, 32*24*time.Hour),
			BackendTTL: pick(0, 10*time.Second, 40*time.Second, 100*time.Second), BackendMax: pick(0, 0, 40*time.Second, 100*time.Second, 1000*time.Second),
			Explicit: pick(0, 0, 40*time.Second, 100*time.Second, 1000*time.Second), Period: pick(0, 0, 0, 10*time.Second, 40*time.Second, 100*time.Second)}
		p := base
		p.Elapsed = -1
		ttl, err := c05Check(r, caseID, p)
		if err != nil {
			continue
		}
		expiry := ttl // relative to issue
		var steps []string
		capped := false
		for k := 0; k < 12; k++ {
			// renew somewhere in the remaining life (whole seconds, at least 1s before expiry)
			if expiry < 2*time.Second {
				break
			}
			at := time.Duration(rng.Int64N(int64(expiry/time.Second))) * time.Second
			p = base
			p.Elapsed = at
			p.Increment = pick(0, 10*time.Second, 100*time.Second, 100000*time.Second)
			before := r.NViolations()
			ttl, err = c05Check(r, caseID, p)
			if r.NViolations() > before {
				break
			}
			if err != nil {
				steps = append(steps, fmt.Sprintf("renew@%s inc=%s -> refused", at, p.Increment))
				capped = true
				break
			}
			want := p.Increment
			if want == 0 {
				want = p.BackendTTL
			}
			if ttl < want {
				capped = true
			}
			steps = append(steps, fmt.Sprintf("renew@%s inc=%s -> %s", at, p.Increment, ttl))
			expiry = at + ttl
			r.Count("renewals", 1)
		}
		if capped {
			r.Count("sequences_with_capped_or_refused_renewal", 1)
			r.Nontrivial(fmt.Sprint(base, steps))
			r.Sample(map[string]any{"case": caseID, "params": base.String(), "steps": steps})
		}
		if r.NViolations() > 50 {
			return
		}
	}
	r.Require("renewals", 10000)
	r.Require("sequences_with_capped_or_refused_renewal", 1000)
}
