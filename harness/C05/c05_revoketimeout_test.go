//go:build verif

package vault

// C05, oracle O3 / O2 for revocation attempts that run into the per-attempt deadline.
//
//   TestVerif_C05_RevokeTimeouts  a revocation attempt made by the manager (queued sys/leases/revoke, queued
//                                 revoke-prefix, the lazily revoked lease of a revoked token, the expiry job) hangs -
//                                 in the backend's revoke handler or in the storage delete of the lease record -
//                                 until its context is done (package variable DefaultMaxRequestDuration lowered
//                                 to 400ms, retry base 20ms). A timed-out attempt is a failed attempt: it has to be
//                                 retried, and after the retry budget the lease has to be marked irrevocable.
//
// This monitor is NOT parallel: it changes a package variable, so it runs before the parallel monitors of this
// binary are resumed and restores the value before it returns.

import (
	"context"
	"fmt"
	"strings"
	"sync"
	"testing"
	"time"

	kit "github.com/openbao/openbao/sdk/v2/helper/verifkit"
	"github.com/openbao/openbao/sdk/v2/logical"
	"github.com/openbao/openbao/sdk/v2/physical"
	"github.com/openbao/openbao/sdk/v2/physical/inmem"
)

// c05HangPhys is a store whose Delete of an armed key blocks until the caller's context is done.
type c05HangPhys struct {
	physical.Backend
	mu    sync.Mutex
	armed map[string]*c05HangKey // substring of the key -> state
}

type c05HangKey struct {
	hang     int // deletes still to hang
	calls    int // deletes of the key that reached the store
	returned int
	hung     int
}

func (p *c05HangPhys) arm(sub string, n int) *c05HangKey {
	p.mu.Lock()
	defer p.mu.Unlock()
	k := &c05HangKey{hang: n}
	p.armed[sub] = k
	return k
}

func (p *c05HangPhys) snapshot(k *c05HangKey) (calls, returned, hung int) {
	p.mu.Lock()
	defer p.mu.Unlock()
	return k.calls, k.returned, k.hung
}

func (p *c05HangPhys) Delete(ctx context.Context, key string) error {
	var k *c05HangKey
	hang := false
	p.mu.Lock()
	for sub, st := range p.armed {
		if strings.Contains(key, c05LeaseMarker) && strings.HasSuffix(key, sub) {
			k = st
			st.calls++
			if st.hang != 0 {
				hang = true
				if st.hang > 0 {
					st.hang--
				}
			}
		}
	}
	p.mu.Unlock()
	if k == nil {
		return p.Backend.Delete(ctx, key)
	}
	var err error
	if hang {
		<-ctx.Done()
		err = ctx.Err()
	} else {
		err = p.Backend.Delete(ctx, key)
	}
	p.mu.Lock()
	k.returned++
	if hang {
		k.hung++
	}
	p.mu.Unlock()
	return err
}

type c05RTCase struct {
	flow string // queued | prefix-queued | token-revoke | expiry
	mode string // backend | storage
	kind string // secret | token (storage mode only)
	ns   string
	hang int // attempts that hang; -1: all
}

func (c c05RTCase) String() string {
	return fmt.Sprintf("%s:%s:%s:%s:hang%d", c.flow, c.mode, c.kind, c.ns, c.hang)
}

func TestVerif_C05_RevokeTimeouts(t *testing.T) {
	seed := kit.Seed(5)
	shard, _ := kit.Shard()
	r := kit.NewResult(t, "c05-revoke-timeouts", seed, "with the per-attempt deadline of the revocation worker lowered to 400ms (package variable DefaultMaxRequestDuration; retry base 20ms; this monitor runs alone, before the parallel ones): leases whose revocation attempt by the manager hangs until its context is done - in the revoke handler of a recording backend (first attempt, first two attempts, or every attempt) or in the storage delete of the lease record (secret and token leases) - for the queued sys/leases/revoke, queued revoke-prefix, the lease of a token revoked with auth/token/revoke, and the expiry job of a 1s lease; root, child and grand-child namespace. Oracle: once the harness saw a hung attempt return, the lease must within 6s (300 retry bases) be gone, be irrevocable, or have been attempted again (attempt counters of the backend / of the store must grow): a lease that is still stored, past its expiry, not irrevocable and was never attempted again is the violation (decided from the manager's sets and the counters); after a further attempt it must be gone or irrevocable within 15s (else inconclusive); when every attempt hangs it must end irrevocable after at most maxRevokeAttempts attempts; finally the strict storage-vs-tracking comparison. Every case is distinct and non-trivial when a hung attempt was seen")
	defer r.Write(t)
	old := DefaultMaxRequestDuration
	DefaultMaxRequestDuration = 400 * time.Millisecond
	defer func() { DefaultMaxRequestDuration = old }()
	base := 20 * time.Millisecond

	cases := []c05RTCase{
		{"queued", "backend", "secret", "", 1}, {"queued", "backend", "secret", "ns1/", 2}, {"queued", "backend", "secret", "ns1/ns2/", -1},
		{"expiry", "backend", "secret", "", 1}, {"expiry", "backend", "secret", "ns1/ns2/", 2},
		{"prefix-queued", "backend", "secret", "ns1/", 1}, {"token-revoke", "backend", "secret", "", 1}, {"token-revoke", "backend", "secret", "ns1/", 1},
		{"queued", "storage", "secret", "", 1}, {"queued", "storage", "secret", "ns1/", 2}, {"queued", "storage", "secret", "ns1/ns2/", -1},
		{"expiry", "storage", "secret", "ns1/", 1},
		// (token leases are left out of the storage mode: the token store deletes a token's lease under its own
		// quit context, not under the attempt's, so such a delete is not bounded by the per-attempt deadline at all)
		{"prefix-queued", "storage", "secret", "ns1/ns2/", 1}, {"token-revoke", "storage", "secret", "", 1},
	}
	inm, err := inmem.NewInmem(map[string]string{"disable_transactions": "true"}, nil)
	if err != nil {
		t.Fatalf("verif: %v", err)
	}
	hp := &c05HangPhys{Backend: inm, armed: map[string]*c05HangKey{}}
	phys, _ := kit.NewProbe(hp)
	envs := map[string]*c05Env{
		"backend": c05Boot(t, shard%2 == 0, false, base),
		"storage": c05BootOn(t, false, phys, false, base),
	}
	for _, e := range envs {
		for _, n := range e.nss {
			e.v.Mount("c05hb", "c05rb", n.Path, nil)
		}
	}
	var wg sync.WaitGroup
	for ci, c := range cases {
		caseID := fmt.Sprintf("revoketimeout:%d:%s", ci, c)
		if !kit.WantCase(caseID) {
			continue
		}
		ci, c := ci, c
		wg.Add(1)
		go func() {
			defer wg.Done()
			c05RevokeTimeoutCase(envs[c.mode], hp, r, caseID, ci, c)
		}()
	}
	wg.Wait()
	for m, e := range envs {
		e.v.WaitQuiet(30*time.Millisecond, 3*time.Second)
		e.checkKinds(e.v, r, "revoketimeout:end:"+m, "after all timed-out revocations were retried ("+m+" hangs)", nil)
		e.v.Close()
	}
	r.Require("hung_attempts_seen_returning", 12)
	r.Require("retried_after_a_timed_out_attempt", 10)
	r.Require("leases_gone_after_retry", 10)
	r.Require("became_irrevocable_after_only_timed_out_attempts", 2)
	r.Require("set_comparisons", 2)
}

func c05RevokeTimeoutCase(e *c05Env, hp *c05HangPhys, r *kit.Result, caseID string, idx int, c c05RTCase) {
	v := e.v
	n := e.ns(c.ns)
	r.Eval(1)
	var steps []string
	step := func(f string, a ...any) { steps = append(steps, fmt.Sprintf(f, a...)) }
	tag := fmt.Sprintf("rt%d", idx)
	st := &c05RBRevState{}
	c05RBRev.Store(tag, st)
	defer c05RBRev.Delete(tag)
	ttl := "1h"
	if c.flow == "expiry" {
		ttl = "1s"
	}
	// the lease
	tok := v.Root
	var owner *vToken
	if c.flow == "token-revoke" || c.kind == "token" {
		tk, resp, err := v.CreateToken(v.Root, map[string]any{"policies": []string{"c05"}, "ttl": map[bool]string{true: ttl, false: "1h"}[c.kind == "token"]}, false, c.ns)
		if tk == nil {
			r.Inconc("%s: token create failed: %s", caseID, vErrStr(resp, err))
			return
		}
		owner, tok = tk, tk.ID
	}
	leaseID := ""
	if c.kind == "token" {
		id, err := c05TokenLeaseID(v, c.ns, owner.ID)
		if err != nil {
			r.Inconc("%s: %v", caseID, err)
			return
		}
		leaseID = id
	} else {
		resp, err := v.Do(vReq{Op: logical.ReadOperation, Path: "c05hb/lease/" + tag, Token: tok, NS: c.ns, Data: map[string]any{"ttl": ttl, "tag": tag}})
		if !vOK(resp, err) || resp == nil || resp.Secret == nil {
			r.Inconc("%s: leased read failed: %s", caseID, vErrStr(resp, err))
			return
		}
		leaseID = resp.Secret.LeaseID
	}
	var hk *c05HangKey
	if c.mode == "backend" {
		st.setHang(c.hang)
	} else {
		hk = hp.arm(leaseID, c.hang)
	}
	step("%s lease in %q (ttl %s); the first %d revocation attempt(s) hang in the %s until the attempt's context is done (-1: every attempt)", c.kind, c.ns, ttl, c.hang, map[string]string{"backend": "backend's revoke handler", "storage": "storage delete of the lease record"}[c.mode])
	counters := func() (attempts, returned, hung int) {
		if c.mode == "backend" {
			return st.snapshot()
		}
		return hp.snapshot(hk)
	}
	// the flow
	var resp *logical.Response
	var ferr error
	switch c.flow {
	case "queued":
		resp, ferr = v.Do(vReq{Op: logical.UpdateOperation, Path: "sys/leases/revoke", Token: v.Root, NS: c.ns, Data: map[string]any{"lease_id": leaseID, "sync": false}})
	case "prefix-queued":
		resp, ferr = v.Do(vReq{Op: logical.UpdateOperation, Path: "sys/leases/revoke-prefix/c05hb/lease/" + tag, Token: v.Root, NS: c.ns, Data: map[string]any{"sync": false}})
	case "token-revoke":
		resp, ferr = v.Do(vReq{Op: logical.UpdateOperation, Path: "auth/token/revoke", Token: v.Root, NS: c.ns, Data: map[string]any{"token": owner.ID}})
	case "expiry":
	}
	if !vOK(resp, ferr) {
		r.Inconc("%s: %s was refused: %s", caseID, c.flow, vErrStr(resp, ferr))
		return
	}
	step("%s -> accepted", c.flow)
	// 1. a hung attempt returns
	deadline := time.Now().Add(20 * time.Second)
	for {
		if _, _, hung := counters(); hung >= 1 {
			break
		}
		if time.Now().After(deadline) {
			r.Inconc("%s: no revocation attempt reached the hang within 20s", caseID)
			return
		}
		time.Sleep(10 * time.Millisecond)
	}
	a1, _, _ := counters()
	r.Count("hung_attempts_seen_returning", 1)
	r.Nontrivial(caseID)
	step("a hung attempt returned with its context's error (attempts so far: %d)", a1)
	state := func() (gone, irrevocable bool, le *leaseEntry) {
		le = c05ReadLease(v, n, leaseID)
		return le == nil, le != nil && le.isIrrevocable(), le
	}
	// 2. gone, irrevocable, or attempted again
	deadline = time.Now().Add(6 * time.Second)
	for {
		gone, irrev, _ := state()
		a, _, _ := counters()
		if gone || irrev || a > a1 {
			break
		}
		if time.Now().After(deadline) {
			mem := c05Members(v.Core)
			le := c05ReadLease(v, n, leaseID)
			if le == nil || le.isIrrevocable() {
				break
			}
			tr := c05Tracker(v.Core)[leaseID]
			r.Violate("C05-timed-out-revocation-attempt-never-retried", caseID, fmt.Sprintf("[%s] %s lease (namespace %q, %s): its revocation attempt hung in the %s, ran into the %s per-attempt deadline and returned; 6s (300 retry bases) later the lease is still stored (expiry %s, %s ago), held as %s (failed attempts recorded by the manager: %d), not irrevocable, and no further attempt was made (attempts: %d)",
				caseID, c.kind, c.ns, c.flow, c.mode, DefaultMaxRequestDuration, le.ExpireTime.Format(time.RFC3339Nano), time.Since(le.ExpireTime).Round(time.Millisecond), mem[leaseID].String(), tr.Attempts, a), steps)
			return
		}
		time.Sleep(15 * time.Millisecond)
	}
	if a, _, _ := counters(); a > a1 {
		r.Count("retried_after_a_timed_out_attempt", 1)
	}
	// 3. gone or irrevocable
	deadline = time.Now().Add(15 * time.Second)
	for {
		gone, irrev, _ := state()
		if gone {
			r.Count("leases_gone_after_retry", 1)
			break
		}
		if irrev {
			a, _, hung := counters()
			step("irrevocable after %d attempts (%d hung)", a, hung)
			if c.hang >= 0 {
				r.Count("irrevocable_although_later_attempts_would_succeed(not judged)", 1)
			} else {
				r.Count("became_irrevocable_after_only_timed_out_attempts", 1)
			}
			if a > maxRevokeAttempts {
				r.Violate("C05-retry-budget-exceeded", caseID, fmt.Sprintf("[%s] %d revocation attempts before the lease was marked irrevocable (budget %d)", caseID, a, maxRevokeAttempts), steps)
				return
			}
			if x := c05Members(v.Core)[leaseID]; x == nil || !x.I {
				r.Violate("C05-stored-lease-untracked", caseID, fmt.Sprintf("[%s] the lease is stored with the irrevocable mark but held as %s", caseID, x.String()), steps)
				return
			}
			break
		}
		if time.Now().After(deadline) {
			a, _, hung := counters()
			r.Inconc("%s: lease neither gone nor irrevocable 15s after a timed-out attempt was retried (attempts %d, hung %d)", caseID, a, hung)
			return
		}
		time.Sleep(15 * time.Millisecond)
	}
	r.Count("cases_held", 1)
	if idx%4 == 0 {
		r.Sample(map[string]any{"case": caseID, "steps": steps})
	}
}
