//go:build verif

package vault

// C05, oracles O2 (every stored lease is tracked; restart / crash prefixes /
// namespace seal transitions; bounded progress of expiry) and O3 (retry budget).

import (
	"context"
	"fmt"
	"strings"
	"sync"
	"testing"
	"time"

	kit "github.com/openbao/openbao/sdk/v2/helper/verifkit"
	"github.com/openbao/openbao/sdk/v2/logical"
	"github.com/openbao/openbao/v2/internal/helper/namespace"
)

func c05SecretID(resp *logical.Response) string {
	if resp == nil {
		return ""
	}
	if resp.Secret != nil {
		if s, ok := resp.Secret.InternalData["secret_id"].(string); ok && s != "" {
			return s
		}
	}
	s, _ := resp.Data["secret_id"].(string)
	return s
}

func c05SetFailRevoke(v *vCore, f func(string) bool) {
	v.Rec.mu.Lock()
	v.Rec.FailRevoke = f
	v.Rec.mu.Unlock()
}

// ------------------------------------------------------------------ histories

type c05Obj struct {
	Kind    string // secret | token | login | roottoken
	NS      *c05NS
	LeaseID string
	TokenID string
	Alive   bool
	BMax    time.Duration // backend max of a "bounded" secret (0 = none)
	IssueHi time.Time
}

type c05Hist struct {
	e     *c05Env
	r     *kit.Result
	rng   *kit.Rand
	id    string
	objs  []*c05Obj
	steps []string
}

func (h *c05Hist) step(format string, a ...any) {
	h.steps = append(h.steps, fmt.Sprintf(format, a...))
}

func (h *c05Hist) openNS() []*c05NS {
	var out []*c05NS
	for _, n := range h.e.nss {
		if !n.Sealed {
			out = append(out, n)
		}
	}
	return out
}

func (h *c05Hist) alive(kinds ...string) []*c05Obj {
	var out []*c05Obj
	for _, o := range h.objs {
		if !o.Alive || o.NS.Sealed {
			continue
		}
		for _, k := range kinds {
			if o.Kind == k {
				out = append(out, o)
			}
		}
	}
	return out
}

func (h *c05Hist) issueSecret(n *c05NS, ttl, bmax time.Duration) *c05Obj {
	v := h.e.v
	resp, err := v.Do(vReq{Op: logical.ReadOperation, Path: "c05rec/lease/h", Token: v.Root, NS: n.Path, Data: map[string]any{"ttl": c05Secs(ttl), "max_ttl": c05Secs(bmax)}})
	hi := time.Now()
	if !vOK(resp, err) || resp == nil || resp.Secret == nil {
		h.step("secret ns=%q ttl=%s -> %s", n.Path, ttl, vErrStr(resp, err))
		h.r.Count("history_op_failed", 1)
		return nil
	}
	o := &c05Obj{Kind: "secret", NS: n, LeaseID: resp.Secret.LeaseID, Alive: true, BMax: bmax, IssueHi: hi}
	h.objs = append(h.objs, o)
	h.step("secret ns=%q ttl=%s max=%s", n.Path, ttl, bmax)
	return o
}

func (h *c05Hist) issueToken(n *c05NS, kind string, ttl time.Duration) *c05Obj {
	v := h.e.v
	var resp *logical.Response
	var err error
	switch kind {
	case "token":
		data := map[string]any{"policies": []string{"default"}, "ttl": c05Secs(ttl)}
		if h.rng.Chance(1, 4) {
			data["period"] = c05Secs(ttl)
		}
		resp, err = v.Do(vReq{Op: logical.UpdateOperation, Path: "auth/token/create", Token: v.Root, NS: n.Path, Data: data})
	case "login":
		resp, err = v.Do(vReq{Op: logical.UpdateOperation, Path: "auth/c05auth/login/u", NS: n.Path, Data: map[string]any{"ttl": c05Secs(ttl), "policies": "default"}})
	case "roottoken":
		resp, err = v.Do(vReq{Op: logical.UpdateOperation, Path: "auth/token/create", Token: v.Root, NS: n.Path, Data: map[string]any{"policies": []string{"root"}}})
	}
	if !vOK(resp, err) || resp == nil || resp.Auth == nil {
		h.step("%s ns=%q ttl=%s -> %s", kind, n.Path, ttl, vErrStr(resp, err))
		h.r.Count("history_op_failed", 1)
		return nil
	}
	o := &c05Obj{Kind: kind, NS: n, TokenID: resp.Auth.ClientToken, Alive: true}
	if id, lerr := c05TokenLeaseID(v, n.Path, o.TokenID); lerr == nil {
		o.LeaseID = id
	}
	h.objs = append(h.objs, o)
	h.step("%s ns=%q ttl=%s", kind, n.Path, ttl)
	return o
}

func (h *c05Hist) run(nops int) {
	v := h.e.v
	rng := h.rng
	s := time.Second
	for i := 0; i < nops; i++ {
		open := h.openNS()
		n := kit.Pick(rng, open)
		op := rng.Intn(100)
		switch {
		case op < 28:
			ttl := kit.Pick(rng, []time.Duration{2 * s, 3 * s, time.Hour, time.Hour})
			h.issueSecret(n, ttl, 0)
		case op < 34:
			h.issueSecret(n, 6*s, 8*s) // bounded secret, renewed after the restart
		case op < 46:
			h.issueToken(n, "token", kit.Pick(rng, []time.Duration{3 * s, time.Hour}))
		case op < 56:
			h.issueToken(n, "login", kit.Pick(rng, []time.Duration{3 * s, time.Hour}))
		case op < 60:
			h.issueToken(h.e.ns(""), "roottoken", 0)
		case op < 72:
			cands := h.alive("secret", "token", "login")
			if len(cands) == 0 {
				continue
			}
			o := kit.Pick(rng, cands)
			var resp *logical.Response
			var err error
			if o.Kind == "secret" {
				resp, err = v.Do(vReq{Op: logical.UpdateOperation, Path: "sys/leases/renew", Token: v.Root, NS: o.NS.Path, Data: map[string]any{"lease_id": o.LeaseID, "increment": 3600}})
			} else {
				resp, err = v.Do(vReq{Op: logical.UpdateOperation, Path: "auth/token/renew", Token: v.Root, NS: o.NS.Path, Data: map[string]any{"token": o.TokenID, "increment": 3600}})
			}
			h.step("renew %s ns=%q -> %s", o.Kind, o.NS.Path, vErrStr(resp, err))
			if vOK(resp, err) {
				h.r.Count("history_renewals", 1)
			}
		case op < 82:
			cands := h.alive("secret", "token", "login", "roottoken")
			if len(cands) == 0 {
				continue
			}
			o := kit.Pick(rng, cands)
			var resp *logical.Response
			var err error
			if o.Kind == "secret" {
				resp, err = v.Do(vReq{Op: logical.UpdateOperation, Path: "sys/leases/revoke", Token: v.Root, NS: o.NS.Path, Data: map[string]any{"lease_id": o.LeaseID, "sync": true}})
			} else {
				resp, err = v.Do(vReq{Op: logical.UpdateOperation, Path: "auth/token/revoke", Token: v.Root, NS: o.NS.Path, Data: map[string]any{"token": o.TokenID}})
			}
			h.step("revoke %s ns=%q -> %s", o.Kind, o.NS.Path, vErrStr(resp, err))
			if vOK(resp, err) {
				o.Alive = false
				h.r.Count("history_revocations", 1)
			}
		case op < 92:
			// queued revocation through the lease id: secrets, and (one time in three) token leases,
			// the non-expiring root tokens included
			cands := h.alive("secret")
			if rng.Chance(1, 3) {
				cands = nil
				for _, o := range h.alive("token", "login", "roottoken") {
					if o.LeaseID != "" {
						cands = append(cands, o)
					}
				}
			}
			if len(cands) == 0 {
				continue
			}
			o := kit.Pick(rng, cands)
			resp, err := v.Do(vReq{Op: logical.UpdateOperation, Path: "sys/leases/revoke", Token: v.Root, NS: o.NS.Path, Data: map[string]any{"lease_id": o.LeaseID, "sync": false}})
			h.step("lazy revoke %s ns=%q -> %s", o.Kind, o.NS.Path, vErrStr(resp, err))
			if vOK(resp, err) {
				o.Alive = false
				h.r.Count("history_lazy_revocations", 1)
				if o.Kind != "secret" {
					h.r.Count("history_lazy_revocations_of_token_leases", 1)
				}
			}
		default:
			resp, err := v.Do(vReq{Op: logical.UpdateOperation, Path: "sys/leases/revoke-prefix/c05rec/lease", Token: v.Root, NS: n.Path, Data: map[string]any{"sync": rng.Chance(1, 2)}})
			h.step("revoke-prefix c05rec/lease ns=%q -> %s", n.Path, vErrStr(resp, err))
			if vOK(resp, err) {
				for _, o := range h.objs {
					if o.Kind == "secret" && o.NS == n {
						o.Alive = false
					}
				}
				h.r.Count("history_prefix_revocations", 1)
			}
		}
	}
}

// shortLived returns the stored leases (unsealed namespaces) that expire within d.
func (e *c05Env) shortLived(v *vCore, d time.Duration) map[string]*c05Stored {
	out := map[string]*c05Stored{}
	st, _ := e.stored(v, true)
	lim := time.Now().Add(d)
	for id, s := range st {
		if s.Entry == nil || s.Entry.ExpireTime.IsZero() || s.Entry.isIrrevocable() {
			continue
		}
		if s.Entry.ExpireTime.Before(lim) {
			out[id] = s
		}
	}
	return out
}

// restartSameCore seals and unseals the core (the expiration manager is rebuilt
// and restores from storage: what a leadership change does on one node).
func (e *c05Env) restartSameCore(r *kit.Result) bool {
	v := e.v
	if err := TestCoreSeal(v.Core); err != nil {
		r.Inconc("seal failed: %v", err)
		return false
	}
	if err := v.Core.UnsealWithStoredKeys(namespace.RootContext(context.Background())); err != nil {
		r.Inconc("unseal failed: %v", err)
		return false
	}
	for _, n := range e.nss {
		if n.Sealable {
			n.Sealed = true
		}
	}
	return true
}

func (e *c05Env) restartNewCore(r *kit.Result, retryBase time.Duration) bool {
	v2, err := e.v.Restart()
	if err != nil {
		r.Inconc("restart failed: %v", err)
		return false
	}
	e.v = v2
	e.setRetryBase(v2, retryBase)
	for _, n := range e.nss {
		if n.Sealable {
			n.Sealed = true
		}
	}
	return true
}

func TestVerif_C05_Tracking(t *testing.T) {
	t.Parallel()
	seed := kit.Seed(5)
	shard, _ := kit.Shard()
	r := kit.NewResult(t, "c05-tracking", seed, "seeded histories (14..26 operations) over four namespaces (root, child, grand-child, one with its own shamir seal) of: leased secrets (2s/3s/1h), bounded secrets, tokens (some periodic), logins, non-expiring root tokens, renewals, sync / lazy / prefix revocations (lazy ones also of token leases through their lease id, non-expiring root tokens included), token revocations; then a transition (seal+unseal of the core = rebuilt expiration manager, a new core on the same store, or seal+unseal of the sealable namespace). After the history, after the transition and after the namespace was unsealed again: every lease record found by scanning the physical keys of all namespaces must be in pending/nonexpiring/irrevocable, pending entries must carry a timer and the stored expiry, non-expiring entries must have no stored expiry; bounded secrets renewed after the restart stay within issue+max; finally all leases that expire within 4s are awaited: once the clock passed their stored expiry they must disappear (bounded progress). A history is non-trivial when it left at least 5 stored leases in at least 2 namespaces at the transition")
	defer r.Write(t)
	nh := kit.N(6, 48)
	for ti, tx := range []bool{false, true} {
		e := c05Boot(t, tx, true, 0)
		for hi := 0; hi < nh/2; hi++ {
			caseID := fmt.Sprintf("track:%v:%d:%d", tx, shard, hi)
			if !kit.WantCase(caseID) {
				continue
			}
			rng := kit.NewRand(seed, uint64(50_000+1000*shard+2*hi+ti))
			h := &c05Hist{e: e, r: r, rng: rng, id: caseID}
			c05TrackHistory(h, hi)
			if r.NViolations() > 20 {
				return
			}
		}
		e.v.Close()
	}
	r.Require("tracking_checks", 12)
	r.Require("tracking_leases_compared", 100)
	r.Require("tracking_compared_pending", 60)
	r.Require("tracking_compared_nonexpiring", 3)
	r.Require("restarts", 3)
	r.Require("namespace_unseals_checked", 2)
	r.Require("expired_leases_seen_revoked", 10)
	r.Require("leases_in_child_namespaces_at_restart", 10)
}

func c05TrackHistory(h *c05Hist, idx int) {
	e, r := h.e, h.r
	r.Eval(1)
	// make sure every namespace is open at the start of a history
	for _, n := range e.nss {
		if n.Sealable && n.Sealed {
			if err := e.unsealNS(e.v, n); err != nil {
				r.Inconc("%s: %v", h.id, err)
				return
			}
		}
	}
	h.issueToken(e.ns(""), "roottoken", 0) // a non-expiring root token: the nonexpiring map is never empty
	h.run(14 + h.rng.Intn(13))
	e.v.WaitQuiet(30*time.Millisecond, 3*time.Second)
	if !e.checkTracking(e.v, r, h.id, "after history", h.steps) {
		return
	}
	st, _ := e.stored(e.v, false)
	nss := map[string]int{}
	child := 0
	for _, s := range st {
		nss[s.NS.Path]++
		if s.NS.Path != "" {
			child++
		}
	}
	if len(st) >= 5 && len(nss) >= 2 {
		r.Nontrivial(strings.Join(h.steps, ";"))
	}
	r.Count("leases_in_child_namespaces_at_restart", child)
	kind := idx % 4
	switch kind {
	case 0, 3:
		h.step("transition: seal + unseal of the core")
		if !e.restartSameCore(r) {
			return
		}
		r.Count("restarts", 1)
	case 1:
		h.step("transition: new core on the same store")
		if !e.restartNewCore(r, 0) {
			return
		}
		r.Count("restarts", 1)
	case 2:
		h.step("transition: seal of namespace sns/")
		if err := e.sealNS(e.v, e.ns("sns/")); err != nil {
			r.Inconc("%s: %v", h.id, err)
			return
		}
		r.Count("namespace_seals", 1)
	}
	v := e.v
	if !c05WaitRestored(v, 20*time.Second) {
		r.Inconc("%s: lease restore did not finish within 20s", h.id)
		return
	}
	v.WaitQuiet(30*time.Millisecond, 3*time.Second)
	if !e.checkTracking(v, r, h.id, "after transition (sealable namespace still sealed)", h.steps) {
		return
	}
	sns := e.ns("sns/")
	if sns.Sealed {
		if err := e.unsealNS(v, sns); err != nil {
			r.Inconc("%s: %v", h.id, err)
			return
		}
		h.step("unseal of namespace sns/")
		if !c05WaitRestored(v, 20*time.Second) {
			r.Inconc("%s: namespace lease restore did not finish within 20s", h.id)
			return
		}
		v.WaitQuiet(30*time.Millisecond, 3*time.Second)
		if !e.checkTracking(v, r, h.id, "after unseal of the sealable namespace", h.steps) {
			return
		}
		r.Count("namespace_unseals_checked", 1)
	}
	// O1 across the restart: bounded secrets are renewed; the bound is still counted from the original issue
	for _, o := range h.objs {
		if !o.Alive || o.BMax == 0 || o.NS.Sealed {
			continue
		}
		b0 := time.Now()
		resp, err := v.Do(vReq{Op: logical.UpdateOperation, Path: "sys/leases/renew", Token: v.Root, NS: o.NS.Path, Data: map[string]any{"lease_id": o.LeaseID, "increment": 3600}})
		b1 := time.Now()
		if !vOK(resp, err) || resp == nil || resp.Secret == nil {
			r.Count("renew_after_restart_refused", 1)
			continue
		}
		r.Count("renew_after_restart_granted", 1)
		le := c05ReadLease(v, o.NS, o.LeaseID)
		bound := o.IssueHi.Add(o.BMax + time.Second + b1.Sub(b0))
		if le != nil && le.ExpireTime.After(bound) {
			r.Violate("C05-expiry-past-issue-plus-max-after-restart", h.id, fmt.Sprintf("[%s] secret (namespace %q, backend max %s) renewed after the restart: stored expiry %s is %s past issue+max", h.id, o.NS.Path, o.BMax,
				le.ExpireTime.Format(time.RFC3339Nano), le.ExpireTime.Sub(bound).Round(time.Millisecond)), h.steps)
			return
		}
	}
	// bounded progress for everything that expires soon
	short := e.shortLived(v, 4*time.Second)
	e.awaitGone(v, r, h.id, short)
	v.WaitQuiet(30*time.Millisecond, 3*time.Second)
	e.checkTracking(v, r, h.id, "end of history", h.steps)
	r.Sample(map[string]any{"case": h.id, "steps": h.steps})
}

// ------------------------------------------------------------------ namespace restore under read faults / interleaving

// c05NSSealedNow asks the server whether the namespace is sealed (used only to drive the workload).
func c05NSSealedNow(v *vCore, n *c05NS) bool {
	return v.Core.NamespaceSealed(n.NS)
}

// c05UnsealUntilOpen unseals n until it stays open (a failed lease restore re-seals the
// namespace, also from a background goroutine that may run late).
func (e *c05Env) unsealUntilOpen(v *vCore, n *c05NS) error {
	var last error
	for a := 0; a < 8; a++ {
		if c05NSSealedNow(v, n) {
			n.Sealed = true
			if last = e.unsealNS(v, n); last != nil {
				time.Sleep(50 * time.Millisecond)
				continue
			}
		}
		c05WaitRestored(v, 20*time.Second)
		v.WaitQuiet(40*time.Millisecond, 3*time.Second)
		if !c05NSSealedNow(v, n) {
			n.Sealed = false
			return nil
		}
	}
	return fmt.Errorf("namespace %s does not stay unsealed: %v", n.Path, last)
}

func (e *c05Env) nsLeaseCount(v *vCore, n *c05NS) int {
	c := 0
	for _, k := range c05PhysKeys(v.Probe) {
		if strings.HasPrefix(k, n.Prefix+c05LeaseMarker) {
			c++
		}
	}
	return c
}

func TestVerif_C05_NamespaceRestore(t *testing.T) {
	t.Parallel()
	seed := kit.Seed(5)
	shard, _ := kit.Shard()
	r := kit.NewResult(t, "c05-ns-restore", seed, "a namespace with its own seal holds long-lived secrets, tokens, logins and fresh 4s secrets. Fault variant: it is sealed, the k-th storage read under its sys/expire/id/ prefix is made to fail once (k enumerated over the lease records present, plus seeded k), it is unsealed (the lease restore fails and the namespace re-seals itself), the fault is cleared and it is unsealed again until it stays open; then the storage-vs-tracker oracle of c05-tracking runs and the 4s secrets are awaited (bounded progress). Interleaving variant without faults: leases of namespace X are renewed continuously while a second sealed namespace Y is unsealed (so X leases are loaded while the manager is in restore mode), then X is sealed and unsealed and the oracle runs. A fault case is non-trivial when the fault fired and the first unseal failed; an interleaving case when an X lease was seen loaded during Y's restore")
	defer r.Write(t)
	e := c05Boot(t, shard%2 == 1, true, 0)
	v := e.v
	x := e.ns("sns/")
	y := e.addSealable("sns2")
	v.Policy("c05", c05Policy, y.Path)
	v.Mount("c05rec", "verifrec", y.Path, nil)
	v.EnableAuth("c05auth", "verifrec", y.Path)
	issue := func(n *c05NS, ttl string) string {
		resp, err := v.Do(vReq{Op: logical.ReadOperation, Path: "c05rec/lease/n", Token: v.Root, NS: n.Path, Data: map[string]any{"ttl": ttl}})
		if !vOK(resp, err) || resp == nil || resp.Secret == nil {
			r.Inconc("leased read in %s failed: %s", n.Path, vErrStr(resp, err))
			return ""
		}
		return resp.Secret.LeaseID
	}
	var xLong []string
	for i := 0; i < 6; i++ {
		xLong = append(xLong, issue(x, "1h"))
	}
	v.MustDo(vReq{Op: logical.UpdateOperation, Path: "auth/token/create", Token: v.Root, NS: x.Path, Data: map[string]any{"policies": []string{"default"}, "ttl": "1h"}})
	v.MustDo(vReq{Op: logical.UpdateOperation, Path: "auth/c05auth/login/u", NS: x.Path, Data: map[string]any{"ttl": "1h", "policies": "default"}})
	for i := 0; i < 24; i++ {
		issue(y, "1h")
	}

	// ---- fault variant
	nLeases := e.nsLeaseCount(v, x) + 2 // + the two short ones issued per case
	var ks []int
	for k := 1; k <= nLeases; k++ {
		ks = append(ks, k)
	}
	rng := kit.NewRand(seed, uint64(90_000+shard))
	for i := 0; i < kit.N(2, 12); i++ {
		ks = append(ks, 1+rng.Intn(nLeases))
	}
	for ci, k := range ks {
		caseID := fmt.Sprintf("nsfault:%d:%d:%d", shard, ci, k)
		if !kit.WantCase(caseID) {
			continue
		}
		r.Eval(1)
		if err := e.unsealUntilOpen(v, x); err != nil {
			r.Inconc("%s: %v", caseID, err)
			break
		}
		issue(x, "4s")
		issue(x, "4s")
		steps := []string{fmt.Sprintf("namespace %s holds %d lease records", x.Path, e.nsLeaseCount(v, x))}
		if err := e.sealNS(v, x); err != nil {
			r.Inconc("%s: %v", caseID, err)
			break
		}
		prefix := x.Prefix + c05LeaseMarker
		v.Probe.FailNth(func(ev kit.Event) bool { return ev.Op == "get" && strings.HasPrefix(ev.Key, prefix) }, k)
		// The unseal runs on its own goroutine: ExpirationManager.restore has been seen (rarely) never to return
		// after a failed lease read - its distributor goroutine stays blocked sending to the unbuffered broker
		// channel once all workers left on the quit signal, and restore waits for it. 90s without an answer on an
		// in-memory store is that state; the core cannot be used (nor shut down) afterwards.
		done := make(chan error, 1)
		go func() { done <- e.unsealNS(v, x) }()
		var uerr error
		select {
		case uerr = <-done:
		case <-time.After(90 * time.Second):
			v.Probe.ClearFaults()
			inRestore := v.Core.expiration != nil && v.Core.expiration.inRestoreMode()
			r.Violate("C05-lease-restore-hangs-after-read-fault", caseID, fmt.Sprintf("[%s] unseal of namespace %s with read #%d under %s failing once has not returned after 90s (manager still in restore mode: %v): the leases of the namespace are never loaded, the request never answers", caseID, x.Path, k, c05KeyClass(prefix), inRestore), steps)
			v.closed = true // a shutdown would wait for the stuck request
			return
		}
		fired := v.Probe.ClearFaults()
		steps = append(steps, fmt.Sprintf("sealed; read #%d under %s fails once; unseal -> %v (fault fired: %v)", k, c05KeyClass(prefix), uerr, fired > 0))
		switch {
		case fired > 0 && uerr != nil:
			r.Count("unseal_failed_on_read_fault", 1)
			r.Nontrivial(fmt.Sprintf("fault|%d|%d", k, nLeases))
		case fired > 0:
			r.Count("unseal_succeeded_despite_read_fault", 1)
		default:
			r.Count("fault_not_reached", 1)
		}
		v.WaitQuiet(40*time.Millisecond, 3*time.Second)
		time.Sleep(50 * time.Millisecond) // lets a late background re-seal finish before the operator unseals again
		if err := e.unsealUntilOpen(v, x); err != nil {
			r.Inconc("%s: %v", caseID, err)
			break
		}
		steps = append(steps, "fault cleared; unsealed again")
		if !e.checkTracking(v, r, caseID, fmt.Sprintf("after a failed (read fault #%d) and a successful unseal of %s", k, x.Path), steps) {
			break
		}
		r.Count("unseal_after_fault_checked", 1)
		if ci%3 == 0 || kit.OnlyCase() != "" {
			short := map[string]*c05Stored{}
			for id, s := range e.shortLived(v, 6*time.Second) {
				if s.NS == x {
					short[id] = s
				}
			}
			e.awaitGone(v, r, caseID, short)
			v.WaitQuiet(30*time.Millisecond, 3*time.Second)
			e.checkTracking(v, r, caseID, "after the short leases of the re-unsealed namespace expired", steps)
		}
		if r.NViolations() > 10 {
			return
		}
	}

	// ---- interleaving variant (no fault)
	for ci := 0; ci < kit.N(3, 10); ci++ {
		caseID := fmt.Sprintf("nsinterleave:%d:%d", shard, ci)
		if !kit.WantCase(caseID) {
			continue
		}
		r.Eval(1)
		if err := e.unsealUntilOpen(v, x); err != nil {
			r.Inconc("%s: %v", caseID, err)
			break
		}
		if err := e.unsealUntilOpen(v, y); err != nil {
			r.Inconc("%s: %v", caseID, err)
			break
		}
		issue(x, "4s")
		if err := e.sealNS(v, y); err != nil {
			r.Inconc("%s: %v", caseID, err)
			break
		}
		// renew X's leases continuously while Y is unsealed
		stop := make(chan struct{})
		var wg sync.WaitGroup
		for g := 0; g < 4; g++ {
			g := g
			wg.Add(1)
			go func() {
				defer wg.Done()
				for i := g; ; i++ {
					select {
					case <-stop:
						return
					default:
					}
					id := xLong[i%len(xLong)]
					_, _ = v.Do(vReq{Op: logical.UpdateOperation, Path: "sys/leases/renew", Token: v.Root, NS: x.Path, Data: map[string]any{"lease_id": id, "increment": 3600}})
				}
			}()
		}
		time.Sleep(5 * time.Millisecond)
		uerr := e.unsealNS(v, y)
		c05WaitRestored(v, 20*time.Second)
		close(stop)
		wg.Wait()
		if uerr != nil {
			r.Inconc("%s: unseal of %s failed: %v", caseID, y.Path, uerr)
			break
		}
		// non-vacuity only: did a request load an X lease while the manager was in restore mode?
		hit := 0
		if m := v.Core.expiration; m != nil {
			m.restoreLoaded.Range(func(k, _ any) bool {
				if id, ok := k.(string); ok && x.NS.MatchesID(id) {
					hit++
				}
				return true
			})
		}
		steps := []string{fmt.Sprintf("%s unsealed while 4 clients renew leases of %s (X leases loaded during the restore: %d)", y.Path, x.Path, hit)}
		if hit > 0 {
			r.Count("interleavings_with_lease_loaded_during_foreign_restore", 1)
			r.Nontrivial(caseID)
		}
		v.WaitQuiet(30*time.Millisecond, 3*time.Second)
		if err := e.sealNS(v, x); err != nil {
			r.Inconc("%s: %v", caseID, err)
			break
		}
		if err := e.unsealUntilOpen(v, x); err != nil {
			r.Inconc("%s: %v", caseID, err)
			break
		}
		steps = append(steps, fmt.Sprintf("%s sealed and unsealed", x.Path))
		if !e.checkTracking(v, r, caseID, fmt.Sprintf("after seal+unseal of %s whose leases were renewed during the restore of %s", x.Path, y.Path), steps) {
			break
		}
		r.Count("interleaving_checked", 1)
		r.Sample(map[string]any{"case": caseID, "steps": steps})
	}
	short := map[string]*c05Stored{}
	for id, s := range e.shortLived(v, 6*time.Second) {
		if s.NS == x {
			short[id] = s
		}
	}
	e.awaitGone(v, r, "nsinterleave:end", short)
	r.Require("unseal_failed_on_read_fault", 5)
	r.Require("unseal_after_fault_checked", 8)
	r.Require("interleaving_checked", 2)
	r.Require("interleavings_with_lease_loaded_during_foreign_restore", 1)
	r.Require("expired_leases_seen_revoked", 4)
}

// ------------------------------------------------------------------ renew || revoke at storage-operation granularity

func TestVerif_C05_RenewRevokeSchedules(t *testing.T) {
	t.Parallel()
	seed := kit.Seed(5)
	shard, _ := kit.Shard()
	r := kit.NewResult(t, "c05-renew-revoke-schedules", seed, "one sys/leases/renew runs concurrently with one revocation of the same 1h lease (lazy sys/leases/revoke, sync sys/leases/revoke, lazy revoke-prefix, revocation of the owning token) under the storage-operation gate on the lease records: all interleavings with <=2 preemptions (run cap), then seeded PCT schedules; root and child namespace. In every serial order the lease ends revoked (a renewal after the revocation sees an expired/absent lease and is refused), so: a renewal that was granted must not have written the lease record after the accepted revocation wrote it, and after an accepted revocation the stored lease must not carry an expiry in the future; a lease left with a past expiry is awaited (bounded progress). A schedule is non-trivial when one request was seen blocked behind the other (distinct by variant and step order)")
	defer r.Write(t)
	e := c05Boot(t, shard%2 == 1, false, 0)
	v := e.v
	variants := []string{"lazy-revoke", "sync-revoke", "revoke-prefix-lazy", "token-revoke"}
	runNo := 0
	for _, nsPath := range []string{"", "ns1/"} {
		n := e.ns(nsPath)
		for vi, variant := range variants {
			run := func(pol kit.Policy, caseID string) (kit.Schedule, bool) {
				runNo++
				r.Eval(1)
				tok := v.Root
				childTok := ""
				if variant == "token-revoke" {
					tk, resp, err := v.CreateToken(v.Root, map[string]any{"policies": []string{"c05"}, "ttl": "1h"}, false, nsPath)
					if tk == nil {
						r.Inconc("%s: token create failed: %s", caseID, vErrStr(resp, err))
						return kit.Schedule{}, false
					}
					tok, childTok = tk.ID, tk.ID
				}
				sub := fmt.Sprintf("p%d", runNo)
				resp, err := v.Do(vReq{Op: logical.ReadOperation, Path: "c05rec/lease/" + sub, Token: tok, NS: nsPath, Data: map[string]any{"ttl": "1h"}})
				if !vOK(resp, err) || resp == nil || resp.Secret == nil {
					r.Inconc("%s: leased read failed: %s", caseID, vErrStr(resp, err))
					return kit.Schedule{}, false
				}
				leaseID, sid := resp.Secret.LeaseID, c05SecretID(resp)
				physKey := n.Prefix + c05LeaseMarker + leaseID
				v.WaitQuiet(10*time.Millisecond, time.Second)
				var renResp, revResp *logical.Response
				var renErr, revErr error
				reqs := []kit.Req{
					{Tag: "ren", Fn: func() {
						renResp, renErr = v.Do(vReq{Op: logical.UpdateOperation, Path: "sys/leases/renew", Token: v.Root, NS: nsPath, Data: map[string]any{"lease_id": leaseID, "increment": 3600}})
					}},
					{Tag: "rev", Fn: func() {
						switch variant {
						case "lazy-revoke":
							revResp, revErr = v.Do(vReq{Op: logical.UpdateOperation, Path: "sys/leases/revoke", Token: v.Root, NS: nsPath, Data: map[string]any{"lease_id": leaseID, "sync": false}})
						case "sync-revoke":
							revResp, revErr = v.Do(vReq{Op: logical.UpdateOperation, Path: "sys/leases/revoke", Token: v.Root, NS: nsPath, Data: map[string]any{"lease_id": leaseID, "sync": true}})
						case "revoke-prefix-lazy":
							revResp, revErr = v.Do(vReq{Op: logical.UpdateOperation, Path: "sys/leases/revoke-prefix/c05rec/lease/" + sub, Token: v.Root, NS: nsPath, Data: map[string]any{"sync": false}})
						case "token-revoke":
							revResp, revErr = v.Do(vReq{Op: logical.UpdateOperation, Path: "auth/token/revoke", Token: v.Root, NS: nsPath, Data: map[string]any{"token": childTok}})
						}
					}},
				}
				v.Probe.StartLog(false)
				sched := v.Probe.RunGated(reqs, pol, kit.GateOpts{Filter: func(ev kit.Event) bool { return strings.Contains(ev.Key, c05LeaseMarker) }})
				v.WaitQuiet(30*time.Millisecond, 3*time.Second)
				evs := v.Probe.StopLog()
				if sched.TimedOut {
					r.Inconc("%s: gate watchdog expired", caseID)
					return sched, false
				}
				r.Count("schedule_runs", 1)
				if sched.Blocked > 0 {
					r.Count("schedules_with_lock_contention", 1)
					r.Nontrivial(variant + nsPath + sched.Hash())
				}
				renOK := vOK(renResp, renErr) && renResp != nil && renResp.Secret != nil
				revOK := vOK(revResp, revErr)
				var lastRevWrite, lastRenPut uint64
				var order []string
				for _, ev := range evs {
					if ev.Key != physKey || ev.Err != "" {
						continue
					}
					order = append(order, fmt.Sprintf("%s:%s", ev.Tag, ev.Op))
					if ev.Tag == "rev" && (ev.Op == "put" || ev.Op == "delete") {
						lastRevWrite = ev.Seq
					}
					if ev.Tag == "ren" && ev.Op == "put" {
						lastRenPut = ev.Seq
					}
				}
				var backend []string
				for _, bev := range v.Rec.Events() {
					if bev.ID == sid && (bev.Kind == "revoked" || bev.Kind == "renew") {
						backend = append(backend, bev.Kind)
					}
				}
				wit := map[string]any{"variant": variant, "ns": nsPath, "transactional": e.tx, "schedule": sched.String(), "lease_record_ops": order, "backend_events": backend,
					"renew": vErrStr(renResp, renErr), "revoke": vErrStr(revResp, revErr)}
				switch {
				case renOK && revOK:
					r.Count("renew_granted_and_revocation_accepted", 1)
				case revOK:
					r.Count("renew_refused_and_revocation_accepted", 1)
				}
				if !revOK {
					r.Count("revocation_refused", 1)
					return sched, true
				}
				if renOK && lastRevWrite > 0 && lastRenPut > lastRevWrite {
					r.Violate("C05-lease-renewed-after-its-revocation-was-recorded", caseID, fmt.Sprintf("[%s] %s || renew, namespace %q: the renewal was granted and wrote the lease record after the accepted revocation had written it (lease record operations: %v; backend saw %v)", caseID, variant, nsPath, order, backend), wit)
					return sched, r.NViolations() < 20
				}
				if le := c05ReadLease(v, n, leaseID); le != nil {
					if le.ExpireTime.After(time.Now().Add(30 * time.Second)) {
						r.Violate("C05-revoked-lease-has-future-expiry", caseID, fmt.Sprintf("[%s] %s || renew, namespace %q: after the revocation was accepted the stored lease expires in %s (lease record operations: %v; backend saw %v)", caseID, variant, nsPath, time.Until(le.ExpireTime).Round(time.Second), order, backend), wit)
						return sched, r.NViolations() < 20
					}
					e.awaitGone(v, r, caseID, map[string]*c05Stored{leaseID: {ID: leaseID, NS: n, Entry: le}})
				}
				r.Count("revoked_leases_gone", 1)
				if runNo%7 == 0 {
					r.Sample(wit)
				}
				return sched, true
			}
			ex := &kit.Explorer{MaxPreempt: 2, MaxRuns: kit.N(10, 60)}
			idx := 0
			stop := false
			ex.Explore(func(pol kit.Policy) (kit.Schedule, bool) {
				idx++
				caseID := fmt.Sprintf("rrsched:%s:%s:ex:%d", nsPath, variant, idx)
				if !kit.WantCase(caseID) {
					return kit.Schedule{Diverged: true}, true
				}
				s, cont := run(pol, caseID)
				if !cont {
					stop = true
				}
				return s, cont
			})
			for k := 0; k < kit.N(4, 40) && !stop; k++ {
				caseID := fmt.Sprintf("rrsched:%s:%s:pct:%d:%d", nsPath, variant, shard, k)
				if !kit.WantCase(caseID) {
					continue
				}
				rng := kit.NewRand(seed, uint64(80_000+10_000*shard+1000*vi+k)*2+uint64(len(nsPath)%2))
				if _, cont := run(kit.NewPCT(rng, []string{"ren", "rev"}, 3, 12), caseID); !cont {
					break
				}
			}
			if r.NViolations() >= 20 {
				return
			}
		}
	}
	r.Require("schedule_runs", 40)
	r.Require("schedules_with_lock_contention", 10)
	r.Require("renew_granted_and_revocation_accepted", 3)
	r.Require("renew_refused_and_revocation_accepted", 3)
	r.Require("revoked_leases_gone", 30)
}

// ------------------------------------------------------------------ crash prefixes

type c05Flow struct {
	name string
	prep func(e *c05Env, ns string) (any, error)
	run  func(e *c05Env, ns string, st any) (*logical.Response, error)
}

func c05Flows() []c05Flow {
	secret := func(e *c05Env, ns string, ttl time.Duration) (string, string, error) {
		v := e.v
		resp, err := v.Do(vReq{Op: logical.ReadOperation, Path: "c05rec/lease/c", Token: v.Root, NS: ns, Data: map[string]any{"ttl": c05Secs(ttl)}})
		if !vOK(resp, err) || resp == nil || resp.Secret == nil {
			return "", "", fmt.Errorf("leased read: %s", vErrStr(resp, err))
		}
		return resp.Secret.LeaseID, c05SecretID(resp), nil
	}
	token := func(e *c05Env, ns string, ttl time.Duration) (string, error) {
		v := e.v
		tk, resp, err := v.CreateToken(v.Root, map[string]any{"policies": []string{"c05"}, "ttl": c05Secs(ttl)}, false, ns)
		if tk == nil {
			return "", fmt.Errorf("token create: %s", vErrStr(resp, err))
		}
		return tk.ID, nil
	}
	return []c05Flow{
		{"register-secret", nil, func(e *c05Env, ns string, _ any) (*logical.Response, error) {
			return e.v.Do(vReq{Tag: "flow", Op: logical.ReadOperation, Path: "c05rec/lease/c", Token: e.v.Root, NS: ns, Data: map[string]any{"ttl": "1h"}})
		}},
		{"register-login", nil, func(e *c05Env, ns string, _ any) (*logical.Response, error) {
			return e.v.Do(vReq{Tag: "flow", Op: logical.UpdateOperation, Path: "auth/c05auth/login/u", NS: ns, Data: map[string]any{"ttl": "1h", "policies": "default"}})
		}},
		{"register-token", nil, func(e *c05Env, ns string, _ any) (*logical.Response, error) {
			return e.v.Do(vReq{Tag: "flow", Op: logical.UpdateOperation, Path: "auth/token/create", Token: e.v.Root, NS: ns, Data: map[string]any{"policies": []string{"default"}, "ttl": "1h"}})
		}},
		{"renew-secret", func(e *c05Env, ns string) (any, error) {
			id, _, err := secret(e, ns, 30*time.Second)
			return id, err
		}, func(e *c05Env, ns string, st any) (*logical.Response, error) {
			return e.v.Do(vReq{Tag: "flow", Op: logical.UpdateOperation, Path: "sys/leases/renew", Token: e.v.Root, NS: ns, Data: map[string]any{"lease_id": st.(string), "increment": 3600}})
		}},
		{"renew-token", func(e *c05Env, ns string) (any, error) { return token(e, ns, 30*time.Second) },
			func(e *c05Env, ns string, st any) (*logical.Response, error) {
				return e.v.Do(vReq{Tag: "flow", Op: logical.UpdateOperation, Path: "auth/token/renew", Token: e.v.Root, NS: ns, Data: map[string]any{"token": st.(string), "increment": 3600}})
			}},
		{"revoke-secret-sync", func(e *c05Env, ns string) (any, error) {
			id, _, err := secret(e, ns, time.Hour)
			return id, err
		}, func(e *c05Env, ns string, st any) (*logical.Response, error) {
			return e.v.Do(vReq{Tag: "flow", Op: logical.UpdateOperation, Path: "sys/leases/revoke", Token: e.v.Root, NS: ns, Data: map[string]any{"lease_id": st.(string), "sync": true}})
		}},
		{"revoke-secret-lazy", func(e *c05Env, ns string) (any, error) {
			id, _, err := secret(e, ns, time.Hour)
			return id, err
		}, func(e *c05Env, ns string, st any) (*logical.Response, error) {
			return e.v.Do(vReq{Tag: "flow", Op: logical.UpdateOperation, Path: "sys/leases/revoke", Token: e.v.Root, NS: ns, Data: map[string]any{"lease_id": st.(string), "sync": false}})
		}},
		{"revoke-token-with-lease", func(e *c05Env, ns string) (any, error) {
			tk, err := token(e, ns, time.Hour)
			if err != nil {
				return nil, err
			}
			resp, err := e.v.Do(vReq{Op: logical.ReadOperation, Path: "c05rec/lease/c", Token: tk, NS: ns, Data: map[string]any{"ttl": "1h"}})
			if !vOK(resp, err) {
				return nil, fmt.Errorf("leased read with child token: %s", vErrStr(resp, err))
			}
			return tk, nil
		}, func(e *c05Env, ns string, st any) (*logical.Response, error) {
			return e.v.Do(vReq{Tag: "flow", Op: logical.UpdateOperation, Path: "auth/token/revoke", Token: e.v.Root, NS: ns, Data: map[string]any{"token": st.(string)}})
		}},
		{"revoke-prefix", func(e *c05Env, ns string) (any, error) {
			for i := 0; i < 2; i++ {
				if _, _, err := secret(e, ns, time.Hour); err != nil {
					return nil, err
				}
			}
			return nil, nil
		}, func(e *c05Env, ns string, st any) (*logical.Response, error) {
			return e.v.Do(vReq{Tag: "flow", Op: logical.UpdateOperation, Path: "sys/leases/revoke-prefix/c05rec/lease", Token: e.v.Root, NS: ns, Data: map[string]any{"sync": true}})
		}},
		{"mark-irrevocable", func(e *c05Env, ns string) (any, error) {
			id, sid, err := secret(e, ns, time.Hour)
			if err != nil {
				return nil, err
			}
			c05SetFailRevoke(e.v, func(x string) bool { return x == sid })
			return id, nil
		}, func(e *c05Env, ns string, st any) (*logical.Response, error) {
			// lazy revocation; the worker then runs out of retries and persists the irrevocable mark
			resp, err := e.v.Do(vReq{Tag: "flow", Op: logical.UpdateOperation, Path: "sys/leases/revoke", Token: e.v.Root, NS: ns, Data: map[string]any{"lease_id": st.(string), "sync": false}})
			if !vOK(resp, err) {
				return resp, err
			}
			deadline := time.Now().Add(20 * time.Second)
			for time.Now().Before(deadline) {
				if le := c05ReadLease(e.v, e.ns(ns), st.(string)); le != nil && le.isIrrevocable() {
					return resp, nil
				}
				time.Sleep(20 * time.Millisecond)
			}
			return nil, fmt.Errorf("lease did not become irrevocable within 20s")
		}},
	}
}

func TestVerif_C05_Crash(t *testing.T) {
	t.Parallel()
	seed := kit.Seed(5)
	shard, shards := kit.Shard()
	r := kit.NewResult(t, "c05-crash", seed, "for each flow (register secret / login / token, renew secret / token, revoke secret sync / lazy, revoke token with a lease, revoke-prefix, running out of revocation retries) x namespace x store kind: the flow runs on a journaling store that already holds long- and short-lived leases in three namespaces; for every prefix k of the durable writes made while it ran (background revocations included) a new core with the same seal is booted on the store as a crash after k writes would leave it; after its lease restore finished every stored lease record must be tracked (same oracle as c05-tracking); for k=0 and k=all the leases expiring within 4s are awaited (bounded progress). Every (flow, ns, store, k) is a distinct case")
	r.Exhaustive = true
	defer r.Write(t)
	combos := []struct {
		tx bool
		ns string
	}{{false, ""}, {true, "ns1/"}, {true, ""}, {false, "ns1/ns2/"}, {false, "ns1/"}, {true, "ns1/ns2/"}}
	if kit.Tier() == "quick" {
		combos = combos[:2]
	}
	flows := c05Flows()
	n := 0
	for _, cb := range combos {
		e := c05Boot(t, cb.tx, false, 15*time.Millisecond)
		v := e.v
		// base population
		for _, nn := range e.nss {
			for i := 0; i < 2; i++ {
				v.MustDo(vReq{Op: logical.ReadOperation, Path: "c05rec/lease/base", Token: v.Root, NS: nn.Path, Data: map[string]any{"ttl": "1h"}})
			}
			v.MustDo(vReq{Op: logical.UpdateOperation, Path: "auth/token/create", Token: v.Root, NS: nn.Path, Data: map[string]any{"policies": []string{"default"}, "ttl": "1h"}})
			v.MustDo(vReq{Op: logical.UpdateOperation, Path: "auth/c05auth/login/u", NS: nn.Path, Data: map[string]any{"ttl": "1h", "policies": "default"}})
		}
		v.MustDo(vReq{Op: logical.UpdateOperation, Path: "auth/token/create", Token: v.Root, Data: map[string]any{"policies": []string{"root"}}})
		for _, flow := range flows {
			n++
			if n%shards != shard {
				continue
			}
			anyWanted := kit.OnlyCase() == "" || strings.HasPrefix(kit.OnlyCase(), fmt.Sprintf("crash:%v:%s:%s:", cb.tx, cb.ns, flow.name))
			if !anyWanted {
				continue
			}
			// a short-lived lease per namespace, so that restarts find expiring and expired leases
			for _, nn := range e.nss {
				v.MustDo(vReq{Op: logical.ReadOperation, Path: "c05rec/lease/short", Token: v.Root, NS: nn.Path, Data: map[string]any{"ttl": "3s"}})
			}
			var st any
			if flow.prep != nil {
				var err error
				if st, err = flow.prep(e, cb.ns); err != nil {
					r.Inconc("crash %s: preparation failed: %v", flow.name, err)
					continue
				}
			}
			v.WaitQuiet(20*time.Millisecond, 2*time.Second)
			v.Probe.StartJournal()
			resp, err := flow.run(e, cb.ns, st)
			v.WaitQuiet(30*time.Millisecond, 3*time.Second)
			j := v.Probe.StopJournal()
			c05SetFailRevoke(v, nil)
			if !vOK(resp, err) {
				r.Inconc("crash %s ns=%q: fault-free flow failed: %s", flow.name, cb.ns, vErrStr(resp, err))
				continue
			}
			r.Count("flow_writes:"+flow.name, len(j))
			for k := 0; k <= len(j); k++ {
				caseID := fmt.Sprintf("crash:%v:%s:%s:%d", cb.tx, cb.ns, flow.name, k)
				if !kit.WantCase(caseID) {
					continue
				}
				r.Eval(1)
				r.Nontrivial(caseID)
				phys, _ := kit.NewProbe(v.Probe.Materialise(k, cb.tx))
				v2, berr := v.RestartOn(phys)
				if berr != nil {
					r.Violate("C05-restart-failed", caseID, fmt.Sprintf("core does not come up on write prefix %d/%d of %s: %v", k, len(j), flow.name, berr), c05JournalKeys(j))
					if v2 != nil {
						v2.Close()
					}
					continue
				}
				if !c05WaitRestored(v2, 20*time.Second) {
					r.Inconc("%s: lease restore did not finish within 20s", caseID)
					v2.Close()
					continue
				}
				v2.WaitQuiet(20*time.Millisecond, 2*time.Second)
				wit := map[string]any{"flow": flow.name, "ns": cb.ns, "transactional": cb.tx, "prefix": k, "journal": c05JournalKeys(j)}
				if e.checkTracking(v2, r, caseID, fmt.Sprintf("after restart on write prefix %d/%d of %s", k, len(j), flow.name), wit) {
					r.Count("prefixes_checked", 1)
				}
				if k == 0 || k == len(j) {
					e.awaitGone(v2, r, caseID, e.shortLived(v2, 4*time.Second))
					v2.WaitQuiet(20*time.Millisecond, 2*time.Second)
					e.checkTracking(v2, r, caseID, "after the short-lived leases expired on the restarted core", wit)
				}
				v2.Close()
				if r.NViolations() > 20 {
					return
				}
			}
			r.Sample(map[string]any{"flow": flow.name, "ns": cb.ns, "transactional": cb.tx, "journal": c05JournalKeys(j)})
		}
		v.Close()
	}
	r.Require("prefixes_checked", 40)
	r.Require("expired_leases_seen_revoked", 10)
}

func c05KeyClass(k string) string {
	parts := strings.Split(k, "/")
	var out []string
	for _, p := range parts {
		if len(p) > 20 || strings.Count(p, "-") >= 4 {
			p = "*"
		}
		out = append(out, p)
	}
	if len(out) > 7 {
		out = out[:7]
	}
	return strings.Join(out, "/")
}

func c05JournalKeys(j []kit.Mutation) []string {
	var out []string
	for _, m := range j {
		var ws []string
		for _, w := range m.Writes {
			op := "put "
			if w.Delete {
				op = "del "
			}
			ws = append(ws, op+c05KeyClass(w.Key))
		}
		out = append(out, strings.Join(ws, " + "))
	}
	return out
}

// ------------------------------------------------------------------ O3 retry budget

type c05RetryCase struct {
	id        string
	ns        *c05NS
	batch     bool // the lease belongs to a batch token
	renewable bool
	leaseID   string
	secretID  string
	expire    time.Time
	ok        bool
	steps     []string
}

func TestVerif_C05_RetryBudget(t *testing.T) {
	t.Parallel()
	seed := kit.Seed(5)
	shard, _ := kit.Shard()
	r := kit.NewResult(t, "c05-retry-budget", seed, "leased secrets (2s TTL; root / child namespace; leased to a service or to a batch token; renewable or not) whose backend revocation is made to fail (recording backend, retry base set to 40ms in-package): after the harness saw the clock pass the stored expiry, a renewal sent while the lease lingers must be refused; within a bounded wait the stored lease must carry the irrevocable mark after at most maxRevokeAttempts failed revocations, be tracked in the irrevocable map, and refuse renewal; the same must hold after the core was sealed and unsealed; once the backend recovers sys/leases/revoke must remove it. Token variant: a token whose revocation fails on storage faults. Every case that reached the irrevocable state is non-trivial")
	defer r.Write(t)
	base := 40 * time.Millisecond
	e := c05Boot(t, shard%2 == 1, false, base)
	v := e.v
	var fmu sync.Mutex
	failing := map[string]bool{}
	attempts := map[string]int{}
	fail := func(id string) bool {
		fmu.Lock()
		defer fmu.Unlock()
		if failing[id] {
			attempts[id]++
			return true
		}
		return false
	}
	c05SetFailRevoke(v, fail)
	n := kit.N(12, 72)
	batchSize := 6
	for b0 := 0; b0 < n; b0 += batchSize {
		var cases []*c05RetryCase
		for i := b0; i < b0+batchSize && i < n; i++ {
			id := fmt.Sprintf("retry:%d:%d", shard, i)
			if !kit.WantCase(id) {
				continue
			}
			rng := kit.NewRand(seed, uint64(70_000+1000*shard+i))
			c := &c05RetryCase{id: id, ns: e.nss[rng.Intn(2)], batch: i%3 == 1, renewable: i%4 != 3}
			cases = append(cases, c)
		}
		if len(cases) == 0 {
			continue
		}
		// phase A: concurrently, until irrevocable
		var wg sync.WaitGroup
		for _, c := range cases {
			c := c
			wg.Add(1)
			go func() {
				defer wg.Done()
				c05RetryPhaseA(e, r, c, func(id string) {
					fmu.Lock()
					failing[id] = true
					fmu.Unlock()
				}, func(id string) int {
					fmu.Lock()
					defer fmu.Unlock()
					return attempts[id]
				})
			}()
		}
		wg.Wait()
		// phase B: seal + unseal of the core, irrevocable leases must be restored as such
		if !e.restartSameCore(r) {
			return
		}
		e.setRetryBase(v, base)
		if !c05WaitRestored(v, 20*time.Second) {
			r.Inconc("lease restore did not finish within 20s")
			return
		}
		v.WaitQuiet(30*time.Millisecond, 3*time.Second)
		r.Count("restarts", 1)
		e.checkTracking(v, r, cases[0].id, "after seal+unseal with irrevocable leases in storage", nil)
		for _, c := range cases {
			if !c.ok {
				continue
			}
			tr := c05Tracker(v.Core)
			if got := tr[c.leaseID]; got.Where != "irrevocable" {
				le := c05ReadLease(v, c.ns, c.leaseID)
				if le != nil && le.isIrrevocable() {
					r.Violate("C05-irrevocable-lease-not-restored-as-irrevocable", c.id, fmt.Sprintf("[%s] after seal+unseal the stored irrevocable lease is tracked as %q", c.id, got.Where), c.steps)
					continue
				}
			}
			resp, err := v.Do(vReq{Op: logical.UpdateOperation, Path: "sys/leases/renew", Token: v.Root, NS: c.ns.Path, Data: map[string]any{"lease_id": c.leaseID, "increment": 3600}})
			if vOK(resp, err) && resp != nil && resp.Secret != nil {
				r.Violate("C05-irrevocable-lease-renewed", c.id, fmt.Sprintf("[%s] after seal+unseal the irrevocable lease was renewed", c.id), c.steps)
				continue
			}
			r.Count("irrevocable_renewal_refused_after_restart", 1)
			// recovery
			fmu.Lock()
			failing[c.secretID] = false
			fmu.Unlock()
			resp, err = v.Do(vReq{Op: logical.UpdateOperation, Path: "sys/leases/revoke", Token: v.Root, NS: c.ns.Path, Data: map[string]any{"lease_id": c.leaseID, "sync": true}})
			if !vOK(resp, err) {
				r.Violate("C05-irrevocable-lease-not-revocable-after-recovery", c.id, fmt.Sprintf("[%s] sys/leases/revoke of the irrevocable lease fails although the backend recovered: %s", c.id, vErrStr(resp, err)), c.steps)
				continue
			}
			if c05ReadLease(v, c.ns, c.leaseID) != nil {
				r.Violate("C05-irrevocable-lease-not-revocable-after-recovery", c.id, fmt.Sprintf("[%s] lease record still stored after a successful sys/leases/revoke", c.id), c.steps)
				continue
			}
			if _, still := c05Tracker(v.Core)[c.leaseID]; still {
				r.Count("revoked_irrevocable_still_tracked(not judged)", 1)
			}
			r.Count("irrevocable_revoked_after_recovery", 1)
			r.Nontrivial(c.id)
			r.Sample(map[string]any{"case": c.id, "steps": c.steps})
		}
		if r.NViolations() > 20 {
			return
		}
	}
	// token variant (sequential): the token's own revocation fails on storage faults
	for i := 0; i < kit.N(2, 6); i++ {
		id := fmt.Sprintf("retry-token:%d:%d", shard, i)
		if !kit.WantCase(id) {
			continue
		}
		c05RetryToken(e, r, id, e.nss[i%2])
	}
	// the write of the irrevocable mark itself fails (sequential: uses probe faults)
	for i := 0; i < kit.N(3, 8); i++ {
		id := fmt.Sprintf("retry-markfault:%d:%d", shard, i)
		if !kit.WantCase(id) {
			continue
		}
		c05RetryMarkFault(e, r, id, e.nss[i%2], i%3 == 2, func(sid string, on bool) {
			fmu.Lock()
			failing[sid] = on
			fmu.Unlock()
		}, func(sid string) int {
			fmu.Lock()
			defer fmu.Unlock()
			return attempts[sid]
		})
	}
	r.Require("budget_spent_with_failing_mark_write", 2)
	r.Require("lingering_expired_renewal_refused", 4)
	r.Require("became_irrevocable", 6)
	r.Require("irrevocable_renewal_refused", 6)
	r.Require("irrevocable_renewal_refused_after_restart", 6)
	r.Require("irrevocable_revoked_after_recovery", 6)
	r.Require("token_became_irrevocable", 1)
}

func c05RetryPhaseA(e *c05Env, r *kit.Result, c *c05RetryCase, markFailing func(string), attemptsOf func(string) int) {
	v := e.v
	r.Eval(1)
	step := func(f string, a ...any) { c.steps = append(c.steps, fmt.Sprintf(f, a...)) }
	tok := v.Root
	if c.batch {
		bt, resp, err := v.CreateToken(v.Root, map[string]any{"type": "batch", "ttl": "1h", "policies": []string{"c05"}}, false, c.ns.Path)
		if bt == nil {
			r.Inconc("%s: cannot create batch token: %s", c.id, vErrStr(resp, err))
			return
		}
		tok = bt.ID
	}
	resp, err := v.Do(vReq{Op: logical.ReadOperation, Path: "c05rec/lease/r", Token: tok, NS: c.ns.Path, Data: map[string]any{"ttl": "2s", "max_ttl": "1h", "non_renewable": !c.renewable}})
	if !vOK(resp, err) || resp == nil || resp.Secret == nil {
		r.Inconc("%s: leased read failed: %s", c.id, vErrStr(resp, err))
		return
	}
	c.leaseID = resp.Secret.LeaseID
	c.secretID = c05SecretID(resp)
	markFailing(c.secretID)
	le := c05ReadLease(v, c.ns, c.leaseID)
	if le == nil {
		r.Inconc("%s: stored lease not readable", c.id)
		return
	}
	c.expire = le.ExpireTime
	step("leased secret ns=%q batch-token=%v renewable=%v ttl=2s; backend revocation made to fail", c.ns.Path, c.batch, c.renewable)
	for !time.Now().After(c.expire) {
		time.Sleep(10 * time.Millisecond)
	}
	batchSig := ""
	if c.batch {
		batchSig = "-of-batch-token-lease"
	}
	// lingering: expired, revocation failing, not yet irrevocable
	tried := false
	deadline := time.Now().Add(30 * time.Second)
	for {
		le = c05ReadLease(v, c.ns, c.leaseID)
		if le == nil {
			r.Inconc("%s: lease vanished although its revocation is made to fail", c.id)
			return
		}
		if le.isIrrevocable() {
			break
		}
		if !tried && attemptsOf(c.secretID) >= 1 {
			tried = true
			before := le.ExpireTime
			if time.Now().After(before) {
				rr, rerr := v.Do(vReq{Op: logical.UpdateOperation, Path: "sys/leases/renew", Token: v.Root, NS: c.ns.Path, Data: map[string]any{"lease_id": c.leaseID, "increment": 3600}})
				if vOK(rr, rerr) && rr != nil && rr.Secret != nil {
					step("renewal while lingering expired -> GRANTED %s", rr.Secret.TTL)
					r.Violate("C05-expired-lease-renewed"+batchSig, c.id, fmt.Sprintf("[%s] lease (namespace %q) whose stored expiry %s had passed and whose revocation had already failed %d time(s) was renewed (granted %s)", c.id, c.ns.Path,
						before.Format(time.RFC3339Nano), attemptsOf(c.secretID), rr.Secret.TTL), c.steps)
					return
				}
				step("renewal while lingering expired -> %s", vErrStr(rr, rerr))
				r.Count("lingering_expired_renewal_refused", 1)
			}
		}
		if time.Now().After(deadline) {
			r.Inconc("%s: lease not irrevocable 30s after expiry (%d failed revocations seen)", c.id, attemptsOf(c.secretID))
			return
		}
		time.Sleep(15 * time.Millisecond)
	}
	att := attemptsOf(c.secretID)
	step("irrevocable after %d failed revocations", att)
	r.Count("became_irrevocable", 1)
	r.Count("failed_revocations_before_irrevocable", att)
	if att > maxRevokeAttempts {
		r.Violate("C05-retry-budget-exceeded", c.id, fmt.Sprintf("[%s] %d failed revocation attempts before the lease was marked irrevocable (budget %d)", c.id, att, maxRevokeAttempts), c.steps)
		return
	}
	tr := c05Tracker(v.Core)
	if got, ok := tr[c.leaseID]; !ok {
		r.Violate("C05-stored-lease-untracked", c.id, fmt.Sprintf("[%s] irrevocable lease is stored but in none of pending/nonexpiring/irrevocable", c.id), c.steps)
		return
	} else if got.Where != "irrevocable" {
		r.Count("irrevocable_in_storage_tracked_as_"+got.Where, 1)
	}
	rr, rerr := v.Do(vReq{Op: logical.UpdateOperation, Path: "sys/leases/renew", Token: v.Root, NS: c.ns.Path, Data: map[string]any{"lease_id": c.leaseID, "increment": 3600}})
	if vOK(rr, rerr) && rr != nil && rr.Secret != nil {
		r.Violate("C05-irrevocable-lease-renewed", c.id, fmt.Sprintf("[%s] irrevocable lease was renewed (granted %s)", c.id, rr.Secret.TTL), c.steps)
		return
	}
	r.Count("irrevocable_renewal_refused", 1)
	// no further automatic attempts once irrevocable
	time.Sleep(300 * time.Millisecond)
	if now := attemptsOf(c.secretID); now > maxRevokeAttempts {
		r.Violate("C05-retry-budget-exceeded", c.id, fmt.Sprintf("[%s] revocation attempts continue after the irrevocable mark: %d (budget %d)", c.id, now, maxRevokeAttempts), c.steps)
		return
	}
	c.ok = true
}

func c05RetryToken(e *c05Env, r *kit.Result, caseID string, n *c05NS) {
	v := e.v
	r.Eval(1)
	tk, resp, err := v.CreateToken(v.Root, map[string]any{"policies": []string{"default"}, "ttl": "2s"}, false, n.Path)
	if tk == nil {
		r.Inconc("%s: token create failed: %s", caseID, vErrStr(resp, err))
		return
	}
	leaseID, err := c05TokenLeaseID(v, n.Path, tk.ID)
	if err != nil {
		r.Inconc("%s: %v", caseID, err)
		return
	}
	le := c05ReadLease(v, n, leaseID)
	if le == nil {
		r.Inconc("%s: token lease not readable", caseID)
		return
	}
	salted := leaseID[strings.LastIndex(leaseID, "/")+1:]
	if i := strings.Index(salted, "."); i > 0 {
		salted = salted[:i]
	}
	// every storage operation on the token's own record fails: revokeTree cannot complete
	v.Probe.FailAll(func(ev kit.Event) bool { return strings.Contains(ev.Key, "sys/token/id/"+salted) })
	defer v.Probe.ClearFaults()
	for !time.Now().After(le.ExpireTime) {
		time.Sleep(10 * time.Millisecond)
	}
	deadline := time.Now().Add(30 * time.Second)
	for {
		cur := c05ReadLease(v, n, leaseID)
		if cur == nil {
			r.Count("token_variant_revoked_despite_faults", 1)
			return
		}
		if cur.isIrrevocable() {
			break
		}
		if time.Now().After(deadline) {
			r.Inconc("%s: token lease not irrevocable 30s after expiry", caseID)
			return
		}
		time.Sleep(15 * time.Millisecond)
	}
	r.Count("token_became_irrevocable", 1)
	tr := c05Tracker(v.Core)
	if _, ok := tr[leaseID]; !ok {
		r.Violate("C05-stored-lease-untracked", caseID, fmt.Sprintf("[%s] irrevocable token lease is stored but untracked", caseID), nil)
		return
	}
	v.Probe.ClearFaults()
	rr, rerr := v.Do(vReq{Op: logical.UpdateOperation, Path: "auth/token/renew", Token: v.Root, NS: n.Path, Data: map[string]any{"token": tk.ID, "increment": 3600}})
	if vOK(rr, rerr) && rr != nil && rr.Auth != nil {
		r.Violate("C05-irrevocable-lease-renewed", caseID, fmt.Sprintf("[%s] token whose lease is irrevocable (expired, revocation out of retries) was renewed (granted %s)", caseID, rr.Auth.TTL), nil)
		return
	}
	r.Count("irrevocable_token_renewal_refused", 1)
	resp, err = v.Do(vReq{Op: logical.UpdateOperation, Path: "sys/leases/revoke", Token: v.Root, NS: n.Path, Data: map[string]any{"lease_id": leaseID, "sync": true}})
	if !vOK(resp, err) || c05ReadLease(v, n, leaseID) != nil {
		r.Violate("C05-irrevocable-lease-not-revocable-after-recovery", caseID, fmt.Sprintf("[%s] irrevocable token lease cannot be revoked after the storage faults stopped: %s", caseID, vErrStr(resp, err)), nil)
		return
	}
	r.Count("irrevocable_token_revoked_after_recovery", 1)
	r.Nontrivial(caseID)
}

// c05RetryMarkFault: the backend revocation fails and, in addition, every write of the
// lease record fails from the moment the lease is registered (so the only write that
// is hit is the one recording the irrevocable mark). Once the harness has seen the
// whole retry budget spent, the lease must be in the irrevocable set (the property's
// "tracked for expiry, or marked irrevocable after its retry budget"): a lease that is
// merely left in pending with its budget spent is never attempted again.
func c05RetryMarkFault(e *c05Env, r *kit.Result, caseID string, n *c05NS, lateFault bool, setFailing func(string, bool), attemptsOf func(string) int) {
	v := e.v
	r.Eval(1)
	resp, err := v.Do(vReq{Op: logical.ReadOperation, Path: "c05rec/lease/mf", Token: v.Root, NS: n.Path, Data: map[string]any{"ttl": "2s", "max_ttl": "1h"}})
	if !vOK(resp, err) || resp == nil || resp.Secret == nil {
		r.Inconc("%s: leased read failed: %s", caseID, vErrStr(resp, err))
		return
	}
	leaseID, sid := resp.Secret.LeaseID, c05SecretID(resp)
	setFailing(sid, true)
	defer setFailing(sid, false)
	physKey := n.Prefix + c05LeaseMarker + leaseID
	steps := []string{fmt.Sprintf("leased secret ns=%q ttl=2s; backend revocation fails", n.Path)}
	arm := func() {
		v.Probe.FailAll(func(ev kit.Event) bool { return ev.Op == "put" && ev.Key == physKey })
	}
	if !lateFault {
		arm()
		steps = append(steps, "every write of the lease record fails from now on")
	}
	defer v.Probe.ClearFaults()
	deadline := time.Now().Add(40 * time.Second)
	armed := !lateFault
	for attemptsOf(sid) < maxRevokeAttempts {
		if !armed && attemptsOf(sid) >= 2 {
			arm()
			armed = true
			steps = append(steps, "after 2 failed revocations every write of the lease record fails")
		}
		if time.Now().After(deadline) {
			r.Inconc("%s: retry budget not spent 40s after issue (%d failed revocations)", caseID, attemptsOf(sid))
			return
		}
		time.Sleep(10 * time.Millisecond)
	}
	steps = append(steps, fmt.Sprintf("%d failed revocations seen (budget %d)", attemptsOf(sid), maxRevokeAttempts))
	r.Count("budget_spent_with_failing_mark_write", 1)
	// persistent state on an idle core: polled until the lease is in the irrevocable set
	where := ""
	for p := 0; p < 60; p++ {
		tr, ok := c05Tracker(v.Core)[leaseID]
		where = tr.Where
		if !ok {
			where = "(untracked)"
		}
		if where == "irrevocable" {
			break
		}
		time.Sleep(50 * time.Millisecond)
	}
	fired := v.Probe.ClearFaults()
	if fired > 0 {
		r.Count("irrevocable_mark_write_failed", 1)
	}
	stored := c05ReadLease(v, n, leaseID)
	if stored == nil {
		r.Inconc("%s: lease vanished although its revocation is made to fail", caseID)
		return
	}
	if where != "irrevocable" {
		after := attemptsOf(sid)
		r.Violate("C05-retry-budget-spent-lease-neither-irrevocable-nor-retried", caseID, fmt.Sprintf("[%s] lease (namespace %q) is stored and expired, its revocation failed %d times (budget %d, write of the irrevocable mark failed: %v), 3s later it is tracked as %q, not in the irrevocable set, and no further revocation is attempted", caseID, n.Path, after, maxRevokeAttempts, fired > 0, where), steps)
		return
	}
	r.Count("irrevocable_in_memory_after_failed_mark_write", 1)
	if att := attemptsOf(sid); att > maxRevokeAttempts {
		r.Violate("C05-retry-budget-exceeded", caseID, fmt.Sprintf("[%s] %d failed revocation attempts (budget %d)", caseID, att, maxRevokeAttempts), steps)
		return
	}
	rr, rerr := v.Do(vReq{Op: logical.UpdateOperation, Path: "sys/leases/renew", Token: v.Root, NS: n.Path, Data: map[string]any{"lease_id": leaseID, "increment": 3600}})
	if vOK(rr, rerr) && rr != nil && rr.Secret != nil {
		r.Violate("C05-irrevocable-lease-renewed", caseID, fmt.Sprintf("[%s] lease out of revocation retries (mark not written) was renewed (granted %s)", caseID, rr.Secret.TTL), steps)
		return
	}
	// recovery: storage and backend work again
	setFailing(sid, false)
	resp, err = v.Do(vReq{Op: logical.UpdateOperation, Path: "sys/leases/revoke", Token: v.Root, NS: n.Path, Data: map[string]any{"lease_id": leaseID, "sync": true}})
	if !vOK(resp, err) || c05ReadLease(v, n, leaseID) != nil {
		r.Violate("C05-irrevocable-lease-not-revocable-after-recovery", caseID, fmt.Sprintf("[%s] lease out of retries cannot be revoked after storage and backend recovered: %s", caseID, vErrStr(resp, err)), steps)
		return
	}
	r.Count("markfault_lease_revoked_after_recovery", 1)
	r.Nontrivial(caseID)
}
