//go:build verif

package vault

// C02: policy changes under storage faults, and parameter constraints.

import (
	"fmt"
	"testing"
	"time"

	kit "github.com/openbao/openbao/sdk/v2/helper/verifkit"
	"github.com/openbao/openbao/sdk/v2/logical"
)

// TestVerif_C02_PolicyChangeFaults: "policy changes are honoured by the very next request" has a
// second half: a change the operator was told FAILED must not be in force. The durable text of the
// policy (what a core started on the same store would read) is what authorises from then on.
func TestVerif_C02_PolicyChangeFaults(t *testing.T) {
	seed := kit.Seed(2)
	shard, shards := kit.Shard()
	if shards > 1 && shard > 1 {
		t.Skip("shards 0 and 1 run the enumeration (one store kind each)")
	}
	r := kit.NewResult(t, "c02-policychangefaults", seed, "both store kinds x namespaces {root, ns1} x policy change {create, widen, restrict, delete} through sys/policies/acl x policy cached by a prior request of the holder (warm) or the policy cache purged (cold) x dependent request {read, write} x every storage operation i of the change request failing once (i = 0: none): the holder's request is sent before the change, the change is sent with the fault armed, the same request is sent again, then the policy cache is purged and the policy is read back from storage (all reads reach the store: the physical cache is off). Reference: a change that reported success is in force for the next request; after a change that reported an error the next request is authorised by the text that is durably stored (old or new), never by a text that was rejected. A case is non-trivial when the fault fired; distinct by (change, namespace, warm, op, failed operation and key class, reported, durable state)")
	r.Exhaustive = true
	defer r.Write(t)
	for ti, tx := range []bool{false, true} {
		if shards > 1 && ti != shard {
			continue
		}
		x := c02SmallWorld(t, r, seed, 980+uint64(ti), tx, true, []string{"", "ns1/"})
		v := x.v
		v.Core.physicalCache.SetEnabled(false) // the policy store keeps its LRU; every read reaches the store
		n := 0
		for _, ns := range x.w.NSs {
			for ki, kind := range []string{"create", "widen", "restrict", "delete"} {
				for wi, warm := range []bool{true, false} {
					for oi, op := range []string{"read", "update"} {
						if kit.Tier() == "quick" && (ki+wi+oi+ti)%2 == 1 && len(ns) > 0 {
							continue
						}
						nops := 1
						for i := 0; i <= nops; i++ {
							n++
							x.caseID = fmt.Sprintf("polchg:%v:%s:%s:%v:%s:%d", tx, ns, kind, warm, op, i)
							if i > 0 && !kit.WantCase(x.caseID) {
								continue
							}
							pname := fmt.Sprintf("pc%d", n)
							ruleA := c02Rule{Pat: fmt.Sprintf("kv/data/a%d", n), Caps: []string{"read", "create", "update"}}
							ruleB := c02Rule{Pat: fmt.Sprintf("kv/data/b%d", n), Caps: []string{"read", "create", "update"}}
							var oldR, newR []c02Rule
							switch kind {
							case "create":
								oldR, newR = nil, []c02Rule{ruleB}
							case "widen":
								oldR, newR = []c02Rule{ruleA}, []c02Rule{ruleA, ruleB}
							case "restrict":
								oldR, newR = []c02Rule{ruleA, ruleB}, []c02Rule{ruleA}
							case "delete":
								oldR, newR = []c02Rule{ruleB}, nil
							}
							p := &c02Policy{NS: ns, Name: pname, Rules: oldR}
							if oldR != nil {
								x.writePolicy(p)
							} else {
								x.w.Policies[ns+"|"+pname] = p
							}
							oldHCL := p.HCL()
							newHCL := (&c02Policy{Rules: newR}).HCL()
							tok := x.newTok(fmt.Sprintf("holder%d", n), "live", ns, map[string]any{"policies": []string{pname}}, "", "")
							q := &c02Req{Tok: tok, Op: op, Header: ns, Path: ruleB.Pat, Why: "depends on the changed policy"}
							if op == "update" {
								q.Data = map[string]any{"v": fmt.Sprint(n)}
							}
							if _, ok := x.do(q, "before-change"); !ok {
								return
							}
							if !warm {
								v.Core.policyStore.PurgeCache()
							}
							var faulted kit.Event
							if i > 0 {
								v.Probe.FailNth(func(e kit.Event) bool {
									if e.Tag != "chg" {
										return false
									}
									faulted = e
									return true
								}, i)
							}
							v.Probe.StartLog(false)
							var resp *logical.Response
							var err error
							if newR != nil {
								resp, err = v.Do(vReq{Tag: "chg", Op: logical.UpdateOperation, Path: "sys/policies/acl/" + pname, Token: v.Root, NS: ns, Data: map[string]any{"policy": newHCL}})
							} else {
								resp, err = v.Do(vReq{Tag: "chg", Op: logical.DeleteOperation, Path: "sys/policies/acl/" + pname, Token: v.Root, NS: ns})
							}
							evs := v.Probe.StopLog()
							fired := v.Probe.ClearFaults()
							if i == 0 {
								nops = 0
								for _, e := range evs {
									if e.Tag == "chg" {
										nops++
									}
								}
								r.Count("change_ops:"+kind, nops)
							}
							reported := vOK(resp, err)
							x.step("CHANGE %s of %s (fault at op %d: %s %s): %s", kind, pname, i, faulted.Op, c02KeyClass(faulted.Key), vErrStr(resp, err))
							// the very next request, judged below
							o := x.exec(q)
							// what is durably stored
							v.Core.policyStore.PurgeCache()
							rd, rerr := v.Do(vReq{Tag: "c02peek", Op: logical.ReadOperation, Path: "sys/policies/acl/" + pname, Token: v.Root, NS: ns})
							durable := "unreadable"
							switch {
							case rerr == nil && (rd == nil || rd.Data == nil):
								durable = "absent"
							case vOK(rd, rerr):
								switch text, _ := rd.Data["policy"].(string); text {
								case oldHCL:
									durable = "old"
								case newHCL:
									durable = "new"
								default:
									durable = "other"
								}
							}
							if oldR == nil && durable == "absent" {
								durable = "old"
							}
							if newR == nil && durable == "absent" {
								durable = "new"
							}
							stage := "after-successful-change"
							state := "new"
							if !reported {
								stage, state = "after-refused-change", durable
								r.Count("changes_reported_error", 1)
								r.Count("durable_after_reported_error:"+durable, 1)
							} else if durable != "new" {
								r.Violate("C02-policy-change-reported-success-but-not-stored", x.caseID, fmt.Sprintf("[%s] %s of policy %s in %q reported success; read back from storage the policy is %s", x.caseID, kind, pname, ns, durable), map[string]any{"recent_steps": x.steps})
								return
							}
							if fired > 0 {
								r.Count("faults_fired", 1)
								r.Nontrivial(fmt.Sprintf("%s|%s|%v|%s|%s %s|%v|%s", kind, ns, warm, op, faulted.Op, c02KeyClass(faulted.Key), reported, durable))
							}
							switch state {
							case "old":
								p.Rules, p.Exists = oldR, oldR != nil
							case "new":
								p.Rules, p.Exists = newR, newR != nil
							default:
								r.Count("durable_state_unreadable", 1)
								continue
							}
							vd := x.w.judge(q, time.Now())
							x.step("%s %s %s tok=%s -> ref %s (%s; policy is durably %s) / %s h=%d", stage, q.Op, q.Path, c02TokName(tok), vd.Kind, vd.Reason, durable, o.Resp, len(o.Handlers))
							if !x.check(q, vd, o, stage) {
								return
							}
							r.Count("next_request_follows:"+stage+":"+vd.Kind, 1)
							if _, ok := x.do(q, "after-cache-purge"); !ok {
								return
							}
							v.Do(vReq{Op: logical.DeleteOperation, Path: "sys/policies/acl/" + pname, Token: v.Root, NS: ns})
							delete(x.w.Policies, ns+"|"+pname)
						}
					}
				}
			}
		}
		v.Close()
	}
	if shards > 1 {
		return
	}
	r.Require("faults_fired", 150)
	r.Require("changes_reported_error", 100)
	r.Require("durable_after_reported_error:old", 60)
	r.Require("next_request_follows:after-refused-change:deny", 20)
	r.Require("next_request_follows:after-refused-change:allow", 20)
	r.Require("next_request_follows:after-successful-change:allow", 20)
	r.Require("next_request_follows:after-successful-change:deny", 20)
}

// TestVerif_C02_ParamConstraints: every constraint kind x every writing operation x parameter sets
// that satisfy / violate it.
func TestVerif_C02_ParamConstraints(t *testing.T) {
	seed := kit.Seed(2)
	shard, shards := kit.Shard()
	if shards > 1 && shard > 0 {
		t.Skip("shard 0 runs the enumeration")
	}
	r := kit.NewResult(t, "c02-paramconstraints", seed, "namespaces {root, ns1}; stanzas {denied owner=[] tier=[gold] + required ticket; allowed note=[]; allowed tier=[gold,silver] and \"*\"=[]; denied \"*\"=[]; required ticket, owner; allowed note=[x] with denied note=[x]; allowed v=[] granting patch only; no constraints (control)}, each granting create / update / patch on its own path, x operation {create (new key), update (existing key), patch (existing key), patch (new key)} x 13 parameter sets (empty, each required / allowed / denied / unlisted parameter present or absent, listed and unlisted values): reference = the documented rules applied alike to create, update and patch (required present; denied, incl. \"*\", wins over allowed; with allowed_parameters only listed parameters and values unless \"*\" is listed). Non-trivial: a request refused for its parameters; distinct by (stanza, op, parameter set)")
	r.Exhaustive = true
	defer r.Write(t)
	x := c02SmallWorld(t, r, seed, 978, false, true, []string{"", "ns1/"})
	defer x.v.Close()
	w := []string{"create", "update", "patch"}
	stanzas := []c02Rule{
		{Caps: append([]string{"read", "delete"}, w...), Denied: map[string][]string{"owner": {}, "tier": {"gold"}}, Required: []string{"ticket"}},
		{Caps: []string{"update", "patch", "create"}, Allowed: map[string][]string{"note": {}}},
		{Caps: w, Allowed: map[string][]string{"tier": {"gold", "silver"}, "*": {}}},
		{Caps: []string{"patch", "create"}, Denied: map[string][]string{"*": {}}},
		{Caps: w, Required: []string{"ticket", "owner"}},
		{Caps: w, Allowed: map[string][]string{"note": {"x"}}, Denied: map[string][]string{"note": {"x"}}},
		{Caps: []string{"patch"}, Allowed: map[string][]string{"v": {}}},
		{Caps: w},
	}
	datas := []map[string]any{
		nil, {"ticket": "1"}, {"ticket": "t", "owner": "o"}, {"ticket": "t", "tier": "gold"}, {"ticket": "t", "tier": "silver"}, {"note": "n"}, {"note": "x"},
		{"note": "n", "extra": "e"}, {"tier": "gold", "anything": "z"}, {"tier": "bronze"}, {"v": "c"}, {"ticket": "t", "owner": "o", "note": "x"}, {"owner": "o"},
	}
	for _, ns := range x.w.NSs {
		p := &c02Policy{NS: ns, Name: "params"}
		for i := range stanzas {
			ru := stanzas[i]
			ru.Pat = fmt.Sprintf("kv/data/pc%d/*", i)
			p.Rules = append(p.Rules, ru)
		}
		x.writePolicy(p)
		tok := x.newTok(ns+"params", "live", ns, map[string]any{"policies": []string{"params"}}, "", "")
		root := &c02Tok{Name: "root", Kind: "root", ID: x.v.Root, Root: true}
		for i := range stanzas {
			for di, data := range datas {
				for oi, op := range []string{"create", "update", "patch", "patch-new"} {
					x.caseID = fmt.Sprintf("params:%s:%d:%d:%s", ns, i, di, op)
					if !kit.WantCase(x.caseID) {
						continue
					}
					path := fmt.Sprintf("kv/data/pc%d/k%d-%d", i, di, oi)
					if op == "update" || op == "patch" { // the key exists
						if _, ok := x.do(&c02Req{Tok: root, Op: "update", Header: ns, Path: path, Data: map[string]any{"seed": "s"}}, "params-seed"); !ok {
							return
						}
					}
					q := &c02Req{Tok: tok, Op: op, Header: ns, Path: path, Why: "parameter matrix +parameters"}
					switch op {
					case "create":
						q.Op = "update" // a write to a new key is resolved to create by the existence check
					case "patch-new":
						q.Op = "patch"
					}
					if data != nil {
						q.Data = map[string]any{}
						for k, v := range data {
							q.Data[k] = v
						}
					}
					if ns != "" && (i+di)%3 == 0 {
						q.Header, q.Path = "", ns+path
					}
					if _, ok := x.do(q, "params-matrix"); !ok {
						return
					}
				}
			}
		}
	}
	r.Require("refused_for_parameter_constraints:patch", 300)
	r.Require("refused_for_parameter_constraints:update", 150)
	r.Require("refused_for_parameter_constraints:create", 150)
	r.Require("served_within_parameter_constraints:patch", 150)
	r.Require("served_within_parameter_constraints:update", 80)
}
