//go:build verif

package vault

// C02, tokens that are reached through another token:
//
//   - token trees: a service token created by another one is revoked with it (tree
//     revocation: revoke, revoke-accessor, revoke-self, lease revoke, expiry), whatever
//     namespaces the tree passes through; revoke-orphan detaches the children instead.
//     After a tree revocation of an ancestor reported success every descendant must be
//     refused by the very next request.
//   - token handles as request parameters: auth/token/{lookup, lookup-accessor, renew,
//     renew-accessor, revoke, revoke-accessor, revoke-orphan} name a third token (by its
//     client form, by its internal `<id>.<namespace id>` form, or by accessor). Whatever
//     namespace the request is addressed to, the caller's authority is decided on the
//     namespace-qualified path of the namespace the NAMED token lives in; without it the
//     request must not return that token's data and must not change it (raw record and
//     lease untouched, token still usable).

import (
	"bytes"
	"context"
	"fmt"
	"strings"
	"testing"
	"time"

	kit "github.com/openbao/openbao/sdk/v2/helper/verifkit"
	"github.com/openbao/openbao/sdk/v2/logical"
)

// ---------------------------------------------------------------- token trees

func (t *c02Tok) descendants() []*c02Tok {
	var out []*c02Tok
	for _, k := range t.Kids {
		out = append(out, k)
		out = append(out, k.descendants()...)
	}
	return out
}

// presentAlive presents a token to its own lookup-self (harness observation).
func (x *c02Run) presentAlive(t *c02Tok) bool {
	resp, err := x.v.Do(vReq{Tag: "c02alive", Op: logical.ReadOperation, Path: "auth/token/lookup-self", Token: t.ID, NS: t.NS})
	return vOK(resp, err) && resp != nil && resp.Data != nil
}

// afterRevocation brings the descendants of p up to date after a revocation flow returned.
func (x *c02Run) afterRevocation(fl c02Flow, p *c02Tok, reported bool) {
	ds := p.descendants()
	if len(ds) == 0 {
		return
	}
	switch {
	case fl.name == "revoke-orphan":
		// the children are detached, not revoked (when the flow failed half-way they may be either:
		// a detached child and an attached one are both live)
		switch {
		case reported:
			for _, k := range p.Kids {
				k.Up = nil
			}
			p.Kids = nil
			x.r.Count("tree_children_orphaned", 1)
		case p.Revoked:
			for _, k := range p.Kids {
				k.MaybeOrphan = true
			}
		}
	case reported && !fl.queued:
		x.killTree(p)
	case reported && fl.queued:
		// 202: the worker carries the tree revocation out; it removes every descendant before the
		// record of p itself, so once that record is gone the tree revocation is complete
		for _, d := range ds {
			d.Limbo = true
		}
		if f := x.curFault; f != nil && f.fired.Load() > 0 {
			// the injected fault hit the worker: it retries in 10-30 s; nothing to wait for now
			x.r.Count("queued_tree_revocations_interrupted_by_the_fault", 1)
		} else if x.waitRecordAbsent(p, x.settleBudget(2*time.Second)) {
			x.killTree(p)
			x.r.Count("queued_tree_revocations_observed_complete", 1)
		} else {
			x.r.Count("queued_tree_revocations_unsettled", 1)
		}
	case fl.queued:
		for _, d := range ds {
			d.Limbo = true // a worker may retry later
		}
	default:
		// a synchronous tree revocation that failed half-way has revoked some descendants (leaves
		// first) and not others; nothing retries it. Each descendant is presented once: one the
		// server refuses stays revoked, one it serves is live.
		for _, d := range ds {
			if d.Revoked {
				continue
			}
			if !x.presentAlive(d) {
				d.Revoked, d.Kind = true, "revoked-with-ancestor"
				x.r.Count("descendants_refused_after_failed_tree_revocation", 1)
			} else {
				x.r.Count("descendants_live_after_failed_tree_revocation", 1)
			}
		}
	}
}

// killTree: a tree revocation of p has completed.
func (x *c02Run) killTree(p *c02Tok) {
	kids := append([]*c02Tok(nil), p.Kids...)
	for _, k := range kids {
		k.Limbo = false
		if k.MaybeOrphan && !k.Revoked {
			// attached or detached? Presented once: a token the server serves had been detached
			k.MaybeOrphan = false
			if x.presentAlive(k) {
				k.Up = nil
				for i, q := range p.Kids {
					if q == k {
						p.Kids = append(p.Kids[:i:i], p.Kids[i+1:]...)
						break
					}
				}
				for _, d := range k.descendants() {
					d.Limbo = false
				}
				x.r.Count("children_found_detached_after_failed_revoke_orphan", 1)
				continue
			}
		}
		if !k.Revoked {
			k.Revoked, k.Kind = true, "revoked-with-ancestor"
		}
		x.killTree(k)
	}
}

// settleBudget bounds the time one world spends waiting for workers (8 s in total); once it is
// spent a queued revocation is looked at once and otherwise left undecided.
func (x *c02Run) settleBudget(want time.Duration) time.Duration {
	if left := 8*time.Second - x.waited; left < want {
		if left < 0 {
			return 0
		}
		return left
	}
	return want
}

func (x *c02Run) waitRecordAbsent(p *c02Tok, max time.Duration) bool {
	t0 := time.Now()
	defer func() { x.waited += time.Since(t0) }()
	deadline := t0.Add(max)
	for {
		if x.parentRecord(p) == "absent" {
			return true
		}
		if time.Now().After(deadline) {
			return false
		}
		time.Sleep(5 * time.Millisecond)
	}
}

// chain builds root -> child -> ... with node i living in nss[i]; every node holds the catch-all
// policy of its namespace. fan: every node except the last also gets a second child (a leaf) in the
// namespace of its first child.
func (x *c02Run) chain(name string, nss []string, rootData map[string]any, fan bool) []*c02Tok {
	var nodes []*c02Tok
	for i, ns := range nss {
		data := map[string]any{"policies": []string{"c02-all"}}
		var by *c02Tok
		if i == 0 {
			for k, v := range rootData {
				data[k] = v
			}
		} else {
			by = nodes[i-1]
		}
		n := x.newParentBy(fmt.Sprintf("%s/n%d", name, i), "live", ns, data, by)
		nodes = append(nodes, n)
		if fan && i > 0 {
			x.newParentBy(fmt.Sprintf("%s/n%dleaf", name, i), "live", ns, map[string]any{"policies": []string{"c02-all"}}, nodes[i-1])
		}
	}
	return nodes
}

// treeShapes: chains whose links cross namespace boundaries, with at least two levels below a crossing.
func (w *c02World) treeShapes(rng *kit.Rand, n int) [][]string {
	var out [][]string
	for _, b := range w.NSs {
		if b == "" {
			continue
		}
		var ups, downs []string
		for _, a := range w.NSs {
			if a != b && strings.HasPrefix(b, a) {
				ups = append(ups, a)
			}
			if a != b && strings.HasPrefix(a, b) {
				downs = append(downs, a)
			}
		}
		for _, a := range ups {
			out = append(out, []string{a, b, b}, []string{a, b, b, b})
			if a != "" {
				out = append(out, []string{"", a, b, b})
			}
			for _, d := range downs {
				out = append(out, []string{a, b, d}, []string{a, b, d, d})
			}
		}
	}
	rng.Shuffle(len(out), func(i, j int) { out[i], out[j] = out[j], out[i] })
	if n > 0 && len(out) > n {
		out = out[:n]
	}
	return out
}

// treeFamily: the trees of a generated world.
func (x *c02Run) treeFamily() {
	for i, sh := range x.w.treeShapes(x.rng, 4) {
		nodes := x.chain(fmt.Sprintf("tree%d", i), sh, nil, x.rng.Chance(1, 2))
		// a batch token at the bottom hangs off the whole chain
		last := nodes[len(nodes)-1]
		if c, _ := x.batchChild(fmt.Sprintf("tree%d/batch", i), last, []string{"c02-all"}); c != nil {
			x.r.Count("world_tree_batch_leaves", 1)
		}
		x.r.Count("world_trees", 1)
	}
}

// ---------------------------------------------------------------- token handles as request parameters

var c02HandleEndpoints = []string{"lookup", "lookup-accessor", "renew", "renew-accessor", "revoke", "revoke-accessor", "revoke-orphan"}

// handlePolicies: callers of namespace ns whose policies grant the token endpoints only in their
// own namespace, only on a descendant's path, without sudo, or as a generated mix.
func (x *c02Run) handleCallers(ns, nsTag string) {
	w, rng := x.w, x.rng
	allCaps := append([]string(nil), c02CapNames...)
	x.writePolicy(&c02Policy{NS: ns, Name: "hown", Rules: []c02Rule{{Pat: "auth/token/*", Caps: allCaps}}})
	x.writePolicy(&c02Policy{NS: ns, Name: "hnosudo", Rules: []c02Rule{{Pat: "auth/token/*", Caps: []string{"read", "update"}}}})
	x.newTok(nsTag+"/hown", "live", ns, map[string]any{"policies": []string{"hown"}}, "", "")
	x.newTok(nsTag+"/hnosudo", "live", ns, map[string]any{"policies": []string{"hnosudo"}}, "", "")
	var kids []string
	for _, c := range w.NSs {
		if c != ns && strings.HasPrefix(c, ns) {
			kids = append(kids, c[len(ns):])
		}
	}
	if len(kids) > 0 {
		var rules []c02Rule
		for _, k := range kids {
			if rng.Chance(2, 3) || len(rules) == 0 {
				rules = append(rules, c02Rule{Pat: k + "auth/token/*", Caps: allCaps})
			}
		}
		x.writePolicy(&c02Policy{NS: ns, Name: "hdesc", Rules: rules})
		x.newTok(nsTag+"/hdesc", "live", ns, map[string]any{"policies": []string{"hdesc"}}, "", "")
	}
	// generated mix of single endpoints, own namespace or one level below
	var rules []c02Rule
	seen := map[string]bool{}
	for len(rules) < 4 {
		pat := kit.Pick(rng, []string{"", "+/"}) + "auth/token/" + kit.Pick(rng, append(append([]string(nil), c02HandleEndpoints...), "renew*", "revoke*", "lookup*"))
		if seen[pat] {
			continue
		}
		seen[pat] = true
		caps := []string{"update"}
		if rng.Chance(1, 2) {
			caps = append(caps, "read")
		}
		if rng.Chance(1, 3) {
			caps = append(caps, "sudo")
		}
		rules = append(rules, c02Rule{Pat: pat, Caps: caps})
	}
	x.writePolicy(&c02Policy{NS: ns, Name: "hmix", Rules: rules})
	x.newTok(nsTag+"/hmix", "live", ns, map[string]any{"policies": []string{"hmix"}}, "", "")
	// targets: plain tokens without any authority of their own
	for i := 0; i < 2; i++ {
		x.newParent(fmt.Sprintf("%s/htarget%d", nsTag, i), "live", ns, map[string]any{"policies": []string{"c02-all"}})
	}
}

type c02HandleOutcome struct {
	Resp       string   `json:"response"`
	OK         bool     `json:"non_error"`
	DataKeys   []string `json:"response_data_keys,omitempty"`
	HasAuth    bool     `json:"response_has_auth,omitempty"`
	RecordDiff bool     `json:"target_record_changed"`
	LeaseDiff  bool     `json:"target_lease_changed"`
	Handlers   int      `json:"recording_handler_events"`
	Changed    bool     `json:"mount_storage_changed"`
	Writes     []string `json:"tagged_writes,omitempty"`
	StillAlive *bool    `json:"target_usable_afterwards,omitempty"`
}

func (x *c02Run) rawOf(key string) []byte {
	if key == "" {
		return nil
	}
	e, err := x.v.Probe.Inner().Get(context.Background(), key)
	if err != nil || e == nil {
		return nil
	}
	return e.Value
}

// handleDo sends one token-handle request and judges it. form: "client" | "internal" | "accessor".
func (x *c02Run) handleDo(k, t *c02Tok, ep, form, hdr, op, stage string) bool {
	r, v, w := x.r, x.v, x.w
	now := time.Now()
	acc := strings.HasSuffix(ep, "-accessor")
	handle, field := t.ID, "token"
	switch {
	case acc:
		handle, field, form = t.Accessor, "accessor", "accessor"
	case form == "internal":
		in, err := v.Core.DecodeSSCToken(t.ID)
		if err != nil || in == "" {
			r.Count("handle_internal_form_unavailable", 1)
			return true
		}
		handle = in
	}
	// the reference: the caller's authority on the named token's namespace
	need := "update"
	if op == "read" {
		need = "read"
	}
	abs := t.NS + "auth/token/" + ep
	eff, why, live, lwhy := "deny", "no token", "dead", "absent"
	if k != nil {
		live, lwhy = k.liveness("", now)
		eff, why = "deny", "forged token"
		if !k.Forged {
			eff, why = w.aclAllows(k, t.NS, abs, need, ep == "revoke-orphan", now)
		}
	}
	if live == "unknown" || eff == "unknown" {
		r.Count("handle_requests_outside_reference", 1)
		return true
	}
	refuse := live == "dead" || eff == "deny"
	reason := "policy: " + why
	if live == "dead" {
		reason = "caller token: " + lwhy
	}
	// execute
	x.nreq++
	r.Eval(1)
	rec0, lease0 := x.rawOf(t.Keys.IDKey), x.rawOf(t.Keys.LeaseKey)
	tok := ""
	if k != nil {
		tok = k.ID
	}
	mark := v.Rec.Len()
	v.Probe.StartLog(false)
	resp, err := v.Do(vReq{Tag: "req", Op: logical.Operation(op), Path: "auth/token/" + ep, Token: tok, NS: hdr, Data: map[string]any{field: handle}})
	evs := v.Probe.StopLog()
	o := &c02HandleOutcome{Resp: vErrStr(resp, err), OK: vOK(resp, err)}
	if len(o.Resp) > 200 {
		o.Resp = o.Resp[:200]
	}
	if resp != nil {
		o.HasAuth = resp.Auth != nil
		for key := range resp.Data {
			if key != "error" {
				o.DataKeys = append(o.DataKeys, key)
			}
		}
	}
	for _, e := range v.Rec.Since(mark) {
		if e.Kind == "handler" || e.Kind == "login" {
			o.Handlers++
		}
	}
	for _, e := range evs {
		if e.Tag == "req" && (e.Op == "put" || e.Op == "delete") && e.Err == "" {
			o.Writes = append(o.Writes, e.Op+" "+e.Key)
		}
	}
	rec1, lease1 := x.rawOf(t.Keys.IDKey), x.rawOf(t.Keys.LeaseKey)
	o.RecordDiff, o.LeaseDiff = !bytes.Equal(rec0, rec1), !bytes.Equal(lease0, lease1)
	d := x.storageDigest()
	o.Changed = d != x.digest
	x.digest = d
	rel := c02Related(c02NSOf(k), t.NS)
	x.step("%s %s auth/token/%s %s=%s-form of %s hdr=%q caller=%s -> ref %v (%s) / %s", stage, op, ep, field, form, c02TokName(t), hdr, c02TokName(k), map[bool]string{true: "refuse", false: "authorised"}[refuse], reason, o.Resp)
	bad := func(class, what string) bool {
		r.Violate(class, x.caseID, fmt.Sprintf("[%s %s] %s auth/token/%s (header %q) by %s naming %s of namespace %q by its %s form: %s; reference: the caller's authority on %q: %s; observed: %s",
			x.caseID, stage, op, ep, hdr, c02TokName(k), c02TokName(t), t.NS, form, what, abs, reason, o.Resp),
			map[string]any{"endpoint": ep, "op": op, "header": hdr, "caller": k, "caller_rules": x.rulesOf(k), "target": t, "handle_form": form, "qualified_path_of_target": abs,
				"reference": map[string]any{"refuse": refuse, "reason": reason}, "outcome": o, "recent_steps": x.steps, "world": x.w})
		x.aborted = true
		return false
	}
	if o.Handlers > 0 || o.Changed {
		return bad("C02-misrouted", "a recording backend ran or its storage changed during a token store request")
	}
	if refuse {
		r.Count("handle_refuse:"+ep, 1)
		r.Count("handle_refuse_form:"+form, 1)
		r.Count("handle_refuse_target_in:"+rel, 1)
		if k != nil && live == "live" {
			if ok, _ := w.aclAllows(k, c02CanonHeader(hdr), c02CanonHeader(hdr)+"auth/token/"+ep, need, false, now); ok == "allow" {
				// the caller does hold the endpoint in the namespace the request is addressed to
				r.Count("handle_refuse_though_allowed_on_addressed_namespace", 1)
				r.Count("handle_refuse_though_allowed_on_addressed_namespace:"+form, 1)
				r.Nontrivial("handle|" + ep + "|" + form + "|" + rel + "|" + op)
			}
		}
		if t.NS == "" && !acc && c02CanonHeader(hdr) != "" && (o.OK || len(o.DataKeys) > 0) {
			// Known behaviour of the unchanged tree (registered for C12 as F47): an id without namespace suffix
			// is not re-routed; the token mount of the addressed child namespace serves the request under the
			// caller's authority THERE and TokenStore.lookupInternal resolves the id in the root namespace.
			// Narrow signature: root-namespace token named by id, request addressed to a child namespace on
			// whose path the caller does hold the endpoint. Anything else falls through to the general class.
			if ok, _ := w.aclAllows(k, c02CanonHeader(hdr), c02CanonHeader(hdr)+"auth/token/"+ep, need, false, now); k != nil && live == "live" && ok == "allow" {
				r.Count("root_namespace_id_served_by_child_namespace:"+ep, 1)
				if r.Get("root_namespace_id_served_by_child_namespace_reported") < 3 {
					r.Count("root_namespace_id_served_by_child_namespace_reported", 1)
					bad("C02-root-namespace-token-id-honoured-by-child-namespace-token-store", fmt.Sprintf("the token mount of namespace %q served the request for a token of the root namespace (response data %v, record changed %v, lease changed %v)", c02CanonHeader(hdr), o.DataKeys, o.RecordDiff, o.LeaseDiff))
					x.aborted = false
				}
				if strings.HasPrefix(ep, "revoke") && (o.RecordDiff || o.LeaseDiff || !x.presentAlive(t)) {
					// keep the reference in step with what happened
					fl := c02Flow{name: "revoke"}
					if ep == "revoke-orphan" {
						fl.name = ep
					}
					if !x.presentAlive(t) {
						t.Revoked, t.Kind = true, "revoked"
						x.afterRevocation(fl, t, true)
					}
				}
				return true
			}
		}
		if o.OK {
			return bad("C02-token-handle-served-without-authority-on-targets-namespace", "the request returned a non-error response")
		}
		if len(o.DataKeys) > 0 || o.HasAuth {
			return bad("C02-token-handle-served-without-authority-on-targets-namespace", fmt.Sprintf("the response carries data %v / auth", o.DataKeys))
		}
		if o.RecordDiff || o.LeaseDiff {
			return bad("C02-token-handle-changed-target-without-authority", fmt.Sprintf("the named token's raw record changed: %v, its lease changed: %v", o.RecordDiff, o.LeaseDiff))
		}
		for _, wk := range o.Writes {
			if !c02Bookkeeping(wk) {
				return bad("C02-storage-write-on-refused", "a refused request wrote outside token/lease bookkeeping: "+wk)
			}
		}
		if s, _ := t.liveness("", time.Now()); s == "live" {
			alive := x.presentAlive(t)
			o.StillAlive = &alive
			if !alive {
				// The refused request changed neither the token's record nor its lease (checked above), so the
				// token was not accepted before it either: the reference's picture of the token was stale
				// (e.g. a revocation of an ancestor through another handle). Not attributable to this request.
				r.Count("handle_refused_target_was_already_dead_reference_stale", 1)
				r.Note("case %s: %s named by %s was already not accepted before the refused %s request (record and lease unchanged by it); the reference still listed it as live", x.caseID, c02TokName(t), c02TokName(k), ep)
				t.Revoked, t.Kind = true, "revoked"
				return true
			}
			r.Count("handle_refused_target_still_usable", 1)
		}
		return true
	}
	// authorised on the target's namespace
	r.Count("handle_authorised:"+ep, 1)
	if !o.OK {
		// the handler may still decline (an accessor is only resolved in its own namespace, revoke-orphan
		// asks the token store for sudo again, a token may not be renewable)
		r.Count("handle_authorised_declined:"+ep, 1)
		if strings.HasPrefix(ep, "revoke") && (o.RecordDiff || o.LeaseDiff) {
			// an error after the revocation started: settle by presenting the token once
			if !x.presentAlive(t) {
				t.Revoked, t.Kind = true, "revocation-interrupted"
				x.afterRevocation(c02Flow{name: ep}, t, false)
			}
		}
		return true
	}
	r.Count("handle_authorised_served:"+ep, 1)
	r.Count("handle_authorised_served_form:"+form, 1)
	r.Count("handle_authorised_served_target_in:"+rel, 1)
	r.Nontrivial("handle-ok|" + ep + "|" + form + "|" + rel)
	switch {
	case strings.HasPrefix(ep, "lookup"):
		if a, _ := resp.Data["accessor"].(string); a != t.Accessor {
			return bad("C02-token-handle-resolved-to-another-token", fmt.Sprintf("the lookup answered with accessor %q, the named token has %q", a, t.Accessor))
		}
	case strings.HasPrefix(ep, "revoke"):
		fl := c02Flow{name: "revoke"}
		if ep == "revoke-orphan" {
			fl.name = ep
		}
		if t.NS == "" && !acc && c02CanonHeader(hdr) != "" && x.presentAlive(t) {
			// same root cause as above (F47 under C12): the token store of the addressed child namespace
			// looks for the salted id in its own storage, finds nothing and reports success
			r.Count("root_namespace_id_revocation_through_child_namespace_without_effect:"+ep, 1)
			if r.Get("root_namespace_id_revocation_without_effect_reported") < 2 {
				r.Count("root_namespace_id_revocation_without_effect_reported", 1)
				bad("C02-root-namespace-token-id-revocation-through-child-namespace-reported-success-without-effect", "the revocation was reported successful and the token is still accepted")
				x.aborted = false
			}
			return true
		}
		t.Revoked, t.Kind = true, "revoked"
		x.afterRevocation(fl, t, true)
		// the very next request with the revoked token and with each descendant
		for _, d := range append([]*c02Tok{t}, t.descendants()...) {
			if _, ok := x.do(x.dataProbe(d, false), stage+"-after-revoke"); !ok {
				return false
			}
		}
	}
	return true
}

func c02NSOf(t *c02Tok) string {
	if t == nil {
		return ""
	}
	return t.NS
}

// handleSweep: generated (caller, named token, endpoint, form, addressed namespace) combinations.
func (x *c02Run) handleSweep(stage string, n int) {
	w, rng := x.w, x.rng
	var special, others []*c02Tok
	for _, t := range w.Toks {
		if t.UsesMax > 0 || t.CIDR != "" || t.Short || t.Batch {
			continue
		}
		if i := strings.LastIndex(t.Name, "/h"); i >= 0 && !strings.Contains(t.Name, "htarget") {
			special = append(special, t)
		} else {
			others = append(others, t)
		}
	}
	for i := 0; i < n && !x.aborted; i++ {
		var k *c02Tok
		switch c := rng.Intn(20); {
		case c == 0:
		case c < 13 && len(special) > 0:
			k = kit.Pick(rng, special)
		default:
			k = kit.Pick(rng, others)
		}
		var targets []*c02Tok
		for _, t := range w.Toks {
			if t.Keys != nil && t != k && !t.Forged && t.UsesMax == 0 && !t.Short {
				if s, _ := t.liveness("", time.Now()); s == "live" {
					targets = append(targets, t)
				}
			}
		}
		if len(targets) < 4 {
			ns := kit.Pick(rng, w.NSs)
			x.pairs++
			targets = append(targets, x.newParent(fmt.Sprintf("h/target%d", x.pairs), "live", ns, map[string]any{"policies": []string{"c02-all"}}))
		}
		t := kit.Pick(rng, targets)
		ep := kit.Pick(rng, c02HandleEndpoints)
		form := kit.Pick(rng, []string{"client", "client", "internal"})
		op := "update"
		if ep == "lookup" && rng.Chance(1, 4) {
			op = "read"
		}
		hdr := kit.Pick(rng, w.NSs)
		switch rng.Intn(4) {
		case 0:
			hdr = c02NSOf(k)
		case 1:
			hdr = t.NS
		}
		x.handleDo(k, t, ep, form, hdr, op, stage)
	}
}

// ---------------------------------------------------------------- dedicated tests

func c02SmallWorld(t *testing.T, r *kit.Result, seed int64, stream uint64, tx, cache bool, nss []string) *c02Run {
	v := vBoot(t, vOpts{Transactional: tx, Cache: cache})
	x := &c02Run{t: t, r: r, v: v, rng: kit.NewRand(seed, stream), w: &c02World{NSs: nss, Policies: map[string]*c02Policy{}}}
	for _, ns := range nss {
		if ns == "" {
			continue
		}
		parts := strings.Split(strings.TrimSuffix(ns, "/"), "/")
		parent := strings.Join(parts[:len(parts)-1], "/")
		if parent != "" {
			parent += "/"
		}
		v.MustDo(vReq{Op: logical.UpdateOperation, Path: "sys/namespaces/" + parts[len(parts)-1], Token: v.Root, NS: parent})
	}
	for _, ns := range nss {
		for _, mp := range []string{"kv/", "auth/rec/"} {
			m := &c02Mount{NS: ns, Path: mp, Abs: ns + mp, Auth: strings.HasPrefix(mp, "auth/")}
			x.w.Mounts = append(x.w.Mounts, m)
			x.mount(m)
		}
		x.writePolicy(&c02Policy{NS: ns, Name: "c02-all", Rules: []c02Rule{{Pat: "*", Caps: append([]string(nil), c02CapNames...)}}})
	}
	x.digest = x.storageDigest()
	return x
}

func TestVerif_C02_TokenTrees(t *testing.T) {
	seed := kit.Seed(2)
	shard, shards := kit.Shard()
	if shards > 1 && shard > 1 {
		t.Skip("shards 0 and 1 run the enumeration (one store kind each)")
	}
	r := kit.NewResult(t, "c02-tokentrees", seed, "namespaces {root, ns1, ns1/sub, ns2} on both store kinds; every chain of service tokens root -> child -> ... (3-5 levels, with and without an extra leaf per level) whose links cross namespace boundaries with at least two levels below a crossing (parent namespace -> namespace -> namespace, -> child namespace, skipping a level, starting in a child namespace) x every node of the chain but the last x every way to revoke it (revoke, revoke-accessor, revoke-self, lease revoke synchronous, lease revoke queued, revoke-orphan as the control that must leave the children usable; plus a 1 s TTL on the chain's root that is waited out): all nodes are first shown to be usable, then, after the revocation reported success (queued / expiry: after the revoked node's record was seen to be gone), the revoked node, every descendant and every ancestor are presented in the very next requests and judged by the reference authoriser (descendants refused without handler or storage change, ancestors and orphaned children still served). A case is non-trivial when a descendant in another namespace than the revoked node was judged; distinct by (shape, revoked level, flow, store)")
	r.Exhaustive = true
	defer r.Write(t)
	flows := c02Flows()
	for ti, tx := range []bool{false, true} {
		if shards > 1 && ti != shard {
			continue
		}
		x := c02SmallWorld(t, r, seed, 990+uint64(ti), tx, tx, []string{"", "ns1/", "ns1/sub/", "ns2/"})
		shapes := x.w.treeShapes(x.rng, 0)
		sweep := func(nodes []*c02Tok, stage string) bool {
			for _, n := range nodes {
				for _, tk := range append([]*c02Tok{n}, n.Kids...) {
					if _, ok := x.do(x.dataProbe(tk, x.rng.Chance(1, 2)), stage); !ok {
						return false
					}
				}
			}
			return true
		}
		ncase := 0
		var expiring [][]*c02Tok
		for si, sh := range shapes {
			for k := 0; k < len(sh)-1; k++ {
				for fi, fl := range flows {
					ncase++
					if kit.Tier() == "quick" && (si+k+fi+ti)%2 == 1 && fl.name != "revoke" {
						continue
					}
					x.caseID = fmt.Sprintf("tree:%v:%s:%d:%s", tx, strings.Join(sh, ">"), k, fl.name)
					if !kit.WantCase(x.caseID) {
						continue
					}
					nodes := x.chain(fmt.Sprintf("t%d", ncase), sh, nil, ncase%2 == 0)
					if !sweep(nodes, "tree-before") {
						return
					}
					st := x.revokeAndClassify(fl, nodes[k], nil)
					r.Count("tree_revocations:"+fl.name+":"+st, 1)
					crossing := false
					for _, d := range nodes[k].descendants() {
						if d.NS != nodes[k].NS {
							crossing = true
						}
					}
					for _, d := range nodes[k+1:] {
						if d.Revoked && d.NS != nodes[k].NS {
							crossing = true
						}
					}
					if crossing {
						r.Nontrivial(fmt.Sprintf("%s|%d|%s|%v", strings.Join(sh, ">"), k, fl.name, tx))
					}
					if !sweep(nodes, "tree-after-"+fl.name) {
						return
					}
				}
			}
			// expiry of the chain's root
			if si%2 == ti {
				expiring = append(expiring, x.chain(fmt.Sprintf("te%d", si), sh, map[string]any{"ttl": "1s"}, false))
			}
		}
		var latest time.Time
		for _, nodes := range expiring {
			if nodes[0].ExpireUpper.After(latest) {
				latest = nodes[0].ExpireUpper
			}
		}
		if d := time.Until(latest); d > 0 {
			time.Sleep(d + 50*time.Millisecond)
		}
		for i, nodes := range expiring {
			x.caseID = fmt.Sprintf("tree:%v:expiry:%d", tx, i)
			if !kit.WantCase(x.caseID) {
				continue
			}
			for _, d := range nodes[0].descendants() {
				d.Limbo = true
			}
			if x.waitRecordAbsent(nodes[0], 3*time.Second) {
				x.killTree(nodes[0])
				r.Count("expired_tree_roots_observed_reaped", 1)
			} else {
				r.Count("expired_tree_roots_not_reaped_in_time", 1)
			}
			if !sweep(nodes, "tree-after-expiry") {
				return
			}
		}
		x.v.Close()
		if r.NViolations() > 0 {
			break
		}
	}
	if shards > 1 {
		return
	}
	r.Require("wouldallow_refused:revoked-with-ancestor", 600)
	r.Require("tree_children_orphaned", 20)
	r.Require("queued_tree_revocations_observed_complete", 20)
	r.Require("expired_tree_roots_observed_reaped", 6)
	r.Require("authorised_handled", 1500)
}

func TestVerif_C02_TokenHandles(t *testing.T) {
	seed := kit.Seed(2)
	shard, shards := kit.Shard()
	if shards > 1 && shard > 1 {
		t.Skip("shards 0 and 1 run the matrix (one store kind each)")
	}
	r := kit.NewResult(t, "c02-tokenhandles", seed, "namespaces {root, ns1, ns1/sub, ns2} on both store kinds; callers of every namespace whose policies grant auth/token/* only in their own namespace (with and without sudo), only on a descendant namespace's path, or a generated mix of single endpoints, plus the catch-all holder and the root-policy token of every namespace, the root token, a revoked caller and no token x a named token of every namespace x auth/token/{lookup (update and read), lookup-accessor, renew, renew-accessor, revoke, revoke-accessor, revoke-orphan} x the handle in client form and in internal <id>.<namespace id> form (accessor endpoints: the accessor) x the request addressed to the caller's namespace, the target's namespace, the root namespace and one other. Reference: the caller must be live and its policies must allow the operation on <namespace of the named token>/auth/token/<endpoint> (sudo for revoke-orphan); otherwise the request must fail, carry no data, leave the named token's raw record and lease byte-identical and the token usable; when authorised and served, a lookup must answer with the named token's accessor and a revocation must make the token and its descendants refused by the very next request. A request is non-trivial when it was refused although the caller holds the endpoint in the namespace the request was addressed to, or when it was served; distinct by (endpoint, form, relation of the namespaces, op)")
	r.Exhaustive = true
	defer r.Write(t)
	for ti, tx := range []bool{false, true} {
		if shards > 1 && ti != shard {
			continue
		}
		x := c02SmallWorld(t, r, seed, 988+uint64(ti), tx, !tx, []string{"", "ns1/", "ns1/sub/", "ns2/"})
		x.caseID = fmt.Sprintf("handles:%v", tx)
		if !kit.WantCase(x.caseID) {
			x.v.Close()
			continue
		}
		var callers []*c02Tok
		for _, ns := range x.w.NSs {
			tag := strings.ReplaceAll(strings.TrimSuffix(ns, "/"), "/", ".")
			if tag == "" {
				tag = "root"
			}
			n0 := len(x.w.Toks)
			x.handleCallers(ns, tag)
			for _, tk := range x.w.Toks[n0:] {
				if !strings.Contains(tk.Name, "htarget") {
					callers = append(callers, tk)
				}
			}
			callers = append(callers, x.newTok(tag+"/admin", "live", ns, map[string]any{"policies": []string{"c02-all"}}, "", ""))
			rv := x.newTok(tag+"/hown-revoked", "revoked", ns, map[string]any{"policies": []string{"hown"}}, "", "")
			x.v.MustDo(vReq{Op: logical.UpdateOperation, Path: "auth/token/revoke", Token: x.v.Root, Data: map[string]any{"token": rv.ID}, NS: ns})
			rv.Revoked = true
			callers = append(callers, rv)
			if ns != "" {
				n1 := len(x.w.Toks)
				x.nsRootTokens(ns, tag)
				callers = append(callers, x.w.Toks[n1])
			}
		}
		root := &c02Tok{Name: "root", Kind: "root", NS: "", ID: x.v.Root, Root: true}
		x.w.Toks = append(x.w.Toks, root)
		callers = append(callers, root, nil)
		target := map[string]*c02Tok{}
		nt := 0
		for _, k := range callers {
			for _, tns := range x.w.NSs {
				for _, ep := range c02HandleEndpoints {
					forms := []string{"client", "internal"}
					if strings.HasSuffix(ep, "-accessor") {
						forms = []string{"accessor"}
					}
					for _, form := range forms {
						hdrs := map[string]bool{c02NSOf(k): true, tns: true, "": true}
						for _, o := range x.w.NSs {
							if !hdrs[o] {
								hdrs[o] = true
								break
							}
						}
						for _, hdr := range c02SortedKeys(hdrs) {
							tg := target[tns]
							if tg == nil || tg.Revoked {
								nt++
								tg = x.newParent(fmt.Sprintf("tg%d", nt), "live", tns, map[string]any{"policies": []string{"c02-all"}})
								// a child and a grand-child, so that a served revocation has a tree to take along
								c := x.newParentBy(fmt.Sprintf("tg%d/c", nt), "live", tns, map[string]any{"policies": []string{"c02-all"}}, tg)
								x.newParentBy(fmt.Sprintf("tg%d/g", nt), "live", tns, map[string]any{"policies": []string{"c02-all"}}, c)
								target[tns] = tg
							}
							ops := []string{"update"}
							if ep == "lookup" {
								ops = append(ops, "read")
							}
							for _, op := range ops {
								if !x.handleDo(k, tg, ep, form, hdr, op, "matrix") {
									return
								}
							}
						}
					}
				}
			}
		}
		x.v.Close()
	}
	if shards > 1 {
		return
	}
	r.Require("handle_refuse_though_allowed_on_addressed_namespace", 600)
	r.Require("handle_refuse_though_allowed_on_addressed_namespace:client", 200)
	r.Require("handle_refuse_though_allowed_on_addressed_namespace:internal", 200)
	r.Require("handle_refuse_though_allowed_on_addressed_namespace:accessor", 100)
	r.Require("handle_refused_target_still_usable", 2000)
	for _, ep := range c02HandleEndpoints {
		r.Require("handle_refuse:"+ep, 200)
		r.Require("handle_authorised_served:"+ep, 20)
	}
	r.Require("handle_authorised_served_target_in:own-subtree", 200)
	r.Require("handle_refuse_target_in:sibling", 300)
	r.Require("handle_refuse_target_in:root-namespace", 200)
	r.Require("handle_refuse_target_in:ancestor", 100)
}
