//go:build verif

package vault

// C02: a request reaches a backend handler / returns a non-error only with a
// live token and an allowing policy (or on a declared unauthenticated path);
// otherwise it is refused without handler invocation and without a change to
// backend storage; policy and token changes are honoured by the next request.
//
// Monitor: a real Core on a probe store with the recording backend `verifrec`
// mounted as secrets engine and auth method at nested / sibling paths in a
// generated namespace tree. Every generated request is judged first by the
// reference authoriser (c02_ref_test.go), then executed through
// Core.HandleRequest; the oracle compares the verdict with (a) the handler
// invocation log of the recording backends, (b) the response class, (c) the
// physical writes tagged with the request and (d) a digest of the storage of
// all recording mounts before/after.

import (
	"crypto/sha256"
	"encoding/base64"
	"encoding/hex"
	"fmt"
	"os"
	"sort"
	"strings"
	"sync"
	"testing"
	"time"

	"context"

	kit "github.com/openbao/openbao/sdk/v2/helper/verifkit"
	"github.com/openbao/openbao/sdk/v2/logical"
	"github.com/openbao/openbao/sdk/v2/physical"
	"github.com/openbao/openbao/v2/internal/helper/namespace"
)

var c02Trace = os.Getenv("VERIF_C02_TRACE") != ""

const c02AllCaps = `"create","read","update","delete","list","patch","scan","sudo"`

var (
	c02Segs     = []string{"a", "b", "c", "ab"}
	c02AllOps   = []string{"read", "create", "update", "delete", "list", "patch", "scan"}
	c02CapNames = []string{"read", "create", "update", "delete", "list", "patch", "scan", "sudo"}
	// token states that must be seen refused although their policies would allow
	c02DeadKinds = []string{"garbage", "flipped-char", "flipped-head", "flipped-mid", "flipped-tail", "truncated", "revoked", "expired", "exhausted", "cidr", "entity", "batch-flipped", "batch-expired", "batch-of-revoked-parent", "batch-of-revocation-interrupted-parent", "batch-of-expired-parent", "batch-of-expired-unreaped-parent", "exhausted-unreaped"}
)

type c02Run struct {
	t        *testing.T
	r        *kit.Result
	v        *vCore
	w        *c02World
	rng      *kit.Rand
	caseID   string
	digest   string
	steps    []string
	nreq     int
	aborted  bool
	moves    int
	pairs    int
	sealed   bool
	expiry   []*c02ExpiryFault
	curFault *c02Fault // the fault armed for the revocation that is running, if any
	waited   time.Duration
}

func (x *c02Run) step(format string, a ...any) {
	x.steps = append(x.steps, fmt.Sprintf(format, a...))
	if c02Trace {
		x.t.Logf("step %s: %s", time.Now().Format("05.000"), strings.ReplaceAll(x.steps[len(x.steps)-1], "\n", " "))
	}
	if len(x.steps) > 60 {
		x.steps = x.steps[len(x.steps)-60:]
	}
}

// ---------------------------------------------------------------- world construction

func c02Topology(rng *kit.Rand) (nss []string, mounts []*c02Mount) {
	trees := [][]string{
		{"", "ns1/"},
		{"", "ns1/", "ns1/sub/", "ns2/"},
		{"", "t/", "t/u/", "t/u/w/"},
		{"", "ns1/", "ns2/", "ns2/in/"},
		// sibling namespaces whose names are string prefixes of one another, at the top and nested
		{"", "a/", "ab/", "a-b/"},
		{"", "p/", "p/a/", "p/ab/"},
		{"", "a/", "a2/", "a2/in/"},
	}
	nss = trees[rng.Intn(len(trees))]
	secretPaths := []string{"kv/", "kvx/", "team/a/", "team/ab/", "deep/x/y/", "k/"}
	authPaths := []string{"auth/rec/", "auth/team/rec2/", "auth/recx/"}
	add := func(ns, p string, auth bool) {
		for _, m := range mounts {
			if m.Abs == ns+p {
				return
			}
		}
		mounts = append(mounts, &c02Mount{NS: ns, Path: p, Abs: ns + p, Auth: auth, Exists: map[string]bool{}})
	}
	for i, ns := range nss {
		n := 1 + rng.Intn(3)
		for k := 0; k < n; k++ {
			add(ns, kit.Pick(rng, secretPaths), false)
		}
		if i < 2 || rng.Chance(1, 2) {
			add(ns, kit.Pick(rng, authPaths), true)
		}
	}
	// always one sibling-prefix pair somewhere
	ns := kit.Pick(rng, nss)
	if rng.Chance(1, 2) {
		add(ns, "kv/", false)
		add(ns, "kvx/", false)
	} else {
		add(ns, "team/a/", false)
		add(ns, "team/ab/", false)
	}
	return nss, mounts
}

func c02GenCaps(rng *kit.Rand) []string {
	switch {
	case rng.Chance(1, 10):
		return []string{"deny"}
	case rng.Chance(1, 9):
		// deny listed together with other capabilities, first / in the middle / last, with repetitions
		n := 1 + rng.Intn(3)
		var out []string
		for len(out) < n {
			out = append(out, kit.Pick(rng, c02CapNames))
		}
		at := rng.Intn(len(out) + 1)
		out = append(out[:at:at], append([]string{"deny"}, out[at:]...)...)
		if rng.Chance(1, 4) {
			out = append(out, kit.Pick(rng, out))
		}
		return out
	case rng.Chance(1, 10):
		// a list with repetitions in a generated order
		out := []string{kit.Pick(rng, c02CapNames)}
		for k := 0; k < 2+rng.Intn(3); k++ {
			if rng.Chance(1, 2) {
				out = append(out, kit.Pick(rng, out))
			} else {
				out = append(out, kit.Pick(rng, c02CapNames))
			}
		}
		return out
	case rng.Chance(1, 8):
		return append([]string(nil), c02CapNames...)
	}
	n := 1 + rng.Intn(4)
	seen := map[string]bool{}
	var out []string
	for len(out) < n {
		c := kit.Pick(rng, c02CapNames)
		if !seen[c] {
			seen[c] = true
			out = append(out, c)
		}
	}
	return out
}

var (
	c02ParamKeys = []string{"owner", "tier", "ticket", "note", "v"}
	c02ParamVals = []string{"gold", "silver", "x"}
)

// c02GenCons gives a stanza parameter constraints (and makes sure it grants a writing capability
// they can apply to, patch among them).
func c02GenCons(rng *kit.Rand, ru *c02Rule) {
	pickKeys := func(n int) []string {
		ks := append([]string(nil), c02ParamKeys...)
		rng.Shuffle(len(ks), func(i, j int) { ks[i], ks[j] = ks[j], ks[i] })
		return ks[:n]
	}
	vals := func() []string {
		switch rng.Intn(3) {
		case 0:
			return []string{}
		case 1:
			return []string{kit.Pick(rng, c02ParamVals)}
		}
		return []string{"gold", "silver"}
	}
	for !ru.constrained() {
		if rng.Chance(1, 2) {
			ru.Required = pickKeys(1 + rng.Intn(2))
		}
		if rng.Chance(1, 2) {
			ru.Denied = map[string][]string{}
			for _, k := range pickKeys(1 + rng.Intn(2)) {
				ru.Denied[k] = vals()
			}
			if rng.Chance(1, 10) {
				ru.Denied = map[string][]string{"*": {}}
			}
		}
		if rng.Chance(1, 2) {
			ru.Allowed = map[string][]string{}
			for _, k := range pickKeys(1 + rng.Intn(3)) {
				ru.Allowed[k] = vals()
			}
			if rng.Chance(1, 3) {
				ru.Allowed["*"] = []string{}
			}
		}
	}
	if e := ru.eff(); len(e) == 1 && e[0] == "deny" {
		return
	}
	ru.Caps = append(ru.Caps, kit.Pick(rng, []string{"patch", "update", "create"}), "patch")
}

// paramData: parameters for a writing request at abs, aimed at the parameter constraints of the
// token's stanzas that match the path: some satisfy them, some violate one of them.
func (x *c02Run) paramData(t *c02Tok, abs string) map[string]any {
	rng := x.rng
	if t == nil || t.Forged {
		return nil
	}
	_, _, _, _, cons := x.w.rulesFor(t, time.Now())
	var cs []*c02Cons
	for _, pat := range c02SortedKeys(cons) {
		if c := cons[pat]; c.Any {
			if ok, _ := c02Match(pat, abs); ok {
				cs = append(cs, c)
			}
		}
	}
	if len(cs) == 0 {
		return nil
	}
	ru := kit.Pick(rng, cs).Rule
	data := map[string]any{}
	val := func(list []string, hit bool) string {
		if hit && len(list) > 0 {
			return kit.Pick(rng, list)
		}
		if hit {
			return kit.Pick(rng, c02ParamVals)
		}
		return "other-" + kit.Pick(rng, c02ParamVals)
	}
	for _, k := range ru.Required {
		if rng.Chance(4, 5) {
			data[k] = val(ru.Allowed[k], true)
		}
	}
	for k, vs := range ru.Allowed {
		if k != "*" && rng.Chance(1, 2) {
			data[k] = val(vs, rng.Chance(3, 4))
		}
	}
	for k, vs := range ru.Denied {
		if k != "*" && rng.Chance(1, 3) {
			data[k] = val(vs, rng.Chance(1, 2))
		}
	}
	if rng.Chance(1, 3) {
		data[kit.Pick(rng, c02ParamKeys)] = kit.Pick(rng, c02ParamVals)
	}
	if rng.Chance(1, 4) {
		data["unlisted"] = "u"
	}
	if len(data) == 0 && rng.Chance(1, 2) {
		data["v"] = rng.Canary()
	}
	return data
}

func (w *c02World) genPattern(rng *kit.Rand, polNS string) string {
	var cands []*c02Mount
	for _, m := range w.Mounts {
		if strings.HasPrefix(m.NS, polNS) {
			cands = append(cands, m)
		}
	}
	if len(cands) == 0 || rng.Chance(1, 14) {
		return kit.Pick(rng, []string{"*", "+/data/*", "+/+/data/*", "sys/policies/acl/*", "sys/policies/acl/c02scratch", "sys/mounts", "sys/audit", "cubbyhole/*", "auth/token/create", "sys/*"})
	}
	m := kit.Pick(rng, cands)
	rel := m.Abs[len(polNS):]
	if rng.Chance(1, 9) {
		// patterns that straddle the mount boundary
		return kit.Pick(rng, []string{strings.TrimSuffix(rel, "/") + "*", strings.TrimSuffix(rel, "/"), rel, rel + "+"})
	}
	tails := []string{"data/a", "data/b", "data/c", "data/a/b", "data/ab", "data/*", "data/a*", "data/+", "data/+/b", "data/+/*", "*", "root/*", "root/r", "root/+", "root/*", "root/r", "root/a", "r*", "lease/*", "lease/l", "+/a", "+/+", "+/r", "data/", "data/a/", "d*"}
	return rel + kit.Pick(rng, tails)
}

func (w *c02World) genPolicy(rng *kit.Rand, ns, name string) *c02Policy {
	p := &c02Policy{NS: ns, Name: name, Exists: true}
	n := 1 + rng.Intn(4)
	seen := map[string]bool{}
	for len(p.Rules) < n {
		pat := w.genPattern(rng, ns)
		if seen[pat] {
			n--
			continue
		}
		seen[pat] = true
		ru := c02Rule{Pat: pat, Caps: c02GenCaps(rng)}
		if rng.Chance(1, 9) { // the old-style keyword, alone or next to a capabilities list
			ru.Legacy = kit.Pick(rng, []string{"read", "write", "sudo", "deny", "read", "write"})
			switch rng.Intn(3) {
			case 0:
				ru.Caps = nil
			case 1:
				ru.Caps = []string{"deny"}
			}
		}
		if !w.TimedAt.IsZero() && rng.Chance(1, 4) {
			ru.Expire = w.TimedAt
		}
		if strings.Contains(pat, "data/") && rng.Chance(1, 6) {
			c02GenCons(rng, &ru)
		}
		p.Rules = append(p.Rules, ru)
	}
	return p
}

func (x *c02Run) writePolicy(p *c02Policy) {
	x.putPolicy(p, p.HCL())
	p.Exists = true
	x.w.Policies[p.NS+"|"+p.Name] = p
}

// putPolicy writes an ACL policy document together with the policy's two template opt-ins.
func (x *c02Run) putPolicy(p *c02Policy, hcl string) {
	x.v.MustDo(vReq{Op: logical.UpdateOperation, Path: "sys/policies/acl/" + p.Name, Token: x.v.Root, NS: p.NS, Data: map[string]any{
		"policy": hcl, "allow_slashes_in_identity_templates": p.AllowSlashes, "allow_wildcards_in_identity_templates": p.AllowWildcards,
	}})
}

// discoverPrefix finds the physical storage prefix of a mount by a tagged marker write.
func (x *c02Run) discoverPrefix(m *c02Mount) {
	v := x.v
	v.Probe.StartLog(false)
	v.MustDo(vReq{Tag: "marker", Op: logical.UpdateOperation, Path: m.Abs + "data/zzmarker", Token: v.Root, Data: map[string]any{"v": "m"}})
	evs := v.Probe.StopLog()
	m.Prefix = ""
	for _, e := range evs {
		if e.Tag == "marker" && e.Op == "put" && strings.HasSuffix(e.Key, "d/data/zzmarker") {
			m.Prefix = strings.TrimSuffix(e.Key, "d/data/zzmarker")
		}
	}
	if m.Prefix == "" {
		x.t.Fatalf("verif: cannot discover the storage prefix of mount %s (events %v)", m.Abs, evs)
	}
	v.MustDo(vReq{Op: logical.DeleteOperation, Path: m.Abs + "data/zzmarker", Token: v.Root})
}

func (x *c02Run) mount(m *c02Mount) {
	if m.Auth {
		x.v.EnableAuth(strings.TrimSuffix(strings.TrimPrefix(m.Path, "auth/"), "/"), "verifrec", m.NS)
	} else {
		x.v.Mount(strings.TrimSuffix(m.Path, "/"), "verifrec", m.NS, nil)
	}
	m.Mounted = true
	m.Exists = map[string]bool{}
	x.discoverPrefix(m)
}

// storageDigest hashes every physical key and value under the storage prefixes of all recording mounts.
func (x *c02Run) storageDigest() string {
	h := sha256.New()
	ctx := context.Background()
	in := x.v.Probe.Inner()
	var walk func(p string)
	walk = func(p string) {
		names, err := in.List(ctx, p)
		if err != nil {
			x.t.Fatalf("verif: list %s: %v", p, err)
		}
		sort.Strings(names)
		for _, n := range names {
			if strings.HasSuffix(n, "/") {
				walk(p + n)
				continue
			}
			e, _ := in.Get(ctx, p+n)
			if e != nil {
				s := sha256.Sum256(e.Value)
				fmt.Fprintf(h, "%s=%x\n", p+n, s[:8])
			}
		}
	}
	var ps []string
	for _, m := range x.w.Mounts {
		if m.Prefix != "" {
			ps = append(ps, m.Prefix)
		}
	}
	sort.Strings(ps)
	for _, p := range ps {
		walk(p)
	}
	return hex.EncodeToString(h.Sum(nil)[:12])
}

func (x *c02Run) newTok(name, kind, ns string, data map[string]any, path string, parent string) *c02Tok {
	t, why := x.tryTok(name, kind, ns, data, path, parent, "")
	if t == nil {
		x.t.Fatalf("verif: creating token %s (%s) in %q failed: %s", name, kind, ns, why)
	}
	return t
}

// tryTok creates a token through the API; nil + the refusal when the product refuses.
func (x *c02Run) tryTok(name, kind, ns string, data map[string]any, path, parent, tag string) (*c02Tok, string) {
	if data == nil {
		data = map[string]any{}
	}
	if _, ok := data["no_default_policy"]; !ok {
		data["no_default_policy"] = true
	}
	if _, ok := data["ttl"]; !ok {
		data["ttl"] = "1h"
	}
	if path == "" {
		path = "auth/token/create"
	}
	if parent == "" {
		parent = x.v.Root
	}
	resp, err := x.v.Do(vReq{Tag: tag, Op: logical.UpdateOperation, Path: path, Token: parent, Data: data, NS: ns})
	after := time.Now()
	if !vOK(resp, err) || resp == nil || resp.Auth == nil {
		why := vErrStr(resp, err)
		if resp != nil && resp.IsError() {
			why += " (" + resp.Error().Error() + ")"
		}
		return nil, why
	}
	t := &c02Tok{Name: name, Kind: kind, NS: ns, ID: resp.Auth.ClientToken, Accessor: resp.Auth.Accessor}
	if ps, ok := data["policies"].([]string); ok {
		t.Policies = ps
	}
	if resp.Auth.TTL > 0 && resp.Auth.TTL < time.Minute {
		t.Short = true
		t.ExpireUpper = after.Add(resp.Auth.TTL + 300*time.Millisecond)
	}
	x.w.Toks = append(x.w.Toks, t)
	return t, ""
}

func c02Forge(base *c02Tok, name, kind, id string) *c02Tok {
	return &c02Tok{Name: name, Kind: kind, NS: base.NS, ID: id, Forged: true, Policies: base.Policies}
}

// c02Mutations returns never-issued variants of a real token string.
func c02Mutations(base *c02Tok, rng *kit.Rand) []*c02Tok {
	var out []*c02Tok
	id := base.ID
	dot := strings.Index(id, ".")
	prefix, body := id[:dot+1], id[dot+1:]
	suffix := ""
	if i := strings.Index(body, "."); i >= 0 {
		body, suffix = body[:i], body[i:]
	}
	if len(body) < 12 {
		return nil
	}
	// one character of the string replaced (not among the last ones: unpadded base64
	// ignores the unused bits of the final character, which would not be a mutation)
	// (nor among the first three: they encode SignedToken.token_version, which is not part of
	// the credential - the server neither signs nor reads it, so such a string still carries
	// the same existing token)
	pos := 4 + rng.Intn(len(body)-8)
	repl := byte('A')
	if body[pos] == 'A' {
		repl = 'B'
	}
	out = append(out, c02Forge(base, base.Name+"~char", "flipped-char", prefix+body[:pos]+string(repl)+body[pos+1:]+suffix))
	raw, err := base64.RawURLEncoding.DecodeString(body)
	if err == nil && len(raw) > 12 {
		flip := func(at int) string {
			b := append([]byte(nil), raw...)
			b[at] ^= 0x01
			return prefix + base64.RawURLEncoding.EncodeToString(b) + suffix
		}
		k := "flipped"
		if base.Batch {
			out = append(out, c02Forge(base, base.Name+"~b", "batch-flipped", flip(len(raw)/2)))
		} else {
			out = append(out, c02Forge(base, base.Name+"~head", k+"-head", flip(3)))
			out = append(out, c02Forge(base, base.Name+"~mid", k+"-mid", flip(len(raw)/2)))
			out = append(out, c02Forge(base, base.Name+"~tail", k+"-tail", flip(len(raw)-1)))
			out = append(out, c02Forge(base, base.Name+"~trunc", "truncated", prefix+base64.RawURLEncoding.EncodeToString(raw[:len(raw)-5])+suffix))
		}
	}
	return out
}

// build creates namespaces, mounts, policies and tokens in all states.
func (x *c02Run) build() {
	v, w, rng := x.v, x.w, x.rng
	for _, ns := range w.NSs {
		if ns == "" {
			continue
		}
		parts := strings.Split(strings.TrimSuffix(ns, "/"), "/")
		parent := strings.Join(parts[:len(parts)-1], "/")
		if parent != "" {
			parent += "/"
		}
		v.MustDo(vReq{Op: logical.UpdateOperation, Path: "sys/namespaces/" + parts[len(parts)-1], Token: v.Root, NS: parent})
	}
	for _, m := range w.Mounts {
		x.mount(m)
	}
	for _, ns := range w.NSs {
		x.writePolicy(&c02Policy{NS: ns, Name: "c02-all", Rules: []c02Rule{{Pat: "*", Caps: append([]string(nil), c02CapNames...)}}})
		np := 3 + rng.Intn(3)
		var names []string
		for i := 0; i < np; i++ {
			p := w.genPolicy(rng, ns, fmt.Sprintf("p%d", i))
			x.writePolicy(p)
			names = append(names, p.Name)
		}
		nsTag := strings.ReplaceAll(strings.TrimSuffix(ns, "/"), "/", ".")
		if nsTag == "" {
			nsTag = "root"
		}
		// ordinary live tokens
		for i := 0; i < 3; i++ {
			var ps []string
			for k := 0; k < 1+rng.Intn(3); k++ {
				ps = append(ps, kit.Pick(rng, names))
			}
			if rng.Chance(1, 6) {
				ps = append(ps, "c02-ghost") // never written
			}
			x.newTok(fmt.Sprintf("%s/live%d", nsTag, i), "live", ns, map[string]any{"policies": ps}, "", "")
		}
		all := []string{"c02-all"}
		if !w.TimedAt.IsZero() {
			// a time-boxed grant next to a permanent one, on every mount of the subtree
			tp := &c02Policy{NS: ns, Name: "ptimed"}
			for _, m := range w.Mounts {
				if strings.HasPrefix(m.NS, ns) {
					rel := m.Abs[len(ns):]
					tp.Rules = append(tp.Rules,
						c02Rule{Pat: rel + "data/timed/*", Caps: []string{"read", "create", "update", "delete", "list"}, Expire: w.TimedAt},
						c02Rule{Pat: rel + "data/perm/*", Caps: []string{"read", "create", "update", "delete", "list"}},
						c02Rule{Pat: rel + "root/*", Caps: []string{"read", "update", "sudo"}, Expire: w.TimedAt})
				}
			}
			if len(tp.Rules) > 0 {
				x.writePolicy(tp)
				x.newTok(nsTag+"/timed", "live", ns, map[string]any{"policies": []string{"ptimed"}}, "", "")
				x.newTok(nsTag+"/timed+", "live", ns, map[string]any{"policies": []string{"ptimed", kit.Pick(rng, names)}}, "", "")
			}
		}
		x.newTok(nsTag+"/admin", "live", ns, map[string]any{"policies": all}, "", "")
		// revoked before use
		rv := x.newTok(nsTag+"/revoked", "revoked", ns, map[string]any{"policies": all}, "", "")
		v.MustDo(vReq{Op: logical.UpdateOperation, Path: "auth/token/revoke", Token: v.Root, Data: map[string]any{"token": rv.ID}, NS: ns})
		rv.Revoked = true
		// revoked later (staleness)
		x.newTok(nsTag+"/torevoke", "live", ns, map[string]any{"policies": all}, "", "")
		// use-limited
		lim := x.newTok(nsTag+"/limited", "limited", ns, map[string]any{"policies": all, "num_uses": 100000}, "", "")
		lim.UsesMax = 100000
		// batch
		b := x.newTok(nsTag+"/batch", "batch", ns, map[string]any{"policies": all, "type": "batch"}, "", "")
		b.Batch = true
		// batch token whose parent is revoked
		bp := x.newTok(nsTag+"/bparent", "live", ns, map[string]any{"policies": all}, "", "")
		bo := x.newTok(nsTag+"/borphan", "batch-orphaned", ns, map[string]any{"policies": all, "type": "batch"}, "", bp.ID)
		bo.Batch, bo.ParentTok = true, bp
		if rng.Chance(1, 2) {
			v.MustDo(vReq{Op: logical.UpdateOperation, Path: "auth/token/revoke", Token: v.Root, Data: map[string]any{"token": bp.ID}, NS: ns})
			bp.Revoked, bp.Kind = true, "revoked"
		}
		// CIDR-bound through a token role
		v.MustDo(vReq{Op: logical.UpdateOperation, Path: "auth/token/roles/c02cidr", Token: v.Root, NS: ns, Data: map[string]any{"token_bound_cidrs": []string{"10.1.0.0/16"}, "orphan": true, "token_no_default_policy": true}})
		c := x.newTok(nsTag+"/cidr", "cidr", ns, map[string]any{"policies": all}, "auth/token/create/c02cidr", "")
		c.CIDR = "10.1.0.0/16"
		// entity tokens through a recording auth mount of this namespace
		for _, m := range w.Mounts {
			if m.Auth && m.NS == ns {
				for i, dis := range []bool{false, true} {
					alias := fmt.Sprintf("user%d", i)
					resp, err := v.Do(vReq{Op: logical.UpdateOperation, Path: m.Abs + "login/" + alias, Data: map[string]any{"policies": all, "alias": alias, "no_default_policy": true, "ttl": "1h"}})
					if !vOK(resp, err) || resp == nil || resp.Auth == nil || resp.Auth.EntityID == "" {
						x.t.Fatalf("verif: login for entity token failed: %s", vErrStr(resp, err))
					}
					e := &c02Entity{ID: resp.Auth.EntityID, NS: ns, Name: nsTag + "/" + alias}
					w.Entities = append(w.Entities, e)
					t := &c02Tok{Name: nsTag + "/entity" + fmt.Sprint(i), Kind: "entity", NS: ns, ID: resp.Auth.ClientToken, Accessor: resp.Auth.Accessor, Policies: all, Entity: e, Via: m}
					w.Toks = append(w.Toks, t)
					if dis {
						x.setEntityDisabled(e, true)
					}
				}
				break
			}
		}
		// exhausted: two uses, both burnt by authorised requests; lastuse: one left
		var target *c02Mount
		for _, m := range w.Mounts {
			if strings.HasPrefix(m.NS, ns) {
				target = m
				break
			}
		}
		if target != nil {
			for _, left := range []int{0, 1} {
				kind := map[int]string{0: "exhausted", 1: "lastuse"}[left]
				t := x.newTok(nsTag+"/"+kind, kind, ns, map[string]any{"policies": all, "num_uses": 2 + left}, "", "")
				t.UsesMax = 2 + left
				for i := 0; i < 2; i++ {
					mark := v.Rec.Len()
					resp, err := v.Do(vReq{Op: logical.ReadOperation, Path: target.Abs + "data/burn", Token: t.ID})
					n := 0
					for _, e := range v.Rec.Since(mark) {
						if e.Kind == "handler" {
							n++
						}
					}
					if err != nil || (resp != nil && resp.IsError()) || n != 1 {
						x.t.Fatalf("verif: burning a use of %s failed: %s handler=%d", t.Name, vErrStr(resp, err), n)
					}
					t.UsesLower++
					t.UsesUpper++
				}
			}
		}
		// short-lived
		x.newTok(nsTag+"/expiring", "expired", ns, map[string]any{"policies": all, "ttl": "1s"}, "", "")
		be := x.newTok(nsTag+"/bexpiring", "batch-expired", ns, map[string]any{"policies": all, "type": "batch", "ttl": "1s"}, "", "")
		be.Batch = true
		// batch tokens of service tokens in every state; tokens carrying this namespace's root policy
		x.batchFamily(ns, nsTag, all)
		if ns != "" {
			x.nsRootTokens(ns, nsTag)
		}
		// callers that hold the token endpoints in their own namespace / on a descendant's path, and tokens to name
		x.handleCallers(ns, nsTag)
		// entities with hostile identity values holding templated policies
		x.templFamily(ns, nsTag)
		// a holder of stanzas with generated parameter constraints on every mount of the subtree
		pp := &c02Policy{NS: ns, Name: "pparams"}
		for _, m := range w.Mounts {
			if strings.HasPrefix(m.NS, ns) {
				for k := 0; k < 2; k++ {
					ru := c02Rule{Pat: fmt.Sprintf("%sdata/pc%d/*", m.Abs[len(ns):], k), Caps: []string{"read", kit.Pick(rng, []string{"create", "update", "patch"})}}
					c02GenCons(rng, &ru)
					pp.Rules = append(pp.Rules, ru)
				}
			}
		}
		if len(pp.Rules) > 0 {
			x.writePolicy(pp)
			x.newTok(nsTag+"/params", "live", ns, map[string]any{"policies": []string{"pparams"}}, "", "")
		}
	}
	// token trees that cross namespace boundaries
	x.treeFamily()
	// forged variants of real admin / batch tokens
	var forged []*c02Tok
	for _, t := range w.Toks {
		if (strings.HasSuffix(t.Name, "/admin") || strings.HasSuffix(t.Name, "/batch")) && !t.Forged {
			forged = append(forged, c02Mutations(t, rng)...)
		}
	}
	forged = append(forged, &c02Tok{Name: "garbage1", Kind: "garbage", ID: "hvs." + strings.Repeat("x", 24), Forged: true, Policies: []string{"c02-all"}},
		&c02Tok{Name: "garbage2", Kind: "garbage", ID: "not-a-token", Forged: true, Policies: []string{"c02-all"}},
		&c02Tok{Name: "garbage3", Kind: "garbage", ID: "hvs.CAESI" + strings.Repeat("q", 90), Forged: true, Policies: []string{"c02-all"}},
		&c02Tok{Name: "garbage4", Kind: "garbage", ID: "hvb." + strings.Repeat("A", 120), Forged: true, Policies: []string{"c02-all"}})
	w.Toks = append(w.Toks, forged...)
	w.Toks = append(w.Toks, &c02Tok{Name: "root", Kind: "root", NS: "", ID: v.Root, Root: true})
	x.digest = x.storageDigest()
}

func (x *c02Run) setEntityDisabled(e *c02Entity, dis bool) {
	x.v.MustDo(vReq{Op: logical.UpdateOperation, Path: "identity/entity/id/" + e.ID, Token: x.v.Root, NS: e.NS, Data: map[string]any{"disabled": dis}})
	e.Disabled = dis
}

// ---------------------------------------------------------------- request generation

func c02Instantiate(rng *kit.Rand, absPat string) string {
	glob := strings.HasSuffix(absPat, "*")
	body := strings.TrimSuffix(absPat, "*")
	parts := strings.Split(body, "/")
	for i, p := range parts {
		if p == "+" {
			parts[i] = kit.Pick(rng, []string{"a", "b", "data", "root", "kv", "x"})
		}
	}
	s := strings.Join(parts, "/")
	if glob {
		s += kit.Pick(rng, []string{"", "a", "b", "ab", "a/b", "data/a", "data/b", "root/r", "root/a", "c/", "lease/l", "x/y/z"})
	}
	return s
}

func (x *c02Run) rulesOf(t *c02Tok) []string {
	var out []string
	if t == nil {
		return nil
	}
	names := append([]string(nil), t.Policies...)
	if t.Entity != nil {
		names = append(names, t.Entity.Policies...)
	}
	for _, n := range names {
		if p := x.w.policy(t.NS, n); p != nil {
			out = append(out, x.ruleStrings(t, p)...)
		}
	}
	return out
}

// ruleStrings: "absolute pattern NUL capabilities" of policy p as token t holds it. A templated
// block appears as the reference renders it and, when that differs, as it would read if the
// substituted value were not checked (requests aimed there must be refused).
func (x *c02Run) ruleStrings(t *c02Tok, p *c02Policy) []string {
	var out []string
	for _, r := range p.Rules {
		// for directing requests: every capability the stanza names, also next to a deny
		named := append([]string(nil), r.Caps...)
		named = append(named, c02Rule{Legacy: r.Legacy}.eff()...)
		caps := "\x00" + strings.Join(named, ",")
		if !strings.Contains(r.Pat, "{{") {
			out = append(out, p.NS+r.Pat+caps)
			continue
		}
		var e *c02Entity
		if t != nil {
			e = t.Entity
		}
		real, ok := c02Render(r.Pat, e, !p.AllowSlashes, !p.AllowWildcards)
		if ok {
			out = append(out, p.NS+real+caps)
		}
		if naive, ok2 := c02Render(r.Pat, e, false, false); ok2 && (!ok || naive != real) {
			out = append(out, p.NS+naive+caps)
		}
	}
	return out
}

// denyStanzaWithOthers: a stanza of the token's policies whose (rendered) pattern is absPat names
// deny together with other capabilities or with a granting legacy keyword.
func (x *c02Run) denyStanzaWithOthers(t *c02Tok, absPat string) string {
	if t == nil {
		return ""
	}
	for _, n := range append(append([]string(nil), t.Policies...), c02EntPols(t)...) {
		p := x.w.policy(t.NS, n)
		if p == nil || !p.Exists {
			continue
		}
		for _, r := range p.Rules {
			if !r.listsDenyWithOthers() {
				continue
			}
			pat := r.Pat
			if strings.Contains(pat, "{{") {
				var ok bool
				if pat, ok = c02Render(pat, t.Entity, !p.AllowSlashes, !p.AllowWildcards); !ok {
					continue
				}
			}
			if p.NS+strings.TrimPrefix(pat, "/") == absPat {
				return fmt.Sprintf("policy %s stanza %q: capabilities = %v, policy keyword %q", p.Name, r.Pat, r.Caps, r.Legacy)
			}
		}
	}
	return ""
}

// naiveTemplateGrant: a templated block of the token's policies that the reference drops would,
// rendered without the check of the substituted value, match the path.
func (x *c02Run) naiveTemplateGrant(t *c02Tok, abs string) string {
	if t == nil || t.Entity == nil {
		return ""
	}
	for _, n := range append(append([]string(nil), t.Policies...), c02EntPols(t)...) {
		p := x.w.policy(t.NS, n)
		if p == nil || !p.Exists {
			continue
		}
		for _, r := range p.Rules {
			if !strings.Contains(r.Pat, "{{") {
				continue
			}
			if _, ok := c02Render(r.Pat, t.Entity, !p.AllowSlashes, !p.AllowWildcards); ok {
				continue
			}
			if naive, ok := c02Render(r.Pat, t.Entity, false, false); ok {
				if m, _ := c02Match(p.NS+naive, abs); m {
					return fmt.Sprintf("policy %s block %q renders to %q only if the value were not checked (allow_slashes=%v allow_wildcards=%v)", p.Name, r.Pat, naive, p.AllowSlashes, p.AllowWildcards)
				}
			}
		}
	}
	return ""
}

func (x *c02Run) pickTok() *c02Tok {
	rng, w := x.rng, x.w
	switch n := rng.Intn(100); {
	case n < 5:
		return nil
	case n < 13:
		return w.Toks[len(w.Toks)-1] // root
	case n < 55:
		var live []*c02Tok
		for _, t := range w.Toks {
			if t.Kind == "live" && !t.Revoked {
				live = append(live, t)
			}
		}
		return kit.Pick(rng, live)
	}
	return kit.Pick(rng, w.Toks)
}

func (x *c02Run) genReq(tok *c02Tok, directed bool, from *c02Policy) *c02Req {
	rng, w := x.rng, x.w
	q := &c02Req{Tok: tok}
	abs := ""
	op := kit.Pick(rng, c02AllOps)
	var rules []string
	for _, ru := range x.rulesOf(tok) {
		if tok != nil && !strings.HasPrefix(ru, tok.NS+"*\x00") { // the catch-all rule gives no useful direction
			rules = append(rules, ru)
		}
	}
	if from != nil {
		rules = x.ruleStrings(tok, from)
	}
	switch n := rng.Intn(100); {
	case (directed || n < 45) && len(rules) > 0:
		ru := strings.SplitN(kit.Pick(rng, rules), "\x00", 2)
		for try := 0; try < 4; try++ { // prefer an instance that a backend path pattern accepts
			abs = c02Instantiate(rng, ru[0])
			if _, _, pi := w.locate(abs); pi >= 0 {
				break
			}
		}
		caps := strings.Split(ru[1], ",")
		if rng.Chance(3, 4) {
			c := kit.Pick(rng, caps)
			if c != "deny" && c != "sudo" {
				op = c
			}
		}
		q.Why = "rule " + ru[0]
	case n < 84:
		var cands []*c02Mount
		base := ""
		if tok != nil {
			base = tok.NS
		}
		for _, m := range w.Mounts {
			if strings.HasPrefix(m.NS, base) || rng.Chance(1, 4) {
				cands = append(cands, m)
			}
		}
		if len(cands) == 0 {
			cands = w.Mounts
		}
		m := kit.Pick(rng, cands)
		tail := kit.Pick(rng, []string{"data/a", "data/b", "data/c", "data/ab", "data/a/b", "data/a", "data/b", "data/", "data/a/", "root/r", "root/a", "root/r", "root/b", "lease/l", "unauth/u", "login/u", "raw", "", "nothing/x", "data", "root/"})
		abs = m.Abs + tail
		if rng.Chance(3, 4) { // mostly operations the backend declares for that path
			switch {
			case strings.HasPrefix(tail, "root/"):
				op = kit.Pick(rng, []string{"read", "update", "delete", "list"})
			case strings.HasPrefix(tail, "lease/"), strings.HasPrefix(tail, "unauth/"), strings.HasPrefix(tail, "login/"):
				op = kit.Pick(rng, []string{"read", "update"})
			case tail == "raw":
				op = "update"
			}
		}
		q.Why = "mount " + m.Abs
	case n < 90:
		ns := kit.Pick(rng, w.NSs)
		abs = ns + kit.Pick(rng, []string{"sys/policies/acl/c02scratch", "sys/mounts", "sys/audit", "sys/auth", "cubbyhole/c02", "auth/token/create"})
		q.Why = "core backend"
	case n < 95:
		var child []string
		for _, ns := range w.NSs {
			if ns != "" {
				child = append(child, ns)
			}
		}
		abs = kit.Pick(rng, child) + kit.Pick(rng, []string{"sys/health", "sys/raw/core/mounts", "sys/audit", "sys/metrics", "sys/host-info", "sys/loggers", "sys/in-flight-req", "sys/config/state/sanitized", "sys/audit/x"})
		op = kit.Pick(rng, []string{"read", "read", "list", "update", "delete"})
		q.Why = "restricted sys api in child namespace"
	default:
		abs = kit.Pick(rng, w.NSs) + kit.Pick(rng, []string{"nomount/data/a", "kvy/data/a", "team/data/a", "auth/none/login/u", "nsx/kv/data/a"})
		q.Why = "no such mount"
	}
	if (op == "list" || op == "scan") && !strings.HasSuffix(abs, "/") && rng.Chance(5, 6) {
		abs += "/"
	}
	// mostly ask for operations the backend declares on that path
	if _, _, pi := w.locate(abs); pi >= 0 && !strings.Contains(" "+c02Patterns[pi].ops+" ", " "+op+" ") && rng.Chance(3, 4) {
		op = kit.Pick(rng, strings.Fields(strings.Replace(c02Patterns[pi].ops, "create", "update", 1)))
		if (op == "list" || op == "scan") && !strings.HasSuffix(abs, "/") {
			abs += "/"
		}
	}
	// hostile forms
	if rng.Chance(1, 6) {
		switch rng.Intn(9) {
		case 0:
			abs += "/"
		case 1: // double a slash
			if idx := c02NthSlash(abs, rng.Intn(4)); idx >= 0 {
				abs = abs[:idx] + "/" + abs[idx:]
			}
		case 2: // a/../ detour that would resolve to the same path
			if idx := c02NthSlash(abs, rng.Intn(4)); idx >= 0 {
				abs = abs[:idx] + "/zz/.." + abs[idx:]
			}
		case 3:
			if idx := c02NthSlash(abs, rng.Intn(4)); idx >= 0 {
				abs = abs[:idx] + "/." + abs[idx:]
			}
		case 4: // climb out of data/ into root/
			abs = strings.Replace(abs, "data/", "data/../root/", 1)
		case 5:
			abs = "/" + abs
		case 6: // stop at / run over the mount boundary
			abs = strings.TrimSuffix(abs, "/")
			if i := strings.LastIndex(abs, "/"); i > 0 && rng.Chance(1, 2) {
				abs = abs[:i]
			}
		case 7:
			abs = strings.Replace(abs, "/data/", "x/data/", 1)
		case 8:
			abs += "/.."
		}
		q.Why += " +hostile-form"
	} else if rng.Chance(1, 8) {
		abs = c02DotForm(rng, abs)
		q.Why += " +dot-form"
	}
	// split into header + path
	var heads []string
	for _, ns := range w.NSs {
		if strings.HasPrefix(abs, ns) {
			heads = append(heads, ns)
		}
	}
	h := kit.Pick(rng, heads)
	q.Path = abs[len(h):]
	switch {
	case h == "":
		if rng.Chance(1, 20) {
			q.Header = "root"
		}
	case rng.Chance(1, 6):
		q.Header = strings.TrimSuffix(h, "/")
	case rng.Chance(1, 10):
		q.Header = "/" + h
	default:
		q.Header = h
	}
	if rng.Chance(1, 40) {
		q.Header = kit.Pick(rng, []string{"nsx/", "ns1/nope/", "zz"})
		q.Why += " +unknown-namespace-header"
	}
	if rng.Chance(1, 40) {
		op = kit.Pick(rng, []string{"revoke", "renew", "rollback"})
	}
	q.Op = op
	if tok != nil && tok.CIDR != "" {
		q.Remote = kit.Pick(rng, []string{"10.1.2.3", "10.1.255.9", "10.2.0.1", "127.0.0.1", "192.168.1.1"})
	}
	if op == "create" || op == "update" || op == "patch" {
		q.Data = map[string]any{"v": rng.Canary()}
		if d := x.paramData(tok, c02CanonHeader(q.Header)+q.Path); d != nil {
			q.Data = d
			q.Why += " +parameters"
		}
	}
	if rng.Chance(1, 25) {
		q.WrapTTL = 60 // asks for a response-wrapping token: a refused request must not mint one
	}
	return q
}

func c02NthSlash(s string, n int) int {
	idx := -1
	for i := 0; i <= n; i++ {
		j := strings.Index(s[idx+1:], "/")
		if j < 0 {
			return idx
		}
		idx += j + 1
	}
	return idx
}

// ---------------------------------------------------------------- execution + oracle

type c02Outcome struct {
	Resp     string      `json:"response"`
	OK       bool        `json:"non_error"`
	Handlers []vRecEvent `json:"handler_events"`
	Exist    int         `json:"existence_checks"`
	Writes   []string    `json:"tagged_writes"`
	Changed  bool        `json:"mount_storage_changed"`
	Carries  bool        `json:"response_carries_data_auth_secret_or_wrap"`
	// ParentRecord: raw state of the record of the service token a batch token hangs off, read
	// right before the request (evidence, not part of the verdict)
	ParentRecord string `json:"parent_record_before_request,omitempty"`
}

// c02Bookkeeping: writes a refused request may make: the use-count update of its own
// token entry (put sys/token/id/...), and the removal of a spent token (deletes under
// sys/token/, puts/deletes under sys/expire/). Creating anything else - an accessor, a
// parent index, a cubbyhole or wrapping entry, backend or policy data - is not bookkeeping.
func c02Bookkeeping(w string) bool {
	op, key, _ := strings.Cut(w, " ")
	switch {
	case strings.Contains(key, "sys/expire/"):
		return true
	case strings.Contains(key, "sys/token/id/"):
		return true
	case strings.Contains(key, "sys/token/") && op == "delete":
		return true
	}
	return false
}

func c02KeyClass(w string) string {
	parts := strings.Split(w, "/")
	for i, p := range parts {
		if len(p) > 20 || strings.Count(p, "-") >= 4 {
			parts[i] = "*"
		}
	}
	if len(parts) > 6 {
		parts = parts[:6]
	}
	return strings.Join(parts, "/")
}

func (x *c02Run) exec(q *c02Req) *c02Outcome {
	v := x.v
	tok := ""
	if q.Tok != nil {
		tok = q.Tok.ID
	}
	mark := v.Rec.Len()
	v.Probe.StartLog(false)
	var data map[string]any
	if q.Data != nil {
		data = map[string]any{}
		for k, val := range q.Data {
			data[k] = val
		}
	}
	resp, err := v.Do(vReq{Tag: "req", Op: logical.Operation(q.Op), Path: q.Path, Token: tok, NS: q.Header, Remote: q.Remote, Data: data, WrapTTL: time.Duration(q.WrapTTL) * time.Second})
	evs := v.Probe.StopLog()
	o := &c02Outcome{Resp: vErrStr(resp, err), OK: vOK(resp, err)}
	if resp != nil {
		o.Carries = resp.Auth != nil || resp.Secret != nil || (resp.WrapInfo != nil && resp.WrapInfo.Token != "")
		for k := range resp.Data {
			if k != "error" {
				o.Carries = true
			}
		}
	}
	if len(o.Resp) > 200 {
		o.Resp = o.Resp[:200]
	}
	for _, e := range v.Rec.Since(mark) {
		switch e.Kind {
		case "handler", "login":
			e.Data = nil
			o.Handlers = append(o.Handlers, e)
		case "existence":
			o.Exist++
		}
	}
	for _, e := range evs {
		if e.Tag == "req" && (e.Op == "put" || e.Op == "delete") && e.Err == "" {
			o.Writes = append(o.Writes, e.Op+" "+e.Key)
		}
	}
	d := x.storageDigest()
	o.Changed = d != x.digest
	x.digest = d
	return o
}

// check compares verdict and outcome. It returns false when a violation was recorded.
func (x *c02Run) check(q *c02Req, vd *c02Verdict, o *c02Outcome, stage string) bool {
	r := x.r
	x.nreq++
	r.Eval(1)
	bad := func(class, what string) bool {
		switch {
		case strings.HasPrefix(stage, "after-refused-change"):
			// the operator was told the policy change failed; the request was not judged by the stored text
			class = "C02-refused-policy-change-in-force"
		case strings.HasPrefix(stage, "after-successful-change"):
			class = "C02-stale-after-change"
		}
		if vd.Kind == "deny" && vd.Reason == "early:relative-path" && (len(o.Handlers) > 0 || o.OK || o.Changed) {
			class = "C02-relative-path-segment-reached-backend"
		}
		if vd.Kind == "deny" && q.Tok != nil && !q.Tok.Forged {
			switch {
			case strings.HasPrefix(vd.Reason, "token:parent-") && (len(o.Handlers) > 0 || o.OK || o.Carries):
				class = "C02-batch-token-accepted-while-parent-not-live"
				what += fmt.Sprintf(" [batch token of parent %s; parent record before the request: %s]", c02TokName(q.Tok.ParentTok), o.ParentRecord)
			case vd.Reason == "token:revoked" && q.Tok.Kind == "revoked-with-ancestor" && (len(o.Handlers) > 0 || o.OK || o.Carries):
				class = "C02-descendant-token-usable-after-ancestor-revoked"
				anc := q.Tok.Up
				for anc != nil && anc.Kind == "revoked-with-ancestor" {
					anc = anc.Up
				}
				what += fmt.Sprintf(" [the token of namespace %q is a descendant of %s (namespace %q) whose tree revocation reported success]", q.Tok.NS, c02TokName(anc), c02NSOf(anc))
			case strings.HasPrefix(vd.Reason, "policy: parameters: ") && (len(o.Handlers) > 0 || o.OK || o.Carries):
				class = "C02-request-served-against-parameter-constraints"
				if q.Op == "patch" {
					class = "C02-patch-request-served-against-parameter-constraints"
				}
			case strings.HasPrefix(vd.Reason, "policy: deny on ") && x.denyStanzaWithOthers(q.Tok, strings.TrimPrefix(vd.Reason, "policy: deny on ")) != "" && (len(o.Handlers) > 0 || o.OK || o.Carries):
				class = "C02-request-served-on-path-whose-matching-stanza-lists-deny"
				what += " [" + x.denyStanzaWithOthers(q.Tok, strings.TrimPrefix(vd.Reason, "policy: deny on ")) + "]"
			case strings.HasPrefix(vd.Reason, "policy") && x.naiveTemplateGrant(q.Tok, vd.Abs) != "" && (len(o.Handlers) > 0 || o.OK || o.Carries):
				class = "C02-templated-policy-block-honoured-with-forbidden-identity-value"
				what += " [" + x.naiveTemplateGrant(q.Tok, vd.Abs) + "]"
			case q.Tok.Root && q.Tok.NS != "" && strings.Contains(vd.Reason, "root policy of another namespace"):
				class = "C02-namespace-root-policy-honoured-outside-its-subtree"
				what += fmt.Sprintf(" [the token carries the root policy of namespace %q; the request resolves to namespace %q]", q.Tok.NS, vd.NS)
			}
		}
		r.Violate(class, x.caseID, fmt.Sprintf("[%s %s] %s %s (header %q, token %s): %s; reference: %s (%s); observed: %s, %d handler event(s)",
			x.caseID, stage, q.Op, q.Path, q.Header, c02TokName(q.Tok), what, vd.Kind, vd.Reason, o.Resp, len(o.Handlers)),
			map[string]any{"request": q, "verdict": vd, "outcome": o, "stage": stage, "token_rules": x.rulesOf(q.Tok), "recent_steps": x.steps, "world": x.w})
		x.aborted = true
		return false
	}
	r.Count("verdict:"+vd.Kind, 1)
	early := strings.HasPrefix(vd.Reason, "early:") || vd.Reason == "sealed"
	if t := q.Tok; t != nil && t.ParentTok != nil && !t.Forged && !early && !vd.Unauth {
		r.Count("batch_judged:"+vd.TokState+":"+vd.Kind, 1)
		if o.ParentRecord != "" {
			r.Count("batch_parent_record:"+o.ParentRecord, 1)
			if vd.Kind == "deny" && strings.HasPrefix(vd.Reason, "token:parent-") {
				r.Count("batch_refused_while_parent_record:"+o.ParentRecord, 1)
			}
		}
	}
	if t := q.Tok; t != nil && t.Root && t.NS != "" && !t.Forged && !early {
		rel := c02Related(t.NS, vd.NS)
		if rel == "own-subtree" {
			r.Count("nsroot_in_subtree:"+vd.Kind, 1)
			if vd.Kind == "allow" && vd.Handler && len(o.Handlers) == 1 {
				if vd.NS == t.NS {
					r.Count("nsroot_in_own_namespace_handled", 1)
				} else {
					r.Count("nsroot_in_descendant_namespace_handled", 1)
				}
			}
		} else {
			r.Count("nsroot_outside_subtree:"+vd.Kind, 1)
			if vd.Kind == "deny" {
				on := "other"
				relp := ""
				if len(vd.Abs) >= len(vd.NS) {
					relp = vd.Abs[len(vd.NS):]
				}
				switch {
				case vd.Mount != nil && vd.Mount.Auth:
					on = "auth"
				case vd.Mount != nil:
					on = "secrets"
				case strings.HasPrefix(relp, "sys/"):
					on = "sys"
				}
				r.Count("nsroot_outside_subtree_refused:"+rel, 1)
				r.Count("nsroot_outside_subtree_refused_on:"+on, 1)
				r.Nontrivial("nsroot|" + t.Name + "|" + rel + "|" + q.Op + "|" + vd.Abs)
			}
		}
	}
	if t := q.Tok; t != nil && !t.Forged && !early && (t.Kind == "templated" || (t.Entity != nil && t.Entity.EName != "")) {
		r.Count("templated_judged:"+vd.Kind, 1)
		if vd.Kind == "deny" && strings.HasPrefix(vd.Reason, "policy") && x.naiveTemplateGrant(t, vd.Abs) != "" {
			r.Count("templated_refused_where_only_an_unchecked_value_would_grant", 1)
			r.Nontrivial("templ-deny|" + t.Name + "|" + q.Op + "|" + vd.Abs)
		}
		if vd.Kind == "allow" && len(o.Handlers) == 1 && strings.Contains(vd.Reason, "policy: ") {
			for _, ru := range x.rulesOf(t) {
				if strings.HasPrefix(ru, strings.TrimPrefix(vd.Reason, "policy: ")+"\x00") {
					r.Count("templated_or_entity_token_authorised_handled", 1)
					break
				}
			}
		}
	}
	if strings.HasPrefix(vd.Reason, "policy: parameters: ") {
		r.Count("refused_for_parameter_constraints:"+vd.Op, 1)
		r.Nontrivial("params|" + vd.Op + "|" + vd.Abs + "|" + c02Short(vd.Reason))
	} else if vd.Kind == "allow" && strings.Contains(q.Why, "+parameters") && len(o.Handlers) == 1 {
		r.Count("served_within_parameter_constraints:"+vd.Op, 1)
	}
	if vd.Kind == "deny" && strings.HasPrefix(vd.Reason, "policy: deny on ") && q.Tok != nil {
		if x.denyStanzaWithOthers(q.Tok, strings.TrimPrefix(vd.Reason, "policy: deny on ")) != "" {
			r.Count("refused_by_stanza_listing_deny_with_other_capabilities", 1)
			r.Nontrivial("deny-list|" + q.Op + "|" + vd.Abs)
		}
	}
	if o.Exist > 0 && vd.Kind == "deny" {
		r.Count("refused_after_existence_check", 1)
	}
	// routing: every handler event must be the expected one
	for _, e := range o.Handlers {
		if vd.Kind == "deny" {
			break
		}
		if vd.Mount == nil || e.Mount != vd.MountAbs || e.Path != vd.BPath {
			return bad("C02-misrouted", fmt.Sprintf("handler of mount %q ran for backend path %q, the reference routes to mount %q path %q", e.Mount, e.Path, vd.MountAbs, vd.BPath))
		}
	}
	switch vd.Kind {
	case "deny":
		cls := vd.Reason
		switch {
		case strings.HasPrefix(cls, "policy:sudo-missing"):
			cls = "policy:sudo-missing"
		case strings.HasPrefix(cls, "policy:expired-grant"):
			cls = "policy:expired-grant"
			r.Nontrivial("expired|" + q.Op + "|" + vd.MountAbs + "|" + vd.BPath)
		case strings.HasPrefix(cls, "policy"):
			cls = "policy"
		}
		r.Count("refused:"+cls, 1)
		if vd.WouldAllow {
			r.Count("refused_though_policy_allows", 1)
			r.Count("wouldallow_refused:"+vd.TokState, 1)
			r.Nontrivial("dead|" + vd.TokState + "|" + q.Op + "|" + vd.MountAbs + "|" + vd.BPath)
		}
		if len(o.Handlers) > 0 {
			return bad("C02-handler-invoked-on-refused", "the operation handler of the backend ran for a request that must be refused")
		}
		if o.OK {
			return bad("C02-refused-request-succeeded", "a request that must be refused returned a non-error response")
		}
		if o.Carries {
			return bad("C02-refused-response-carries-data", "the response of a refused request carries data, auth, a secret or wrap info")
		}
		if o.Changed {
			return bad("C02-backend-storage-changed-on-refused", "the storage of a recording mount changed during a request that must be refused")
		}
		for _, wkey := range o.Writes {
			if !c02Bookkeeping(wkey) {
				return bad("C02-storage-write-on-refused", "a refused request wrote outside token/lease bookkeeping: "+wkey)
			}
			r.Count("bookkeeping_writes_on_refused", 1)
			r.Count("bookkeeping:"+c02KeyClass(wkey), 1)
		}
	case "allow":
		if vd.Unauth {
			r.Count("unauth_path_requests", 1)
		}
		if !vd.Handler {
			r.Count("authorised_unsupported", 1)
			if len(o.Handlers) > 0 {
				return bad("C02-misrouted", "a handler ran for a path/operation the backend does not declare")
			}
			if o.Changed {
				return bad("C02-backend-storage-changed-without-handler", "mount storage changed although no operation handler ran")
			}
			break
		}
		switch len(o.Handlers) {
		case 1:
			if o.Handlers[0].Op != vd.Op {
				return bad("C02-misrouted", fmt.Sprintf("handler saw operation %s, reference expects %s", o.Handlers[0].Op, vd.Op))
			}
			r.Count("authorised_handled", 1)
			if strings.Contains(vd.Reason, "timed-grant") {
				r.Count("timed_grant_authorised_before_expiry", 1)
			}
			if vd.Unauth {
				r.Count("unauth_handled", 1)
			}
			r.Nontrivial("ok|" + vd.TokState + "|" + vd.Op + "|" + vd.MountAbs + "|" + vd.BPath)
		case 0:
			return bad("C02-authorised-not-handled", "an authorised request did not reach the operation handler")
		default:
			return bad("C02-handler-multiple", "the operation handler ran more than once for one request")
		}
	default:
		r.Count("unknown:"+c02Short(vd.Reason), 1)
		if len(o.Handlers) > 1 {
			return bad("C02-handler-multiple", "the operation handler ran more than once for one request")
		}
		if len(o.Handlers) == 0 && o.Changed {
			return bad("C02-backend-storage-changed-without-handler", "mount storage changed although no operation handler ran")
		}
	}
	// model bookkeeping from what ran
	for _, e := range o.Handlers {
		if vd.Mount != nil && strings.HasPrefix(e.Path, "data/") {
			switch e.Op {
			case "create", "update", "patch":
				vd.Mount.Exists[e.Path] = true
			case "delete":
				delete(vd.Mount.Exists, e.Path)
			}
		}
	}
	if t := q.Tok; t != nil && t.UsesMax > 0 && !t.Forged && !strings.HasPrefix(vd.Reason, "early:") && !vd.Unauth {
		t.UsesUpper++
		if vd.Kind == "allow" && len(o.Handlers) == 1 {
			t.UsesLower++
		} else if vd.Kind == "deny" && strings.HasPrefix(vd.Reason, "policy") {
			// a live token refused by policy still spends a use (the property allows the
			// bookkeeping either way): the reference keeps both bounds
		}
	}
	return true
}

func c02Short(s string) string {
	s = strings.TrimSpace(s)
	if i := strings.Index(s, "("); i > 0 {
		s = s[:i]
	}
	if len(s) > 48 {
		s = s[:48]
	}
	return strings.TrimSpace(s)
}

func c02TokName(t *c02Tok) string {
	if t == nil {
		return "<none>"
	}
	return t.Name + "[" + t.Kind + "]"
}

func (x *c02Run) do(q *c02Req, stage string) (*c02Verdict, bool) {
	vd := x.w.judge(q, time.Now())
	rec := ""
	if q.Tok != nil && !q.Tok.Forged && q.Tok.ParentTok != nil {
		rec = x.parentRecord(q.Tok.ParentTok)
	}
	o := x.exec(q)
	o.ParentRecord = rec
	x.step("%s %s %s hdr=%q tok=%s -> ref %s (%s) / %s h=%d", stage, q.Op, q.Path, q.Header, c02TokName(q.Tok), vd.Kind, vd.Reason, o.Resp, len(o.Handlers))
	ok := x.check(q, vd, o, stage)
	if ok && x.nreq%5 == 0 {
		ok = x.capabilities(q, vd)
	}
	if x.nreq%97 == 1 {
		x.r.Sample(map[string]any{"case": x.caseID, "request": q, "verdict": vd, "outcome": o})
	}
	return vd, ok
}

// capabilities: what sys/capabilities reports for the request's token and path in the
// request's namespace must be what the reference (and therefore request authorisation)
// grants on the namespace-qualified path.
func (x *c02Run) capabilities(q *c02Req, vd *c02Verdict) bool {
	t := q.Tok
	if t == nil || t.Forged || vd.Abs == "" || strings.HasPrefix(vd.Reason, "early:") || strings.Contains(q.Why, "hostile") {
		return true
	}
	if s, _ := t.liveness("", time.Now()); s != "live" || t.CIDR != "" {
		return true
	}
	rel := vd.Abs[len(vd.NS):]
	if rel == "" || strings.HasPrefix(rel, "/") {
		return true
	}
	now := time.Now()
	want, ok := x.w.capsOf(t, vd.NS, vd.Abs, now)
	if !ok {
		return true
	}
	resp, err := x.v.Do(vReq{Tag: "cap", Op: logical.UpdateOperation, Path: "sys/capabilities", Token: x.v.Root, NS: vd.NS, Data: map[string]any{"token": t.ID, "paths": []string{rel}}})
	if !vOK(resp, err) || resp == nil {
		x.r.Count("capabilities_query_failed", 1)
		return true
	}
	got, _ := resp.Data[rel].([]string)
	got = append([]string(nil), got...)
	sort.Strings(got)
	sort.Strings(want)
	x.r.Count("capabilities_compared", 1)
	if vd.NS != t.NS {
		x.r.Count("capabilities_compared_cross_namespace", 1)
	}
	if strings.Join(got, ",") != strings.Join(want, ",") {
		if w2, ok2 := x.w.capsOf(t, vd.NS, vd.Abs, time.Now()); !ok2 || strings.Join(w2, ",") != strings.Join(want, ",") {
			return true // a time-boxed block crossed its expiration meanwhile
		}
		x.r.Violate("C02-capabilities-disagree-with-authorisation", x.caseID, fmt.Sprintf("[%s] sys/capabilities in namespace %q for path %q with token %s reports %v; the token's policies grant %v on the namespace-qualified path %q", x.caseID, vd.NS, rel, c02TokName(t), got, want, vd.Abs),
			map[string]any{"request": q, "verdict": vd, "reported": got, "reference": want, "token_rules": x.rulesOf(t), "recent_steps": x.steps})
		x.aborted = true
		return false
	}
	return true
}

// ---------------------------------------------------------------- mutations (staleness)

// mutate applies one configuration change between a pre-probe and a post-probe
// request: the same request is judged and executed before and right after.
func (x *c02Run) mutate() {
	rng, w, v := x.rng, x.w, x.v
	type cand struct {
		name  string
		tok   *c02Tok
		apply func()
		pol   *c02Policy
		mnt   *c02Mount
		prep  func() *c02Tok // creates the token the probe is issued with, once the candidate is chosen
		post  func()         // further requests right after the post-probe
	}
	var cs []cand
	// policy changes
	var pols []*c02Policy
	for _, k := range c02SortedKeys(w.Policies) {
		if p := w.Policies[k]; p.Name != "c02-all" && p.Name != "ptimed" {
			pols = append(pols, p)
		}
	}
	holder := func(p *c02Policy) *c02Tok {
		var hs []*c02Tok
		for _, t := range w.Toks {
			if t.NS != p.NS || t.Forged {
				continue
			}
			if s, _ := t.liveness("", time.Now()); s != "live" {
				continue
			}
			for _, n := range append(append([]string(nil), t.Policies...), c02EntPols(t)...) {
				if n == p.Name {
					hs = append(hs, t)
					break
				}
			}
		}
		if len(hs) == 0 {
			return nil
		}
		return kit.Pick(rng, hs)
	}
	if len(pols) > 0 {
		p := kit.Pick(rng, pols)
		if t := holder(p); t != nil {
			if p.Exists {
				cs = append(cs, cand{name: "policy-rewrite", tok: t, pol: p, apply: func() {
					np := w.genPolicy(rng, p.NS, p.Name)
					if rng.Chance(1, 2) {
						// flip: keep the patterns, change the capabilities
						np.Rules = nil
						for _, ru := range p.Rules {
							np.Rules = append(np.Rules, c02Rule{Pat: ru.Pat, Caps: c02GenCaps(rng), Expire: ru.Expire})
						}
					}
					x.putPolicy(p, np.HCL())
					p.Rules = np.Rules
				}})
				cs = append(cs, cand{name: "policy-delete", tok: t, pol: p, apply: func() {
					v.MustDo(vReq{Op: logical.DeleteOperation, Path: "sys/policies/acl/" + p.Name, Token: v.Root, NS: p.NS})
					p.Exists = false
				}})
			} else {
				cs = append(cs, cand{name: "policy-recreate", tok: t, pol: p, apply: func() {
					x.putPolicy(p, p.HCL())
					p.Exists = true
				}})
			}
		}
	}
	// token revocation
	var livers []*c02Tok
	for _, t := range w.Toks {
		if (t.Kind == "live") && !t.Revoked && !t.Limbo && !strings.HasSuffix(t.Name, "/admin") {
			livers = append(livers, t)
		}
	}
	if len(livers) > 6 {
		t := kit.Pick(rng, livers)
		how := rng.Intn(3)
		if how == 2 && !(len(t.Policies) == 1 && t.Policies[0] == "c02-all") {
			how = 0 // revoke-self needs a policy on auth/token/revoke-self
		}
		cs = append(cs, cand{name: []string{"token-revoke", "token-revoke-accessor", "token-revoke-self"}[how], tok: t, apply: func() {
			switch how {
			case 0:
				v.MustDo(vReq{Op: logical.UpdateOperation, Path: "auth/token/revoke", Token: v.Root, Data: map[string]any{"token": t.ID}, NS: t.NS})
			case 1:
				v.MustDo(vReq{Op: logical.UpdateOperation, Path: "auth/token/revoke-accessor", Token: v.Root, Data: map[string]any{"accessor": t.Accessor}, NS: t.NS})
			case 2:
				v.MustDo(vReq{Op: logical.UpdateOperation, Path: "auth/token/revoke-self", Token: t.ID, NS: t.NS})
			}
			t.Revoked = true
			t.Kind = "revoked"
			x.killTree(t) // auth/token/revoke, revoke-accessor and revoke-self are tree revocations
		}})
	}
	// templated policies: an opt-in of a policy flips; an identity value of an entity changes
	{
		var tps []*c02Policy
		for _, k := range c02SortedKeys(w.Policies) {
			if p := w.Policies[k]; p.Exists && p.templated() {
				tps = append(tps, p)
			}
		}
		if len(tps) > 0 {
			p := kit.Pick(rng, tps)
			if t := holder(p); t != nil && t.Entity != nil {
				cs = append(cs, cand{name: "template-optin-flip", tok: t, pol: p, apply: func() {
					if rng.Chance(1, 2) {
						p.AllowWildcards = !p.AllowWildcards
					} else {
						p.AllowSlashes = !p.AllowSlashes
					}
					x.putPolicy(p, p.HCL())
				}})
			}
		}
		var ets []*c02Tok
		for _, t := range w.Toks {
			if t.Entity != nil && t.Entity.EName != "" && !t.Revoked {
				ets = append(ets, t)
			}
		}
		if len(ets) > 0 {
			t := kit.Pick(rng, ets)
			cs = append(cs, cand{name: "entity-identity-change", tok: t, apply: func() {
				e := t.Entity
				if rng.Chance(1, 2) {
					meta := map[string]string{"team": "t1", "k": kit.Pick(rng, c02HostileValues)}
					if rng.Chance(1, 5) {
						delete(meta, "k")
					}
					x.setIdentity(e, "", meta, nil)
					return
				}
				used := map[string]bool{}
				for _, o := range w.Entities {
					if o.NS == e.NS {
						used[o.EName] = true
					}
				}
				for _, n := range c02HostileValues {
					if !used[n] {
						x.setIdentity(e, n, nil, nil)
						return
					}
				}
				x.moves++
				x.setIdentity(e, fmt.Sprintf("renamed+%d", x.moves), nil, nil)
			}})
		}
	}
	// revocation of the service token a batch token hangs off, with and without a storage fault
	{
		var pairs []*c02Tok
		for _, t := range w.Toks {
			if p := t.ParentTok; p != nil && !t.Forged && p.Keys != nil && !p.Short && p.UsesMax == 0 {
				if s, _ := t.liveness("", time.Now()); s == "live" {
					pairs = append(pairs, t)
				}
			}
		}
		fl := kit.Pick(rng, c02Flows())
		faulted := rng.Chance(2, 3)
		name := "batch-parent-" + fl.name
		if faulted {
			name += "-faulted"
		}
		var child *c02Tok
		cs = append(cs, cand{name: name, prep: func() *c02Tok {
			if len(pairs) > 0 && rng.Chance(1, 2) {
				child = kit.Pick(rng, pairs)
			} else {
				x.pairs++
				ns := kit.Pick(rng, w.NSs)
				p := x.newParent(fmt.Sprintf("m/bp%d", x.pairs), "live", ns, map[string]any{"policies": []string{"c02-all"}})
				c, why := x.batchChild(fmt.Sprintf("m/bc%d", x.pairs), p, []string{"c02-all"})
				if c == nil {
					x.t.Fatalf("verif: batch child of a live parent refused: %s", why)
				}
				child = c
			}
			return child
		}, apply: func() {
			p := child.ParentTok
			var f *c02Fault
			if faulted {
				f = x.arm(c02RevocationOps(p), 1+rng.Intn(26), rng.Chance(1, 8))
			}
			st := x.revokeAndClassify(fl, p, nil)
			if f != nil {
				f.disarm()
				if f.fired.Load() > 0 {
					x.r.Count("mutation_faults_fired", 1)
					x.r.Count("mutation_parent_after_faulted_revocation:"+st, 1)
					x.r.Count("mutation_parent_record_after_fault:"+x.parentRecord(p), 1)
				}
				x.step("fault in %s of %s: %s -> %s", fl.name, c02TokName(p), f.what(), st)
			}
		}})
	}
	// tree revocation of an ancestor whose descendants live in other namespaces
	{
		fl := kit.Pick(rng, c02Flows())
		faulted := rng.Chance(1, 3)
		name := "tree-" + fl.name
		if faulted {
			name += "-faulted"
		}
		var nodes []*c02Tok
		var k int
		cs = append(cs, cand{name: name, prep: func() *c02Tok {
			shapes := w.treeShapes(rng, 1)
			if len(shapes) == 0 {
				shapes = [][]string{{"", "", ""}}
			}
			x.pairs++
			nodes = x.chain(fmt.Sprintf("m/tree%d", x.pairs), shapes[0], nil, rng.Chance(1, 2))
			k = rng.Intn(len(nodes) - 1)
			return nodes[len(nodes)-1]
		}, apply: func() {
			var f *c02Fault
			if faulted {
				f = x.arm(c02RevocationOps(nodes[k]), 1+rng.Intn(40), false)
			}
			x.curFault = f
			st := x.revokeAndClassify(fl, nodes[k], nil)
			x.curFault = nil
			if f != nil {
				f.disarm()
			}
			x.r.Count("mutation_tree_revocation:"+st, 1)
		}, post: func() {
			// every other node of the tree, right away
			for _, n := range nodes {
				for _, tk := range append([]*c02Tok{n}, n.Kids...) {
					if x.aborted {
						return
					}
					x.do(x.dataProbe(tk, rng.Chance(1, 2)), "post-"+name+"-tree")
				}
			}
		}})
	}
	// entity changes
	var ents []*c02Tok
	for _, t := range w.Toks {
		if t.Entity != nil {
			ents = append(ents, t)
		}
	}
	if len(ents) > 0 {
		t := kit.Pick(rng, ents)
		cs = append(cs, cand{name: "entity-toggle-disabled", tok: t, apply: func() { x.setEntityDisabled(t.Entity, !t.Entity.Disabled) }})
		cs = append(cs, cand{name: "entity-policies", tok: t, apply: func() {
			var ps []string
			for _, k := range c02SortedKeys(w.Policies) {
				if p := w.Policies[k]; p.NS == t.NS && p.Name != "c02-all" && rng.Chance(1, 3) {
					ps = append(ps, p.Name)
				}
			}
			if ps == nil {
				ps = []string{}
			}
			v.MustDo(vReq{Op: logical.UpdateOperation, Path: "identity/entity/id/" + t.Entity.ID, Token: v.Root, NS: t.NS, Data: map[string]any{"policies": ps}})
			t.Entity.Policies = ps
		}})
	}
	// mount table changes
	admin := func(ns string) *c02Tok {
		for _, t := range w.Toks {
			if strings.HasSuffix(t.Name, "/admin") && strings.HasPrefix(ns, t.NS) && rng.Chance(1, 2) {
				return t
			}
		}
		return w.Toks[len(w.Toks)-1]
	}
	if len(w.Mounts) > 0 {
		m := kit.Pick(rng, w.Mounts)
		if m.Mounted {
			cs = append(cs, cand{name: "unmount", tok: admin(m.NS), mnt: m, apply: func() {
				p := "sys/mounts/" + strings.TrimSuffix(m.Path, "/")
				if m.Auth {
					p = "sys/" + strings.TrimSuffix(m.Path, "/")
				}
				v.MustDo(vReq{Op: logical.DeleteOperation, Path: p, Token: v.Root, NS: m.NS})
				m.Mounted = false
				for _, t := range w.Toks {
					if t.Via == m && !t.Revoked { // disabling an auth method revokes the tokens it issued
						t.Revoked, t.Kind = true, "revoked-by-auth-disable"
					}
				}
				m.Exists = map[string]bool{}
				m.Prefix = ""
				x.digest = x.storageDigest()
			}})
		} else {
			cs = append(cs, cand{name: "mount-again", tok: admin(m.NS), mnt: m, apply: func() {
				x.mount(m)
				x.digest = x.storageDigest()
			}})
		}
	}
	// move a secrets mount (asynchronous: the harness waits for the reported success)
	var movable []*c02Mount
	for _, m := range w.Mounts {
		if m.Mounted && !m.Auth {
			movable = append(movable, m)
		}
	}
	if len(movable) > 0 && rng.Chance(1, 2) {
		m := kit.Pick(rng, movable)
		x.moves++
		to := fmt.Sprintf("moved%d/", x.moves)
		if rng.Chance(1, 2) {
			to = fmt.Sprintf("mv/%d/", x.moves)
		}
		cs = append(cs, cand{name: "remount", tok: admin(m.NS), mnt: m, apply: func() {
			resp := v.MustDo(vReq{Op: logical.UpdateOperation, Path: "sys/remount", Token: v.Root, NS: m.NS, Data: map[string]any{"from": strings.TrimSuffix(m.Path, "/"), "to": strings.TrimSuffix(to, "/")}})
			id, _ := resp.Data["migration_id"].(string)
			done := false
			for i := 0; i < 400 && !done; i++ {
				st, err := v.Do(vReq{Op: logical.ReadOperation, Path: "sys/remount/status/" + id, Token: v.Root, NS: m.NS})
				if vOK(st, err) && st != nil {
					if info, ok := st.Data["migration_info"].(map[string]any); ok && fmt.Sprint(info["status"]) == "success" {
						done = true
						break
					}
					if info, ok := st.Data["migration_info"].(*MountMigrationInfo); ok && info != nil && info.MigrationStatus == "success" {
						done = true
						break
					}
				}
				time.Sleep(5 * time.Millisecond)
			}
			if !done {
				x.r.Inconc("%s: remount of %s did not report success", x.caseID, m.Abs)
				x.aborted = true
				return
			}
			m.Path, m.Abs = to, m.NS+to
			x.digest = x.storageDigest()
		}})
	}
	if len(cs) == 0 {
		return
	}
	if !x.sealed && x.nreq > 200 && rng.Chance(1, 12) {
		x.sealed = true
		x.sealCycle()
		return
	}
	c := kit.Pick(rng, cs)
	if c.prep != nil {
		c.tok = c.prep()
	}
	var probe *c02Req
	if strings.HasPrefix(c.name, "unmount") || strings.HasPrefix(c.name, "mount") || c.name == "remount" {
		m := c.mnt
		if rng.Chance(1, 5) {
			m = kit.Pick(rng, w.Mounts) // a sibling must be unaffected
		}
		probe = &c02Req{Tok: c.tok, Op: kit.Pick(rng, []string{"read", "update", "list"}), Why: "mount probe"}
		full := m.Abs + kit.Pick(rng, []string{"data/a", "data/b", "root/r", "unauth/u"})
		probe.Header = c.tok.NS
		if !strings.HasPrefix(full, c.tok.NS) {
			probe.Header = ""
		}
		probe.Path = strings.TrimPrefix(full, probe.Header)
		if probe.Op == "list" {
			probe.Path = strings.TrimPrefix(m.Abs, probe.Header) + "data/"
		}
		if probe.Op == "update" {
			probe.Data = map[string]any{"v": "x"}
		}
	} else if strings.HasPrefix(c.name, "batch-parent-") || strings.HasPrefix(c.name, "tree-") {
		probe = x.dataProbe(c.tok, rng.Chance(1, 2))
	} else {
		probe = x.genReq(c.tok, true, c.pol)
	}
	before, ok := x.do(probe, "pre-"+c.name)
	if !ok {
		return
	}
	x.step("MUTATION %s (token %s)", c.name, c02TokName(c.tok))
	c.apply()
	x.r.Count("mutations:"+c.name, 1)
	// the very next request
	after, ok := x.do(probe, "post-"+c.name)
	if !ok {
		return
	}
	if c.post != nil {
		c.post()
	}
	bk, ak := before.Kind, after.Kind
	if bk == "allow" && !before.Handler {
		bk = "allow-unrouted"
	}
	if ak == "allow" && !after.Handler {
		ak = "allow-unrouted"
	}
	if before.Kind != "unknown" && after.Kind != "unknown" && bk != ak {
		x.r.Count("staleness_flips", 1)
		x.r.Count("staleness_flip:"+c.name+":"+bk+"->"+ak, 1)
		x.r.Nontrivial("flip|" + c.name + "|" + before.Kind + "|" + probe.Op + "|" + after.MountAbs + after.BPath)
	}
}

// sealCycle: a sealed core refuses everything (also declared unauthenticated paths);
// after unsealing every verdict is as before (nothing cached survives, nothing is lost).
func (x *c02Run) sealCycle() {
	v := x.v
	x.suspendExpiryFaults()
	if err := TestCoreSeal(v.Core); err != nil {
		x.r.Inconc("%s: seal failed: %v", x.caseID, err)
		x.aborted = true
		return
	}
	x.step("SEALED")
	for i := 0; i < 12 && !x.aborted; i++ {
		q := x.genReq(x.pickTok(), i%2 == 0, nil)
		vd := &c02Verdict{Kind: "deny", Reason: "sealed", Op: q.Op}
		if q.Tok != nil {
			vd.TokState = q.Tok.Kind
		}
		if c02IsRelative(q.Path) {
			vd.Reason = "early:relative-path"
		}
		o := x.exec(q)
		x.step("sealed %s %s -> %s h=%d", q.Op, q.Path, o.Resp, len(o.Handlers))
		x.check(q, vd, o, "sealed")
	}
	if err := v.Core.UnsealWithStoredKeys(namespace.RootContext(context.Background())); err != nil {
		x.r.Inconc("%s: unseal failed: %v", x.caseID, err)
		x.aborted = true
		return
	}
	x.step("UNSEALED")
	x.resumeExpiryFaults()
	x.r.Count("seal_cycles", 1)
	x.digest = x.storageDigest()
}

func c02EntPols(t *c02Tok) []string {
	if t.Entity == nil {
		return nil
	}
	return t.Entity.Policies
}

// ---------------------------------------------------------------- the workload test

func c02RunTopology(t *testing.T, r *kit.Result, seed int64, stream uint64, caseID string, nreq int, tx, cache, timed bool) {
	rng := kit.NewRand(seed, stream)
	// cache=true also gives the policy store its LRU (it has none when caching is disabled)
	v := vBoot(t, vOpts{Transactional: tx, Cache: cache})
	if cache {
		r.Count("topologies_with_policy_lru", 1)
	}
	defer v.Close()
	x := &c02Run{t: t, r: r, v: v, rng: rng, caseID: caseID, w: &c02World{Policies: map[string]*c02Policy{}}}
	x.w.NSs, x.w.Mounts = c02Topology(rng)
	t0 := time.Now()
	if timed {
		// per-path expirations are whole seconds; 3-4 s ahead leaves >= 2 s in which the
		// grants are certainly active
		x.w.TimedAt = t0.Truncate(time.Second).Add(4 * time.Second)
		r.Count("topologies_with_timed_grants", 1)
	}
	x.build()
	t1 := time.Now()
	defer func() {
		t.Logf("%s: %d namespaces %d mounts %d tokens; build %.1fs, total %.1fs, %d requests", caseID, len(x.w.NSs), len(x.w.Mounts), len(x.w.Toks), t1.Sub(t0).Seconds(), time.Since(t0).Seconds(), x.nreq)
	}()
	r.Count("topologies", 1)
	r.Count("mounts", len(x.w.Mounts))
	r.Count("namespaces", len(x.w.NSs))
	var timedToks []*c02Tok
	for _, tk := range x.w.Toks {
		if strings.Contains(tk.Name, "/timed") {
			timedToks = append(timedToks, tk)
		}
	}
	for i := 0; i < 40 && len(timedToks) > 0 && !x.aborted; i++ {
		tk := kit.Pick(rng, timedToks)
		x.do(x.genReq(tk, true, x.w.policy(tk.NS, "ptimed")), "timed-before")
	}
	for i := 0; i < nreq && !x.aborted; i++ {
		if rng.Chance(1, 9) {
			x.mutate()
			continue
		}
		x.do(x.genReq(x.pickTok(), false, nil), fmt.Sprintf("#%d", i))
	}
	if x.aborted {
		return
	}
	x.nsRootSweep("nsroot-sweep", 9)
	if x.aborted {
		return
	}
	x.handleSweep("handle-sweep", 160)
	if x.aborted {
		return
	}
	for _, tk := range x.w.Toks { // writes aimed at the parameter constraints
		if strings.HasSuffix(tk.Name, "/params") {
			for i := 0; i < 14 && !x.aborted; i++ {
				q := x.genReq(tk, true, nil)
				if q.Op == "read" || q.Op == "list" || q.Op == "scan" || q.Op == "delete" {
					q.Op = kit.Pick(rng, []string{"update", "patch", "patch"})
					q.Data = x.paramData(tk, c02CanonHeader(q.Header)+q.Path)
					if q.Data == nil {
						q.Data = map[string]any{"v": rng.Canary()}
					}
					q.Why += " +parameters"
				}
				x.do(q, "param-sweep")
			}
		}
	}
	x.templSweep("templ-sweep", 10)
	x.dotSweep("dot-sweep", 3)
	if x.aborted {
		return
	}
	// expired tokens: wait until the harness has seen the clock pass their expiry
	var latest time.Time
	var short []*c02Tok
	for _, tk := range x.w.Toks {
		if tk.Short {
			short = append(short, tk)
			if tk.ExpireUpper.After(latest) {
				latest = tk.ExpireUpper
			}
		}
	}
	if !x.w.TimedAt.IsZero() {
		if e := x.w.TimedAt.Add(c02ExpiryMargin); e.After(latest) {
			latest = e
		}
	}
	if d := time.Until(latest); d > 0 {
		time.Sleep(d + 50*time.Millisecond)
	}
	// time-boxed grants: after the harness has seen the clock pass expiration + margin the
	// block must grant nothing (the parsed policy is still cached); permanent blocks keep working
	for i := 0; i < 60 && len(timedToks) > 0 && !x.aborted; i++ {
		tk := kit.Pick(rng, timedToks)
		x.do(x.genReq(tk, true, x.w.policy(tk.NS, "ptimed")), "timed-after")
	}
	if !x.w.TimedAt.IsZero() {
		for _, tk := range x.w.Toks {
			if tk.Forged || tk.Root || strings.Contains(tk.Name, "/timed") {
				continue
			}
			for _, n := range append(append([]string(nil), tk.Policies...), c02EntPols(tk)...) {
				p := x.w.policy(tk.NS, n)
				if p == nil || x.aborted {
					continue
				}
				for _, ru := range p.Rules {
					if !ru.Expire.IsZero() {
						x.do(x.genReq(tk, true, p), "timed-after")
						x.do(x.genReq(tk, true, p), "timed-after")
						break
					}
				}
			}
		}
	}
	for i := 0; i < nreq/10+20 && !x.aborted && len(short) > 0; i++ {
		x.do(x.genReq(kit.Pick(rng, short), true, nil), fmt.Sprintf("expired#%d", i))
	}
	// batch tokens: each one against the state of its parent (live, revoked, interrupted, expired, reaped or not)
	for _, tk := range x.w.Toks {
		if tk.ParentTok == nil || tk.Forged || x.aborted {
			continue
		}
		x.do(x.dataProbe(tk, false), "batch-sweep")
		x.do(x.dataProbe(tk, true), "batch-sweep")
		x.do(x.genReq(tk, false, nil), "batch-sweep")
	}
	// every dead state at least a few directed requests
	for _, tk := range x.w.Toks {
		if x.aborted {
			break
		}
		if s, _ := tk.liveness("", time.Now()); s == "dead" || tk.CIDR != "" {
			for k := 0; k < 3 && !x.aborted; k++ {
				x.do(x.genReq(tk, true, nil), "dead-state-sweep")
			}
		}
	}
}

func TestVerif_C02_Requests(t *testing.T) {
	seed := kit.Seed(2)
	shard, _ := kit.Shard()
	r := kit.NewResult(t, "c02-requests", seed, "generated namespace trees (depth<=3) x recording secrets/auth mounts at nested and sibling-prefix paths x generated ACL policies (exact, trailing-*, + segments, deny, sudo) x parameter constraints (required_parameters, allowed_parameters with value lists and the * key, denied_parameters) on stanzas that grant create / update / patch, with request parameters that satisfy or violate them; capability lists in generated orders with repetitions, deny first / in the middle / last next to other capabilities, the old-style policy keyword alone and next to a list; namespace trees incl. siblings whose names are string prefixes of one another (a / ab / a-b / a2, p/a / p/ab); tokens in the states {absent, garbage, one character / one byte (head, middle, signature) flipped, truncated signature, revoked, expired, exhausted, exhausted with the queued revocation of the spent token failing once, last use, CIDR-bound, disabled entity, batch, batch mutated / expired, batch created by a service token that is live / revoked completely / revoked through a generated API flow with one storage fault at a generated operation index (the record stays marked in storage) / expired and reaped / expired with the expiry job failing once (record left) / use-limited (creation must be refused), other namespace, root, root policy of a child or grand-child namespace (namespace root token, its child and its orphan child) presented with every namespace of the tree on secrets, auth and system paths, descendant of a revoked ancestor in another namespace}; a sweep of token-handle requests (auth/token/{lookup, lookup-accessor, renew, renew-accessor, revoke, revoke-accessor, revoke-orphan} by callers that hold these paths only in their own namespace, only on the path of a descendant namespace, without sudo or as a generated mix, and by every other token of the world, naming tokens of every namespace in client form, internal form or by accessor, addressed to any namespace) judged on the namespace of the named token; templated policies (entity name / id / metadata, alias name / id, group name / id / metadata selectors; with and without the two opt-ins; several per token, attached to the token or to the entity, processed in generated name order) held by entities whose names, metadata values and alias names are drawn from {+, *, a/b, .., x*, unicode, .hid, b/, +/a, plain} and by a token without entity, with requests aimed at what each block renders to and at what it would render to if the value went unchecked; request paths with dot forms (an ordinary dot-prefixed segment followed by . or .., at every position, doubled slashes around them, ..a, ..., %2e%2e as ordinary segments) on every mount kind; every request (plain, rule-directed and hostile forms: trailing and doubled slashes, ./.. segments, mount-boundary, namespace by header or by path prefix, unknown namespaces, restricted sys APIs in child namespaces, internal operations) is judged by the reference authoriser and compared with handler log, response class, tagged physical writes and a digest of the recording mounts' storage; configuration changes (policy rewrite/delete/recreate, flip of the allow_slashes / allow_wildcards opt-in of a templated policy, change of the name or a metadata value of an entity, token revocation by id / accessor / self, revocation of the parent of a batch token by six API flows with and without a storage fault, revocation of an inner node of a token chain that crosses namespace boundaries (parent namespace -> namespace -> namespace / child namespace, 3-4 levels, optional extra leaves) by the same flows followed at once by every other node of the chain, entity disable and entity policies, unmount / mount / remount, one seal-unseal cycle with requests against the sealed core) are bracketed by the same request before and immediately after; three of four topologies run with the cache (and therefore the policy LRU) enabled, half on a transactional store. A case is non-trivial when (a) a request was refused only because of the token state while its policies allow it, (b) an authorised request reached the handler, or (c) a mutation flipped the verdict of the very next request; distinct by (state, op, mount, backend path)")
	defer r.Write(t)
	ntopo := kit.N(24, 100)
	nreq := kit.N(800, 2500)
	for i := 0; i < ntopo; i++ {
		caseID := fmt.Sprintf("topo:%d:%d", shard, i)
		if !kit.WantCase(caseID) {
			continue
		}
		c02RunTopology(t, r, seed, uint64(shard*1000+i), caseID, nreq, i%2 == 1, i%4 < 3 || i%3 == 0, i%3 == 0)
		if r.NViolations() > 10 {
			break
		}
	}
	r.Require("authorised_handled", int64(ntopo*60))
	r.Require("refused:policy", int64(ntopo*60))
	r.Require("refused_though_policy_allows", int64(ntopo*40))
	r.Require("unauth_handled", int64(ntopo*3))
	r.Require("refused:early:relative-path", int64(ntopo*5))
	r.Require("refused:early:write-to-trailing-slash", int64(ntopo*2))
	r.Require("refused:early:namespace-not-found", int64(ntopo))
	r.Require("refused:early:restricted-sys-api-in-child-namespace", int64(ntopo*2))
	r.Require("refused:policy:sudo-missing", int64(ntopo))
	r.Require("refused:no token", int64(ntopo*5))
	r.Require("staleness_flips", int64(ntopo*5))
	r.Require("topologies_with_policy_lru", int64(ntopo/2))
	r.Require("capabilities_compared", int64(ntopo*30))
	r.Require("capabilities_compared_cross_namespace", int64(ntopo*5))
	r.Require("topologies_with_timed_grants", int64(ntopo/4))
	r.Require("timed_grant_authorised_before_expiry", int64(ntopo*4))
	r.Require("refused:policy:expired-grant", int64(ntopo*4))
	for _, k := range c02DeadKinds {
		r.Require("wouldallow_refused:"+k, 2)
	}
	r.Require("batch_judged:batch-of-live-parent:allow", int64(ntopo*10))
	r.Require("batch_judged:batch-of-revoked-parent:deny", int64(ntopo*10))
	r.Require("batch_judged:batch-of-revocation-interrupted-parent:deny", int64(ntopo*4))
	r.Require("batch_judged:batch-of-expired-parent:deny", int64(ntopo*4))
	r.Require("batch_judged:batch-of-expired-unreaped-parent:deny", int64(ntopo*4))
	r.Require("batch_refused_while_parent_record:present-marked-revoked", int64(ntopo*2))
	r.Require("batch_refused_while_parent_record:present-lease-expired", int64(ntopo))
	r.Require("batch_refused_while_parent_record:absent", int64(ntopo*10))
	r.Require("world_faults_fired", int64(ntopo*2))
	r.Require("mutation_faults_fired", int64(ntopo))
	r.Require("refused_for_parameter_constraints:patch", int64(ntopo*2))
	r.Require("refused_for_parameter_constraints:update", int64(ntopo))
	r.Require("served_within_parameter_constraints:patch", int64(ntopo))
	r.Require("refused_by_stanza_listing_deny_with_other_capabilities", int64(ntopo*8))
	r.Require("nsroot_outside_subtree_refused:prefix-sibling", int64(ntopo*3))
	r.Require("mutations:template-optin-flip", int64(ntopo*2))
	r.Require("mutations:entity-identity-change", int64(ntopo*2))
	r.Require("world_templated_families", int64(ntopo*2))
	r.Require("templated_judged:allow", int64(ntopo*20))
	r.Require("templated_judged:deny", int64(ntopo*60))
	r.Require("templated_refused_where_only_an_unchecked_value_would_grant", int64(ntopo*10))
	for _, f := range c02DotForms {
		if f.relative {
			r.Require("dot_form_refused:"+f.name, int64(ntopo*2))
		}
	}
	r.Require("dot_form_ordinary:hidden-only:allow", int64(ntopo/2))
	r.Require("wouldallow_refused:revoked-with-ancestor", int64(ntopo*10))
	r.Require("mutation_tree_revocation:reported-success", int64(ntopo*2))
	r.Require("world_trees", int64(ntopo*2))
	r.Require("handle_refuse_though_allowed_on_addressed_namespace", int64(ntopo*8))
	r.Require("handle_refuse_though_allowed_on_addressed_namespace:client", int64(ntopo*3))
	r.Require("handle_refuse_though_allowed_on_addressed_namespace:internal", int64(ntopo*2))
	r.Require("handle_refuse_though_allowed_on_addressed_namespace:accessor", int64(ntopo*2))
	r.Require("handle_refused_target_still_usable", int64(ntopo*40))
	r.Require("handle_authorised_served_form:client", int64(ntopo*4))
	r.Require("nsroot_outside_subtree:deny", int64(ntopo*40))
	r.Require("nsroot_outside_subtree_refused:root-namespace", int64(ntopo*15))
	r.Require("nsroot_outside_subtree_refused:ancestor", int64(ntopo*2))
	r.Require("nsroot_outside_subtree_refused:sibling", int64(ntopo*5))
	r.Require("nsroot_outside_subtree_refused_on:secrets", int64(ntopo*10))
	r.Require("nsroot_outside_subtree_refused_on:auth", int64(ntopo*3))
	r.Require("nsroot_outside_subtree_refused_on:sys", int64(ntopo*10))
	r.Require("nsroot_in_own_namespace_handled", int64(ntopo*10))
	r.Require("nsroot_in_descendant_namespace_handled", int64(ntopo*2))
}

// ---------------------------------------------------------------- configuration change || request

type c02Scen struct {
	name   string
	before bool // R authorised before the change
	after  bool // R authorised after the change
	write  bool // R is a write
	ns     string
}

func TestVerif_C02_Concurrent(t *testing.T) {
	seed := kit.Seed(2)
	shard, _ := kit.Shard()
	r := kit.NewResult(t, "c02-concurrent", seed, "one configuration change P (policy rewrite allow->deny / deny->allow, policy delete, token revoke, entity disable) runs concurrently with one request R that depends on it, under the storage-operation gate (all interleavings with <=2 preemptions up to a run cap, then seeded PCT schedules), after R was issued once sequentially (caches warm); R must either reach the handler and succeed, or be refused with no handler event and unchanged mount storage; a request issued after P returned must follow the new configuration. Second family R || R: 2-3 requests present the same token limited to n in {1,2} uses, gated on the token's sys/token/id record; at most n may reach the handler / succeed and the spent token is refused afterwards. A schedule is non-trivial when the requests overlapped; distinct by scenario and (tag,op) order")
	defer r.Write(t)
	scens := []c02Scen{
		{"policy-allow-to-deny", true, false, false, ""},
		{"policy-deny-to-allow", false, true, true, ""},
		{"policy-delete", true, false, true, ""},
		{"token-revoke", true, false, true, "ns1/"},
		{"entity-disable", true, false, false, ""},
		{"policy-delete@ns1", true, false, false, "ns1/"},
	}
	n := 0
	for _, tx := range []bool{false, true} {
		v := vBoot(t, vOpts{Transactional: tx, Cache: tx})
		x := &c02Run{t: t, r: r, v: v, rng: kit.NewRand(seed, 999), w: &c02World{NSs: []string{"", "ns1/"}, Policies: map[string]*c02Policy{}}}
		v.MustDo(vReq{Op: logical.UpdateOperation, Path: "sys/namespaces/ns1", Token: v.Root})
		for _, ns := range x.w.NSs {
			m := &c02Mount{NS: ns, Path: "kv/", Abs: ns + "kv/"}
			x.w.Mounts = append(x.w.Mounts, m)
			x.mount(m)
			a := &c02Mount{NS: ns, Path: "auth/rec/", Abs: ns + "auth/rec/", Auth: true}
			x.w.Mounts = append(x.w.Mounts, a)
			x.mount(a)
		}
		for si, sc := range scens {
			if kit.Tier() == "quick" && tx && si%2 == 1 {
				continue
			}
			run := func(pol kit.Policy, caseID string) (kit.Schedule, bool) {
				n++
				pname := fmt.Sprintf("cc%d", n)
				allow := `path "kv/data/c" { capabilities = ["read","update","create"] }`
				denyP := `path "kv/data/c" { capabilities = ["list"] }` + "\n" + `path "kv/data/other" { capabilities = ["read","update","create"] }`
				if sc.before {
					v.Policy(pname, allow, sc.ns)
				} else {
					v.Policy(pname, denyP, sc.ns)
				}
				var tokID, entID string
				if sc.name == "entity-disable" {
					resp, err := v.Do(vReq{Op: logical.UpdateOperation, Path: sc.ns + "auth/rec/login/cu", Data: map[string]any{"policies": []string{pname}, "alias": fmt.Sprintf("cu%d", n), "no_default_policy": true, "ttl": "1h"}})
					if !vOK(resp, err) || resp == nil || resp.Auth == nil {
						t.Fatalf("verif: login failed: %s", vErrStr(resp, err))
					}
					tokID, entID = resp.Auth.ClientToken, resp.Auth.EntityID
				} else {
					tk, resp, err := v.CreateToken(v.Root, map[string]any{"policies": []string{pname}, "no_default_policy": true, "ttl": "1h"}, false, sc.ns)
					if tk == nil {
						t.Fatalf("verif: token create failed: %s", vErrStr(resp, err))
					}
					tokID = tk.ID
				}
				op := logical.ReadOperation
				var data map[string]any
				if sc.write {
					op = logical.UpdateOperation
				}
				type res struct {
					ok       bool
					handlers int
					changed  bool
					str      string
				}
				doR := func() res {
					if sc.write {
						data = map[string]any{"v": fmt.Sprint(n)}
					}
					mark := v.Rec.Len()
					resp, err := v.Do(vReq{Op: op, Path: "kv/data/c", Token: tokID, NS: sc.ns, Data: data})
					out := res{ok: vOK(resp, err), str: vErrStr(resp, err)}
					for _, e := range v.Rec.Since(mark) {
						if e.Kind == "handler" {
							out.handlers++
						}
					}
					return out
				}
				witness := func(s kit.Schedule, r0, r1, r2 res, pstr string) map[string]any {
					return map[string]any{"scenario": sc, "transactional": tx, "schedule": s.String(), "R_before": fmt.Sprintf("%+v", r0), "R_concurrent": fmt.Sprintf("%+v", r1), "R_after": fmt.Sprintf("%+v", r2), "P": pstr}
				}
				// sequential first issue: establishes the "before" decision and warms every cache
				x.digest = x.storageDigest()
				r0 := doR()
				if (r0.handlers == 1 && r0.ok) != sc.before {
					r.Violate("C02-concurrent-baseline", caseID, fmt.Sprintf("[%s] before the change R must be authorised=%v, observed %+v", caseID, sc.before, r0), witness(kit.Schedule{}, r0, res{}, res{}, ""))
					return kit.Schedule{}, false
				}
				x.digest = x.storageDigest()
				var r1 res
				var pResp *logical.Response
				var pErr error
				reqs := []kit.Req{
					{Tag: "P", Fn: func() {
						switch sc.name {
						case "policy-allow-to-deny":
							pResp, pErr = v.Do(vReq{Op: logical.UpdateOperation, Path: "sys/policies/acl/" + pname, Token: v.Root, NS: sc.ns, Data: map[string]any{"policy": denyP}})
						case "policy-deny-to-allow":
							pResp, pErr = v.Do(vReq{Op: logical.UpdateOperation, Path: "sys/policies/acl/" + pname, Token: v.Root, NS: sc.ns, Data: map[string]any{"policy": allow}})
						case "policy-delete", "policy-delete@ns1":
							pResp, pErr = v.Do(vReq{Op: logical.DeleteOperation, Path: "sys/policies/acl/" + pname, Token: v.Root, NS: sc.ns})
						case "token-revoke":
							pResp, pErr = v.Do(vReq{Op: logical.UpdateOperation, Path: "auth/token/revoke", Token: v.Root, NS: sc.ns, Data: map[string]any{"token": tokID}})
						case "entity-disable":
							pResp, pErr = v.Do(vReq{Op: logical.UpdateOperation, Path: "identity/entity/id/" + entID, Token: v.Root, NS: sc.ns, Data: map[string]any{"disabled": true}})
						}
					}},
					{Tag: "R", Fn: func() { r1 = doR() }},
				}
				sched := v.Probe.RunGated(reqs, pol, kit.GateOpts{})
				r.Eval(1)
				if sched.TimedOut {
					r.Inconc("%s: gate watchdog expired", caseID)
					return sched, false
				}
				if sched.Overlap() {
					r.Count("overlapping_schedules", 1)
					r.Nontrivial(sc.name + fmt.Sprint(tx) + sched.Hash())
				}
				pstr := vErrStr(pResp, pErr)
				if !vOK(pResp, pErr) {
					r.Count("change_failed", 1)
					r.Note("%s: the configuration change failed: %s", caseID, pstr)
					return sched, true
				}
				d := x.storageDigest()
				r1.changed = d != x.digest
				x.digest = d
				switch {
				case r1.handlers == 1 && r1.ok:
					r.Count("concurrent_R_authorised", 1)
				case r1.handlers == 0 && !r1.ok && !r1.changed:
					r.Count("concurrent_R_refused", 1)
				default:
					r.Violate("C02-concurrent-inconsistent", caseID, fmt.Sprintf("[%s] %s: the request racing the change was neither handled-and-successful nor refused-without-effect: %+v", caseID, sc.name, r1), witness(sched, r0, r1, res{}, pstr))
					return sched, false
				}
				// the very next request after P returned
				r2 := doR()
				d = x.storageDigest()
				r2.changed = d != x.digest
				x.digest = d
				good := (r2.handlers == 1 && r2.ok) == sc.after
				if !sc.after && (r2.handlers != 0 || r2.ok || r2.changed) {
					good = false
				}
				if !good {
					r.Violate("C02-stale-after-change", caseID, fmt.Sprintf("[%s] %s: after the change returned the next request must be authorised=%v, observed %+v (racing request: %+v)", caseID, sc.name, sc.after, r2, r1), witness(sched, r0, r1, r2, pstr))
					return sched, false
				}
				r.Count("next_request_follows_change", 1)
				if n%37 == 1 {
					r.Sample(map[string]any{"case": caseID, "scenario": sc.name, "schedule": sched.String(), "racing": fmt.Sprintf("%+v", r1), "next": fmt.Sprintf("%+v", r2)})
				}
				return sched, r.NViolations() < 5
			}
			ex := &kit.Explorer{MaxPreempt: 2, MaxRuns: kit.N(20, 120)}
			idx := 0
			ex.Explore(func(pol kit.Policy) (kit.Schedule, bool) {
				idx++
				caseID := fmt.Sprintf("conc:%v:%s:ex:%d", tx, sc.name, idx)
				if !kit.WantCase(caseID) {
					return kit.Schedule{Diverged: true}, true
				}
				return run(pol, caseID)
			})
			r.Count("explorer_runs", ex.Runs)
			for k := 0; k < kit.N(12, 100); k++ {
				caseID := fmt.Sprintf("conc:%v:%s:pct:%d:%d", tx, sc.name, shard, k)
				if !kit.WantCase(caseID) {
					continue
				}
				rng := kit.NewRand(seed, uint64(si*100000+shard*1000+k)*2+map[bool]uint64{true: 1, false: 0}[tx])
				if _, cont := run(kit.NewPCT(rng, []string{"P", "R"}, 3, 30), caseID); !cont {
					break
				}
			}
		}
		// R || R: k > n requests presenting the same token limited to n uses. Whatever the
		// interleaving of their reads and writes of the token record, at most n may reach the
		// handler; the others are refused without effect.
		v.Policy("ccu", `path "kv/data/*" { capabilities = ["read","update","create"] }`, "")
		for _, ul := range []struct{ n, k int }{{1, 2}, {1, 3}, {2, 3}} {
			if kit.Tier() == "quick" && tx && ul.k == 3 && ul.n == 1 {
				continue
			}
			useRun := func(pol kit.Policy, caseID string) (kit.Schedule, bool) {
				n++
				tk, resp, err := v.CreateToken(v.Root, map[string]any{"policies": []string{"ccu"}, "no_default_policy": true, "ttl": "1h", "num_uses": ul.n}, false, "")
				if tk == nil {
					t.Fatalf("verif: token create failed: %s", vErrStr(resp, err))
				}
				oks := make([]bool, ul.k)
				strs := make([]string, ul.k)
				var reqs []kit.Req
				var tags []string
				for i := 0; i < ul.k; i++ {
					i := i
					tags = append(tags, fmt.Sprintf("U%d", i))
					reqs = append(reqs, kit.Req{Tag: tags[i], Fn: func() {
						resp, err := v.Do(vReq{Op: logical.UpdateOperation, Path: fmt.Sprintf("kv/data/u%d", i), Token: tk.ID, Data: map[string]any{"v": fmt.Sprint(n)}})
						oks[i], strs[i] = vOK(resp, err), vErrStr(resp, err)
					}})
				}
				mark := v.Rec.Len()
				sched := v.Probe.RunGated(reqs, pol, kit.GateOpts{Filter: func(e kit.Event) bool { return strings.Contains(e.Key, "sys/token/id/") }})
				r.Eval(1)
				if sched.TimedOut {
					r.Inconc("%s: gate watchdog expired", caseID)
					return sched, false
				}
				handlers, nok := 0, 0
				for _, e := range v.Rec.Since(mark) {
					if e.Kind == "handler" {
						handlers++
					}
				}
				for _, o := range oks {
					if o {
						nok++
					}
				}
				r.Count("uselimit_schedules", 1)
				if sched.Overlap() {
					r.Count("uselimit_overlapping", 1)
					r.Nontrivial(fmt.Sprintf("uselimit|%d|%d|%v|%s", ul.n, ul.k, tx, sched.Hash()))
				}
				wit := map[string]any{"uses": ul.n, "requests": ul.k, "transactional": tx, "schedule": sched.String(), "responses": strs, "handler_events": handlers}
				if handlers > ul.n || nok > ul.n {
					r.Violate("C02-use-count-exceeded", caseID, fmt.Sprintf("[%s] a token limited to %d use(s) presented by %d overlapping requests drove %d request(s) into the backend handler (%d non-error responses): %v", caseID, ul.n, ul.k, handlers, nok, strs), wit)
					return sched, false
				}
				if handlers != nok {
					r.Violate("C02-concurrent-inconsistent", caseID, fmt.Sprintf("[%s] %d handler events but %d non-error responses: %v", caseID, handlers, nok, strs), wit)
					return sched, false
				}
				r.Count("uselimit_refused", ul.k-nok)
				if handlers == ul.n {
					mark = v.Rec.Len()
					resp, err := v.Do(vReq{Op: logical.UpdateOperation, Path: "kv/data/extra", Token: tk.ID, Data: map[string]any{"v": "x"}})
					if vOK(resp, err) || v.Rec.Len() != mark {
						r.Violate("C02-use-count-exceeded", caseID, fmt.Sprintf("[%s] the token was accepted again after its %d use(s) were spent: %s", caseID, ul.n, vErrStr(resp, err)), wit)
						return sched, false
					}
					r.Count("uselimit_spent_then_refused", 1)
				}
				return sched, r.NViolations() < 5
			}
			ex := &kit.Explorer{MaxPreempt: 2, MaxRuns: kit.N(25, 150)}
			idx := 0
			ex.Explore(func(pol kit.Policy) (kit.Schedule, bool) {
				idx++
				caseID := fmt.Sprintf("conc:%v:uses%d-of-%d:ex:%d", tx, ul.k, ul.n, idx)
				if !kit.WantCase(caseID) {
					return kit.Schedule{Diverged: true}, true
				}
				return useRun(pol, caseID)
			})
			for k := 0; k < kit.N(15, 120); k++ {
				caseID := fmt.Sprintf("conc:%v:uses%d-of-%d:pct:%d:%d", tx, ul.k, ul.n, shard, k)
				if !kit.WantCase(caseID) {
					continue
				}
				rng := kit.NewRand(seed, uint64(7000000+ul.n*100000+ul.k*10000+shard*1000+k)*2+map[bool]uint64{true: 1, false: 0}[tx])
				var tags []string
				for i := 0; i < ul.k; i++ {
					tags = append(tags, fmt.Sprintf("U%d", i))
				}
				if _, cont := useRun(kit.NewPCT(rng, tags, 3, 12), caseID); !cont {
					break
				}
			}
		}
		v.Close()
	}
	r.Require("uselimit_overlapping", 40)
	r.Require("uselimit_refused", 60)
	r.Require("uselimit_spent_then_refused", 60)
	r.Require("overlapping_schedules", 40)
	r.Require("concurrent_R_authorised", 10)
	r.Require("concurrent_R_refused", 10)
	r.Require("next_request_follows_change", 60)
}

// ---------------------------------------------------------------- change inside a request's read window

// c02Hold sits between the core and the probe store. When armed it runs fn once,
// synchronously, right after the n-th Get of the armed goroutine returned: the request
// has taken a value from storage and has not yet acted on it. This is the suspension
// point the storage gate cannot give (it parks a get before it executes).
type c02Hold struct {
	physical.Backend
	mu    sync.Mutex
	goid  uint64
	count int
	at    int
	fn    func(key string)
	keys  []string
}

func (h *c02Hold) Get(ctx context.Context, key string) (*physical.Entry, error) {
	e, err := h.Backend.Get(ctx, key)
	h.mu.Lock()
	var fn func(string)
	if h.goid != 0 && kit.GoID() == h.goid {
		h.count++
		h.keys = append(h.keys, key)
		if h.fn != nil && h.count == h.at {
			fn = h.fn
			h.fn = nil
		}
	}
	h.mu.Unlock()
	if fn != nil {
		fn(key)
	}
	return e, err
}

// arm: calls on this goroutine are counted from now; fn runs after the at-th Get (0: never).
func (h *c02Hold) arm(at int, fn func(string)) {
	h.mu.Lock()
	h.goid, h.count, h.at, h.fn, h.keys = kit.GoID(), 0, at, fn, nil
	h.mu.Unlock()
}

func (h *c02Hold) disarm() []string {
	h.mu.Lock()
	defer h.mu.Unlock()
	h.goid, h.fn = 0, nil
	return h.keys
}

func TestVerif_C02_ReadWindow(t *testing.T) {
	seed := kit.Seed(2)
	r := kit.NewResult(t, "c02-readwindow", seed, "for each configuration change P (policy delete, policy restricting rewrite, token revoke, entity disable; root and child namespace) and each storage read g_i that a dependent, authorised request R performs on a core whose policy LRU is cold (purged, as after unseal or eviction) and whose physical cache is off: P is issued and, if it is not blocked by R, completes entirely between the moment g_i returned and R's next step; R must be handled-and-successful or refused-without-effect, and every request issued after P returned must be refused without a handler event. All read positions of R are enumerated; a case is non-trivial when P completed inside the window; distinct by (scenario, class of the key read)")
	r.Exhaustive = true
	defer r.Write(t)
	inner, probe := kit.NewInmemProbe(false)
	hold := &c02Hold{Backend: inner}
	v := vBoot(t, vOpts{Cache: true, Phys: hold}) // cache on: the policy store has its LRU
	v.Probe = probe
	v.Core.physicalCache.SetEnabled(false) // every read reaches the store
	x := &c02Run{t: t, r: r, v: v, rng: kit.NewRand(seed, 998), w: &c02World{NSs: []string{"", "ns1/"}, Policies: map[string]*c02Policy{}}}
	v.MustDo(vReq{Op: logical.UpdateOperation, Path: "sys/namespaces/ns1", Token: v.Root})
	for _, ns := range x.w.NSs {
		for _, mp := range []struct {
			p    string
			auth bool
		}{{"kv/", false}, {"auth/rec/", true}} {
			m := &c02Mount{NS: ns, Path: mp.p, Abs: ns + mp.p, Auth: mp.auth}
			x.w.Mounts = append(x.w.Mounts, m)
			x.mount(m)
		}
	}
	allow := `path "kv/data/c" { capabilities = ["read","update","create"] }`
	restrict := `path "kv/data/c" { capabilities = ["list"] }`
	type scen struct {
		name, ns string
		write    bool
	}
	var scens []scen
	for _, w := range []bool{false, true} {
		for _, ns := range []string{"", "ns1/"} {
			for _, nm := range []string{"policy-delete", "policy-restrict", "token-revoke", "entity-disable"} {
				scens = append(scens, scen{nm, ns, w})
			}
		}
	}
	n := 0
	for _, sc := range scens {
		type fixture struct{ pname, tok, ent string }
		setup := func() fixture {
			n++
			f := fixture{pname: fmt.Sprintf("rw%d", n)}
			v.Policy(f.pname, allow, sc.ns)
			if sc.name == "entity-disable" {
				resp, err := v.Do(vReq{Op: logical.UpdateOperation, Path: sc.ns + "auth/rec/login/u", Data: map[string]any{"policies": []string{f.pname}, "alias": fmt.Sprintf("rw%d", n), "no_default_policy": true, "ttl": "1h"}})
				if !vOK(resp, err) || resp == nil || resp.Auth == nil {
					t.Fatalf("verif: login failed: %s", vErrStr(resp, err))
				}
				f.tok, f.ent = resp.Auth.ClientToken, resp.Auth.EntityID
			} else {
				tk, resp, err := v.CreateToken(v.Root, map[string]any{"policies": []string{f.pname}, "no_default_policy": true, "ttl": "1h"}, false, sc.ns)
				if tk == nil {
					t.Fatalf("verif: token create failed: %s", vErrStr(resp, err))
				}
				f.tok = tk.ID
			}
			return f
		}
		change := func(f fixture) (*logical.Response, error) {
			switch sc.name {
			case "policy-delete":
				return v.Do(vReq{Op: logical.DeleteOperation, Path: "sys/policies/acl/" + f.pname, Token: v.Root, NS: sc.ns})
			case "policy-restrict":
				return v.Do(vReq{Op: logical.UpdateOperation, Path: "sys/policies/acl/" + f.pname, Token: v.Root, NS: sc.ns, Data: map[string]any{"policy": restrict}})
			case "token-revoke":
				return v.Do(vReq{Op: logical.UpdateOperation, Path: "auth/token/revoke", Token: v.Root, NS: sc.ns, Data: map[string]any{"token": f.tok}})
			default:
				return v.Do(vReq{Op: logical.UpdateOperation, Path: "identity/entity/id/" + f.ent, Token: v.Root, NS: sc.ns, Data: map[string]any{"disabled": true}})
			}
		}
		type res struct {
			OK       bool   `json:"non_error"`
			Handlers int    `json:"handler_events"`
			Resp     string `json:"response"`
		}
		doR := func(f fixture) res {
			mark := v.Rec.Len()
			op, data := logical.ReadOperation, map[string]any(nil)
			if sc.write {
				op, data = logical.UpdateOperation, map[string]any{"v": fmt.Sprint(n)}
			}
			resp, err := v.Do(vReq{Op: op, Path: "kv/data/c", Token: f.tok, NS: sc.ns, Data: data})
			out := res{OK: vOK(resp, err), Resp: vErrStr(resp, err)}
			for _, e := range v.Rec.Since(mark) {
				if e.Kind == "handler" {
					out.Handlers++
				}
			}
			return out
		}
		// how many reads does a cold R make?
		f0 := setup()
		if r0 := doR(f0); !(r0.OK && r0.Handlers == 1) {
			r.Violate("C02-concurrent-baseline", "", fmt.Sprintf("readwindow %s: the authorised baseline request failed: %+v", sc.name, r0), nil)
			continue
		}
		v.Core.policyStore.PurgeCache()
		hold.arm(0, nil)
		doR(f0)
		keys := hold.disarm()
		r.Count(fmt.Sprintf("reads_per_cold_request:%s@%s write=%v", sc.name, sc.ns, sc.write), len(keys))
		for i := 1; i <= len(keys) && i <= 60; i++ {
			caseID := fmt.Sprintf("rw:%s:%s:%v:%d", sc.name, sc.ns, sc.write, i)
			if !kit.WantCase(caseID) {
				continue
			}
			f := setup()
			r0 := doR(f)
			if !(r0.OK && r0.Handlers == 1) {
				r.Violate("C02-concurrent-baseline", caseID, fmt.Sprintf("[%s] the authorised baseline request failed: %+v", caseID, r0), nil)
				break
			}
			v.Core.policyStore.PurgeCache()
			x.digest = x.storageDigest()
			var pResp *logical.Response
			var pErr error
			done := make(chan struct{})
			inside, heldKey := false, ""
			hold.arm(i, func(key string) {
				heldKey = key
				go func() {
					defer close(done)
					pResp, pErr = change(f)
				}()
				select {
				case <-done:
					inside = true
				case <-time.After(150 * time.Millisecond): // P waits for a lock R holds: let R go on (another schedule, not a verdict)
				}
			})
			r1 := doR(f)
			hold.disarm()
			r.Eval(1)
			if heldKey == "" {
				r.Count("window_not_reached", 1)
				continue
			}
			select {
			case <-done:
			case <-time.After(30 * time.Second):
				r.Inconc("%s: the configuration change did not finish", caseID)
				return
			}
			kc := c02KeyClass(heldKey)
			wit := map[string]any{"scenario": sc.name, "namespace": sc.ns, "write": sc.write, "read_index": i, "key_read": kc, "change_completed_inside_window": inside, "R_in_window": r1, "change": vErrStr(pResp, pErr)}
			if !vOK(pResp, pErr) {
				r.Count("change_failed", 1)
				r.Note("%s: change failed: %s", caseID, vErrStr(pResp, pErr))
				continue
			}
			if inside {
				r.Count("change_completed_inside_window", 1)
				r.Nontrivial(fmt.Sprint(sc.name, "|", sc.ns, "|", sc.write, "|", kc))
			} else {
				r.Count("change_blocked_by_request", 1)
			}
			d := x.storageDigest()
			changed := d != x.digest
			x.digest = d
			if !(r1.OK && r1.Handlers == 1) && !(!r1.OK && r1.Handlers == 0 && !changed) { // a handled write changes storage, a refused request must not
				r.Violate("C02-concurrent-inconsistent", caseID, fmt.Sprintf("[%s] the request whose read window contained the change was neither handled-and-successful nor refused-without-effect: %+v", caseID, r1), wit)
				continue
			}
			stale := false
			for k := 0; k < 2 && !stale; k++ {
				r2 := doR(f)
				if r2.OK || r2.Handlers != 0 {
					wit["R_after"] = r2
					r.Violate("C02-stale-after-change", caseID, fmt.Sprintf("[%s] %s (ns %q) completed successfully %s the window after the request's read #%d (%s); request %d issued afterwards is still authorised: %+v", caseID, sc.name, sc.ns, map[bool]string{true: "inside", false: "after"}[inside], i, kc, k+1, r2), wit)
					stale = true
				}
			}
			if !stale {
				r.Count("next_requests_follow_change", 1)
			}
			if r.NViolations() > 8 {
				return
			}
		}
	}
	r.Require("change_completed_inside_window", 45)
	r.Require("next_requests_follow_change", 60)
}
