//go:build verif

package http

// C02 through the real HTTP handler: a sample of the request space of the
// core-level monitor is replayed over net/http against httptest-style server
// (TestServer) so that the handler's own path building, method -> operation
// mapping, token / namespace header extraction and the ServeMux path cleaning
// are inside the observed system. The oracle is the same: a slim copy of the
// reference authoriser (the in-package files of internal/vault cannot be
// shared with this package) against the handler log of a recording backend,
// the HTTP status class and the physical writes under the recording mounts.

import (
	"bytes"
	"context"
	"crypto/sha256"
	"encoding/json"
	"fmt"
	"io"
	nethttp "net/http"
	"regexp"
	"sort"
	"strings"
	"sync"
	"testing"
	"time"

	"github.com/openbao/openbao/sdk/v2/framework"
	kit "github.com/openbao/openbao/sdk/v2/helper/verifkit"
	"github.com/openbao/openbao/sdk/v2/logical"
	"github.com/openbao/openbao/v2/internal/vault"
)

// ---------------------------------------------------------------- recording backend

type c02hEvent struct {
	Mount string `json:"mount"`
	Op    string `json:"op"`
	Path  string `json:"path"`
}

type c02hRec struct {
	mu     sync.Mutex
	events []c02hEvent
}

func (r *c02hRec) add(req *logical.Request) {
	r.mu.Lock()
	r.events = append(r.events, c02hEvent{Mount: req.MountPoint, Op: string(req.Operation), Path: req.Path})
	r.mu.Unlock()
}

func (r *c02hRec) take() []c02hEvent {
	r.mu.Lock()
	defer r.mu.Unlock()
	e := r.events
	r.events = nil
	return e
}

func (r *c02hRec) factory(typ logical.BackendType) logical.Factory {
	return func(ctx context.Context, conf *logical.BackendConfig) (logical.Backend, error) {
		var b *framework.Backend
		handle := func(ctx context.Context, req *logical.Request, d *framework.FieldData) (*logical.Response, error) {
			r.add(req)
			key := "d/" + req.Path
			switch req.Operation {
			case logical.ReadOperation:
				e, err := req.Storage.Get(ctx, key)
				if err != nil || e == nil {
					return nil, err
				}
				return &logical.Response{Data: map[string]any{"v": string(e.Value)}}, nil
			case logical.CreateOperation, logical.UpdateOperation, logical.PatchOperation:
				return nil, req.Storage.Put(ctx, &logical.StorageEntry{Key: key, Value: []byte(fmt.Sprint(req.Data["v"]))})
			case logical.DeleteOperation:
				return nil, req.Storage.Delete(ctx, key)
			case logical.ListOperation, logical.ScanOperation:
				names, err := req.Storage.List(ctx, key)
				if err != nil {
					return nil, err
				}
				return logical.ListResponse(names), nil
			}
			return nil, logical.ErrUnsupportedOperation
		}
		exists := func(ctx context.Context, req *logical.Request, d *framework.FieldData) (bool, error) {
			e, err := req.Storage.Get(ctx, "d/"+req.Path)
			return e != nil, err
		}
		ops := func(o ...logical.Operation) map[logical.Operation]framework.OperationHandler {
			m := map[logical.Operation]framework.OperationHandler{}
			for _, op := range o {
				m[op] = &framework.PathOperation{Callback: handle}
			}
			return m
		}
		none := map[string]*framework.FieldSchema{}
		b = &framework.Backend{
			BackendType:  typ,
			PathsSpecial: &logical.Paths{Unauthenticated: []string{"unauth/*"}, Root: []string{"root/*"}},
			Paths: []*framework.Path{
				{Pattern: "data/.*", Fields: none, ExistenceCheck: exists, Operations: ops(logical.ReadOperation, logical.CreateOperation, logical.UpdateOperation, logical.PatchOperation, logical.DeleteOperation, logical.ListOperation, logical.ScanOperation)},
				{Pattern: "unauth/.*", Fields: none, Operations: ops(logical.ReadOperation, logical.UpdateOperation)},
				{Pattern: "root/.*", Fields: none, Operations: ops(logical.ReadOperation, logical.UpdateOperation, logical.DeleteOperation, logical.ListOperation)},
			},
		}
		if err := b.Setup(ctx, conf); err != nil {
			return nil, err
		}
		return b, nil
	}
}

// ---------------------------------------------------------------- slim reference (see internal/vault harness for the commented original)

type c02hRule struct {
	Pat  string
	Caps []string
}
type c02hTok struct {
	Name, Kind, NS, ID string
	Rules              []c02hRule // absolute patterns
	Root, Dead         bool
}
type c02hMount struct {
	Abs, Prefix string
	Exists      map[string]bool
}
type c02hWorld struct {
	NSs    []string
	Mounts []*c02hMount
}

var c02hPatterns = []struct {
	re  *regexp.Regexp
	ops string
}{
	{regexp.MustCompile(`^data/.*$`), "read create update delete list scan"},
	{regexp.MustCompile(`^unauth/.*$`), "read update"},
	{regexp.MustCompile(`^root/.*$`), "read update delete list"},
}

func c02hMatch(pat, path string) (bool, bool) {
	prefix := strings.HasSuffix(pat, "*")
	body := strings.TrimSuffix(pat, "*")
	if !strings.Contains(body, "+") {
		if prefix {
			return strings.HasPrefix(path, body), false
		}
		return pat == path, true
	}
	ps, xs := strings.Split(body, "/"), strings.Split(path, "/")
	if len(xs) < len(ps) || (!prefix && len(xs) != len(ps)) {
		return false, false
	}
	for i, p := range ps {
		switch {
		case p == "+", p == xs[i]:
		case prefix && i == len(ps)-1 && strings.HasPrefix(xs[i], p):
		default:
			return false, false
		}
	}
	return true, false
}

func c02hLower(p1, p2 string) bool {
	first := func(p string) int { return strings.IndexAny(p, "+*") }
	if a, b := first(p1), first(p2); a != b {
		return a < b
	}
	if a, b := strings.HasSuffix(p1, "*"), strings.HasSuffix(p2, "*"); a != b {
		return a
	}
	if a, b := strings.Count(p1, "+"), strings.Count(p2, "+"); a != b {
		return a > b
	}
	if len(p1) != len(p2) {
		return len(p1) < len(p2)
	}
	return p1 < p2
}

// acl: allow / deny / unknown
func (t *c02hTok) acl(reqNS, abs, op string, sudo bool) string {
	if t.Root {
		return "allow"
	}
	rules := map[string]map[string]bool{}
	for _, r := range t.Rules {
		m := rules[r.Pat]
		if m == nil {
			m = map[string]bool{}
			rules[r.Pat] = m
		}
		for _, c := range r.Caps {
			m[c] = true
		}
	}
	win := func(path string) (map[string]bool, bool, bool) {
		best := ""
		for pat := range rules {
			ok, exact := c02hMatch(pat, path)
			if !ok {
				continue
			}
			if exact {
				return rules[pat], true, true
			}
			if best == "" || c02hLower(best, pat) {
				best = pat
			}
		}
		if best == "" {
			return nil, false, false
		}
		return rules[best], true, false
	}
	caps, ok, exact := win(abs)
	if (op == "list" || op == "scan") && strings.HasSuffix(abs, "/") && !exact {
		if _, ok2, ex2 := win(strings.TrimSuffix(abs, "/")); ex2 || (!ok && ok2) {
			return "unknown"
		}
	}
	if !ok || caps["deny"] || !caps[op] || (sudo && !caps["sudo"]) {
		return "deny"
	}
	return "allow"
}

type c02hReq struct {
	Method string `json:"method"`
	Path   string `json:"path"` // after /v1/
	Query  string `json:"query,omitempty"`
	NSHdr  string `json:"ns_header,omitempty"`
	Tok    string `json:"token_name"`
	Bearer bool   `json:"bearer,omitempty"`
	Body   string `json:"body,omitempty"`
	// Wire: the path as sent when it differs from Path (percent-encoded dots, which the server decodes)
	Wire string `json:"path_on_the_wire,omitempty"`
}

type c02hVerdict struct {
	Kind    string `json:"verdict"`
	Reason  string `json:"reason"`
	Mount   string `json:"mount,omitempty"`
	BPath   string `json:"backend_path,omitempty"`
	Op      string `json:"op,omitempty"`
	Handler bool   `json:"handler_expected"`
	Would   bool   `json:"policy_would_allow,omitempty"`
	m       *c02hMount
}

func (w *c02hWorld) judge(q *c02hReq, t *c02hTok) *c02hVerdict {
	v := &c02hVerdict{}
	deny := func(s string) *c02hVerdict { v.Kind, v.Reason = "deny", s; return v }
	p := q.Path
	for _, s := range strings.Split(p, "/") {
		if s == "." || s == ".." {
			return deny("early:relative-path")
		}
	}
	if strings.Contains(p, "//") || strings.HasPrefix(p, "/") {
		return deny("early:unclean-path") // the mux redirects to the cleaned path; nothing may happen for this request
	}
	op := map[string]string{"GET": "read", "POST": "update", "PUT": "update", "DELETE": "delete", "LIST": "list", "SCAN": "scan"}[q.Method]
	if q.Method == "GET" && q.Query == "list=true" {
		op = "list"
	}
	if (op == "list" || op == "scan") && !strings.HasSuffix(p, "/") {
		p += "/"
	}
	hdr := ""
	for _, s := range strings.Split(q.NSHdr, "/") {
		if s != "" {
			hdr += s + "/"
		}
	}
	full := hdr + p
	ns := ""
	for _, n := range w.NSs {
		if n != "" && strings.HasPrefix(full, n) && len(n) > len(ns) {
			ns = n
		}
	}
	if !strings.HasPrefix(ns, hdr) {
		return deny("early:namespace-not-found")
	}
	rel := full[len(ns):]
	if ns != "" && (rel == "sys/health" || rel == "sys/audit" || strings.HasPrefix(rel, "sys/raw/") || rel == "sys/metrics") {
		return deny("early:restricted-sys-api-in-child-namespace")
	}
	if strings.HasSuffix(rel, "/") && op == "update" {
		return deny("early:write-to-trailing-slash")
	}
	var m *c02hMount
	for _, x := range w.Mounts {
		if strings.HasPrefix(full, x.Abs) && (m == nil || len(x.Abs) > len(m.Abs)) {
			m = x
		}
	}
	bp := ""
	if m != nil {
		bp = full[len(m.Abs):]
	} else if !strings.HasSuffix(full, "/") {
		for _, x := range w.Mounts {
			if full+"/" == x.Abs {
				m = x
			}
		}
	}
	pat := -1
	if m != nil {
		v.m, v.Mount, v.BPath = m, m.Abs, bp
		for i, pp := range c02hPatterns {
			if pp.re.MatchString(bp) {
				pat = i
				break
			}
		}
	}
	if op == "update" && pat == 0 && !m.Exists[bp] {
		op = "create"
	}
	v.Op = op
	supported := pat >= 0 && strings.Contains(" "+c02hPatterns[pat].ops+" ", " "+op+" ")
	if m != nil && strings.HasPrefix(bp, "unauth/") {
		if t != nil && (t.Dead || t.Kind == "batch") {
			v.Kind, v.Reason = "unknown", "unauthenticated path with a dead/batch token"
			return v
		}
		v.Kind, v.Reason, v.Handler = "allow", "declared unauthenticated path", supported
		return v
	}
	if t == nil {
		return deny("no token")
	}
	a := t.acl(ns, full, op, m != nil && strings.HasPrefix(bp, "root/"))
	if m == nil && op == "update" && a != t.acl(ns, full, "create", false) {
		a = "unknown"
	}
	switch {
	case t.Dead:
		v.Would = a == "allow"
		return deny("token:" + t.Kind)
	case a == "deny":
		return deny("policy")
	case a == "unknown":
		v.Kind, v.Reason = "unknown", "outside the reference"
		return v
	}
	v.Kind, v.Reason, v.Handler = "allow", "policy", supported
	return v
}

// ---------------------------------------------------------------- harness

type c02hRun struct {
	t      *testing.T
	r      *kit.Result
	addr   string
	root   string
	probe  *kit.Probe
	rec    *c02hRec
	w      *c02hWorld
	toks   []*c02hTok
	client *nethttp.Client
	digest string
	caseID string
	steps  []string
}

func (x *c02hRun) api(method, path, token, ns string, body any) (int, map[string]any) {
	var rd io.Reader
	if body != nil {
		b, _ := json.Marshal(body)
		rd = bytes.NewReader(b)
	}
	req, err := nethttp.NewRequest(method, x.addr+"/v1/"+path, rd)
	if err != nil {
		x.t.Fatalf("verif: %v", err)
	}
	if token != "" {
		req.Header.Set("X-Vault-Token", token)
	}
	if ns != "" {
		req.Header.Set("X-Vault-Namespace", ns)
	}
	resp, err := x.client.Do(req)
	if err != nil {
		x.t.Fatalf("verif: http %s %s: %v", method, path, err)
	}
	defer resp.Body.Close()
	raw, _ := io.ReadAll(resp.Body)
	var out map[string]any
	_ = json.Unmarshal(raw, &out)
	return resp.StatusCode, out
}

func (x *c02hRun) must(method, path, ns string, body any) map[string]any {
	code, out := x.api(method, path, x.root, ns, body)
	if code/100 != 2 {
		x.t.Fatalf("verif: setup %s %s (ns %q) -> %d %v", method, path, ns, code, out)
	}
	return out
}

func (x *c02hRun) storageDigest() string {
	h := sha256.New()
	ctx := context.Background()
	in := x.probe.Inner()
	var walk func(p string)
	walk = func(p string) {
		names, _ := in.List(ctx, p)
		sort.Strings(names)
		for _, n := range names {
			if strings.HasSuffix(n, "/") {
				walk(p + n)
			} else if e, _ := in.Get(ctx, p+n); e != nil {
				s := sha256.Sum256(e.Value)
				fmt.Fprintf(h, "%s=%x\n", p+n, s[:8])
			}
		}
	}
	for _, m := range x.w.Mounts {
		walk(m.Prefix)
	}
	return fmt.Sprintf("%x", h.Sum(nil)[:12])
}

func (x *c02hRun) mount(ns, path string, auth bool) {
	api := "sys/mounts/" + strings.TrimSuffix(path, "/")
	if auth {
		api = "sys/" + strings.TrimSuffix(path, "/")
	}
	x.must("POST", api, ns, map[string]any{"type": "c02rec"})
	m := &c02hMount{Abs: ns + path, Exists: map[string]bool{}}
	x.probe.StartLog(false)
	x.must("POST", m.Abs+"data/zzmarker", "", map[string]any{"v": "m"})
	for _, e := range x.probe.StopLog() {
		if e.Op == "put" && strings.HasSuffix(e.Key, "d/data/zzmarker") {
			m.Prefix = strings.TrimSuffix(e.Key, "d/data/zzmarker")
		}
	}
	if m.Prefix == "" {
		x.t.Fatalf("verif: no storage prefix found for %s", m.Abs)
	}
	x.must("DELETE", m.Abs+"data/zzmarker", "", nil)
	x.rec.take()
	x.w.Mounts = append(x.w.Mounts, m)
}

func (x *c02hRun) token(name, kind, ns string, rules []c02hRule, polNames []string, extra map[string]any) *c02hTok {
	data := map[string]any{"policies": polNames, "no_default_policy": true, "ttl": "1h"}
	for k, v := range extra {
		data[k] = v
	}
	out := x.must("POST", "auth/token/create", ns, data)
	auth, _ := out["auth"].(map[string]any)
	id, _ := auth["client_token"].(string)
	if id == "" {
		x.t.Fatalf("verif: no token in %v", out)
	}
	t := &c02hTok{Name: name, Kind: kind, NS: ns, ID: id, Rules: rules}
	x.toks = append(x.toks, t)
	return t
}

func TestVerif_C02H_HTTP(t *testing.T) {
	seed := kit.Seed(2)
	shard, _ := kit.Shard()
	r := kit.NewResult(t, "c02-http", seed, "a sample of the C02 request space sent over net/http to the real handler (method -> operation, LIST/SCAN verbs and ?list=true, X-Vault-Token and Authorization: Bearer, X-Vault-Namespace header vs. path prefix, raw unclean URL paths with // . .. that the mux cleans): reference authoriser vs. handler log of a recording backend, HTTP status class, response body and the physical storage of the recording mounts; non-trivial: a request refused only for its token state, or an authorised request that reached the handler; distinct by (state, op, mount, backend path)")
	defer r.Write(t)
	ntopo := kit.N(6, 10)
	for ti := 0; ti < ntopo; ti++ {
		caseID := fmt.Sprintf("http:%d:%d", shard, ti)
		if !kit.WantCase(caseID) {
			continue
		}
		c02hTopology(t, r, kit.NewRand(seed, uint64(5000+shard*100+ti)), caseID, kit.N(700, 2000))
		if r.NViolations() > 5 {
			break
		}
	}
	r.Require("authorised_handled", int64(ntopo*40))
	r.Require("refused:policy", int64(ntopo*40))
	r.Require("refused_though_policy_allows", int64(ntopo*30))
	r.Require("refused:early:unclean-path", int64(ntopo*3))
	r.Require("refused:early:relative-path", int64(ntopo*3))
	r.Require("unauth_handled", int64(ntopo*2))
	r.Require("bearer_authorised", int64(ntopo*3))
	r.Require("http_refused_for_parameter_constraints:PATCH", int64(ntopo*6))
	r.Require("http_refused_for_parameter_constraints:POST", int64(ntopo*6))
	r.Require("http_served_within_parameter_constraints:PATCH", int64(ntopo*2))
}

func c02hTopology(t *testing.T, r *kit.Result, rng *kit.Rand, caseID string, nreq int) {
	phys, probe := kit.NewInmemProbe(rng.Chance(1, 2))
	rec := &c02hRec{}
	core, _, root := vault.TestCoreUnsealedWithConfig(t, &vault.CoreConfig{
		Physical:           phys,
		LogicalBackends:    map[string]logical.Factory{"c02rec": rec.factory(logical.TypeLogical)},
		CredentialBackends: map[string]logical.Factory{"c02rec": rec.factory(logical.TypeCredential)},
	})
	ln, addr := TestServer(t, core)
	defer ln.Close()
	x := &c02hRun{t: t, r: r, addr: addr, root: root, probe: probe, rec: rec, caseID: caseID, w: &c02hWorld{},
		client: &nethttp.Client{Timeout: 20 * time.Second, CheckRedirect: func(*nethttp.Request, []*nethttp.Request) error { return nethttp.ErrUseLastResponse }}}
	trees := [][]string{{"", "ns1/", "ns1/sub/"}, {"", "ns1/", "ns2/"}}
	x.w.NSs = trees[rng.Intn(len(trees))]
	for _, ns := range x.w.NSs[1:] {
		parts := strings.Split(strings.TrimSuffix(ns, "/"), "/")
		parent := strings.Join(parts[:len(parts)-1], "/")
		x.must("POST", "sys/namespaces/"+parts[len(parts)-1], parent, nil)
	}
	x.mount("", "kv/", false)
	x.mount("", "kvx/", false)
	x.mount("", "team/a/", false)
	x.mount("", "team/ab/", false)
	x.mount("", "auth/rec/", true)
	for _, ns := range x.w.NSs[1:] {
		x.mount(ns, kit.Pick(rng, []string{"kv/", "deep/x/"}), false)
		if rng.Chance(1, 2) {
			x.mount(ns, "auth/rec/", true)
		}
	}
	capNames := []string{"read", "create", "update", "delete", "list", "scan", "sudo"}
	genRules := func(ns string) []c02hRule {
		var out []c02hRule
		seen := map[string]bool{}
		for len(out) < 2+rng.Intn(3) {
			var cands []*c02hMount
			for _, m := range x.w.Mounts {
				if strings.HasPrefix(m.Abs, ns) {
					cands = append(cands, m)
				}
			}
			m := kit.Pick(rng, cands)
			pat := m.Abs[len(ns):] + kit.Pick(rng, []string{"data/a", "data/b", "data/*", "data/a*", "data/+", "data/+/b", "*", "root/*", "root/r", "data/", "+/a"})
			if rng.Chance(1, 10) {
				pat = strings.TrimSuffix(m.Abs[len(ns):], "/") + "*"
			}
			if seen[pat] {
				continue
			}
			seen[pat] = true
			var caps []string
			switch {
			case rng.Chance(1, 7):
				caps = []string{"deny"}
			default:
				for _, c := range capNames {
					if rng.Chance(2, 5) {
						caps = append(caps, c)
					}
				}
				if len(caps) == 0 {
					caps = []string{"read"}
				}
			}
			out = append(out, c02hRule{Pat: pat, Caps: caps})
		}
		return out
	}
	hcl := func(rules []c02hRule) string {
		var b strings.Builder
		for _, ru := range rules {
			q := make([]string, len(ru.Caps))
			for i, c := range ru.Caps {
				q[i] = fmt.Sprintf("%q", c)
			}
			fmt.Fprintf(&b, "path %q { capabilities = [%s] }\n", ru.Pat, strings.Join(q, ","))
		}
		return b.String()
	}
	abs := func(ns string, rules []c02hRule) []c02hRule {
		out := make([]c02hRule, len(rules))
		for i, ru := range rules {
			out[i] = c02hRule{Pat: ns + ru.Pat, Caps: ru.Caps}
		}
		return out
	}
	for _, ns := range x.w.NSs {
		tag := strings.ReplaceAll(strings.TrimSuffix(ns, "/"), "/", ".")
		if tag == "" {
			tag = "root"
		}
		all := []c02hRule{{Pat: "*", Caps: capNames}}
		x.must("POST", "sys/policies/acl/c02-all", ns, map[string]any{"policy": hcl(all)})
		for i := 0; i < 3; i++ {
			rules := genRules(ns)
			name := fmt.Sprintf("p%d", i)
			x.must("POST", "sys/policies/acl/"+name, ns, map[string]any{"policy": hcl(rules)})
			x.token(fmt.Sprintf("%s/live%d", tag, i), "live", ns, abs(ns, rules), []string{name}, nil)
		}
		admin := x.token(tag+"/admin", "live", ns, abs(ns, all), []string{"c02-all"}, nil)
		rv := x.token(tag+"/revoked", "revoked", ns, abs(ns, all), []string{"c02-all"}, nil)
		x.must("POST", "auth/token/revoke", ns, map[string]any{"token": rv.ID})
		rv.Dead = true
		x.token(tag+"/batch", "batch", ns, abs(ns, all), []string{"c02-all"}, map[string]any{"type": "batch"})
		id := admin.ID
		pos := 8 + rng.Intn(len(id)-14) // inside the signed part (not the unsigned version field, not the last characters)
		c := byte('A')
		if id[pos] == 'A' {
			c = 'B'
		}
		x.toks = append(x.toks, &c02hTok{Name: tag + "/admin~char", Kind: "flipped-char", NS: ns, ID: id[:pos] + string(c) + id[pos+1:], Rules: admin.Rules, Dead: true})
		x.toks = append(x.toks, &c02hTok{Name: tag + "/admin~trunc", Kind: "truncated", NS: ns, ID: id[:len(id)-6], Rules: admin.Rules, Dead: true})
	}
	x.toks = append(x.toks, &c02hTok{Name: "garbage", Kind: "garbage", ID: "hvs." + strings.Repeat("z", 24), Rules: []c02hRule{{Pat: "*", Caps: capNames}}, Dead: true})
	x.toks = append(x.toks, &c02hTok{Name: "root", Kind: "root", ID: root, Root: true})
	x.rec.take()
	x.digest = x.storageDigest()
	r.Count("topologies", 1)

	for i := 0; i < nreq; i++ {
		var tok *c02hTok
		if !rng.Chance(1, 15) {
			tok = kit.Pick(rng, x.toks)
		}
		q := &c02hReq{Method: kit.Pick(rng, []string{"GET", "GET", "POST", "POST", "PUT", "DELETE", "LIST", "SCAN", "GET"})}
		full := ""
		if tok != nil && len(tok.Rules) > 0 && !tok.Root && rng.Chance(1, 2) && tok.Rules[0].Pat != tok.NS+"*" {
			ru := kit.Pick(rng, tok.Rules)
			body := strings.TrimSuffix(ru.Pat, "*")
			parts := strings.Split(body, "/")
			for k, p := range parts {
				if p == "+" {
					parts[k] = kit.Pick(rng, []string{"a", "b", "data", "root"})
				}
			}
			full = strings.Join(parts, "/")
			if strings.HasSuffix(ru.Pat, "*") {
				full += kit.Pick(rng, []string{"", "a", "b", "data/a", "root/r", "a/b"})
			}
			cp := kit.Pick(rng, ru.Caps)
			if mth, ok := map[string]string{"read": "GET", "create": "POST", "update": "PUT", "delete": "DELETE", "list": "LIST", "scan": "SCAN"}[cp]; ok {
				q.Method = mth
			}
		} else {
			var cands []*c02hMount
			for _, m := range x.w.Mounts {
				if tok == nil || strings.HasPrefix(m.Abs, tok.NS) || rng.Chance(1, 4) {
					cands = append(cands, m)
				}
			}
			full = kit.Pick(rng, cands).Abs + kit.Pick(rng, []string{"data/a", "data/b", "data/a/b", "data/", "root/r", "root/a", "unauth/u", "data/ab", "", "nothing"})
			if rng.Chance(1, 12) {
				full = kit.Pick(rng, x.w.NSs[1:]) + kit.Pick(rng, []string{"sys/health", "sys/audit", "sys/raw/core/mounts", "sys/metrics"})
				q.Method = "GET"
			}
		}
		if q.Method == "GET" && rng.Chance(1, 8) {
			q.Query = "list=true"
		}
		pct := false
		if rng.Chance(1, 6) {
			switch rng.Intn(10) {
			case 6: // an ordinary dot-prefixed segment followed by '..'
				full = strings.Replace(full, "/data/", "/.c02/../data/", 1)
			case 7:
				full = strings.TrimSuffix(full, "/") + "/.c02/x/../.."
			case 8: // the same with the dots percent-encoded on the wire
				full = strings.Replace(full, "/data/", "/.c02/../data/", 1)
				pct = true
			case 9: // a segment that merely starts with a dot is an ordinary segment
				if strings.Contains(full, "/data/") && !strings.HasSuffix(full, "/") {
					full += "/.c02"
				}
			case 0:
				full = strings.Replace(full, "/", "//", 1)
			case 1:
				full = strings.Replace(full, "data/", "data/../root/", 1)
			case 2:
				full = strings.Replace(full, "/data/", "/zz/../data/", 1)
			case 3:
				full += "/"
			case 4:
				full = strings.Replace(full, "/data/", "/./data/", 1)
			case 5:
				full = strings.TrimSuffix(full, "/")
				if k := strings.LastIndex(full, "/"); k > 0 {
					full = full[:k]
				}
			}
		}
		var heads []string
		for _, ns := range x.w.NSs {
			if strings.HasPrefix(full, ns) {
				heads = append(heads, ns)
			}
		}
		h := kit.Pick(rng, heads)
		q.Path, q.NSHdr = full[len(h):], h
		if pct && strings.Contains(q.Path, "/../") {
			q.Wire = strings.Replace(q.Path, "/../", "/%2e%2e/", 1)
		}
		if h != "" && rng.Chance(1, 5) {
			q.NSHdr = strings.TrimSuffix(h, "/")
		}
		if rng.Chance(1, 40) {
			q.NSHdr = "nsx/"
		}
		if q.Method == "POST" || q.Method == "PUT" {
			q.Body = fmt.Sprintf(`{"v":%q}`, rng.Canary())
		}
		q.Bearer = rng.Chance(1, 4)
		if tok != nil {
			q.Tok = tok.Name
		}
		if !x.one(q, tok) {
			return
		}
	}
	x.paramBlock(rng)
}

// paramBlock: parameter constraints over HTTP: POST/PUT (update) and PATCH with
// application/merge-patch+json (patch) with bodies that satisfy / violate required_parameters,
// denied_parameters and allowed_parameters of the stanza; the constraints bind PATCH like POST.
func (x *c02hRun) paramBlock(rng *kit.Rand) bool {
	r := x.r
	ns := kit.Pick(rng, x.w.NSs)
	var m *c02hMount
	for _, c := range x.w.Mounts {
		if strings.HasPrefix(c.Abs, ns) && !strings.Contains(c.Abs, "auth/") && (m == nil || rng.Chance(1, 2)) {
			m = c
		}
	}
	if m == nil {
		return true
	}
	rel := m.Abs[len(ns):]
	pol := fmt.Sprintf(`path "%sdata/pc/*" {
  capabilities = ["create","read","update","patch"]
  denied_parameters = { "owner" = [] "tier" = ["gold"] }
  required_parameters = ["ticket"]
}
path "%sdata/pa/*" {
  capabilities = ["create","update","patch"]
  allowed_parameters = { "note" = [] }
}`, rel, rel)
	x.must("POST", "sys/policies/acl/hparams", ns, map[string]any{"policy": pol})
	tok := x.token("params", "live", ns, nil, []string{"hparams"}, nil)
	bodies := []struct {
		json   string
		pc, pa bool
	}{
		{`{"ticket":"1","v":"a"}`, true, false},
		{`{"v":"a"}`, false, false},
		{`{"ticket":"1","owner":"me"}`, false, false},
		{`{"ticket":"1","tier":"gold"}`, false, false},
		{`{"ticket":"1","tier":"silver"}`, true, false},
		{`{"note":"n"}`, false, true},
		{`{"note":"n","extra":"e"}`, false, false},
		{`{}`, false, true},
	}
	send := func(method, path, token, ctype, body string) (int, int, bool) {
		req, err := nethttp.NewRequest(method, x.addr+"/v1/"+path, strings.NewReader(body))
		if err != nil {
			x.t.Fatalf("verif: %v", err)
		}
		req.Header.Set("X-Vault-Token", token)
		if ns != "" {
			req.Header.Set("X-Vault-Namespace", ns)
		}
		if ctype != "" {
			req.Header.Set("Content-Type", ctype)
		}
		resp, err := x.client.Do(req)
		if err != nil {
			x.t.Fatalf("verif: http: %v", err)
		}
		io.Copy(io.Discard, resp.Body)
		resp.Body.Close()
		h := len(x.rec.take())
		d := x.storageDigest()
		changed := d != x.digest
		x.digest = d
		return resp.StatusCode, h, changed
	}
	n := 0
	for _, area := range []string{"pc", "pa"} {
		for bi, b := range bodies {
			for _, method := range []string{"POST", "PATCH"} {
				n++
				path := fmt.Sprintf("%sdata/%s/k%d", rel, area, n)
				ctype := ""
				if method == "PATCH" {
					ctype = "application/merge-patch+json"
					send("POST", path, x.root, "", `{"seed":"s"}`) // the key exists
				}
				want := b.pc
				if area == "pa" {
					want = b.pa
				}
				status, handlers, changed := send(method, path, tok.ID, ctype, b.json)
				r.Eval(1)
				x.steps = append(x.steps, fmt.Sprintf("params %s %s%s %s -> want allowed=%v / %d h=%d changed=%v", method, ns, path, b.json, want, status, handlers, changed))
				if want {
					if status/100 == 2 && handlers == 1 {
						r.Count("http_served_within_parameter_constraints:"+method, 1)
					} else {
						r.Count("http_declined_within_parameter_constraints:"+method, 1)
					}
					continue
				}
				r.Count("http_refused_for_parameter_constraints:"+method, 1)
				r.Nontrivial(fmt.Sprintf("params|%s|%s|%d", method, area, bi))
				if status/100 == 2 || handlers > 0 || changed {
					class := "C02-request-served-against-parameter-constraints"
					if method == "PATCH" {
						class = "C02-patch-request-served-against-parameter-constraints"
					}
					r.Violate(class, x.caseID, fmt.Sprintf("[%s] HTTP %s /v1/%s (namespace %q) with body %s violates the parameter constraints of its stanza and was served: status %d, %d handler event(s), storage changed %v", x.caseID, method, path, ns, b.json, status, handlers, changed),
						map[string]any{"policy": pol, "method": method, "path": path, "namespace": ns, "body": b.json, "status": status, "handlers": handlers, "recent": x.steps})
					return false
				}
			}
		}
	}
	return true
}

func (x *c02hRun) one(q *c02hReq, tok *c02hTok) bool {
	r := x.r
	vd := x.w.judge(q, tok)
	url := x.addr + "/v1/" + q.Path
	if q.Wire != "" {
		url = x.addr + "/v1/" + q.Wire
		r.Count("percent_encoded_dot_segments_sent", 1)
	}
	if q.Query != "" {
		url += "?" + q.Query
	}
	var rd io.Reader
	if q.Body != "" {
		rd = strings.NewReader(q.Body)
	}
	req, err := nethttp.NewRequest(q.Method, url, rd)
	if err != nil {
		r.Count("unbuildable_requests", 1)
		return true
	}
	if tok != nil {
		if q.Bearer {
			req.Header.Set("Authorization", "Bearer "+tok.ID)
		} else {
			req.Header.Set("X-Vault-Token", tok.ID)
		}
	}
	if q.NSHdr != "" {
		req.Header.Set("X-Vault-Namespace", q.NSHdr)
	}
	x.probe.StartLog(false)
	resp, err := x.client.Do(req)
	if err != nil {
		x.t.Fatalf("verif: http: %v", err)
	}
	raw, _ := io.ReadAll(resp.Body)
	resp.Body.Close()
	evs := x.probe.StopLog()
	handlers := x.rec.take()
	var writes []string
	for _, e := range evs {
		if (e.Op == "put" || e.Op == "delete") && e.Err == "" {
			for _, m := range x.w.Mounts {
				if strings.HasPrefix(e.Key, m.Prefix) {
					writes = append(writes, e.Op+" "+e.Key)
				}
			}
		}
	}
	d := x.storageDigest()
	changed := d != x.digest
	x.digest = d
	var body map[string]any
	_ = json.Unmarshal(raw, &body)
	carries := body["data"] != nil || body["auth"] != nil || body["wrap_info"] != nil
	ok2xx := resp.StatusCode/100 == 2
	x.steps = append(x.steps, fmt.Sprintf("%s %s?%s ns=%q tok=%s bearer=%v -> ref %s (%s) / %d h=%d", q.Method, q.Path, q.Query, q.NSHdr, q.Tok, q.Bearer, vd.Kind, vd.Reason, resp.StatusCode, len(handlers)))
	if len(x.steps) > 40 {
		x.steps = x.steps[1:]
	}
	r.Eval(1)
	bad := func(class, what string) bool {
		r.Violate(class, x.caseID, fmt.Sprintf("[%s] HTTP %s /v1/%s (ns header %q, token %s): %s; reference %s (%s); observed status %d, %d handler event(s)", x.caseID, q.Method, q.Path, q.NSHdr, q.Tok, what, vd.Kind, vd.Reason, resp.StatusCode, len(handlers)),
			map[string]any{"request": q, "verdict": vd, "status": resp.StatusCode, "body": string(raw), "handlers": handlers, "mount_writes": writes, "recent": x.steps})
		return false
	}
	r.Count("verdict:"+vd.Kind, 1)
	switch vd.Kind {
	case "deny":
		cls := vd.Reason
		r.Count("refused:"+cls, 1)
		if vd.Would {
			r.Count("refused_though_policy_allows", 1)
			r.Nontrivial("dead|" + tok.Kind + "|" + q.Method + "|" + vd.Mount + vd.BPath)
		}
		switch {
		case len(handlers) > 0:
			return bad("C02-handler-invoked-on-refused", "the operation handler ran for a request that must be refused")
		case ok2xx:
			return bad("C02-refused-request-succeeded", "a request that must be refused got a 2xx status")
		case carries:
			return bad("C02-refused-response-carries-data", "the body of a refused request carries data/auth/wrap_info")
		case changed || len(writes) > 0:
			return bad("C02-backend-storage-changed-on-refused", "mount storage changed during a refused request")
		}
	case "allow":
		for _, e := range handlers {
			if e.Mount != vd.Mount || e.Path != vd.BPath {
				return bad("C02-misrouted", fmt.Sprintf("handler of %s ran for %q", e.Mount, e.Path))
			}
		}
		if !vd.Handler {
			r.Count("authorised_unsupported", 1)
			if len(handlers) > 0 {
				return bad("C02-misrouted", "a handler ran for an operation/path the backend does not declare")
			}
			break
		}
		switch {
		case len(handlers) == 0:
			return bad("C02-authorised-not-handled", "an authorised request did not reach the handler")
		case len(handlers) > 1:
			return bad("C02-handler-multiple", "the handler ran more than once")
		case handlers[0].Op != vd.Op:
			return bad("C02-misrouted", "handler saw operation "+handlers[0].Op+", reference expects "+vd.Op)
		}
		r.Count("authorised_handled", 1)
		if strings.HasPrefix(vd.BPath, "unauth/") {
			r.Count("unauth_handled", 1)
		} else if q.Bearer {
			r.Count("bearer_authorised", 1)
		}
		r.Nontrivial("ok|" + q.Tok + "|" + vd.Op + "|" + vd.Mount + vd.BPath)
	default:
		r.Count("unknown", 1)
		if len(handlers) == 0 && (changed || len(writes) > 0) {
			return bad("C02-backend-storage-changed-without-handler", "mount storage changed although no handler ran")
		}
	}
	for _, e := range handlers {
		if vd.m != nil && strings.HasPrefix(e.Path, "data/") {
			switch e.Op {
			case "create", "update":
				vd.m.Exists[e.Path] = true
			case "delete":
				delete(vd.m.Exists, e.Path)
			}
		}
	}
	if r.Get("verdict:allow")%61 == 1 && vd.Kind == "allow" {
		r.Sample(map[string]any{"case": x.caseID, "request": q, "verdict": vd, "status": resp.StatusCode})
	}
	return true
}
