//go:build verif

package vault

// C02, two input families that reach the authorisation decision sideways:
//
//   - templated ACL policies: identity values (entity name / id / metadata, alias name / id, group
//     name / id / metadata) of entities with hostile names are substituted into policy paths. The
//     reference renders every path block with the opt-ins of the policy the block belongs to and
//     nothing else (c02Render); a block whose value contains a character that policy does not opt
//     in to grants nothing.
//   - request paths with dot segments: a path with a '.' or '..' SEGMENT anywhere is refused before
//     any handler runs; segments that merely start with dots ('.cache', '..a', '...') are ordinary.

import (
	"fmt"
	"sort"
	"strings"
	"testing"
	"time"

	kit "github.com/openbao/openbao/sdk/v2/helper/verifkit"
	"github.com/openbao/openbao/sdk/v2/logical"
)

// identity values drawn on for names, metadata and alias names
var c02HostileValues = []string{"+", "*", "a/b", "..", "x*", "üñ€", ".hid", "Alice", "a", "b/", "+/a"}

func (x *c02Run) authAccessor(m *c02Mount) string {
	resp := x.v.MustDo(vReq{Op: logical.ReadOperation, Path: "sys/auth", Token: x.v.Root, NS: m.NS})
	if e, ok := resp.Data[strings.TrimPrefix(m.Path, "auth/")].(map[string]any); ok {
		return fmt.Sprint(e["accessor"])
	}
	x.t.Fatalf("verif: no accessor for auth mount %s in %v", m.Abs, c02SortedKeys(resp.Data))
	return ""
}

// newEntityTok logs in through recording auth mount m under the given alias name and gives the
// entity the name, metadata and group memberships.
func (x *c02Run) newEntityTok(name string, m *c02Mount, acc, alias, ename string, meta map[string]string, groups []*c02Group, tokPols, entPols []string) *c02Tok {
	v := x.v
	resp, err := v.Do(vReq{Op: logical.UpdateOperation, Path: m.Abs + "login/" + "t", Data: map[string]any{"policies": tokPols, "alias": alias, "no_default_policy": true, "ttl": "1h"}})
	if !vOK(resp, err) || resp == nil || resp.Auth == nil || resp.Auth.EntityID == "" {
		x.t.Fatalf("verif: login with alias %q on %s failed: %s", alias, m.Abs, vErrStr(resp, err))
	}
	e := &c02Entity{ID: resp.Auth.EntityID, NS: m.NS, Name: name, AliasAcc: acc, AliasName: alias, Meta: map[string]string{}, Groups: groups}
	if resp.Auth.Alias != nil {
		e.AliasID = resp.Auth.Alias.ID
	}
	rd := v.MustDo(vReq{Op: logical.ReadOperation, Path: "identity/entity/id/" + e.ID, Token: v.Root, NS: m.NS})
	e.EName, _ = rd.Data["name"].(string)
	if as, ok := rd.Data["aliases"].([]any); ok && len(as) == 1 {
		if am, ok := as[0].(map[string]any); ok {
			e.AliasID, _ = am["id"].(string)
			e.AliasName, _ = am["name"].(string)
		}
	}
	t := &c02Tok{Name: name, Kind: "templated", NS: m.NS, ID: resp.Auth.ClientToken, Accessor: resp.Auth.Accessor, Policies: tokPols, Entity: e, Via: m}
	x.w.Entities = append(x.w.Entities, e)
	x.w.Toks = append(x.w.Toks, t)
	x.setIdentity(e, ename, meta, entPols)
	for _, g := range groups {
		v.MustDo(vReq{Op: logical.UpdateOperation, Path: "identity/group/id/" + g.ID, Token: v.Root, NS: m.NS, Data: map[string]any{"member_entity_ids": x.groupMembers(g, e)}})
	}
	return t
}

func (x *c02Run) groupMembers(g *c02Group, add *c02Entity) []string {
	ids := []string{add.ID}
	for _, e := range x.w.Entities {
		if e == add {
			continue
		}
		for _, h := range e.Groups {
			if h == g {
				ids = append(ids, e.ID)
			}
		}
	}
	return ids
}

// setIdentity writes name, metadata and policies of an entity (ename "": keep the name).
func (x *c02Run) setIdentity(e *c02Entity, ename string, meta map[string]string, entPols []string) {
	data := map[string]any{}
	if ename != "" {
		data["name"] = ename
	}
	if meta != nil {
		mm := map[string]any{}
		for k, v := range meta {
			mm[k] = v
		}
		data["metadata"] = mm
	}
	if entPols != nil {
		data["policies"] = entPols
	}
	x.v.MustDo(vReq{Op: logical.UpdateOperation, Path: "identity/entity/id/" + e.ID, Token: x.v.Root, NS: e.NS, Data: data})
	if ename != "" {
		e.EName = ename
	}
	if meta != nil {
		e.Meta = meta
	}
	if entPols != nil {
		e.Policies = entPols
	}
}

func c02TemplSelectors(acc string, g *c02Group) []string {
	sel := []string{"identity.entity.name", "identity.entity.name", "identity.entity.id", "identity.entity.metadata.k", "identity.entity.metadata.k", "identity.entity.metadata.absent",
		"identity.entity.aliases." + acc + ".name", "identity.entity.aliases." + acc + ".id", "identity.entity.aliases.auth_nosuch_0000.name"}
	if g != nil {
		sel = append(sel, "identity.groups.ids."+g.ID+".name", "identity.groups.ids."+g.ID+".metadata.k")
		if !strings.ContainsAny(g.Name, "./") {
			sel = append(sel, "identity.groups.names."+g.Name+".id")
		}
	}
	return sel
}

// templFamily: templated policies, entities with hostile identity values and tokens holding several
// templated policies, in a namespace that has a recording auth mount.
func (x *c02Run) templFamily(ns, nsTag string) {
	w, rng, v := x.w, x.rng, x.v
	var am, sm *c02Mount
	for _, m := range w.Mounts {
		if m.Mounted && m.Auth && m.NS == ns && am == nil {
			am = m
		}
		if m.Mounted && !m.Auth && strings.HasPrefix(m.NS, ns) && sm == nil {
			sm = m
		}
	}
	if am == nil || sm == nil {
		return
	}
	acc := x.authAccessor(am)
	rel := sm.Abs[len(ns):]
	// one group with a hostile name and metadata value
	gname := kit.Pick(rng, c02HostileValues) + "-grp"
	gresp := v.MustDo(vReq{Op: logical.UpdateOperation, Path: "identity/group", Token: v.Root, NS: ns, Data: map[string]any{"name": gname, "metadata": map[string]any{"k": kit.Pick(rng, c02HostileValues)}}})
	g := &c02Group{Name: gname, Meta: map[string]string{}}
	g.ID, _ = gresp.Data["id"].(string)
	if rd, err := v.Do(vReq{Op: logical.ReadOperation, Path: "identity/group/id/" + g.ID, Token: v.Root, NS: ns}); vOK(rd, err) && rd != nil {
		if mm, ok := rd.Data["metadata"].(map[string]string); ok {
			g.Meta = mm
		}
	}
	sels := c02TemplSelectors(acc, g)
	// policies: names decide the order in which the policies of a token are processed
	var names []string
	mk := func(name string, slashes, wild bool, rules []c02Rule) {
		x.writePolicy(&c02Policy{NS: ns, Name: name, Rules: rules, AllowSlashes: slashes, AllowWildcards: wild})
		names = append(names, name)
	}
	rw := []string{"read", "create", "update", "delete", "list"}
	// the pair "relaxed project area / strict home area", in generated name order
	a, b := "ta-"+nsTag, "tz-"+nsTag
	if rng.Chance(1, 2) {
		a, b = b, a
	}
	mk(a, rng.Chance(1, 2), true, []c02Rule{{Pat: rel + "data/proj/{{identity.entity.metadata.k}}/*", Caps: rw}})
	mk(b, false, false, []c02Rule{{Pat: rel + "data/home/{{identity.entity.name}}/*", Caps: rw}, {Pat: rel + "data/who/{{" + kit.Pick(rng, sels) + "}}", Caps: []string{"read", "update"}}})
	for i := 0; i < 4; i++ {
		var rules []c02Rule
		for k := 0; k < 1+rng.Intn(3); k++ {
			pat := rel + "data/" + kit.Pick(rng, []string{"", "home/", "proj/", "a/"}) + "{{" + kit.Pick(rng, sels) + "}}" + kit.Pick(rng, []string{"", "", "/x", "/*", "/+/x", "/a"})
			if rng.Chance(1, 8) { // two expressions in one path
				pat += "/{{" + kit.Pick(rng, sels) + "}}"
			}
			caps := c02GenCaps(rng)
			rules = append(rules, c02Rule{Pat: pat, Caps: caps})
		}
		mk(fmt.Sprintf("t%c%d-%s", 'a'+rune(rng.Intn(26)), i, nsTag), rng.Chance(1, 3), rng.Chance(1, 2), rules)
	}
	// entities: distinct names and alias names per namespace
	vals := append([]string(nil), c02HostileValues...)
	rng.Shuffle(len(vals), func(i, j int) { vals[i], vals[j] = vals[j], vals[i] })
	aliases := append([]string(nil), c02HostileValues...)
	rng.Shuffle(len(aliases), func(i, j int) { aliases[i], aliases[j] = aliases[j], aliases[i] })
	for i := 0; i < 5; i++ {
		var tp, ep []string
		for _, n := range names {
			switch rng.Intn(4) {
			case 0, 1:
				tp = append(tp, n)
			case 2:
				ep = append(ep, n)
			}
		}
		if i == 0 { // always one holder of the pair
			tp, ep = []string{a}, []string{b}
		}
		if ep == nil {
			ep = []string{}
		}
		meta := map[string]string{"k": kit.Pick(rng, c02HostileValues), "team": "t1"}
		if rng.Chance(1, 6) {
			delete(meta, "k")
		}
		var gs []*c02Group
		if rng.Chance(1, 2) {
			gs = []*c02Group{g}
		}
		x.newEntityTok(fmt.Sprintf("%s/templ%d", nsTag, i), am, acc, aliases[i]+"-"+nsTag, vals[i], meta, gs, tp, ep)
	}
	// a token without entity: templated blocks grant nothing
	x.newTok(nsTag+"/templ-noentity", "templated", ns, map[string]any{"policies": names[:3]}, "", "")
	x.r.Count("world_templated_families", 1)
}

// templSweep: directed requests of every token that holds a templated policy: at the paths its
// blocks render to, and at the paths they would render to if the substituted value went unchecked.
func (x *c02Run) templSweep(stage string, n int) {
	for _, t := range x.w.Toks {
		if t.Kind != "templated" || x.aborted {
			continue
		}
		for i := 0; i < n && !x.aborted; i++ {
			x.do(x.genReq(t, true, nil), stage)
		}
	}
}

// ---------------------------------------------------------------- dot segments

type c02DotFormT struct {
	name     string
	relative bool
	apply    func(before, after string) string // before: path up to a slash position, after: the rest (starts with "/" or is empty)
}

var c02DotForms = []c02DotFormT{
	{"hidden-then-up", true, func(b, a string) string { return b + "/.c02/.." + a }},
	{"hidden-then-here", true, func(b, a string) string { return b + "/.c02/." + a }},
	{"hidden-deep-then-up-up", true, func(b, a string) string { return b + "/.c02/x/../.." + a }},
	{"two-hidden-then-up", true, func(b, a string) string { return b + "/.a/..b/.." + a }},
	{"dots3-then-up", true, func(b, a string) string { return b + "/.../.." + a }},
	{"dotdot-name-then-up-up", true, func(b, a string) string { return b + "/a/..b/../.." + a }},
	{"hidden-slashes-up", true, func(b, a string) string { return b + "//.c02//..//" + strings.TrimPrefix(a, "/") }},
	{"up-after-hidden-at-end", true, func(b, a string) string { return b + a + "/.c02/.." }},
	{"here-after-hidden-at-end", true, func(b, a string) string { return b + a + "/.x/." }},
	{"hidden-only", false, func(b, a string) string { return b + a + "/.c02" }},
	{"dots3-only", false, func(b, a string) string { return b + a + "/..." }},
	{"dotdot-name-only", false, func(b, a string) string { return b + a + "/..a" }},
	{"percent-encoded-up", false, func(b, a string) string { return b + a + "/%2e%2e" }}, // Core.HandleRequest does not decode: an ordinary segment
	{"hidden-inside", false, func(b, a string) string { return b + "/.c02" + a }},
}

// c02DotForm applies a generated dot form at a generated slash position of the path.
func c02DotForm(rng *kit.Rand, abs string) string {
	f := kit.Pick(rng, c02DotForms)
	var cuts []int
	for i, c := range abs {
		if c == '/' {
			cuts = append(cuts, i)
		}
	}
	cuts = append(cuts, len(abs))
	i := kit.Pick(rng, cuts)
	return f.apply(abs[:i], abs[i:])
}

// dotSweep: every dot form at generated positions of paths of every mount kind, sent with a token
// that is allowed everything there (only the path form can refuse the request) and with one that is not.
func (x *c02Run) dotSweep(stage string, perForm int) {
	w, rng := x.w, x.rng
	root := w.Toks[len(w.Toks)-1]
	var admins []*c02Tok
	for _, t := range w.Toks {
		if strings.HasSuffix(t.Name, "/admin") {
			if s, _ := t.liveness("", time.Now()); s == "live" {
				admins = append(admins, t)
			}
		}
	}
	for _, f := range c02DotForms {
		for k := 0; k < perForm && !x.aborted; k++ {
			var base string
			op := "read"
			switch rng.Intn(6) {
			case 0, 1, 2:
				var ms []*c02Mount
				for _, m := range w.Mounts {
					if m.Mounted {
						ms = append(ms, m)
					}
				}
				if len(ms) == 0 {
					continue
				}
				base = kit.Pick(rng, ms).Abs + kit.Pick(rng, []string{"data/a", "data/a/b", "root/r", "unauth/u", "login/u", "lease/l"})
				op = kit.Pick(rng, []string{"read", "update", "delete", "list"})
			case 3:
				base = kit.Pick(rng, w.NSs) + kit.Pick(rng, []string{"sys/policies/acl/c02scratch", "sys/mounts", "sys/auth", "sys/internal/ui/mounts"})
			case 4:
				base = kit.Pick(rng, w.NSs) + kit.Pick(rng, []string{"cubbyhole/c02/dots", "identity/entity/name/c02", "identity/lookup/entity"})
				op = kit.Pick(rng, []string{"read", "update"})
			default:
				base = kit.Pick(rng, w.NSs) + kit.Pick(rng, []string{"auth/token/lookup-self", "auth/token/create", "auth/token/roles/c02cidr"})
				op = kit.Pick(rng, []string{"read", "update"})
			}
			var cuts []int
			for i, c := range base {
				if c == '/' {
					cuts = append(cuts, i)
				}
			}
			cuts = append(cuts, len(base))
			i := kit.Pick(rng, cuts)
			abs := f.apply(base[:i], base[i:])
			tok := root
			switch rng.Intn(4) {
			case 0:
				if len(admins) > 0 {
					tok = kit.Pick(rng, admins)
				}
			case 1:
				tok = x.pickTok()
			}
			q := &c02Req{Tok: tok, Op: op, Why: "dot form " + f.name}
			var heads []string
			for _, ns := range w.NSs {
				if strings.HasPrefix(abs, ns) {
					heads = append(heads, ns)
				}
			}
			h := kit.Pick(rng, heads)
			q.Header, q.Path = h, abs[len(h):]
			if op == "update" {
				q.Data = map[string]any{"v": rng.Canary()}
			}
			vd, ok := x.do(q, stage)
			if !ok {
				return
			}
			if vd.Reason == "early:relative-path" {
				x.r.Count("dot_form_refused:"+f.name, 1)
				x.r.Nontrivial("dot|" + f.name + "|" + op + "|" + base)
			} else if !f.relative {
				x.r.Count("dot_form_ordinary:"+f.name+":"+vd.Kind, 1)
			}
		}
	}
}

// ---------------------------------------------------------------- dedicated tests

func TestVerif_C02_Templates(t *testing.T) {
	seed := kit.Seed(2)
	shard, shards := kit.Shard()
	if shards > 1 && shard > 0 {
		t.Skip("shard 0 runs the enumeration")
	}
	r := kit.NewResult(t, "c02-templates", seed, "namespaces {root, ns1}; one entity per identity value of {'+', '*', 'a/b', '..', 'x*', unicode, '.hid', 'Alice', 'b/', '+/a'} (entity name, metadata value, alias name and - for one group - group name all set to it; one entity without the metadata key; one token without entity) x selector {entity name, entity metadata, alias name, group name by id} x two templated policies A (area 'proj') and B (area 'home') over the same selector x every combination of the two opt-ins on A and on B (16) x both name orders (A processed before B and after): the entity's policies are set to {A,B} and requests (read and write) are sent at the paths B and A render to with the value taken literally, with '+' taken as a segment wildcard, with '*' as a glob, at another entity's area and at a control path; the reference renders each block with the opt-ins of its own policy only (a value with '/' needs allow_slashes, with '*' or '+' allow_wildcards, otherwise the block grants nothing). A case is non-trivial when the two policies differ in an opt-in that the value needs; distinct by (value, selector, flags, order)")
	r.Exhaustive = true
	defer r.Write(t)
	x := c02SmallWorld(t, r, seed, 986, false, true, []string{"", "ns1/"})
	defer x.v.Close()
	vals := []string{"+", "*", "a/b", "..", "x*", "üñ€", ".hid", "Alice", "b/", "+/a"}
	for ni, ns := range x.w.NSs {
		tag := map[string]string{"": "root", "ns1/": "ns1"}[ns]
		var am *c02Mount
		for _, m := range x.w.Mounts {
			if m.Auth && m.NS == ns {
				am = m
			}
		}
		acc := x.authAccessor(am)
		x.writePolicy(&c02Policy{NS: ns, Name: "tnone", Rules: []c02Rule{{Pat: "kv/data/none", Caps: []string{"read"}}}})
		type ent struct {
			tok *c02Tok
			g   *c02Group
		}
		var ents []ent
		for vi, val := range vals {
			gname := val + "-g"
			gresp := x.v.MustDo(vReq{Op: logical.UpdateOperation, Path: "identity/group", Token: x.v.Root, NS: ns, Data: map[string]any{"name": gname}})
			g := &c02Group{Name: gname, Meta: map[string]string{}}
			g.ID, _ = gresp.Data["id"].(string)
			meta := map[string]string{"k": val}
			tk := x.newEntityTok(fmt.Sprintf("%s/e%d", tag, vi), am, acc, val, val, meta, []*c02Group{g}, []string{"tnone"}, []string{})
			// the group's name is the value itself
			x.v.MustDo(vReq{Op: logical.UpdateOperation, Path: "identity/group/id/" + g.ID, Token: x.v.Root, NS: ns, Data: map[string]any{"name": val}})
			g.Name = val
			ents = append(ents, ent{tk, g})
		}
		nometa := x.newEntityTok(tag+"/nometa", am, acc, "nometa", "nometa", map[string]string{"team": "t"}, nil, []string{"tnone"}, []string{})
		ents = append(ents, ent{nometa, nil})
		noent := x.newTok(tag+"/noentity", "templated", ns, map[string]any{"policies": []string{"tnone"}}, "", "")
		rw := []string{"read", "create", "update", "delete", "list"}
		np := 0
		for si := 0; si < 4; si++ {
			for fa := 0; fa < 4; fa++ {
				for fb := 0; fb < 4; fb++ {
					for order := 0; order < 2; order++ {
						if kit.Tier() == "quick" && (si+fa+fb+order+ni)%2 == 1 {
							continue
						}
						for ei, e := range ents {
							sel := []string{"identity.entity.name", "identity.entity.metadata.k", "identity.entity.aliases." + acc + ".name", ""}[si]
							if si == 3 {
								if e.g == nil {
									continue
								}
								sel = "identity.groups.ids." + e.g.ID + ".name"
							}
							x.caseID = fmt.Sprintf("templ:%s:%d:%d%d:%d:%d", ns, si, fa, fb, order, ei)
							if !kit.WantCase(x.caseID) {
								continue
							}
							np++
							an, bn := fmt.Sprintf("pa%d", np), fmt.Sprintf("pz%d", np)
							if order == 1 {
								an, bn = bn, an
							}
							A := &c02Policy{NS: ns, Name: an, AllowSlashes: fa&1 != 0, AllowWildcards: fa&2 != 0, Rules: []c02Rule{{Pat: "kv/data/proj/{{" + sel + "}}/*", Caps: rw}}}
							B := &c02Policy{NS: ns, Name: bn, AllowSlashes: fb&1 != 0, AllowWildcards: fb&2 != 0, Rules: []c02Rule{{Pat: "kv/data/home/{{" + sel + "}}/*", Caps: rw}}}
							x.writePolicy(A)
							x.writePolicy(B)
							x.setIdentity(e.tok.Entity, "", nil, []string{an, bn})
							val := ""
							if ei < len(vals) {
								val = vals[ei]
								needS, needW := strings.Contains(val, "/"), strings.ContainsAny(val, "*+")
								if (needS && A.AllowSlashes != B.AllowSlashes) || (needW && A.AllowWildcards != B.AllowWildcards) {
									r.Nontrivial(fmt.Sprintf("%s|%d|%d%d|%d", val, si, fa, fb, order))
									r.Count("pairs_differing_in_a_needed_opt_in", 1)
								}
							}
							for _, area := range []string{"home", "proj"} {
								tails := []string{"alice/diary", "other", "x/y"}
								if val != "" {
									lit := val
									tails = append(tails, lit+"/diary", strings.NewReplacer("+", "alice", "*", "alice/z").Replace(lit)+"/diary", strings.TrimSuffix(strings.TrimSuffix(lit, "*"), "/")+"zz/diary")
								}
								for _, tail := range tails {
									for _, op := range []string{"read", "update"} {
										q := &c02Req{Tok: e.tok, Op: op, Header: ns, Path: "kv/data/" + area + "/" + tail, Why: "template matrix"}
										if op == "update" {
											q.Data = map[string]any{"v": x.rng.Canary()}
										}
										if _, ok := x.do(q, "templ-matrix"); !ok {
											return
										}
									}
								}
							}
							x.v.MustDo(vReq{Op: logical.DeleteOperation, Path: "sys/policies/acl/" + an, Token: x.v.Root, NS: ns})
							x.v.MustDo(vReq{Op: logical.DeleteOperation, Path: "sys/policies/acl/" + bn, Token: x.v.Root, NS: ns})
							A.Exists, B.Exists = false, false
							delete(x.w.Policies, ns+"|"+an)
							delete(x.w.Policies, ns+"|"+bn)
						}
					}
				}
			}
		}
		// a token without entity holding templated policies
		x.caseID = "templ:" + ns + ":noentity"
		P := &c02Policy{NS: ns, Name: "pnoent", AllowSlashes: true, AllowWildcards: true, Rules: []c02Rule{{Pat: "kv/data/home/{{identity.entity.name}}/*", Caps: rw}, {Pat: "kv/data/plain/*", Caps: rw}}}
		x.writePolicy(P)
		ne := x.newTok(tag+"/noentity2", "templated", ns, map[string]any{"policies": []string{"pnoent"}}, "", "")
		for _, p := range []string{"kv/data/home/a/x", "kv/data/home//x", "kv/data/plain/x"} {
			x.do(&c02Req{Tok: ne, Op: "read", Header: ns, Path: p}, "templ-noentity")
		}
		_ = noent
	}
	r.Require("pairs_differing_in_a_needed_opt_in", 400)
	r.Require("templated_refused_where_only_an_unchecked_value_would_grant", 2000)
	r.Require("authorised_handled", 2000)
	r.Require("refused:policy", 5000)
}

func TestVerif_C02_DotSegments(t *testing.T) {
	seed := kit.Seed(2)
	shard, shards := kit.Shard()
	if shards > 1 && shard > 0 {
		t.Skip("shard 0 runs the enumeration")
	}
	r := kit.NewResult(t, "c02-dotsegments", seed, "namespaces {root, ns1}; for every base path of {recording secrets mount data / root-protected / unauthenticated / lease path, recording auth mount data and login path, sys/policies, sys/mounts, cubbyhole, identity, auth/token} x every slash position of it (and the ends) x every dot form {'.x/..', '.x/.', '.x/y/../..', '.a/..b/..', '.../..', 'a/..b/../..', doubled slashes around them, at the end; controls: '.x', '...', '..a', '%2e%2e' (not decoded at this entry point), '.x' inside} x {read, update} x namespace by header and by prefix x {root token, catch-all token, no token}: reference: a path with a '.' or '..' segment is refused without handler event, non-error response or storage change; a segment that merely starts with dots is ordinary and is judged like any other path. Distinct by (form, base, position, op)")
	r.Exhaustive = true
	defer r.Write(t)
	x := c02SmallWorld(t, r, seed, 984, false, true, []string{"", "ns1/"})
	defer x.v.Close()
	root := &c02Tok{Name: "root", Kind: "root", NS: "", ID: x.v.Root, Root: true}
	x.w.Toks = append(x.w.Toks, root)
	bases := []string{"kv/data/a/b", "kv/root/r", "kv/unauth/u", "kv/lease/l", "auth/rec/data/a", "auth/rec/login/u", "sys/policies/acl/c02scratch", "sys/mounts", "cubbyhole/c02/d", "identity/entity/name/c02", "auth/token/lookup-self"}
	for _, ns := range x.w.NSs {
		admin := x.newTok(ns+"admin", "live", ns, map[string]any{"policies": []string{"c02-all"}}, "", "")
		for _, base := range bases {
			full := ns + base
			var cuts []int
			for i, c := range full {
				if c == '/' && i >= len(ns)-1 && i > 0 {
					cuts = append(cuts, i)
				}
			}
			cuts = append(cuts, len(full))
			for _, f := range c02DotForms {
				for ci, i := range cuts {
					abs := f.apply(full[:i], full[i:])
					for oi, op := range []string{"read", "update"} {
						for ti, tok := range []*c02Tok{root, admin, nil} {
							if kit.Tier() == "quick" && ti > 0 && (ci+oi+ti)%2 == 1 {
								continue
							}
							x.caseID = fmt.Sprintf("dot:%s:%s:%d:%s:%d", f.name, full, i, op, ti)
							if !kit.WantCase(x.caseID) {
								continue
							}
							q := &c02Req{Tok: tok, Op: op, Header: ns, Path: abs[len(ns):], Why: "dot form " + f.name}
							if ns != "" && (ci+oi)%3 == 0 {
								q.Header, q.Path = "", abs
							}
							if op == "update" {
								q.Data = map[string]any{"v": "x"}
							}
							vd, ok := x.do(q, "dot-matrix")
							if !ok {
								return
							}
							if vd.Reason == "early:relative-path" {
								r.Count("dot_form_refused:"+f.name, 1)
								r.Nontrivial(fmt.Sprintf("%s|%s|%d|%s", f.name, full, i, op))
							} else {
								r.Count("dot_form_ordinary:"+f.name+":"+vd.Kind, 1)
							}
						}
					}
				}
			}
		}
	}
	names := []string{}
	for _, f := range c02DotForms {
		names = append(names, f.name)
		if f.relative {
			r.Require("dot_form_refused:"+f.name, 150)
		}
	}
	sort.Strings(names)
	r.Require("dot_form_ordinary:hidden-only:allow", 40)
	r.Require("authorised_handled", 100)
}

// ---------------------------------------------------------------- capability lists

func TestVerif_C02_DenyStanzas(t *testing.T) {
	seed := kit.Seed(2)
	shard, shards := kit.Shard()
	if shards > 1 && shard > 0 {
		t.Skip("shard 0 runs the enumeration")
	}
	r := kit.NewResult(t, "c02-denystanzas", seed, "namespaces {root, ns1}; every stanza of {capability sets {read}, {update}, {read,update}, {create,update,delete}, {read,list,patch,scan}, all} x deny {absent, first, in the middle, last} x {plain, one capability repeated} plus the old-style policy keyword {read, write, sudo, deny} x capabilities {absent, [deny], [read], [deny,update], [update,deny]} x pattern shape {exact, trailing glob, + segment}, each on its own path in one policy A; policy B grants everything on the same patterns; tokens holding A, A+B (a deny in one policy is not lifted by another policy) and B (control) send read / write / delete / patch / list requests to every stanza's path. Reference: the capabilities of a stanza are a set (order and repetition are irrelevant, the keyword adds read+list / create+read+update+delete+list / the same + sudo), and deny anywhere in it refuses everything on the path. A stanza is non-trivial when it names deny together with something else; distinct by (stanza, token, op)")
	r.Exhaustive = true
	defer r.Write(t)
	x := c02SmallWorld(t, r, seed, 982, false, true, []string{"", "ns1/"})
	defer x.v.Close()
	sets := [][]string{{"read"}, {"update"}, {"read", "update"}, {"create", "update", "delete"}, {"read", "list", "patch", "scan"}, append([]string(nil), c02CapNames...)}
	type stz struct {
		caps   []string
		legacy string
	}
	var stanzas []stz
	for _, set := range sets {
		stanzas = append(stanzas, stz{caps: set})
		pos := []int{0, len(set)}
		if len(set) >= 2 {
			pos = append(pos, len(set)/2)
		}
		for _, at := range pos {
			l := append(append(append([]string(nil), set[:at]...), "deny"), set[at:]...)
			stanzas = append(stanzas, stz{caps: l})
			stanzas = append(stanzas, stz{caps: append(append([]string(nil), l...), set[len(set)-1], "deny")})
		}
		stanzas = append(stanzas, stz{caps: append(append([]string(nil), set...), set[0])})
	}
	for _, kw := range []string{"read", "write", "sudo", "deny"} {
		for _, caps := range [][]string{nil, {"deny"}, {"read"}, {"deny", "update"}, {"update", "deny"}} {
			stanzas = append(stanzas, stz{caps: caps, legacy: kw})
		}
	}
	all := append([]string(nil), c02CapNames...)
	for _, ns := range x.w.NSs {
		A := &c02Policy{NS: ns, Name: "capsA"}
		B := &c02Policy{NS: ns, Name: "capsB"}
		var paths []string
		for i, s := range stanzas {
			var pat, path string
			switch i % 3 {
			case 0:
				pat = fmt.Sprintf("kv/data/s%d", i)
				path = pat
			case 1:
				pat = fmt.Sprintf("kv/data/g%d/*", i)
				path = fmt.Sprintf("kv/data/g%d/x", i)
			default:
				pat = fmt.Sprintf("kv/data/+/p%d", i)
				path = fmt.Sprintf("kv/data/q/p%d", i)
			}
			A.Rules = append(A.Rules, c02Rule{Pat: pat, Caps: s.caps, Legacy: s.legacy})
			B.Rules = append(B.Rules, c02Rule{Pat: pat, Caps: all})
			paths = append(paths, path)
		}
		x.writePolicy(A)
		x.writePolicy(B)
		toks := []*c02Tok{
			x.newTok(ns+"capsA", "live", ns, map[string]any{"policies": []string{"capsA"}}, "", ""),
			x.newTok(ns+"capsAB", "live", ns, map[string]any{"policies": []string{"capsA", "capsB"}}, "", ""),
			x.newTok(ns+"capsB", "live", ns, map[string]any{"policies": []string{"capsB"}}, "", ""),
		}
		for i, path := range paths {
			if A.Rules[i].listsDenyWithOthers() {
				r.Count("stanzas_naming_deny_with_other_capabilities", 1)
			}
			for ti, tk := range toks {
				for _, op := range []string{"read", "update", "delete", "patch", "list"} {
					x.caseID = fmt.Sprintf("caps:%s:%d:%d:%s", ns, i, ti, op)
					if !kit.WantCase(x.caseID) {
						continue
					}
					q := &c02Req{Tok: tk, Op: op, Header: ns, Path: path, Why: "capability list matrix"}
					if op == "list" {
						if i%3 != 1 {
							continue
						}
						q.Path = fmt.Sprintf("kv/data/g%d/", i)
					}
					if op == "update" || op == "patch" {
						q.Data = map[string]any{"v": x.rng.Canary()}
					}
					if ns != "" && (i+ti)%3 == 0 {
						q.Header, q.Path = "", ns+q.Path
					}
					if _, ok := x.do(q, "caps-matrix"); !ok {
						return
					}
				}
			}
		}
	}
	r.Require("stanzas_naming_deny_with_other_capabilities", 60)
	r.Require("refused_by_stanza_listing_deny_with_other_capabilities", 600)
	r.Require("authorised_handled", 800)
}
