//go:build verif

package vault

// C02 reference authoriser.
//
// Written from the property statement and website/content/docs/concepts/policies.mdx
// (policy syntax, priority rules, capabilities) and the namespace docs; it knows
// only what the harness itself configured: namespaces, mounts (with the special
// paths the recording backend declares), policy documents, tokens and their
// states. It is deliberately small: exact paths, trailing-* globs, + segments,
// deny, sudo. Everything else (parameter constraints, wrapping TTLs, templating,
// list fall-backs) is outside and yields the verdict "unknown".

import (
	"fmt"
	"net"
	"regexp"
	"sort"
	"strings"
	"time"
)

type c02Rule struct {
	Pat    string    `json:"pat"` // relative to the policy's namespace
	Caps   []string  `json:"caps"`
	Expire time.Time `json:"expiration,omitempty"` // zero: permanent. Whole seconds (documented per-path expiration).
	// Legacy: the old-style `policy = "deny|read|write|sudo"` keyword of the stanza ("" = absent). It
	// stands for a capability set (deny; read+list; create+read+update+delete+list; the same + sudo)
	// that is added to the capabilities list.
	Legacy string `json:"legacy_policy_keyword,omitempty"`
	// parameter constraints of the stanza (concepts/policies.mdx, "Parameter constraints")
	Required []string            `json:"required_parameters,omitempty"`
	Allowed  map[string][]string `json:"allowed_parameters,omitempty"`
	Denied   map[string][]string `json:"denied_parameters,omitempty"`
}

func (r c02Rule) constrained() bool {
	return len(r.Required) > 0 || len(r.Allowed) > 0 || len(r.Denied) > 0
}

// c02Cons: the parameter constraints in force on one pattern, and how many stanzas contributed to
// the pattern (how the constraints of several stanzas on the same path combine is not documented:
// the reference only decides when there is exactly one).
type c02Cons struct {
	Rule    c02Rule
	Stanzas int
	Any     bool
}

// c02ParamCheck applies the documented rules to the parameters of a create, update or patch request:
// every required parameter must be present; a request without parameters is otherwise fine; a denied
// parameter ("*": any parameter) must not be present with a listed value (empty list: with any
// value) - denied takes precedence over allowed; when allowed_parameters is set, every parameter must
// be listed in it (or "*" be listed), with one of the listed values if the list is not empty.
func c02ParamCheck(r c02Rule, data map[string]any) (bool, string) {
	has := func(list []string, v any) bool {
		if len(list) == 0 {
			return true
		}
		for _, x := range list {
			if fmt.Sprint(v) == x {
				return true
			}
		}
		return false
	}
	for _, k := range r.Required {
		if _, ok := data[k]; !ok {
			return false, "required parameter " + k + " is missing"
		}
	}
	if len(data) == 0 {
		return true, ""
	}
	if len(r.Denied) > 0 {
		if _, ok := r.Denied["*"]; ok {
			return false, "denied_parameters lists \"*\""
		}
		for _, k := range c02SortedKeys(data) {
			if vs, ok := r.Denied[k]; ok && has(vs, data[k]) {
				return false, "parameter " + k + " is denied"
			}
		}
	}
	if len(r.Allowed) == 0 {
		return true, ""
	}
	_, all := r.Allowed["*"]
	for _, k := range c02SortedKeys(data) {
		vs, ok := r.Allowed[k]
		if !ok && !all {
			return false, "parameter " + k + " is not listed in allowed_parameters"
		}
		if ok && !has(vs, data[k]) {
			return false, "parameter " + k + " has a value that allowed_parameters does not list"
		}
	}
	return true, ""
}

// eff: the capabilities a stanza grants. The list is a set: order and repetitions do not matter,
// the legacy keyword adds its set, and "deny" anywhere in it means the stanza denies everything
// (concepts/policies.mdx: deny "always takes precedence regardless of any other defined capabilities").
func (r c02Rule) eff() []string {
	set := map[string]bool{}
	for _, c := range r.Caps {
		set[c] = true
	}
	switch r.Legacy {
	case "deny":
		set["deny"] = true
	case "sudo":
		set["sudo"] = true
		fallthrough
	case "write":
		set["create"], set["update"], set["delete"] = true, true, true
		fallthrough
	case "read":
		set["read"], set["list"] = true, true
	}
	if set["deny"] {
		return []string{"deny"}
	}
	return c02SortedKeys(set)
}

// listsDenyWithOthers: the stanza names deny together with something else.
func (r c02Rule) listsDenyWithOthers() bool {
	e := r.eff()
	if len(e) != 1 || e[0] != "deny" {
		return false
	}
	n := 0
	for _, c := range r.Caps {
		if c != "deny" {
			n++
		}
	}
	return n > 0 || (r.Legacy != "" && r.Legacy != "deny")
}

// c02ExpiryMargin: the reference does not decide within this distance of a path's
// expiration instant (the server reads its own clock a little later than the harness).
const c02ExpiryMargin = time.Second

type c02Policy struct {
	NS     string    `json:"ns"`
	Name   string    `json:"name"`
	Rules  []c02Rule `json:"rules"`
	Exists bool      `json:"exists"`
	// the two opt-ins of a templated policy (sys/policies/acl parameters): values substituted for a
	// template expression of THIS policy may contain '/' resp. '*' and '+'
	AllowSlashes   bool `json:"allow_slashes_in_identity_templates,omitempty"`
	AllowWildcards bool `json:"allow_wildcards_in_identity_templates,omitempty"`
}

func (p *c02Policy) templated() bool {
	for _, r := range p.Rules {
		if strings.Contains(r.Pat, "{{") {
			return true
		}
	}
	return false
}

func (p *c02Policy) HCL() string {
	var b strings.Builder
	for _, r := range p.Rules {
		q := make([]string, len(r.Caps))
		for i, c := range r.Caps {
			q[i] = fmt.Sprintf("%q", c)
		}
		fmt.Fprintf(&b, "path %q {\n", r.Pat)
		if r.Legacy != "" {
			fmt.Fprintf(&b, "  policy = %q\n", r.Legacy)
		}
		if len(r.Caps) > 0 || r.Legacy == "" {
			fmt.Fprintf(&b, "  capabilities = [%s]\n", strings.Join(q, ","))
		}
		if !r.Expire.IsZero() {
			fmt.Fprintf(&b, "  expiration = %q\n", r.Expire.UTC().Format(time.RFC3339))
		}
		if len(r.Required) > 0 {
			fmt.Fprintf(&b, "  required_parameters = [%s]\n", c02Quoted(r.Required))
		}
		for _, kv := range []struct {
			name string
			m    map[string][]string
		}{{"allowed_parameters", r.Allowed}, {"denied_parameters", r.Denied}} {
			if len(kv.m) == 0 {
				continue
			}
			fmt.Fprintf(&b, "  %s = {\n", kv.name)
			for _, k := range c02SortedKeys(kv.m) {
				fmt.Fprintf(&b, "    %q = [%s]\n", k, c02Quoted(kv.m[k]))
			}
			b.WriteString("  }\n")
		}
		b.WriteString("}\n")
	}
	return b.String()
}

func c02Quoted(xs []string) string {
	q := make([]string, len(xs))
	for i, x := range xs {
		q[i] = fmt.Sprintf("%q", x)
	}
	return strings.Join(q, ",")
}

type c02Mount struct {
	NS      string          `json:"ns"`
	Path    string          `json:"path"` // API path inside the namespace: "kv/" or "auth/rec/"
	Abs     string          `json:"abs"`  // NS + Path
	Auth    bool            `json:"auth"`
	Prefix  string          `json:"-"` // physical storage prefix, discovered by a marker write
	Exists  map[string]bool `json:"-"` // backend-relative data paths that currently exist
	Mounted bool            `json:"mounted"`
}

type c02Entity struct {
	ID       string   `json:"-"`
	NS       string   `json:"ns"`
	Name     string   `json:"name"` // harness label
	Disabled bool     `json:"disabled"`
	Policies []string `json:"policies,omitempty"`
	// identity values a templated policy can read
	EName     string            `json:"entity_name,omitempty"`
	Meta      map[string]string `json:"entity_metadata,omitempty"`
	AliasAcc  string            `json:"alias_mount_accessor,omitempty"`
	AliasName string            `json:"alias_name,omitempty"`
	AliasID   string            `json:"-"`
	Groups    []*c02Group       `json:"groups,omitempty"`
}

type c02Group struct {
	ID   string            `json:"-"`
	Name string            `json:"name"`
	Meta map[string]string `json:"metadata,omitempty"`
}

// c02Render substitutes the identity template expressions of a policy path. Documented parameters
// (concepts/policies.mdx, "Templated policies"): identity.entity.{id,name,metadata.<k>},
// identity.entity.aliases.<mount accessor>.{id,name}, identity.groups.ids.<id>.{name,metadata.<k>},
// identity.groups.names.<name>.{id,metadata.<k>}. The rendering of a path block fails - and the
// block then grants nothing, the other blocks of the policy stay - when there is no entity, a
// value is missing or an empty string, or the value contains a character the policy does not opt
// in to: '/' unless allow_slashes_in_identity_templates, '*' and '+' unless
// allow_wildcards_in_identity_templates (api/system/policies.mdx; sdk/helper/identitytpl
// "template substitution contains forbidden value"; policy.parsePaths skips the block).
func c02Render(pat string, e *c02Entity, blockSlash, blockWild bool) (string, bool) {
	parts := strings.Split(pat, "{{")
	if len(parts) == 1 {
		return pat, true
	}
	var b strings.Builder
	b.WriteString(parts[0])
	for _, piece := range parts[1:] {
		sp := strings.Split(piece, "}}")
		if len(sp) != 2 || e == nil {
			return "", false
		}
		val, ok := c02TemplateValue(strings.TrimSpace(sp[0]), e)
		if !ok {
			return "", false
		}
		if (blockSlash && strings.Contains(val, "/")) || (blockWild && strings.ContainsAny(val, "*+")) {
			return "", false
		}
		b.WriteString(val)
		b.WriteString(sp[1])
	}
	return b.String(), true
}

func c02GroupIDSelectorWithDot(pat string, e *c02Entity) bool {
	if e == nil {
		return false
	}
	for _, g := range e.Groups {
		if strings.Contains(g.ID, ".") && strings.Contains(pat, "identity.groups.ids."+g.ID+".") {
			return true
		}
	}
	return false
}

func c02TemplateValue(sel string, e *c02Entity) (string, bool) {
	nonEmpty := func(s string) (string, bool) { return s, s != "" }
	fromMap := func(m map[string]string, k string) (string, bool) { v, ok := m[k]; return v, ok }
	switch {
	case sel == "identity.entity.id":
		return nonEmpty(e.ID)
	case sel == "identity.entity.name":
		return nonEmpty(e.EName)
	case strings.HasPrefix(sel, "identity.entity.metadata."):
		return fromMap(e.Meta, strings.TrimPrefix(sel, "identity.entity.metadata."))
	case strings.HasPrefix(sel, "identity.entity.aliases."):
		sp := strings.SplitN(strings.TrimPrefix(sel, "identity.entity.aliases."), ".", 2)
		if len(sp) != 2 || sp[0] != e.AliasAcc || e.AliasAcc == "" {
			return "", false
		}
		switch sp[1] {
		case "name":
			return nonEmpty(e.AliasName)
		case "id":
			return nonEmpty(e.AliasID)
		}
		return "", false
	case strings.HasPrefix(sel, "identity.groups.ids."), strings.HasPrefix(sel, "identity.groups.names."):
		byID := strings.HasPrefix(sel, "identity.groups.ids.")
		sp := strings.SplitN(strings.TrimPrefix(strings.TrimPrefix(sel, "identity.groups.ids."), "identity.groups.names."), ".", 2)
		if len(sp) != 2 {
			return "", false
		}
		// the accessor part of a group selector may itself contain dots (ids of child namespaces):
		// try every split
		full := strings.TrimPrefix(strings.TrimPrefix(sel, "identity.groups.ids."), "identity.groups.names.")
		for _, g := range e.Groups {
			key := g.Name
			if byID {
				key = g.ID
			}
			if !strings.HasPrefix(full, key+".") {
				continue
			}
			rest := full[len(key)+1:]
			switch {
			case rest == "name" && byID:
				return nonEmpty(g.Name)
			case rest == "id" && !byID:
				return nonEmpty(g.ID)
			case strings.HasPrefix(rest, "metadata."):
				return fromMap(g.Meta, strings.TrimPrefix(rest, "metadata."))
			}
		}
		return "", false
	}
	return "", false
}

type c02Tok struct {
	Name     string   `json:"name"`
	Kind     string   `json:"kind"`
	NS       string   `json:"ns"`
	ID       string   `json:"-"` // the string sent as client token
	Accessor string   `json:"-"`
	Policies []string `json:"policies,omitempty"`
	Root     bool     `json:"root,omitempty"`
	Batch    bool     `json:"batch,omitempty"`
	Forged   bool     `json:"forged,omitempty"` // never issued by the server (mutated / garbage / absent)
	Revoked  bool     `json:"revoked,omitempty"`
	// ParentTok: a batch token dies with its parent
	ParentTok   *c02Tok    `json:"-"`
	ExpireUpper time.Time  `json:"-"` // zero: long lived. Otherwise an upper bound of the expiry instant.
	Short       bool       `json:"short_ttl,omitempty"`
	UsesMax     int        `json:"uses_max,omitempty"`
	UsesLower   int        `json:"uses_lower,omitempty"` // requests that certainly consumed a use
	UsesUpper   int        `json:"uses_upper,omitempty"` // requests that possibly consumed a use
	CIDR        string     `json:"cidr,omitempty"`
	Entity      *c02Entity `json:"entity,omitempty"`
	Via         *c02Mount  `json:"-"` // auth mount that issued the token: disabling it revokes the token
	// Keys: the storage names of a service token's records, read from the physical log of its
	// creation (fault predicates for its revocation, evidence about its raw record)
	Keys *c02Keys `json:"-"`
	// Up / Kids: the service token that created this one and the tokens it created: a tree
	// revocation (and the expiry) of a token takes its descendants along, in whatever namespace
	// they live. Limbo: an ancestor's revocation is under way or ended in an error; the reference
	// does not decide until the harness has settled the state.
	Up    *c02Tok   `json:"-"`
	Kids  []*c02Tok `json:"-"`
	Limbo bool      `json:"ancestor_revocation_unsettled,omitempty"`
	// MaybeOrphan: a revoke-orphan of the creator failed half-way; this token may or may not still
	// be attached to it (both are live states; it matters when an ancestor is tree-revoked later)
	MaybeOrphan bool `json:"-"`
}

// liveness: "live", "dead" or "unknown" with the reason.
func (t *c02Tok) liveness(remote string, now time.Time) (string, string) {
	if t == nil {
		return "dead", "absent"
	}
	if t.Forged {
		return "dead", t.Kind
	}
	if t.Revoked {
		return "dead", "revoked"
	}
	if t.Limbo {
		return "unknown", "ancestor-revocation-unsettled"
	}
	if t.ParentTok != nil {
		if s, why := t.ParentTok.liveness("", now); s == "dead" && !t.ParentTok.Forged {
			return "dead", "parent-" + why
		} else if s == "unknown" {
			return "unknown", "parent-" + why
		}
	}
	if t.Short {
		if now.After(t.ExpireUpper) {
			return "dead", "expired"
		}
		return "unknown", "short-ttl-not-yet-observed-expired"
	}
	if t.UsesMax > 0 {
		switch {
		case t.UsesLower >= t.UsesMax:
			return "dead", "exhausted"
		case t.UsesUpper >= t.UsesMax:
			return "unknown", "use-count-uncertain"
		}
	}
	if t.CIDR != "" {
		if remote == "" {
			remote = "127.0.0.1"
		}
		_, n, err := net.ParseCIDR(t.CIDR)
		ip := net.ParseIP(remote)
		if err != nil || ip == nil || !n.Contains(ip) {
			return "dead", "cidr-mismatch"
		}
	}
	if t.Entity != nil && t.Entity.Disabled {
		return "dead", "entity-disabled"
	}
	return "live", ""
}

type c02World struct {
	NSs      []string              `json:"namespaces"` // "" (root), "ns1/", "ns1/sub/"
	Mounts   []*c02Mount           `json:"mounts"`
	Policies map[string]*c02Policy `json:"-"` // ns|name
	Toks     []*c02Tok             `json:"-"`
	Entities []*c02Entity          `json:"-"`
	TimedAt  time.Time             `json:"timed_blocks_expire_at"` // zero: no time-boxed path blocks
}

func (w *c02World) policy(ns, name string) *c02Policy { return w.Policies[ns+"|"+name] }

// c02Req is one client request.
type c02Req struct {
	Op      string         `json:"op"`
	Path    string         `json:"path"`
	Header  string         `json:"ns_header,omitempty"`
	Tok     *c02Tok        `json:"token"`
	Remote  string         `json:"remote,omitempty"`
	Data    map[string]any `json:"data,omitempty"`
	Why     string         `json:"gen,omitempty"`
	WrapTTL int            `json:"wrap_ttl_s,omitempty"`
}

type c02Verdict struct {
	Kind       string    `json:"verdict"` // allow | deny | unknown
	Reason     string    `json:"reason"`
	NS         string    `json:"resolved_ns"`
	Abs        string    `json:"abs_path"`
	Mount      *c02Mount `json:"-"`
	MountAbs   string    `json:"mount,omitempty"`
	BPath      string    `json:"backend_path,omitempty"`
	Op         string    `json:"effective_op,omitempty"`
	Handler    bool      `json:"handler_expected"` // allow: the operation handler must run exactly once
	Unauth     bool      `json:"unauthenticated_path,omitempty"`
	WouldAllow bool      `json:"policy_would_allow,omitempty"` // the token's policies allow; the token state refuses
	TokState   string    `json:"token_state,omitempty"`
}

var c02Restricted = []string{"health", "raw", "audit", "metrics", "host-info", "in-flight-req", "loggers", "config/state", "seal", "step-down", "rekey", "generate-root", "init", "unseal"}

var c02Patterns = []struct {
	name string
	re   *regexp.Regexp
	ops  string
	exst bool
}{
	{"data", regexp.MustCompile(`^data/.*$`), "read create update delete list patch scan", true},
	{"lease", regexp.MustCompile(`^lease/.*$`), "read update", false},
	{"login", regexp.MustCompile(`^login/.*$`), "update read", false},
	{"unauth", regexp.MustCompile(`^unauth/.*$`), "read update", false},
	{"root", regexp.MustCompile(`^root/.*$`), "read update delete list", false},
	{"raw", regexp.MustCompile(`^raw$`), "update", false},
}

func c02CanonHeader(h string) string {
	var parts []string
	for _, p := range strings.Split(h, "/") {
		if p != "" {
			parts = append(parts, p)
		}
	}
	if len(parts) == 0 || (len(parts) == 1 && parts[0] == "root") {
		return ""
	}
	return strings.Join(parts, "/") + "/"
}

func c02IsRelative(p string) bool {
	for _, s := range strings.Split(p, "/") {
		if s == "." || s == ".." {
			return true
		}
	}
	return false
}

// c02Match reports whether an absolute policy pattern matches an absolute path,
// and the pattern's class: "exact", or "glob" (anything with + or a trailing *).
func c02Match(pat, path string) (bool, string) {
	prefix := strings.HasSuffix(pat, "*")
	body := strings.TrimSuffix(pat, "*")
	if !strings.Contains(body, "+") {
		if prefix {
			return strings.HasPrefix(path, body), "glob"
		}
		return pat == path, "exact"
	}
	ps := strings.Split(body, "/")
	xs := strings.Split(path, "/")
	if len(xs) < len(ps) || (!prefix && len(xs) != len(ps)) {
		return false, "glob"
	}
	for i, p := range ps {
		switch {
		case p == "+":
		case p == xs[i]:
		case prefix && i == len(ps)-1 && strings.HasPrefix(xs[i], p):
		default:
			return false, "glob"
		}
	}
	return true, "glob"
}

// c02Lower: documented priority rules; true when p1 has lower priority than p2.
func c02Lower(p1, p2 string) bool {
	first := func(p string) int { return strings.IndexAny(p, "+*") }
	if a, b := first(p1), first(p2); a != b {
		return a < b
	}
	if a, b := strings.HasSuffix(p1, "*"), strings.HasSuffix(p2, "*"); a != b {
		return a
	}
	if a, b := strings.Count(p1, "+"), strings.Count(p2, "+"); a != b {
		return a > b
	}
	if len(p1) != len(p2) {
		return len(p1) < len(p2)
	}
	return p1 < p2
}

// c02Winner returns the capabilities of the most specific matching pattern.
func c02Winner(rules map[string]map[string]bool, path string) (map[string]bool, string, bool) {
	best := ""
	for pat := range rules {
		ok, class := c02Match(pat, path)
		if !ok {
			continue
		}
		if class == "exact" {
			return rules[pat], pat, true
		}
		if best == "" || c02Lower(best, pat) {
			best = pat
		}
	}
	if best == "" {
		return nil, "", false
	}
	return rules[best], best, true
}

func c02HasExact(rules map[string]map[string]bool, path string) bool {
	for pat := range rules {
		if ok, class := c02Match(pat, path); ok && class == "exact" {
			return true
		}
	}
	return false
}

// rulesFor collects the absolute rules of a token as of now: pattern -> capability
// set, union over policies with deny sticky. Path blocks whose expiration has passed
// grant (and deny) nothing; ambiguous reports a block within the margin of its
// expiration instant; withExpired is the same collection ignoring expirations.
func (w *c02World) rulesFor(t *c02Tok, now time.Time) (out, withExpired map[string]map[string]bool, timed map[string]bool, ambiguous bool, cons map[string]*c02Cons) {
	out, withExpired, timed = map[string]map[string]bool{}, map[string]map[string]bool{}, map[string]bool{}
	cons = map[string]*c02Cons{}
	names := append([]string(nil), t.Policies...)
	if t.Entity != nil {
		names = append(names, t.Entity.Policies...)
	}
	add := func(dst map[string]map[string]bool, abs string, caps []string) {
		m := dst[abs]
		if m == nil {
			m = map[string]bool{}
			dst[abs] = m
		}
		for _, c := range caps {
			m[c] = true
		}
	}
	for _, n := range names {
		p := w.policy(t.NS, n)
		if p == nil || !p.Exists {
			continue
		}
		for _, r := range p.Rules {
			pat := r.Pat
			if strings.Contains(pat, "{{") {
				if c02GroupIDSelectorWithDot(pat, t.Entity) {
					// identity.groups.ids.<group id>.<field>: the id of a group of a child namespace itself
					// contains a dot; how such a selector is split is not documented
					ambiguous = true
					continue
				}
				// rendered with the token's entity and THIS policy's opt-ins only
				rendered, ok := c02Render(pat, t.Entity, !p.AllowSlashes, !p.AllowWildcards)
				if !ok {
					continue
				}
				pat = strings.TrimPrefix(rendered, "/")
				if strings.Contains(p.NS+pat, "+*") {
					// documented as invalid in a policy ('+*' is forbidden); what a substituted value that
					// produces it does to the rest of the token's policies is outside the reference
					ambiguous = true
					continue
				}
			}
			abs := p.NS + pat
			add(withExpired, abs, r.eff())
			if !r.Expire.IsZero() {
				timed[abs] = true
				d := now.Sub(r.Expire)
				if d > -c02ExpiryMargin && d < c02ExpiryMargin {
					ambiguous = true
				}
				if d > 0 {
					continue
				}
			}
			add(out, abs, r.eff())
			c := cons[abs]
			if c == nil {
				c = &c02Cons{}
				cons[abs] = c
			}
			c.Stanzas++
			if r.constrained() {
				c.Any, c.Rule = true, r
			}
		}
	}
	return out, withExpired, timed, ambiguous, cons
}

// aclAllows: "allow" / "deny" / "unknown".
// aclAllows: data (optional) are the request's parameters; without them a stanza with parameter
// constraints yields "unknown".
func (w *c02World) aclAllows(t *c02Tok, reqNS, abs, op string, sudo bool, now time.Time, data ...map[string]any) (string, string) {
	if t.Root {
		if strings.HasPrefix(reqNS, t.NS) {
			return "allow", "root policy"
		}
		return "deny", "root policy of another namespace"
	}
	capName := op
	switch op {
	case "revoke", "renew", "rollback":
		capName = "update"
	}
	rules, withExpired, timed, ambiguous, cons := w.rulesFor(t, now)
	if ambiguous {
		return "unknown", "a path block of the token's policies is within a second of its expiration, or a template value renders an invalid '+*'"
	}
	res, why := c02Decide(rules, abs, op, capName, sudo)
	if c := cons[why]; res == "allow" && c != nil && c.Any {
		switch {
		case c.Stanzas > 1:
			return "unknown", "several stanzas on " + why + ", one with parameter constraints (their combination is outside the reference)"
		case op == "create" || op == "update" || op == "patch":
			if len(data) == 0 {
				return "unknown", "parameter constraints on " + why + " and the request's parameters are not known here"
			}
			if ok, reason := c02ParamCheck(c.Rule, data[0]); !ok {
				return "deny", "parameters: " + reason + " (stanza " + why + ")"
			}
		case op == "read" && len(c.Rule.Required) > 0:
			return "unknown", "a read on a stanza with required_parameters (not documented)"
		}
	}
	if res == "deny" {
		if r2, _ := c02Decide(withExpired, abs, op, capName, sudo); r2 == "allow" {
			return "deny", "expired-grant: " + why
		}
	}
	if res == "allow" && timed[why] {
		why = "timed-grant: " + why
	}
	return res, why
}

// capsOf: the capability list the documentation promises for a namespace-qualified
// path (sys/capabilities): the capabilities of the most specific matching pattern,
// "deny" when a deny is set or nothing matches, "root" for a root token. ok=false:
// outside the reference.
func (w *c02World) capsOf(t *c02Tok, reqNS, abs string, now time.Time) ([]string, bool) {
	if t.Root {
		if strings.HasPrefix(reqNS, t.NS) {
			return []string{"root"}, true
		}
		return []string{"deny"}, true
	}
	rules, _, _, ambiguous, _ := w.rulesFor(t, now)
	if ambiguous || strings.HasSuffix(abs, "/") {
		return nil, false
	}
	caps, _, ok := c02Winner(rules, abs)
	if !ok || caps["deny"] || len(caps) == 0 {
		return []string{"deny"}, true
	}
	return c02SortedKeys(caps), true
}

// c02Decide applies the documented matching to one rule collection.
func c02Decide(rules map[string]map[string]bool, abs, op, capName string, sudo bool) (string, string) {
	// a '*' that a template value put somewhere else than at the end of a pattern is an ordinary
	// character; the documented priority rules do not say how such a pattern ranks against others
	nmatch, midStar := 0, false
	for pat := range rules {
		if ok, _ := c02Match(pat, abs); ok {
			nmatch++
			if strings.Contains(strings.TrimSuffix(pat, "*"), "*") {
				midStar = true
			}
		}
	}
	if nmatch > 1 && midStar {
		return "unknown", "several patterns match and one carries a literal '*' from a template value (ranking outside the reference)"
	}
	caps, pat, ok := c02Winner(rules, abs)
	if (op == "list" || op == "scan") && strings.HasSuffix(abs, "/") && !c02HasExact(rules, abs) {
		trim := strings.TrimSuffix(abs, "/")
		if c02HasExact(rules, trim) {
			return "unknown", "list on a path whose slash-less form has an exact rule (fallback outside the reference)"
		}
		if !ok {
			if _, _, ok2 := c02Winner(rules, trim); ok2 {
				return "unknown", "list on a path only matched without its trailing slash (fallback outside the reference)"
			}
		}
	}
	if !ok {
		return "deny", "no rule matches"
	}
	if caps["deny"] {
		return "deny", "deny on " + pat
	}
	if !caps[capName] {
		return "deny", fmt.Sprintf("%s lacks %s", pat, capName)
	}
	if sudo && !caps["sudo"] {
		return "deny", pat + " lacks sudo on a root-protected path"
	}
	return "allow", pat
}

// locate: the mount whose path is the longest prefix of the namespace-qualified
// path ("foo" also means "foo/"), the backend-relative path and the index of the
// backend path pattern it matches (-1: none).
func (w *c02World) locate(full string) (*c02Mount, string, int) {
	find := func(p string) *c02Mount {
		var best *c02Mount
		for _, m := range w.Mounts {
			if m.Mounted && strings.HasPrefix(p, m.Abs) && (best == nil || len(m.Abs) > len(best.Abs)) {
				best = m
			}
		}
		return best
	}
	m := find(full)
	bp := ""
	if m != nil {
		bp = full[len(m.Abs):]
	} else if !strings.HasSuffix(full, "/") {
		m = find(full + "/")
	}
	if m == nil {
		return nil, "", -1
	}
	for i, p := range c02Patterns {
		if p.re.MatchString(bp) {
			return m, bp, i
		}
	}
	return m, bp, -1
}

// judge is the reference authoriser.
func (w *c02World) judge(q *c02Req, now time.Time) *c02Verdict {
	v := &c02Verdict{Op: q.Op}
	if q.Tok != nil {
		v.TokState = q.Tok.Kind
		if p := q.Tok.ParentTok; p != nil && !q.Tok.Forged {
			// a batch token is as alive as the service token that created it
			v.TokState = "batch-of-" + p.Kind + "-parent"
		}
	} else {
		v.TokState = "absent"
	}
	deny := func(why string) *c02Verdict { v.Kind, v.Reason = "deny", why; return v }

	if c02IsRelative(q.Path) {
		return deny("early:relative-path")
	}
	hdr := c02CanonHeader(q.Header)
	full := hdr + q.Path
	ns := ""
	for _, n := range w.NSs {
		if n != "" && strings.HasPrefix(full, n) && len(n) > len(ns) {
			ns = n
		}
	}
	if !strings.HasPrefix(ns, hdr) {
		return deny("early:namespace-not-found")
	}
	rel := full[len(ns):]
	v.NS, v.Abs = ns, full
	if ns != "" && strings.HasPrefix(rel, "sys/") {
		for _, x := range c02Restricted {
			if rel == "sys/"+x || strings.HasPrefix(rel, "sys/"+x+"/") {
				return deny("early:restricted-sys-api-in-child-namespace")
			}
		}
	}
	if strings.HasSuffix(rel, "/") && (q.Op == "create" || q.Op == "update" || q.Op == "patch") {
		return deny("early:write-to-trailing-slash")
	}
	switch q.Op {
	case "read", "create", "update", "delete", "list", "patch", "scan", "revoke", "renew", "rollback":
	default:
		v.Kind, v.Reason = "unknown", "operation outside the reference"
		return v
	}

	// which mount receives the path
	m, bp, pat := w.locate(full)
	if m != nil {
		v.Mount, v.MountAbs, v.BPath = m, m.Abs, bp
	}
	// create/update resolved by the backend's existence check
	if q.Op == "create" || q.Op == "update" {
		if pat >= 0 && c02Patterns[pat].exst {
			if m.Exists[bp] {
				v.Op = "update"
			} else {
				v.Op = "create"
			}
		} else {
			v.Op = "update"
		}
	}
	supported := pat >= 0 && strings.Contains(" "+c02Patterns[pat].ops+" ", " "+v.Op+" ")
	internal := q.Op == "revoke" || q.Op == "renew" || q.Op == "rollback"

	unauth := m != nil && (strings.HasPrefix(bp, "login/") || strings.HasPrefix(bp, "unauth/"))
	rootPath := m != nil && strings.HasPrefix(bp, "root/")
	v.Unauth = unauth
	if unauth {
		if internal {
			v.Kind, v.Reason = "unknown", "internal operation on an unauthenticated path"
			return v
		}
		// declared unauthenticated: authorised whatever the token. The reference is
		// only exact for no token or a plainly live token without an entity.
		st := "live"
		if q.Tok != nil {
			st, _ = q.Tok.liveness(q.Remote, now)
		}
		if q.Tok != nil && (st != "live" || q.Tok.Entity != nil || q.Tok.UsesMax > 0) {
			v.Kind, v.Reason = "unknown", "unauthenticated path with a "+q.Tok.Kind+" token"
			return v
		}
		v.Kind, v.Reason, v.Handler = "allow", "declared unauthenticated path", supported
		return v
	}

	if q.Tok == nil {
		return deny("no token")
	}
	live, why := q.Tok.liveness(q.Remote, now)
	acl, aclWhy := "deny", "forged token"
	if !q.Tok.Forged || q.Tok.Policies != nil {
		acl, aclWhy = w.aclAllows(q.Tok, ns, full, v.Op, rootPath, now, q.Data)
		if m == nil && (q.Op == "create" || q.Op == "update") {
			// not a recording mount: whether the backend has an existence check (which
			// turns the write into create or update) is not known to the reference
			other, _ := w.aclAllows(q.Tok, ns, full, "create", rootPath, now, q.Data)
			if other != acl {
				acl, aclWhy = "unknown", "create/update resolution of a backend the harness does not model"
			}
		}
	}
	switch {
	case live == "dead":
		v.WouldAllow = acl == "allow"
		return deny("token:" + why)
	case acl == "deny":
		if strings.HasPrefix(aclWhy, "expired-grant") {
			return deny("policy:expired-grant (" + aclWhy + ")")
		}
		if strings.Contains(aclWhy, "lacks sudo") {
			return deny("policy:sudo-missing: " + aclWhy)
		}
		return deny("policy: " + aclWhy)
	case live == "unknown" || acl == "unknown":
		if live == "unknown" {
			v.Kind, v.Reason = "unknown", why+" ("+aclWhy+")"
		} else {
			v.Kind, v.Reason = "unknown", aclWhy
		}
		return v
	}
	if internal {
		v.Kind, v.Reason = "unknown", "internal operation by an authorised token"
		return v
	}
	v.Kind, v.Reason, v.Handler = "allow", "policy: "+aclWhy, supported
	return v
}

func c02SortedKeys[T any](m map[string]T) []string {
	ks := make([]string, 0, len(m))
	for k := range m {
		ks = append(ks, k)
	}
	sort.Strings(ks)
	return ks
}
