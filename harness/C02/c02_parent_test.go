//go:build verif

package vault

// C02, token states that hang off another token or another namespace:
//
//   - a batch token has no record of its own; it is a credential only while the
//     service token that created it is one (exists, unexpired, unrevoked, within its
//     use count). The harness produces parents in every state the product can be
//     driven into - live, revoked completely, revocation interrupted by one storage
//     fault at operation i (every i; request part and queued part), expired with the
//     expiry job's revocation failing once, use-limited - and judges the children
//     with the ordinary reference authoriser (c02Tok.liveness follows ParentTok).
//   - a token carrying the `root` policy of a child namespace (what the namespace's
//     generate-root ceremony hands out, and children of such a token) is root in that
//     namespace and below it and has no authority anywhere else.

import (
	"context"
	"encoding/json"
	"fmt"
	"strings"
	"sync/atomic"
	"testing"
	"time"

	kit "github.com/openbao/openbao/sdk/v2/helper/verifkit"
	"github.com/openbao/openbao/sdk/v2/logical"
	"github.com/openbao/openbao/v2/internal/helper/namespace"
)

// c02Keys: where the records of one service token live in the physical store.
type c02Keys struct {
	IDKey    string // physical key of the token record (.../sys/token/id/<salted id>)
	Salted   string // last segment of IDKey
	Cubby    string // the directory segment of the token's cubbyhole
	LeaseID  string // id of the token's own lease (suffix of .../sys/expire/id/)
	LeaseKey string // physical key of that lease
}

// owns: the key belongs to a record of this token (its entry, its lease, its parent
// index, its cubbyhole).
func (k *c02Keys) owns(key string) bool {
	if k == nil {
		return false
	}
	return (k.Salted != "" && strings.Contains(key, k.Salted)) || (k.Cubby != "" && strings.Contains(key, "/"+k.Cubby+"/"))
}

// newParent creates a service token whose storage names are known: the creation and
// one cubbyhole write run tagged under the physical log.
func (x *c02Run) newParent(name, kind, ns string, data map[string]any) *c02Tok {
	return x.newParentBy(name, kind, ns, data, nil)
}

// newParentBy: the same, created by service token by (nil: the root token) with the request
// addressed to namespace ns (which may be a descendant of by's namespace).
func (x *c02Run) newParentBy(name, kind, ns string, data map[string]any, by *c02Tok) *c02Tok {
	v := x.v
	creator := ""
	if by != nil {
		creator = by.ID
	}
	v.Probe.StartLog(false)
	t, why := x.tryTok(name, kind, ns, data, "", creator, "c02mk")
	if t == nil {
		v.Probe.StopLog()
		x.t.Fatalf("verif: creating parent token %s in %q failed: %s", name, ns, why)
	}
	resp, err := v.Do(vReq{Tag: "c02mk", Op: logical.UpdateOperation, Path: "cubbyhole/c02k", Token: t.ID, NS: ns, Data: map[string]any{"v": "1"}})
	evs := v.Probe.StopLog()
	k := &c02Keys{}
	for _, e := range evs {
		if e.Tag != "c02mk" || e.Op != "put" || e.Err != "" {
			continue
		}
		switch {
		case strings.Contains(e.Key, "sys/token/id/"):
			k.IDKey = e.Key
			k.Salted = e.Key[strings.LastIndex(e.Key, "/")+1:]
		case strings.Contains(e.Key, "sys/expire/id/"):
			k.LeaseID = e.Key[strings.Index(e.Key, "sys/expire/id/")+len("sys/expire/id/"):]
			k.LeaseKey = e.Key
		case strings.HasSuffix(e.Key, "/c02k"):
			parts := strings.Split(e.Key, "/")
			if len(parts) >= 2 {
				k.Cubby = parts[len(parts)-2]
			}
		}
	}
	if k.Salted == "" || (vOK(resp, err) && k.Cubby == "") {
		x.t.Fatalf("verif: cannot read the storage names of token %s from the log of its creation (%d events, cubbyhole write: %s)", name, len(evs), vErrStr(resp, err))
	}
	t.Keys = k
	if by != nil {
		t.Up = by
		by.Kids = append(by.Kids, t)
	}
	return t
}

// batchChild lets parent create a batch token with the given policies. The product may refuse
// (a use-limited token cannot create tokens; a short-lived parent may have expired already).
func (x *c02Run) batchChild(name string, parent *c02Tok, pols []string) (*c02Tok, string) {
	c, why := x.tryTok(name, "batch", parent.NS, map[string]any{"policies": pols, "type": "batch", "ttl": "1h"}, "", parent.ID, "c02mk")
	if parent.UsesMax > 0 {
		parent.UsesLower++
		parent.UsesUpper++
	}
	if c == nil {
		return nil, why
	}
	c.Batch, c.ParentTok = true, parent
	return c, ""
}

// parentRecord reads the raw record of a service token (evidence only, never a verdict):
// absent | present-live | present-marked-revoked | present-lease-expired | present-no-lease | unreadable.
func (x *c02Run) parentRecord(p *c02Tok) (state string) {
	if p == nil || p.Keys == nil || x.v.Core.Sealed() {
		return ""
	}
	defer func() {
		if recover() != nil {
			state = "unreadable"
		}
	}()
	v := x.v
	v.Probe.Tag("c02peek") // the harness's own reads are not operations of a revocation
	defer v.Probe.Untag()
	root := namespace.RootContext(context.Background())
	nsObj := namespace.RootNamespace
	if p.NS != "" {
		n, err := v.Core.namespaceStore.GetNamespaceByPath(root, p.NS)
		if err != nil || n == nil {
			return "unreadable"
		}
		nsObj = n
	}
	ctx := namespace.ContextWithNamespace(context.Background(), nsObj)
	raw, err := v.Core.tokenStore.idView(nsObj).Get(ctx, p.Keys.Salted)
	if err != nil {
		return "unreadable"
	}
	if raw == nil {
		return "absent"
	}
	var te logical.TokenEntry
	if err := json.Unmarshal(raw.Value, &te); err != nil {
		return "unreadable"
	}
	if te.NumUses < 0 {
		return "present-marked-revoked"
	}
	if te.NamespaceID == "" {
		te.NamespaceID = namespace.RootNamespaceID
	}
	le, err := v.Core.expiration.FetchLeaseTimesByToken(ctx, &te)
	switch {
	case err != nil:
		return "unreadable"
	case le == nil:
		return "present-no-lease"
	case le.ExpireTime.Before(time.Now()):
		return "present-lease-expired"
	}
	return "present-live"
}

// c02Flow is one way to revoke a service token through the API. The request runs tagged
// "c02rev"; queued: the API reports success and a worker carries the revocation out.
type c02Flow struct {
	name   string
	queued bool
	run    func(x *c02Run, p *c02Tok) (*logical.Response, error)
}

func c02Flows() []c02Flow {
	rev := func(path string, data func(p *c02Tok) map[string]any, self bool) func(x *c02Run, p *c02Tok) (*logical.Response, error) {
		return func(x *c02Run, p *c02Tok) (*logical.Response, error) {
			tok := x.v.Root
			if self {
				tok = p.ID
			}
			return x.v.Do(vReq{Tag: "c02rev", Op: logical.UpdateOperation, Path: path, Token: tok, NS: p.NS, Data: data(p)})
		}
	}
	return []c02Flow{
		{"revoke", false, rev("auth/token/revoke", func(p *c02Tok) map[string]any { return map[string]any{"token": p.ID} }, false)},
		{"revoke-accessor", false, rev("auth/token/revoke-accessor", func(p *c02Tok) map[string]any { return map[string]any{"accessor": p.Accessor} }, false)},
		{"revoke-self", false, rev("auth/token/revoke-self", func(p *c02Tok) map[string]any { return nil }, true)},
		{"revoke-orphan", false, rev("auth/token/revoke-orphan", func(p *c02Tok) map[string]any { return map[string]any{"token": p.ID} }, false)},
		{"lease-revoke", false, rev("sys/leases/revoke", func(p *c02Tok) map[string]any { return map[string]any{"lease_id": p.Keys.LeaseID, "sync": true} }, false)},
		{"lease-revoke-queued", true, rev("sys/leases/revoke", func(p *c02Tok) map[string]any { return map[string]any{"lease_id": p.Keys.LeaseID, "sync": false} }, false)},
	}
}

// c02Fault arms one storage fault: the at-th operation (1-based) among those the predicate
// selects fails once. all=true: every selected operation from the at-th on fails until cleared.
type c02Fault struct {
	n     atomic.Int64
	fired atomic.Int64
	off   atomic.Bool
	first atomic.Value // string: "op key-class" of the first failed operation
}

func (x *c02Run) arm(sel func(e kit.Event) bool, at int, all bool) *c02Fault {
	f := &c02Fault{}
	pred := func(e kit.Event) bool {
		if f.off.Load() || !sel(e) {
			return false
		}
		k := f.n.Add(1)
		if k == int64(at) || (all && k > int64(at)) {
			if f.fired.Add(1) == 1 {
				f.first.Store(e.Op + " " + c02KeyClass(e.Key))
			}
			return true
		}
		return false
	}
	x.v.Probe.FailAll(pred) // the predicate itself selects the operation(s) that fail
	return f
}

// disarm switches this fault off (others stay armed).
func (f *c02Fault) disarm() { f.off.Store(true) }

func (f *c02Fault) what() string {
	if s, ok := f.first.Load().(string); ok {
		return s
	}
	return ""
}

// c02ExpiryFault: the expiry job of short-lived token p fails at its at-th operation on p's records.
type c02ExpiryFault struct {
	p  *c02Tok
	at int
	f  *c02Fault
}

// sel: operations of a worker (not of the harness goroutine, whose set-up requests such as an
// unmount may revoke leases indexed under p) on p's own records - entry, lease, parent index,
// cubbyhole; not the index of secrets leased with p.
func (e *c02ExpiryFault) sel() func(kit.Event) bool {
	p, harness := e.p, kit.GoID()
	return func(ev kit.Event) bool {
		return ev.Tag == "" && p.Keys.owns(ev.Key) && !strings.Contains(ev.Key, "sys/expire/token/") && kit.GoID() != harness
	}
}

// suspendExpiryFaults / resumeExpiryFaults bracket a seal cycle: the lease restoration after an
// unseal reads the same records, and a storage error there makes the core seal itself again
// (by design), which is not what these faults are for.
func (x *c02Run) suspendExpiryFaults() {
	for _, e := range x.expiry {
		e.f.disarm()
	}
}

func (x *c02Run) resumeExpiryFaults() {
	if len(x.expiry) == 0 {
		return
	}
	for i := 0; i < 400 && x.v.Core.expiration.inRestoreMode(); i++ { // bounded; not a verdict
		time.Sleep(5 * time.Millisecond)
	}
	for _, e := range x.expiry {
		if e.f.fired.Load() == 0 && !x.v.Core.expiration.inRestoreMode() {
			e.f = x.arm(e.sel(), e.at, false)
		}
	}
}

// revocationOps selects the storage operations of a revocation of p: everything the
// revoking request does, and every untagged (worker) operation on p's own records.
func c02RevocationOps(p *c02Tok) func(e kit.Event) bool {
	return func(e kit.Event) bool {
		if e.Tag == "c02rev" {
			return true
		}
		return e.Tag == "" && p.Keys.owns(e.Key)
	}
}

// revokeAndClassify runs one revocation flow against p (a fault may be armed) and brings the
// reference up to date. When the API reported success the token is revoked. When it reported
// an error the configuration does not say whether the token is still a credential: the harness
// presents the token itself once; a token the server refuses as revoked stays revoked (and its
// batch children with it), a token it serves is live. Returns the state label.
func (x *c02Run) revokeAndClassify(fl c02Flow, p *c02Tok, probe *c02Mount) string {
	v := x.v
	resp, err := fl.run(x, p)
	reported := vOK(resp, err)
	if fl.queued {
		v.WaitQuiet(20*time.Millisecond, 2*time.Second) // lets the worker reach the fault; not a verdict
	}
	if p.UsesMax > 0 && fl.name == "revoke-self" {
		p.UsesUpper++
	}
	x.step("REVOCATION %s of %s -> %s", fl.name, c02TokName(p), vErrStr(resp, err))
	if reported {
		p.Revoked, p.Kind = true, "revoked"
		x.afterRevocation(fl, p, true)
		return "reported-success"
	}
	defer x.afterRevocation(fl, p, false)
	x.r.Count("revocations_reported_error", 1)
	// present the token itself on a path its policies allow
	path := "auth/token/lookup-self"
	op := logical.ReadOperation
	hdr := p.NS
	if probe != nil && probe.Mounted {
		path, hdr = probe.Abs+"data/c02alive", ""
	}
	mark := v.Rec.Len()
	r2, e2 := v.Do(vReq{Tag: "c02alive", Op: op, Path: path, Token: p.ID, NS: hdr})
	handled := false
	for _, e := range v.Rec.Since(mark) { // other events (a worker revoking a leased secret) may interleave
		if e.Kind == "handler" && e.Path == "data/c02alive" {
			handled = true
		}
	}
	if p.UsesMax > 0 {
		p.UsesUpper++
	}
	x.step("parent %s presented after the failed revocation: %s handled=%v", c02TokName(p), vErrStr(r2, e2), handled)
	if !vOK(r2, e2) && !handled {
		p.Revoked, p.Kind = true, "revocation-interrupted"
		return "refused-after-error"
	}
	x.r.Count("revocation_error_left_token_live", 1)
	return "live-after-error"
}

// dataProbe: a request on a recording mount the token's catch-all policy allows.
func (x *c02Run) dataProbe(t *c02Tok, write bool) *c02Req {
	var cands []*c02Mount
	for _, m := range x.w.Mounts {
		if m.Mounted && strings.HasPrefix(m.NS, t.NS) {
			cands = append(cands, m)
		}
	}
	if len(cands) == 0 {
		return x.genReq(t, true, nil)
	}
	m := kit.Pick(x.rng, cands)
	q := &c02Req{Tok: t, Op: "read", Header: t.NS, Path: m.Abs[len(t.NS):] + "data/" + kit.Pick(x.rng, c02Segs), Why: "data probe " + m.Abs}
	if write {
		q.Op, q.Data = "update", map[string]any{"v": x.rng.Canary()}
	}
	if x.rng.Chance(1, 3) { // namespace by path prefix
		q.Header, q.Path = "", t.NS+q.Path
	}
	return q
}

// batchFamily: batch tokens created by service tokens of namespace ns in every state.
func (x *c02Run) batchFamily(ns, nsTag string, all []string) {
	r, rng := x.r, x.rng
	var probe *c02Mount
	for _, m := range x.w.Mounts {
		if m.Mounted && strings.HasPrefix(m.NS, ns) {
			probe = m
			break
		}
	}
	// live parents (also the supply for revocations later in the run)
	for i := 0; i < 2; i++ {
		p := x.newParent(fmt.Sprintf("%s/bplive%d", nsTag, i), "live", ns, map[string]any{"policies": all})
		if _, why := x.batchChild(fmt.Sprintf("%s/bclive%d", nsTag, i), p, all); why != "" {
			x.t.Fatalf("verif: batch child of a live parent refused: %s", why)
		}
	}
	// revocation interrupted by one storage fault at a generated operation index
	flows := c02Flows()
	for i := 0; i < 2; i++ {
		fl := flows[rng.Intn(len(flows))]
		p := x.newParent(fmt.Sprintf("%s/bpcut%d", nsTag, i), "live", ns, map[string]any{"policies": all})
		c, why := x.batchChild(fmt.Sprintf("%s/bccut%d", nsTag, i), p, all)
		if c == nil {
			x.t.Fatalf("verif: batch child refused: %s", why)
		}
		at := 1 + rng.Intn(26)
		f := x.arm(c02RevocationOps(p), at, rng.Chance(1, 6))
		st := x.revokeAndClassify(fl, p, probe)
		f.disarm()
		rec := x.parentRecord(p)
		r.Count("world_parent_after_faulted_"+fl.name+":"+st, 1)
		if f.fired.Load() > 0 {
			r.Count("world_faults_fired", 1)
			r.Count("world_parent_record_after_fault:"+rec, 1)
		}
		x.step("world: %s of %s with a fault at op %d (%s): %s, record %s", fl.name, c02TokName(p), at, f.what(), st, rec)
	}
	// a use-limited parent: the product does not let it create tokens at all
	lp := x.newParent(nsTag+"/bplimited", "limited", ns, map[string]any{"policies": all, "num_uses": 4})
	lp.UsesMax = 4
	lp.UsesLower, lp.UsesUpper = 1, 1 // the cubbyhole write of newParent
	if c, why := x.batchChild(nsTag+"/bclimited", lp, all); c == nil {
		r.Count("batch_child_of_use_limited_parent_refused_by_product", 1)
		x.step("a use-limited token cannot create a batch token: %s", why)
	} else {
		r.Count("batch_child_of_use_limited_parent_created", 1)
		// spend the parent: the child must die with it
		for k := 0; k < 4 && probe != nil; k++ {
			x.v.Do(vReq{Tag: "c02burn", Op: logical.ReadOperation, Path: probe.Abs + "data/burn", Token: lp.ID})
			lp.UsesUpper++
		}
		lp.UsesLower = lp.UsesUpper - 1 // conservative: at most one of them was refused
	}
	// a use-limited token spent to its last use while the queued revocation of the spent token fails
	// once: the record stays in storage (marked) and the token must stay refused
	if probe != nil {
		sp := x.newParent(nsTag+"/spent-unreaped", "exhausted-unreaped", ns, map[string]any{"policies": all, "num_uses": 2})
		sp.UsesMax, sp.UsesLower, sp.UsesUpper = 2, 1, 1 // the cubbyhole write of newParent
		e := &c02ExpiryFault{p: sp, at: 1 + rng.Intn(10)}
		e.f = x.arm(e.sel(), e.at, false)
		x.expiry = append(x.expiry, e)
		mark := x.v.Rec.Len()
		resp, err := x.v.Do(vReq{Tag: "c02burn", Op: logical.ReadOperation, Path: probe.Abs + "data/c02spend", Token: sp.ID})
		sp.UsesUpper++
		ran := 0
		for _, ev := range x.v.Rec.Since(mark) {
			if ev.Kind == "handler" && ev.Path == "data/c02spend" && ev.Mount == probe.Abs {
				ran++
			}
		}
		if vOK(resp, err) && ran == 1 {
			sp.UsesLower++
			r.Count("world_spent_tokens_with_failing_deferred_revocation", 1)
		}
	}
	// short-lived parents: one reaped normally, one whose expiry job fails once so that the
	// record is still in storage after the lease has run out
	for i, cut := range []bool{false, true} {
		p := x.newParent(fmt.Sprintf("%s/bpshort%d", nsTag, i), "expired", ns, map[string]any{"policies": all, "ttl": "1s"})
		c, why := x.batchChild(fmt.Sprintf("%s/bcshort%d", nsTag, i), p, all)
		if c == nil {
			r.Count("short_parent_expired_before_it_created_a_child", 1)
			x.step("short-lived parent could not create its child: %s", why)
			continue
		}
		if cut {
			p.Kind = "expired-unreaped"
			e := &c02ExpiryFault{p: p, at: 1 + rng.Intn(12)}
			e.f = x.arm(e.sel(), e.at, false)
			x.expiry = append(x.expiry, e)
			r.Count("world_expiry_faults_armed", 1)
		}
	}
}

// nsRootTokens: tokens carrying the root policy of child namespace ns. The first one is what
// the namespace's generate-root ceremony creates (TokenStore.rootToken, the call the standard
// root generation strategy makes; the ceremony itself needs a sealable namespace and runs in
// TestVerif_C02_NamespaceRoot); its children come from auth/token/create with policies=[root].
func (x *c02Run) nsRootTokens(ns, nsTag string) {
	v := x.v
	n, err := v.Core.namespaceStore.GetNamespaceByPath(namespace.RootContext(context.Background()), ns)
	if err != nil || n == nil {
		x.t.Fatalf("verif: namespace %q unknown: %v", ns, err)
	}
	te, err := v.Core.tokenStore.rootToken(namespace.ContextWithNamespace(context.Background(), n))
	if err != nil || te == nil {
		x.t.Fatalf("verif: root token of namespace %q: %v", ns, err)
	}
	id := te.ID
	if te.ExternalID != "" {
		id = te.ExternalID
	}
	gr := &c02Tok{Name: nsTag + "/nsroot", Kind: "ns-root", NS: ns, ID: id, Accessor: te.Accessor, Root: true}
	x.w.Toks = append(x.w.Toks, gr)
	// the parent namespace may not mint it: documented refusal, evidence that the only source is the namespace itself
	if resp, err := v.Do(vReq{Op: logical.UpdateOperation, Path: "auth/token/create", Token: v.Root, NS: ns, Data: map[string]any{"policies": []string{"root"}, "ttl": "1h"}}); !vOK(resp, err) {
		x.r.Count("root_policy_token_from_parent_namespace_refused_by_product", 1)
	} else if resp != nil && resp.Auth != nil {
		x.r.Count("root_policy_token_from_parent_namespace_created", 1)
		x.w.Toks = append(x.w.Toks, &c02Tok{Name: nsTag + "/nsroot-by-parent", Kind: "ns-root", NS: ns, ID: resp.Auth.ClientToken, Accessor: resp.Auth.Accessor, Root: true})
	}
	x.rootChildren(gr, nsTag+"/nsroot-child")
}

// rootChildren: what a namespace root token can hand on: a child and an orphan with policies=[root],
// created through the token API inside the namespace.
func (x *c02Run) rootChildren(gr *c02Tok, name string) {
	for i, path := range []string{"auth/token/create", "auth/token/create-orphan"} {
		c, why := x.tryTok(fmt.Sprintf("%s%d", name, i), "ns-root", gr.NS, map[string]any{"policies": []string{"root"}, "ttl": "1h"}, path, gr.ID, "")
		if c == nil {
			x.t.Fatalf("verif: %s with policies=[root] by the root token of namespace %q refused: %s", path, gr.NS, why)
		}
		c.Root, c.Policies = true, nil
	}
	// observation outside C02: no_parent=true on auth/token/create asks TokenStore for "root or sudo"; for a
	// namespace root token that check (SudoPrivilege, evaluated against the root namespace) says no
	if c, _ := x.tryTok(name+"-noparent", "ns-root", gr.NS, map[string]any{"policies": []string{"root"}, "ttl": "1h", "no_parent": true}, "", gr.ID, ""); c != nil {
		c.Root, c.Policies = true, nil
		x.r.Count("namespace_root_token_may_use_no_parent", 1)
	} else {
		x.r.Count("namespace_root_token_refused_no_parent", 1)
	}
}

// c02Related: how namespace b lies relative to a token namespace a.
func c02Related(tokNS, reqNS string) string {
	switch {
	case strings.HasPrefix(reqNS, tokNS):
		return "own-subtree"
	case reqNS == "":
		return "root-namespace"
	case strings.HasPrefix(tokNS, reqNS):
		return "ancestor"
	case strings.HasPrefix(reqNS, strings.TrimSuffix(tokNS, "/")):
		return "prefix-sibling" // "ab/" or "a-b/in/" seen from "a/": the name continues, the namespace is another one
	}
	return "sibling"
}

// nsRootSweep: every namespace-root token x every namespace of the world x paths of secrets
// engines, auth methods and the system backend, with the namespace given by header, by path
// prefix or split between both.
func (x *c02Run) nsRootSweep(stage string, sample int) {
	w, rng := x.w, x.rng
	var toks []*c02Tok
	for _, t := range w.Toks {
		if t.Root && t.NS != "" && !t.Forged {
			toks = append(toks, t)
		}
	}
	type pq struct {
		op, path string
		data     map[string]any
	}
	for _, t := range toks {
		for _, ns := range w.NSs {
			var ps []pq
			nsec, nauth := 0, 0
			for _, m := range w.Mounts {
				if !m.Mounted || m.NS != ns {
					continue
				}
				if m.Auth && nauth < 1 {
					nauth++
					ps = append(ps, pq{"read", m.Path + "data/a", nil}, pq{"update", m.Path + "data/" + kit.Pick(rng, c02Segs), map[string]any{"v": rng.Canary()}})
				} else if !m.Auth && nsec < 2 {
					nsec++
					ps = append(ps, pq{"read", m.Path + "data/" + kit.Pick(rng, c02Segs), nil}, pq{"update", m.Path + "data/" + kit.Pick(rng, c02Segs), map[string]any{"v": rng.Canary()}},
						pq{"read", m.Path + "root/r", nil}, pq{"list", m.Path + "data/", nil}, pq{"delete", m.Path + "data/a", nil})
				}
			}
			ps = append(ps,
				pq{"update", "sys/policies/acl/c02scratch", map[string]any{"policy": `path "c02x/*" { capabilities = ["read"] }`}},
				pq{"read", "sys/policies/acl/c02scratch", nil},
				pq{"read", "sys/policies/acl/c02-all", nil},
				pq{"delete", "sys/policies/acl/c02scratch", nil},
				pq{"read", "sys/mounts", nil},
				pq{"read", "sys/auth", nil},
				pq{"update", "sys/mounts/c02sweep", map[string]any{"type": "verifrec"}},
				pq{"delete", "sys/mounts/c02sweep", nil},
				pq{"update", "auth/token/create", map[string]any{"policies": []string{"root"}, "ttl": "5m"}},
				pq{"update", "auth/token/create-orphan", map[string]any{"policies": []string{"c02-all"}, "ttl": "5m"}},
				pq{"update", "cubbyhole/c02sweep", map[string]any{"v": "x"}},
				pq{"list", "identity/entity/id/", nil},
				// namespace and lease administration (their handlers compare namespace paths themselves)
				pq{"list", "sys/namespaces/", nil},
				pq{"update", "sys/namespaces/c02probe", map[string]any{}},
				pq{"delete", "sys/namespaces/c02probe", nil},
				pq{"update", "sys/namespaces/c02probe/seal", nil},
				pq{"read", "sys/leases/count", map[string]any{"type": "irrevocable", "include_child_namespaces": true}},
				pq{"list", "sys/leases/lookup/auth/token/create/", nil},
			)
			for _, lt := range w.Toks { // a lease that lives in this namespace, named to lookup
				if lt.Keys != nil && lt.NS == ns && lt.Keys.LeaseID != "" {
					ps = append(ps, pq{"update", "sys/leases/lookup", map[string]any{"lease_id": lt.Keys.LeaseID}})
					break
				}
			}
			if sample > 0 && len(ps) > sample { // a generated subset
				rng.Shuffle(len(ps), func(i, j int) { ps[i], ps[j] = ps[j], ps[i] })
				ps = ps[:sample]
			}
			for _, p := range ps {
				if x.aborted {
					return
				}
				if (strings.HasPrefix(p.path, "sys/mounts/c02sweep") || strings.HasPrefix(p.path, "sys/namespaces/c02probe")) && strings.HasPrefix(ns, t.NS) {
					continue // would be served and change the mount table behind the reference's back
				}
				q := &c02Req{Tok: t, Op: p.op, Path: p.path, Header: ns, Data: p.data, Why: "namespace-root sweep"}
				if ns != "" {
					switch rng.Intn(4) {
					case 0: // by path prefix
						q.Header, q.Path = "", ns+p.path
					case 1: // split between header and path
						if i := strings.Index(ns, "/"); i >= 0 && i < len(ns)-1 {
							q.Header, q.Path = ns[:i+1], ns[i+1:]+p.path
						}
					}
				} else if rng.Chance(1, 6) {
					q.Header = "root"
				}
				x.do(q, stage)
			}
		}
	}
}

// ---------------------------------------------------------------- batch tokens x parent state, exhaustively

func TestVerif_C02_BatchParent(t *testing.T) {
	seed := kit.Seed(2)
	shard, shards := kit.Shard()
	if shards > 1 && shard > 1 {
		t.Skip("the enumeration is not sharded beyond the store kind: shards 0 and 1 run it")
	}
	r := kit.NewResult(t, "c02-batchparent", seed, "for each store kind x namespace {root, child, grand-child} x way of revoking a service token through the API (revoke, revoke-accessor, revoke-self, revoke-orphan, lease revoke synchronous, lease revoke queued) x each storage operation i of that revocation (all operations of the revoking request, and for the queued flow every worker operation on the token's own records; plus one run in which every operation from i on fails): a service token with a cubbyhole entry, a leased secret and a batch child is revoked while operation i fails once; then the parent itself, its batch child (read and write on recording mounts, namespace by header and by path) and, after the revocation was repeated without fault, the child again are judged by the reference authoriser (a batch token authorises only while its parent exists, is unexpired, unrevoked and within its use count) and compared with handler log, response, tagged writes and mount storage. Second family: parents with a 1 s TTL whose expiry job fails at worker operation i (every i) so that the record outlives the lease, judged after the harness has seen the clock pass the expiry. Third: use-limited parents (the product must refuse to let them create tokens). A case is non-trivial when the fault fired; distinct by (flow, namespace, store, failed operation and key class, parent record state)")
	r.Exhaustive = true
	defer r.Write(t)
	flows := c02Flows()
	for ti, tx := range []bool{false, true} {
		if shards > 1 && ti != shard {
			continue
		}
		v := vBoot(t, vOpts{Transactional: tx, Cache: tx})
		x := &c02Run{t: t, r: r, v: v, rng: kit.NewRand(seed, 996+uint64(ti)), w: &c02World{NSs: []string{"", "ns1/", "ns1/sub/"}, Policies: map[string]*c02Policy{}}}
		v.MustDo(vReq{Op: logical.UpdateOperation, Path: "sys/namespaces/ns1", Token: v.Root})
		v.MustDo(vReq{Op: logical.UpdateOperation, Path: "sys/namespaces/sub", Token: v.Root, NS: "ns1/"})
		all := []string{"c02-all"}
		for _, ns := range x.w.NSs {
			for _, mp := range []string{"kv/", "auth/rec/"} {
				m := &c02Mount{NS: ns, Path: mp, Abs: ns + mp, Auth: strings.HasPrefix(mp, "auth/")}
				x.w.Mounts = append(x.w.Mounts, m)
				x.mount(m)
			}
			x.writePolicy(&c02Policy{NS: ns, Name: "c02-all", Rules: []c02Rule{{Pat: "*", Caps: append([]string(nil), c02CapNames...)}}})
		}
		x.digest = x.storageDigest()
		n := 0
		// pair: a parent with a cubbyhole entry and a leased secret, and its batch child
		pair := func(ns string, data map[string]any) (*c02Tok, *c02Tok, string) {
			n++
			if data == nil {
				data = map[string]any{}
			}
			data["policies"] = all
			p := x.newParent(fmt.Sprintf("p%d", n), "live", ns, data)
			if _, short := data["ttl"]; !short {
				v.MustDo(vReq{Tag: "c02mk", Op: logical.ReadOperation, Path: "kv/lease/l", Token: p.ID, NS: ns})
			}
			c, why := x.batchChild(fmt.Sprintf("c%d", n), p, all)
			return p, c, why
		}
		judgeChild := func(c *c02Tok, stage string) bool {
			for _, wr := range []bool{false, true} {
				if _, ok := x.do(x.dataProbe(c, wr), stage); !ok {
					return false
				}
			}
			return true
		}
		for ni, ns := range x.w.NSs {
			for fi, fl := range flows {
				if kit.Tier() == "quick" && (fi+ni+ti)%2 == 1 && fl.name != "revoke" && fl.name != "lease-revoke-queued" {
					continue
				}
				// fault-free: the child lives with its parent and dies with it; count the operations
				p, c, why := pair(ns, nil)
				if c == nil {
					t.Fatalf("verif: batch child refused: %s", why)
				}
				base := fmt.Sprintf("bp:%v:%s:%s", tx, ns, fl.name)
				x.caseID = base + ":0"
				if !judgeChild(c, "child-of-live-parent") {
					return
				}
				v.Probe.StartLog(false)
				st := x.revokeAndClassify(fl, p, nil)
				if fl.queued {
					v.WaitQuiet(20*time.Millisecond, 2*time.Second)
				}
				nops := 0
				sel := c02RevocationOps(p)
				for _, e := range v.Probe.StopLog() {
					if sel(e) {
						nops++
					}
				}
				if st != "reported-success" {
					r.Count("flow_unavailable:"+fl.name+"@"+ns, 1)
					r.Note("%s: the fault-free revocation reported an error; flow skipped in namespace %q", base, ns)
					continue
				}
				r.Count("flow_ops:"+fl.name, nops)
				if !judgeChild(c, "child-of-revoked-parent") {
					return
				}
				for i := 1; i <= nops+1; i++ { // nops+1: "every operation from the middle on fails"
					x.caseID = fmt.Sprintf("%s:%d", base, i)
					if !kit.WantCase(x.caseID) {
						continue
					}
					p, c, why := pair(ns, nil)
					if c == nil {
						t.Fatalf("verif: batch child refused: %s", why)
					}
					at, every := i, false
					if i == nops+1 {
						at, every = 1+nops/2, true
					}
					f := x.arm(c02RevocationOps(p), at, every)
					st := x.revokeAndClassify(fl, p, nil)
					v.Probe.ClearFaults()
					if f.fired.Load() == 0 {
						r.Count("fault_not_reached", 1)
					} else {
						r.Count("faults_fired", 1)
					}
					rec := x.parentRecord(p)
					r.Count("parent_after_faulted_revocation:"+st, 1)
					r.Count("parent_record_after_faulted_revocation:"+rec, 1)
					if f.fired.Load() > 0 && p.Revoked && strings.HasPrefix(rec, "present") {
						r.Count("fault_interrupted_parents_with_record_left_in_storage", 1)
						r.Count("fault_interrupted_parents:"+rec, 1)
					}
					if f.fired.Load() > 0 {
						r.Nontrivial(fmt.Sprintf("%s|%s|%v|%s|%s|%s", fl.name, ns, tx, f.what(), st, rec))
					}
					x.step("fault at op %d/%d of %s (%s): %s; parent record %s", at, nops, fl.name, f.what(), st, rec)
					if _, ok := x.do(x.dataProbe(p, false), "parent-after-faulted-revocation"); !ok {
						return
					}
					if !judgeChild(c, "child-after-faulted-revocation") {
						return
					}
					// the revocation is repeated without a fault
					if !p.Revoked || rec != "absent" {
						resp, err := v.Do(vReq{Tag: "c02rev", Op: logical.UpdateOperation, Path: "auth/token/revoke", Token: v.Root, NS: ns, Data: map[string]any{"token": p.ID}})
						if vOK(resp, err) {
							p.Revoked = true
							if p.Kind == "live" {
								p.Kind = "revoked"
							}
							r.Count("revocation_repeated", 1)
							r.Count("parent_record_after_repeated_revocation:"+x.parentRecord(p), 1)
							if !judgeChild(c, "child-after-repeated-revocation") {
								return
							}
						} else {
							r.Count("repeated_revocation_failed", 1)
							r.Note("%s: the repeated fault-free revocation failed: %s", x.caseID, vErrStr(resp, err))
						}
					}
					if r.NViolations() > 8 {
						return
					}
				}
			}
			// use-limited parents
			x.caseID = fmt.Sprintf("bp:%v:%s:limited", tx, ns)
			lp := x.newParent(fmt.Sprintf("lp%d", ni), "limited", ns, map[string]any{"policies": all, "num_uses": 3})
			lp.UsesMax, lp.UsesLower, lp.UsesUpper = 3, 1, 1
			if c, why := x.batchChild(fmt.Sprintf("lc%d", ni), lp, all); c == nil {
				r.Count("batch_child_of_use_limited_parent_refused_by_product", 1)
				x.step("use-limited parent: %s", why)
			} else {
				r.Count("batch_child_of_use_limited_parent_created", 1)
				for k := 0; k < 3; k++ {
					x.do(x.dataProbe(lp, false), "spend-parent")
				}
				judgeChild(c, "child-of-spent-parent")
			}
		}
		// expiry: parents with a 1 s TTL, the expiry job of parent i fails at its i-th operation
		type exp struct {
			p, c *c02Tok
			f    *c02Fault
			at   int
			ns   string
		}
		var exps []exp
		nexp := kit.N(14, 22)
		for _, ns := range x.w.NSs {
			for i := 0; i <= nexp; i++ { // i = 0: no fault
				p, c, why := pair(ns, map[string]any{"ttl": "1s"})
				if c == nil {
					r.Count("short_parent_expired_before_it_created_a_child", 1)
					x.step("short-lived parent: %s", why)
					continue
				}
				p.Kind = "expired"
				e := exp{p: p, c: c, at: i, ns: ns}
				if i > 0 {
					p.Kind = "expired-unreaped"
					e.f = x.arm((&c02ExpiryFault{p: p}).sel(), i, i == nexp)
				}
				exps = append(exps, e)
			}
		}
		var latest time.Time
		for _, e := range exps {
			if e.p.ExpireUpper.After(latest) {
				latest = e.p.ExpireUpper
			}
		}
		if d := time.Until(latest); d > 0 {
			time.Sleep(d + 50*time.Millisecond)
		}
		v.WaitQuiet(30*time.Millisecond, 3*time.Second) // lets the expiry jobs reach their faults; not a verdict
		for _, e := range exps {
			x.caseID = fmt.Sprintf("bp:%v:%s:expiry:%d", tx, e.ns, e.at)
			if !kit.WantCase(x.caseID) {
				continue
			}
			rec := x.parentRecord(e.p)
			r.Count("expired_parent_record:"+rec, 1)
			if e.f != nil && e.f.fired.Load() > 0 {
				r.Count("expiry_faults_fired", 1)
				r.Nontrivial(fmt.Sprintf("expiry|%s|%v|%s|%s", e.ns, tx, e.f.what(), rec))
				if strings.HasPrefix(rec, "present") {
					r.Count("expired_parents_with_record_left_in_storage", 1)
				}
			}
			x.step("expiry of %s with a fault at worker op %d: record %s", c02TokName(e.p), e.at, rec)
			if _, ok := x.do(x.dataProbe(e.p, false), "expired-parent"); !ok {
				break
			}
			if !judgeChild(e.c, "child-of-expired-parent") {
				break
			}
		}
		v.Probe.ClearFaults()
		v.Close()
		if r.NViolations() > 0 {
			break
		}
	}
	if shards > 1 {
		return // one store kind per shard: the floors below are for both
	}
	r.Require("faults_fired", 150)
	r.Require("fault_interrupted_parents_with_record_left_in_storage", 40)
	r.Require("fault_interrupted_parents:present-marked-revoked", 30)
	r.Require("expired_parents_with_record_left_in_storage", 20)
	r.Require("batch_judged:batch-of-live-parent:allow", 40)
	r.Require("batch_judged:batch-of-revoked-parent:deny", 80)
	r.Require("batch_judged:batch-of-revocation-interrupted-parent:deny", 60)
	r.Require("batch_judged:batch-of-expired-unreaped-parent:deny", 40)
	r.Require("batch_refused_while_parent_record:present-marked-revoked", 40)
	r.Require("batch_refused_while_parent_record:present-lease-expired", 10)
	r.Require("batch_child_of_use_limited_parent_refused_by_product", 3)
}

// ---------------------------------------------------------------- namespace root tokens from the real ceremony

// generateRoot runs the authenticated root generation API of a sealable namespace with its
// own key shares and returns the decoded token.
func (x *c02Run) generateRoot(ns string, shares []string) (string, error) {
	v := x.v
	resp, err := v.Do(vReq{Op: logical.UpdateOperation, Path: "sys/generate-root-token/attempt", Token: v.Root, NS: ns})
	if !vOK(resp, err) || resp == nil {
		return "", fmt.Errorf("attempt: %s", vErrStr(resp, err))
	}
	otp, _ := resp.Data["otp"].(string)
	nonce, _ := resp.Data["nonce"].(string)
	enc := ""
	for _, sh := range shares {
		resp, err = v.Do(vReq{Op: logical.UpdateOperation, Path: "sys/generate-root-token/update", Token: v.Root, NS: ns, Data: map[string]any{"key": sh, "nonce": nonce}})
		if !vOK(resp, err) || resp == nil {
			return "", fmt.Errorf("update: %s", vErrStr(resp, err))
		}
		if enc, _ = resp.Data["encoded_token"].(string); enc != "" {
			break
		}
	}
	if enc == "" {
		return "", fmt.Errorf("no token after %d shares", len(shares))
	}
	resp, err = v.Do(vReq{Op: logical.UpdateOperation, Path: "sys/decode-token", Token: v.Root, NS: ns, Data: map[string]any{"encoded_token": enc, "otp": otp}})
	if !vOK(resp, err) || resp == nil {
		return "", fmt.Errorf("decode: %s", vErrStr(resp, err))
	}
	tok, _ := resp.Data["token"].(string)
	if tok == "" {
		return "", fmt.Errorf("empty token")
	}
	return tok, nil
}

func TestVerif_C02_NamespaceRoot(t *testing.T) {
	seed := kit.Seed(2)
	shard, shards := kit.Shard()
	if shards > 1 && shard > 1 {
		t.Skip("the matrix is not sharded beyond the store kind: shards 0 and 1 run it")
	}
	r := kit.NewResult(t, "c02-nsroot", seed, "a namespace tree root > {nsa (own shamir seal) > {kid, kid2}, nsab (own seal) > deep (own seal) > leaf, nsa-b, nsc} - siblings whose names are string prefixes of one another at the top level and nested - on both store kinds; in every sealable namespace the root generation ceremony is run through the API with that namespace's key shares; each resulting token, a child and an orphan child created by it with policies=[root], and a root-policy token of each plain namespace are presented with every namespace of the tree (header, path prefix, split, 'root' header) on recording secrets and auth mounts (read, write, list, delete, root-protected path) and on system / token / cubbyhole / identity paths; reference: such a token is root inside its own namespace subtree and has no authority anywhere else (no handler, non-error, data or storage change). A request is non-trivial when it was refused outside the subtree or handled inside it; distinct by (token, relation of the request namespace, op, path)")
	r.Exhaustive = true
	defer r.Write(t)
	for ti, tx := range []bool{false, true} {
		if (shards > 1 && ti != shard) || !kit.WantCase(fmt.Sprintf("nsroot:%v", tx)) {
			continue
		}
		v := vBoot(t, vOpts{Transactional: tx, Cache: !tx})
		x := &c02Run{t: t, r: r, v: v, rng: kit.NewRand(seed, 994+uint64(ti)), caseID: fmt.Sprintf("nsroot:%v", tx), w: &c02World{Policies: map[string]*c02Policy{}}}
		type nsd struct {
			parent, name string
			sealable     bool
			shares       []string
		}
		tree := []*nsd{{"", "nsa", true, nil}, {"nsa/", "kid", false, nil}, {"nsa/", "kid2", false, nil}, {"", "nsab", true, nil}, {"nsab/", "deep", true, nil}, {"nsab/deep/", "leaf", false, nil}, {"", "nsa-b", false, nil}, {"", "nsc", false, nil}}
		x.w.NSs = []string{""}
		for _, d := range tree {
			data := map[string]any{}
			if d.sealable {
				sh := 1 + x.rng.Intn(3)
				th := 1
				if sh > 1 {
					th = 2 + x.rng.Intn(sh-1)
				}
				data["seal"] = fmt.Sprintf("seal \"shamir\" {\n shares = %d\n threshold = %d\n}", sh, th)
			}
			resp := v.MustDo(vReq{Op: logical.UpdateOperation, Path: "sys/namespaces/" + d.name, Token: v.Root, NS: d.parent, Data: data})
			if d.sealable {
				d.shares, _ = resp.Data["key_shares"].([]string)
				if len(d.shares) == 0 {
					t.Fatalf("verif: sealable namespace %s%s returned no key shares", d.parent, d.name)
				}
				for _, sh := range d.shares { // a namespace with its own seal starts sealed
					u, err := v.Do(vReq{Op: logical.UpdateOperation, Path: "sys/namespaces/" + d.name + "/unseal", Token: v.Root, NS: d.parent, Data: map[string]any{"key": sh}})
					if !vOK(u, err) || u == nil {
						t.Fatalf("verif: unseal of %s%s: %s", d.parent, d.name, vErrStr(u, err))
					}
					if s, ok := u.Data["sealed"].(bool); ok && !s {
						break
					}
				}
			}
			x.w.NSs = append(x.w.NSs, d.parent+d.name+"/")
		}
		for _, ns := range x.w.NSs {
			for _, mp := range []string{"kv/", "team/a/", "auth/rec/"} {
				m := &c02Mount{NS: ns, Path: mp, Abs: ns + mp, Auth: strings.HasPrefix(mp, "auth/")}
				x.w.Mounts = append(x.w.Mounts, m)
				x.mount(m)
			}
			x.writePolicy(&c02Policy{NS: ns, Name: "c02-all", Rules: []c02Rule{{Pat: "*", Caps: append([]string(nil), c02CapNames...)}}})
		}
		for _, d := range tree {
			ns := d.parent + d.name + "/"
			tag := strings.ReplaceAll(strings.TrimSuffix(ns, "/"), "/", ".")
			if !d.sealable {
				x.nsRootTokens(ns, tag)
				continue
			}
			id, err := x.generateRoot(ns, d.shares)
			if err != nil {
				t.Fatalf("verif: root generation in %q: %v", ns, err)
			}
			r.Count("root_generation_ceremonies", 1)
			gr := &c02Tok{Name: tag + "/generated-root", Kind: "ns-root", NS: ns, ID: id, Root: true}
			x.w.Toks = append(x.w.Toks, gr)
			x.rootChildren(gr, tag+"/generated-root-child")
		}
		x.w.Toks = append(x.w.Toks, &c02Tok{Name: "root", Kind: "root", NS: "", ID: v.Root, Root: true})
		x.digest = x.storageDigest()
		x.nsRootSweep("nsroot-matrix", 0)
		v.Close()
		if r.NViolations() > 0 {
			break
		}
	}
	if shards > 1 {
		return
	}
	r.Require("root_generation_ceremonies", 6)
	r.Require("nsroot_outside_subtree:deny", 1500)
	r.Require("nsroot_outside_subtree_refused:root-namespace", 300)
	r.Require("nsroot_outside_subtree_refused:ancestor", 60)
	r.Require("nsroot_outside_subtree_refused:sibling", 600)
	r.Require("nsroot_outside_subtree_refused:prefix-sibling", 600)
	r.Require("nsroot_outside_subtree_refused_on:secrets", 400)
	r.Require("nsroot_outside_subtree_refused_on:auth", 100)
	r.Require("nsroot_outside_subtree_refused_on:sys", 400)
	r.Require("nsroot_in_own_namespace_handled", 300)
	r.Require("nsroot_in_descendant_namespace_handled", 60)
}
