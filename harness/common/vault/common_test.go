//go:build verif

package vault

// Shared helpers for the core-level monitors (overlaid into internal/vault).

import (
	"errors"
	"context"
	"encoding/json"
	"fmt"
	"os"
	"sort"
	"strings"
	"sync"
	"testing"
	"time"

	log "github.com/hashicorp/go-hclog"
	"github.com/openbao/openbao/sdk/v2/framework"
	kit "github.com/openbao/openbao/sdk/v2/helper/verifkit"
	"github.com/openbao/openbao/sdk/v2/logical"
	"github.com/openbao/openbao/sdk/v2/physical"
	"github.com/openbao/openbao/v2/internal/audit"
	"github.com/openbao/openbao/v2/internal/helper/namespace"
	"github.com/openbao/openbao/v2/internal/vault/seal"
)

// vOpts configures a monitored core.
type vOpts struct {
	Transactional bool
	Cache         bool // physical cache on (default off so every read reaches the probe)
	Logical       map[string]logical.Factory
	Credential    map[string]logical.Factory
	Audit         map[string]audit.Factory
	ShamirSeal    bool
	Phys          physical.Backend // boot on this store instead of a fresh probe
	SealAccess    seal.Access       // reuse the seal of another core (restart on a copied store)
	NoInit        bool              // the store is already initialised: only unseal with stored keys
}

// vCore is a core booted on a probe backend.
type vCore struct {
	t      testing.TB
	Core   *Core
	Probe  *kit.Probe
	Phys   physical.Backend
	Keys   [][]byte
	Root   string
	Access seal.Access
	Opts   vOpts
	Rec    *vRec
	closed bool
}

func vLogger() log.Logger {
	if os.Getenv("VERIF_LOG") != "" {
		return log.New(&log.LoggerOptions{Level: log.Trace, Output: os.Stderr})
	}
	return log.NewNullLogger()
}

// vBoot builds, initialises and unseals a core on a probe backend.
func vBoot(t testing.TB, o vOpts) *vCore {
	t.Helper()
	v, err := vBootErr(t, o)
	if err != nil {
		t.Fatalf("verif: boot failed: %v", err)
	}
	return v
}

func vBootErr(t testing.TB, o vOpts) (*vCore, error) {
	v := &vCore{t: t, Opts: o}
	if o.Phys != nil {
		v.Phys = o.Phys
		if pb, ok := o.Phys.(*kit.TxProbeBackend); ok {
			v.Probe = pb.Probe
		} else if pb, ok := o.Phys.(*kit.ProbeBackend); ok {
			v.Probe = pb.Probe
		}
	} else {
		v.Phys, v.Probe = kit.NewInmemProbe(o.Transactional)
	}
	logger := vLogger()
	conf := testCoreConfig(&vT{t}, v.Phys, logger)
	conf.DisableCache = !o.Cache
	conf.NumExpirationWorkers = numExpirationWorkersTest
	v.Rec = newVRec()
	conf.LogicalBackends["verifrec"] = v.Rec.Factory(logical.TypeLogical)
	conf.CredentialBackends["verifrec"] = v.Rec.Factory(logical.TypeCredential)
	for k, f := range o.Logical {
		conf.LogicalBackends[k] = f
	}
	for k, f := range o.Credential {
		conf.CredentialBackends[k] = f
	}
	for k, f := range o.Audit {
		conf.AuditBackends[k] = f
	}
	if o.ShamirSeal {
		conf.Seal = nil
	} else {
		v.Access = o.SealAccess
		if v.Access == nil {
			v.Access, _ = seal.NewTestSeal(&seal.TestSealOpts{Logger: logger})
		}
		s, err := NewAutoSeal(v.Access)
		if err != nil {
			return nil, err
		}
		conf.Seal = s
	}
	core, err := NewCore(conf)
	if err != nil {
		return nil, err
	}
	v.Core = core
	ctx := namespace.RootContext(context.Background())
	if !o.NoInit {
		keys, token := TestCoreInit(&vT{t}, core)
		v.Keys, v.Root = keys, token
		if o.ShamirSeal {
			for _, key := range keys {
				if _, err := TestCoreUnseal(core, TestKeyCopy(key)); err != nil {
					return nil, fmt.Errorf("unseal: %w", err)
				}
			}
		}
	}
	if !o.ShamirSeal {
		if err := core.UnsealWithStoredKeys(ctx); err != nil {
			return v, fmt.Errorf("unseal with stored keys: %w", err)
		}
	}
	if core.Sealed() {
		return v, fmt.Errorf("core still sealed after unseal")
	}
	t.Cleanup(v.Close)
	return v, nil
}

// Close shuts the core down (idempotent).
func (v *vCore) Close() {
	if v.closed || v.Core == nil {
		return
	}
	v.closed = true
	defer func() { _ = recover() }()
	_ = v.Core.ShutdownWait()
}

// RestartOn boots a second core that shares this core's seal on the given
// store (already initialised), as a process restart would.
func (v *vCore) RestartOn(phys physical.Backend) (*vCore, error) {
	o := v.Opts
	o.Phys = phys
	o.SealAccess = v.Access
	o.NoInit = true
	n, err := vBootErr(v.t, o)
	if n != nil {
		n.Root = v.Root
		n.Keys = v.Keys
	}
	return n, err
}

// Restart shuts this core down and boots a new one on the same store.
func (v *vCore) Restart() (*vCore, error) {
	v.Close()
	return v.RestartOn(v.Phys)
}

// vT adapts testing.TB to the mitchellh testing interface the helpers want.
type vT struct{ testing.TB }

func (v *vT) Parallel() {}

// ---------------------------------------------------------------- requests

type vReq struct {
	Tag     string // probe tag for the goroutine while the request runs ("" = untagged)
	Op      logical.Operation
	Path    string
	Token   string
	Data    map[string]any
	NS      string // namespace header ("" = root)
	Remote  string // remote address
	WrapTTL time.Duration
	PolicyOverride bool
}

// Do runs one request through Core.HandleRequest on the calling goroutine.
func (v *vCore) Do(r vReq) (*logical.Response, error) {
	ctx := namespace.RootContext(context.Background())
	if r.NS != "" {
		ctx = namespace.ContextWithNamespaceHeader(context.Background(), r.NS)
	}
	req := &logical.Request{Operation: r.Op, Path: r.Path, ClientToken: r.Token, Data: r.Data}
	if r.Remote != "" {
		req.Connection = &logical.Connection{RemoteAddr: r.Remote}
	} else {
		req.Connection = &logical.Connection{RemoteAddr: "127.0.0.1"}
	}
	if r.WrapTTL > 0 {
		req.WrapInfo = &logical.RequestWrapInfo{TTL: r.WrapTTL}
	}
	if r.Tag != "" && v.Probe != nil {
		v.Probe.Tag(r.Tag)
		defer v.Probe.Untag()
	}
	return v.Core.HandleRequest(ctx, req)
}

// ok reports whether the request succeeded with a non-error response.
func vOK(resp *logical.Response, err error) bool {
	return err == nil && (resp == nil || !resp.IsError())
}

func vErrStr(resp *logical.Response, err error) string {
	if err != nil {
		return "err:" + err.Error()
	}
	if resp != nil && resp.IsError() {
		return "resp-error:" + resp.Error().Error()
	}
	return "ok"
}

// MustDo fails the test (broken harness, not a verdict) when a setup request fails.
func (v *vCore) MustDo(r vReq) *logical.Response {
	v.t.Helper()
	resp, err := v.Do(r)
	if !vOK(resp, err) {
		v.t.Fatalf("verif: setup request %s %s failed: %s", r.Op, r.Path, vErrStr(resp, err))
	}
	return resp
}

// Mount mounts a secrets engine of the given type at path.
func (v *vCore) Mount(path, typ string, ns string, options map[string]any) {
	v.t.Helper()
	data := map[string]any{"type": typ}
	if options != nil {
		data["options"] = options
	}
	v.MustDo(vReq{Op: logical.UpdateOperation, Path: "sys/mounts/" + path, Token: v.Root, Data: data, NS: ns})
}

// EnableAuth mounts an auth method.
func (v *vCore) EnableAuth(path, typ string, ns string) {
	v.t.Helper()
	v.MustDo(vReq{Op: logical.UpdateOperation, Path: "sys/auth/" + path, Token: v.Root, Data: map[string]any{"type": typ}, NS: ns})
}

// Policy writes an ACL policy.
func (v *vCore) Policy(name, hcl, ns string) {
	v.t.Helper()
	v.MustDo(vReq{Op: logical.UpdateOperation, Path: "sys/policies/acl/" + name, Token: v.Root, Data: map[string]any{"policy": hcl}, NS: ns})
}

// vToken is what the harness remembers of a created token.
type vToken struct {
	ID       string
	Accessor string
	LeaseTTL time.Duration
	Policies []string
}

// CreateToken creates a token with the given parent token.
func (v *vCore) CreateToken(parent string, data map[string]any, orphanEndpoint bool, ns string) (*vToken, *logical.Response, error) {
	path := "auth/token/create"
	if orphanEndpoint {
		path = "auth/token/create-orphan"
	}
	resp, err := v.Do(vReq{Op: logical.UpdateOperation, Path: path, Token: parent, Data: data, NS: ns})
	if !vOK(resp, err) || resp == nil || resp.Auth == nil {
		return nil, resp, err
	}
	return &vToken{ID: resp.Auth.ClientToken, Accessor: resp.Auth.Accessor, LeaseTTL: resp.Auth.TTL, Policies: resp.Auth.Policies}, resp, nil
}

// TokenUsable reports whether lookup-self with the token succeeds.
func (v *vCore) TokenUsable(id, ns string) bool {
	resp, err := v.Do(vReq{Op: logical.ReadOperation, Path: "auth/token/lookup-self", Token: id, NS: ns})
	return vOK(resp, err) && resp != nil && resp.Data != nil
}

// RawKeys lists the physical keys (ciphertext store) under a prefix.
func (v *vCore) RawKeys(prefix string) []string { return v.Probe.Keys(prefix) }

// BarrierList lists through the barrier (plaintext keys) recursively.
func (v *vCore) BarrierKeys(prefix string) []string {
	var out []string
	ctx := context.Background()
	var walk func(p string)
	walk = func(p string) {
		names, err := v.Core.barrier.List(ctx, p)
		if err != nil {
			return
		}
		for _, n := range names {
			if strings.HasSuffix(n, "/") {
				walk(p + n)
			} else {
				out = append(out, p+n)
			}
		}
	}
	walk(prefix)
	sort.Strings(out)
	return out
}

// WaitQuiet waits until the probe saw no operation for quiet (bounded); used
// after requests that hand work to background workers. It never decides a
// verdict: callers must assert on state, not on this returning.
func (v *vCore) WaitQuiet(quiet, max time.Duration) {
	deadline := time.Now().Add(max)
	last := v.Probe.NextSeq()
	lastChange := time.Now()
	for time.Now().Before(deadline) {
		time.Sleep(quiet / 4)
		cur := v.Probe.NextSeq()
		if cur != last+1 {
			lastChange = time.Now()
		}
		last = cur
		if time.Since(lastChange) >= quiet {
			return
		}
	}
}

// ---------------------------------------------------------------- recording backend

// vRecEvent is one observation made inside the recording backend.
type vRecEvent struct {
	Seq     uint64         `json:"seq"`
	Kind    string         `json:"kind"` // handler | existence | issued | revoked | renew | login
	Mount   string         `json:"mount"`
	Op      string         `json:"op"`
	Path    string         `json:"path"`
	ID      string         `json:"id,omitempty"`
	Token   string         `json:"-"`
	Data    map[string]any `json:"data,omitempty"`
	ReqID   string         `json:"req_id,omitempty"`
}

// vRec is shared by all instances (mounts) of the recording backend of a core.
type vRec struct {
	mu         sync.Mutex
	events     []vRecEvent
	seq        func() uint64
	FailRevoke func(id string) bool // revoke handler returns an error when true
	FailRenew  func(id string) bool
	OnHandler  func(ev vRecEvent)
	issued     int
}

func newVRec() *vRec { return &vRec{} }

func (r *vRec) add(ev vRecEvent) vRecEvent {
	r.mu.Lock()
	if r.seq != nil {
		ev.Seq = r.seq()
	}
	r.events = append(r.events, ev)
	h := r.OnHandler
	r.mu.Unlock()
	if h != nil {
		h(ev)
	}
	return ev
}

// Events returns a copy of the log.
func (r *vRec) Events() []vRecEvent {
	r.mu.Lock()
	defer r.mu.Unlock()
	return append([]vRecEvent(nil), r.events...)
}

// Len returns the number of events.
func (r *vRec) Len() int {
	r.mu.Lock()
	defer r.mu.Unlock()
	return len(r.events)
}

// Since returns events from index i on.
func (r *vRec) Since(i int) []vRecEvent {
	r.mu.Lock()
	defer r.mu.Unlock()
	return append([]vRecEvent(nil), r.events[i:]...)
}

// Reset clears the log.
func (r *vRec) Reset() {
	r.mu.Lock()
	r.events = nil
	r.mu.Unlock()
}

type vRecBackend struct {
	*framework.Backend
	rec   *vRec
	mount string
}

// Factory returns a backend factory of the requested flavour. Paths:
//
//	data/<any>        read/create/update/delete/list with existence check; one storage key per write
//	lease/<name>      read returns a leased secret (ttl from ?ttl= or 1h) and logs issued(id); revoke logs revoked(id)
//	login/<name>      (unauthenticated) returns Auth built from the request data
//	unauth/<any>      declared unauthenticated; read/update
//	root/<any>        declared root-protected; read/update
//	raw               update: executes the storage call described in the data on req.Storage (hostile backend)
func (r *vRec) Factory(typ logical.BackendType) logical.Factory {
	return func(ctx context.Context, conf *logical.BackendConfig) (logical.Backend, error) {
		b := &vRecBackend{rec: r}
		ops := func(h framework.OperationFunc, o ...logical.Operation) map[logical.Operation]framework.OperationHandler {
			m := map[logical.Operation]framework.OperationHandler{}
			for _, op := range o {
				m[op] = &framework.PathOperation{Callback: h}
			}
			return m
		}
		anyFields := map[string]*framework.FieldSchema{}
		b.Backend = &framework.Backend{
			BackendType: typ,
			PathsSpecial: &logical.Paths{
				Unauthenticated: []string{"login/*", "unauth/*"},
				Root:            []string{"root/*"},
			},
			Paths: []*framework.Path{
				{Pattern: "data/.*", Fields: anyFields, ExistenceCheck: b.exists,
					Operations: ops(b.handleData, logical.ReadOperation, logical.CreateOperation, logical.UpdateOperation, logical.DeleteOperation, logical.ListOperation, logical.PatchOperation, logical.ScanOperation)},
				{Pattern: "lease/.*", Fields: anyFields, Operations: ops(b.handleLease, logical.ReadOperation, logical.UpdateOperation)},
				{Pattern: "login/.*", Fields: anyFields, Operations: ops(b.handleLogin, logical.UpdateOperation, logical.ReadOperation)},
				{Pattern: "unauth/.*", Fields: anyFields, Operations: ops(b.handleData, logical.ReadOperation, logical.UpdateOperation)},
				{Pattern: "root/.*", Fields: anyFields, Operations: ops(b.handleData, logical.ReadOperation, logical.UpdateOperation, logical.DeleteOperation, logical.ListOperation)},
				{Pattern: "raw", Fields: anyFields, Operations: ops(b.handleRaw, logical.UpdateOperation)},
			},
			Secrets: []*framework.Secret{{
				Type:   "verifrec",
				Revoke: b.handleRevoke,
				Renew:  b.handleRenew,
			}},
			AuthRenew: b.handleAuthRenew,
		}
		if err := b.Setup(ctx, conf); err != nil {
			return nil, err
		}
		return b, nil
	}
}

func (b *vRecBackend) ev(kind string, req *logical.Request) vRecEvent {
	return vRecEvent{Kind: kind, Mount: req.MountPoint, Op: string(req.Operation), Path: req.Path, Data: req.Data, ReqID: req.ID, Token: req.ClientToken}
}

func (b *vRecBackend) exists(ctx context.Context, req *logical.Request, d *framework.FieldData) (bool, error) {
	b.rec.add(b.ev("existence", req))
	if strings.HasPrefix(req.Path, "data/existfail/") {
		// a backend whose existence check fails (as a storage fault inside it would)
		return false, errors.New("verifrec: existence check failed")
	}
	e, err := req.Storage.Get(ctx, "d/"+req.Path)
	return e != nil, err
}

func (b *vRecBackend) handleData(ctx context.Context, req *logical.Request, d *framework.FieldData) (*logical.Response, error) {
	b.rec.add(b.ev("handler", req))
	key := "d/" + req.Path
	switch req.Operation {
	case logical.ReadOperation:
		e, err := req.Storage.Get(ctx, key)
		if err != nil {
			return nil, err
		}
		if e == nil {
			return nil, nil
		}
		var m map[string]any
		if err := json.Unmarshal(e.Value, &m); err != nil {
			return nil, err
		}
		return &logical.Response{Data: m}, nil
	case logical.CreateOperation, logical.UpdateOperation, logical.PatchOperation:
		buf, _ := json.Marshal(req.Data)
		if err := req.Storage.Put(ctx, &logical.StorageEntry{Key: key, Value: buf}); err != nil {
			return nil, err
		}
		return nil, nil
	case logical.DeleteOperation:
		return nil, req.Storage.Delete(ctx, key)
	case logical.ListOperation, logical.ScanOperation:
		names, err := req.Storage.List(ctx, key)
		if err != nil {
			return nil, err
		}
		return logical.ListResponse(names), nil
	}
	return nil, logical.ErrUnsupportedOperation
}

func (b *vRecBackend) handleLease(ctx context.Context, req *logical.Request, d *framework.FieldData) (*logical.Response, error) {
	b.rec.add(b.ev("handler", req))
	b.rec.mu.Lock()
	b.rec.issued++
	id := fmt.Sprintf("sec-%d", b.rec.issued)
	b.rec.mu.Unlock()
	ttl := time.Hour
	if s, ok := req.Data["ttl"].(string); ok {
		if p, err := time.ParseDuration(s); err == nil {
			ttl = p
		}
	}
	canary, _ := req.Data["canary"].(string)
	ev := b.ev("issued", req)
	ev.ID = id
	b.rec.add(ev)
	resp := b.Secret("verifrec").Response(map[string]any{"secret_id": id, "value": canary}, map[string]any{"secret_id": id})
	resp.Secret.TTL = ttl
	if mx, ok := req.Data["max_ttl"].(string); ok {
		if p, err := time.ParseDuration(mx); err == nil {
			resp.Secret.MaxTTL = p
		}
	}
	resp.Secret.Renewable = true
	if nr, ok := req.Data["non_renewable"].(bool); ok && nr {
		resp.Secret.Renewable = false
	}
	return resp, nil
}

func (b *vRecBackend) handleRevoke(ctx context.Context, req *logical.Request, d *framework.FieldData) (*logical.Response, error) {
	id, _ := req.Secret.InternalData["secret_id"].(string)
	b.rec.mu.Lock()
	f := b.rec.FailRevoke
	b.rec.mu.Unlock()
	if f != nil && f(id) {
		ev := b.ev("revoke-failed", req)
		ev.ID = id
		b.rec.add(ev)
		return nil, fmt.Errorf("verifrec: revoke of %s refused by harness", id)
	}
	ev := b.ev("revoked", req)
	ev.ID = id
	b.rec.add(ev)
	return nil, nil
}

func (b *vRecBackend) handleRenew(ctx context.Context, req *logical.Request, d *framework.FieldData) (*logical.Response, error) {
	id, _ := req.Secret.InternalData["secret_id"].(string)
	b.rec.mu.Lock()
	f := b.rec.FailRenew
	b.rec.mu.Unlock()
	if f != nil && f(id) {
		return nil, fmt.Errorf("verifrec: renew of %s refused by harness", id)
	}
	ev := b.ev("renew", req)
	ev.ID = id
	b.rec.add(ev)
	resp := &logical.Response{Secret: req.Secret}
	return resp, nil
}

func (b *vRecBackend) handleAuthRenew(ctx context.Context, req *logical.Request, d *framework.FieldData) (*logical.Response, error) {
	b.rec.add(b.ev("auth-renew", req))
	return &logical.Response{Auth: req.Auth}, nil
}

// handleLogin builds an Auth from request data: policies ([]string or comma
// string), ttl, max_ttl, period, explicit_max_ttl, num_uses, token_type,
// no_default_policy, renewable, bound_cidrs, display_name, metadata, alias.
func (b *vRecBackend) handleLogin(ctx context.Context, req *logical.Request, d *framework.FieldData) (*logical.Response, error) {
	b.rec.add(b.ev("login", req))
	a := &logical.Auth{Renewable: true, InternalData: map[string]any{"verif": true}}
	dur := func(k string) time.Duration {
		switch v := req.Data[k].(type) {
		case string:
			p, _ := time.ParseDuration(v)
			return p
		case int:
			return time.Duration(v) * time.Second
		case float64:
			return time.Duration(v) * time.Second
		}
		return 0
	}
	switch p := req.Data["policies"].(type) {
	case []string:
		a.Policies = p
	case []any:
		for _, x := range p {
			a.Policies = append(a.Policies, fmt.Sprint(x))
		}
	case string:
		if p != "" {
			a.Policies = strings.Split(p, ",")
		}
	}
	a.TTL, a.MaxTTL, a.Period, a.ExplicitMaxTTL = dur("ttl"), dur("max_ttl"), dur("period"), dur("explicit_max_ttl")
	if n, ok := req.Data["num_uses"].(int); ok {
		a.NumUses = n
	}
	if v, ok := req.Data["no_default_policy"].(bool); ok {
		a.NoDefaultPolicy = v
	}
	if v, ok := req.Data["renewable"].(bool); ok {
		a.Renewable = v
	}
	switch req.Data["token_type"] {
	case "batch":
		a.TokenType = logical.TokenTypeBatch
	case "service":
		a.TokenType = logical.TokenTypeService
	case "default-service":
		a.TokenType = logical.TokenTypeDefaultService
	case "default-batch":
		a.TokenType = logical.TokenTypeDefaultBatch
	}
	if v, ok := req.Data["display_name"].(string); ok {
		a.DisplayName = v
	}
	if v, ok := req.Data["alias"].(string); ok && v != "" {
		a.Alias = &logical.Alias{Name: v}
	}
	if v, ok := req.Data["metadata"].(map[string]string); ok {
		a.Metadata = v
	}
	resp := &logical.Response{Auth: a}
	if c, ok := req.Data["canary"].(string); ok {
		resp.Data = map[string]any{"value": c}
	}
	return resp, nil
}

// handleRaw executes a client-described storage call on req.Storage:
// data: {"call": get|put|delete|list|listpage, "key": ..., "value": ..., "after": ..., "limit": n}
func (b *vRecBackend) handleRaw(ctx context.Context, req *logical.Request, d *framework.FieldData) (*logical.Response, error) {
	b.rec.add(b.ev("handler", req))
	key, _ := req.Data["key"].(string)
	out := map[string]any{}
	var err error
	switch req.Data["call"] {
	case "get":
		var e *logical.StorageEntry
		e, err = req.Storage.Get(ctx, key)
		if e != nil {
			out["value"] = string(e.Value)
			out["found"] = true
		}
	case "put":
		val, _ := req.Data["value"].(string)
		err = req.Storage.Put(ctx, &logical.StorageEntry{Key: key, Value: []byte(val)})
	case "delete":
		err = req.Storage.Delete(ctx, key)
	case "list":
		var names []string
		names, err = req.Storage.List(ctx, key)
		out["keys"] = names
	case "listpage":
		after, _ := req.Data["after"].(string)
		limit, _ := req.Data["limit"].(int)
		var names []string
		names, err = req.Storage.ListPage(ctx, key, after, limit)
		out["keys"] = names
	default:
		return logical.ErrorResponse("unknown call"), nil
	}
	if err != nil {
		out["storage_error"] = err.Error()
	}
	return &logical.Response{Data: out}, nil
}
