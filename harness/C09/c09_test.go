//go:build verif

package raft

// C09 — replicas of the integrated storage that apply the same committed log
// reach byte-identical key/value state and the same commit-or-conflict verdict
// for every transaction, whatever the batching, restart position or snapshot
// install position, chunked or not.
//
// Four monitors share one replica driver and one oracle:
//
//   TestVerif_C09_Logs      seeded leader-consistent logs (<= 60 raft entries), R replicas each
//   TestVerif_C09_Small     logs of <= 8 (thorough 9) entries: ALL batch partitions, a restart,
//                           a crash and a snapshot install at EVERY position
//   TestVerif_C09_LeaderLog the log is produced by a real single-node raft leader running
//                           real transactions; the verdict it gave its client is the reference
//                           (read-only transactions come and go between the writers' steps)
//   TestVerif_C09_LeaderSizes the real leader over a fixed matrix {entry size class: small ..
//                           several raft chunks .. max_entry_size} x {read set untouched / invalidated
//                           in four ways} x {transaction, plain put/delete}; the reference is a serial
//                           model, and the verdict the CLIENT got from the leader's API is compared
//                           with it and with what the replicas reach when they replay the leader's log
//
// Logs are hand-built the way a leader would (plain puts/deletes, transactions
// whose verification entries are what a transaction started at index s
// honestly observed, LowestActiveIndex values a leader could ship, chunked
// encodings interleaved with other entries, term changes, configuration
// entries, index gaps) and fed to independent state machines through the
// object raft itself drives (FSM.chunker.ApplyBatch -> FSM.ApplyBatch). The
// oracle compares
//   * every per-entry verdict with ground truth (each verification entry
//     evaluated in full against a plain map replay of the log; for the real
//     leader: the verdict the leader returned),
//   * the data bucket after every batch with that map,
//   * the persisted/in-memory latest index with what was delivered (this is
//     where replay resumes after a restart; read through BoltSnapshotStore.List),
//   * the complete bucket dump of every replica with the reference replica
//     (chunk staging keys included).
// A replica is followed up to its first deviation only (later differences are
// consequences). fix-sketches.diff in this directory holds the three repairs
// under which all monitors are silent (validated in a scratch worktree).

import (
	"bytes"
	"context"
	"crypto/sha256"
	"encoding/hex"
	"encoding/json"
	"errors"
	"fmt"
	"io"
	"os"
	"path/filepath"
	"sort"
	"strings"
	"testing"
	"time"

	log "github.com/hashicorp/go-hclog"
	raftchunking "github.com/hashicorp/go-raftchunking"
	raftchunkingtypes "github.com/hashicorp/go-raftchunking/types"
	"github.com/hashicorp/raft"
	kit "github.com/openbao/openbao/sdk/v2/helper/verifkit"
	"github.com/openbao/openbao/sdk/v2/physical"
	bolt "go.etcd.io/bbolt"
	"google.golang.org/protobuf/proto"
)

const (
	c09ClassF1          = "C09-F1-restarted-replica-skips-verification"
	c09ClassCommits     = "C09-replica-commits-rejected-txn"
	c09ClassRejects     = "C09-replica-rejects-accepted-txn"
	c09ClassState       = "C09-state-divergence"
	c09ClassChunkNS     = "C09-chunk-namespace-divergence"
	c09ClassShape       = "C09-apply-response-shape"
	c09ClassLatest      = "C09-latest-index-wrong"
	c09ClassPanic       = "C09-apply-panic"
	c09ClassChunkLost   = "C09-chunk-staging-wiped-after-restart-mid-op"
	c09ClassChunkNoApp  = "C09-chunked-op-not-applied"
	c09ClassSnapshot    = "C09-snapshot-install-failed"
	c09ClassErrClass    = "C09-conflict-error-class"
	c09ClassHarnessSelf = "C09-harness-self-check"
	c09ClassLeaderList  = "C09-leader-list-verification-entry-never-holds"
	c09ClassLeaderErr   = "C09-leader-commit-error-class"
	c09ClassCrashAtomic = "C09-crash-inside-apply-state-not-replay-of-resume-index"
	c09ClassInstallDiff = "C09-snapshot-install-state-differs-from-source"
	c09ClassStaleSnap   = "C09-late-local-snapshot-rewinds-applied-index"
	c09ClassInstallLie  = "C09-snapshot-install-reported-success-but-state-not-installed"
	c09ClassInstallHalf = "C09-failed-snapshot-install-changed-the-replica"
	c09ClassInstallGone = "C09-snapshot-file-vanished-before-open-installs-empty-database"
)

// ---------------------------------------------------------------------------
// reference model

type c09State map[string]string

func (s c09State) clone() c09State {
	o := make(c09State, len(s))
	for k, v := range s {
		o[k] = v
	}
	return o
}

// c09RefList is the listing contract of physical.Backend.ListPage written
// from its documentation: the distinct direct children of prefix (files, or
// "folder/" for deeper keys), sorted, strictly after `after`, at most limit
// (limit <= 0: all).
func c09RefList(st c09State, prefix, after string, limit int) []string {
	seen := map[string]struct{}{}
	for k := range st {
		if !strings.HasPrefix(k, prefix) {
			continue
		}
		rest := k[len(prefix):]
		if i := strings.IndexByte(rest, '/'); i >= 0 {
			rest = rest[:i+1]
		}
		if after != "" && rest <= after {
			continue
		}
		seen[rest] = struct{}{}
	}
	out := make([]string, 0, len(seen))
	for k := range seen {
		out = append(out, k)
	}
	sort.Strings(out)
	if limit > 0 && len(out) > limit {
		out = out[:limit]
	}
	return out
}

// ---------------------------------------------------------------------------
// abstract log

type c09Write struct {
	Del bool   `json:"del,omitempty"`
	Key string `json:"key"`
	Val string `json:"val"`
}

// MarshalJSON keeps witnesses readable: values above 512 bytes (the real-leader
// size-class monitor writes values of up to 1 MiB) are written as <length:hash>.
func (w c09Write) MarshalJSON() ([]byte, error) {
	type plain c09Write
	if len(w.Val) > 512 {
		w.Val = c09ShortVal(w.Val)
	}
	return json.Marshal(plain(w))
}

type c09Read struct {
	Key     string `json:"key"`
	Present bool   `json:"present"`
	Val     string `json:"val,omitempty"`
	Hash    []byte `json:"shipped_hash,omitempty"` // leader-produced entries: only the hash is known
}

type c09List struct {
	Prefix string   `json:"prefix"`
	After  string   `json:"after"`
	Limit  int      `json:"verify_limit"`
	Items  []string `json:"observed,omitempty"`
	Hash   []byte   `json:"shipped_hash,omitempty"`
	Repr   string   `json:"-"`
}

type c09Stale struct {
	Op   string   `json:"op"`
	List bool     `json:"is_list,omitempty"`
	Mods []uint64 `json:"modified_at"`
}

type c09Cmd struct {
	ID      int        `json:"id"`
	Kind    string     `json:"kind"` // put | del | txn | config
	Writes  []c09Write `json:"writes,omitempty"`
	Start   uint64     `json:"start,omitempty"`
	Reads   []c09Read  `json:"reads,omitempty"`
	Lists   []c09List  `json:"lists,omitempty"`
	Shuffle bool       `json:"ops_shuffled,omitempty"`
	LAI     *uint64    `json:"lowest_active_index,omitempty"`
	NChunks int        `json:"chunks,omitempty"`
	Bytes   int        `json:"entry_bytes,omitempty"` // leader-produced entries: size of the (reassembled) command
	OpNum   uint64     `json:"-"`
	First   uint64     `json:"first_index"`
	Final   uint64     `json:"final_index,omitempty"` // 0 while in flight / abandoned
	Term    uint64     `json:"term"`
	Aband   bool       `json:"abandoned,omitempty"`
	Commit  bool       `json:"truth_commit"`
	Stale   []c09Stale `json:"truth_stale_ops,omitempty"`

	opOrder []int // permutation seed for op order inside a txn
}

type c09Entry struct {
	Ord     int
	Log     *raft.Log
	Cmd     int // -1: none
	Seq     int
	Visible bool // reaches FSM.ApplyBatch (unchunked command, final chunk, configuration)
}

type c09Log struct {
	Cmds         []*c09Cmd
	Entries      []*c09Entry
	Hist         map[uint64]c09State // state after every FSM-visible index (0: empty)
	Mods         map[uint64]map[string]struct{}
	EndChunkKeys map[string]struct{} // raftchunking/ keys a never-restarted replica holds at the end
	Chunked      bool
	Conflated    int // read verifications that hold only because absent and zero-length hash alike
}

func c09ShortVal(v string) string {
	if len(v) <= 12 {
		return fmt.Sprintf("%q", v)
	}
	h := sha256.Sum256([]byte(v))
	return fmt.Sprintf("<%dB:%s>", len(v), hex.EncodeToString(h[:4]))
}

// render is the written-out form used in witnesses and samples.
func (l *c09Log) render() []string {
	var out []string
	for _, e := range l.Entries {
		s := fmt.Sprintf("#%d term=%d ", e.Log.Index, e.Log.Term)
		if e.Cmd < 0 {
			out = append(out, s+"?")
			continue
		}
		c := l.Cmds[e.Cmd]
		if c.NChunks > 1 {
			s += fmt.Sprintf("[chunk %d/%d of cmd %d] ", e.Seq+1, c.NChunks, c.ID)
			if !e.Visible {
				out = append(out, s)
				continue
			}
		}
		switch c.Kind {
		case "config":
			s += "configuration"
		case "put":
			s += fmt.Sprintf("put %s=%s", c.Writes[0].Key, c09ShortVal(c.Writes[0].Val))
		case "del":
			s += fmt.Sprintf("delete %s", c.Writes[0].Key)
		case "txn":
			s += fmt.Sprintf("txn start=%d", c.Start)
			for _, r := range c.Reads {
				if r.Hash != nil {
					s += fmt.Sprintf(" verify(%s #%x)", r.Key, r.Hash[1:5])
				} else if r.Present {
					s += fmt.Sprintf(" verify(%s==%s)", r.Key, c09ShortVal(r.Val))
				} else {
					s += fmt.Sprintf(" verify(%s absent)", r.Key)
				}
			}
			for _, li := range c.Lists {
				if li.Hash != nil {
					s += fmt.Sprintf(" verifylist(%q after %q limit %d #%x)", li.Prefix, li.After, li.Limit, li.Hash[1:5])
				} else {
					s += fmt.Sprintf(" verifylist(%q after %q limit %d == %v)", li.Prefix, li.After, li.Limit, li.Items)
				}
			}
			for _, w := range c.Writes {
				if w.Del {
					s += " del " + w.Key
				} else {
					s += fmt.Sprintf(" put %s=%s", w.Key, c09ShortVal(w.Val))
				}
			}
			switch {
			case c.Commit && len(c.Stale) > 0:
				s += fmt.Sprintf(" => leader: commit (full verification fails: %v)", c.Stale)
			case c.Commit:
				s += " => truth: commit"
			default:
				s += fmt.Sprintf(" => truth: conflict %v", c.Stale)
			}
		}
		if c.Kind != "config" {
			if c.LAI != nil {
				s += fmt.Sprintf(" lai=%d", *c.LAI)
			} else {
				s += " lai=nil"
			}
		}
		out = append(out, s)
	}
	return out
}

func (l *c09Log) digest() string {
	h := sha256.New()
	for _, e := range l.Entries {
		fmt.Fprintf(h, "%d/%d/%x/%x|", e.Log.Index, e.Log.Term, e.Log.Data, e.Log.Extensions)
	}
	return hex.EncodeToString(h.Sum(nil)[:10])
}

// c09Verify is ground truth for one transaction: every verification entry
// evaluated in full against the map replay `cur` (the state just before the
// transaction's log position `at`). For each entry that does not hold it also
// reports at which FSM-visible indexes inside the window (start, at) a
// committed command wrote a key the entry covers.
func (l *c09Log) c09Verify(cur c09State, c *c09Cmd, vis []uint64, at uint64) []c09Stale {
	var stale []c09Stale
	modsOf := func(match func(string) bool) []uint64 {
		var m []uint64
		for _, v := range vis {
			if v <= c.Start || v >= at {
				continue
			}
			for k := range l.Mods[v] {
				if match(k) {
					m = append(m, v)
					break
				}
			}
		}
		return m
	}
	for _, r := range c.Reads {
		// Wire semantics of a read verification entry: a hash over key and value
		// bytes. An absent key and a key holding a zero-length value hash alike, so
		// the entry cannot tell them apart; the model keeps them apart (the bucket
		// comparison does distinguish them) and counts where verification conflates them.
		v, ok := cur[r.Key]
		holds := v == r.Val
		if r.Hash == nil && holds && ok != r.Present {
			l.Conflated++
		}
		if r.Hash != nil {
			var val []byte
			if ok {
				val = []byte(v)
			}
			h, err := createVerificationEntryOfType(r.Hash[0], r.Key, val)
			holds = err == nil && bytes.Equal(h, r.Hash)
		}
		if !holds {
			key := r.Key
			stale = append(stale, c09Stale{Op: "read " + key, Mods: modsOf(func(k string) bool { return k == key })})
		}
	}
	for _, li := range c.Lists {
		got := c09RefList(cur, li.Prefix, li.After, li.Limit)
		holds := strings.Join(got, "\n") == strings.Join(li.Items, "\n")
		if li.Hash != nil {
			h, err := createVerificationEntryOfType(li.Hash[0], li.Repr, []byte(strings.Join(got, "\n")))
			holds = err == nil && bytes.Equal(h, li.Hash)
		}
		if !holds {
			p := li.Prefix
			stale = append(stale, c09Stale{Op: fmt.Sprintf("list %q after %q limit %d", p, li.After, li.Limit), List: true, Mods: modsOf(func(k string) bool { return strings.HasPrefix(k, p) })})
		}
	}
	return stale
}

// ---------------------------------------------------------------------------
// generator: a leader simulation

type c09GenOpts struct {
	MinCmds, MaxCmds int
	MaxEntries       int
	Chunking         bool
	TermBumps        bool
	Keys             []string // key space (default c09Keys)
	TxnPct           int      // share of commands that are transactions (default 45)
}

var (
	// several keys are byte-prefixes of the key that sorts right after them (a/d < a/d/x, a/k1 < a/k10, b < b/e/z)
	c09Keys     = []string{"a/k1", "a/k10", "a/k2", "a/k3", "a/d", "a/d/x", "a/d/y", "b", "b/k1", "b/e/z", "c"}
	c09Prefixes = []string{"a/", "a/", "a/d/", "b/", "b/e/", "z/"}
	c09Afters   = []string{"k1", "k2", "d", "d/", "e/", "a/", "b/", "k0"}
	// zero-length and single 0x00 values are legal and are exactly what a codec
	// with default-valued-field trouble (proto3 omits them on the wire) gets wrong
	c09Vals = []string{"v0", "v1", "v2", "", "\x00", ""}
)

type c09Pending struct {
	cmd  int
	next int
}

func c09Generate(rng *kit.Rand, o c09GenOpts) *c09Log {
	l := &c09Log{Hist: map[uint64]c09State{0: {}}, Mods: map[uint64]map[string]struct{}{}, Chunked: o.Chunking}
	keys := o.Keys
	if keys == nil {
		keys = c09Keys
	}
	if o.TxnPct == 0 {
		o.TxnPct = 45
	}
	cur := c09State{}
	visible := []uint64{0}
	idx := uint64(rng.Intn(3)) // the first entries of a real log are not commands
	term := uint64(1 + rng.Intn(2))
	var pending []c09Pending
	// model of the chunk staging area of a never-restarted replica
	stage := map[uint64]map[int]struct{}{}
	stageTerm := uint64(0)
	opnum := uint64(1000 + rng.Intn(1000))

	pickVal := func() string {
		if rng.Chance(1, 8) {
			return "L" + hex.EncodeToString(rng.Bytes(40+rng.Intn(160)))
		}
		return kit.Pick(rng, c09Vals)
	}

	emit := func(cmd, seq int, vis bool, typ raft.LogType) *c09Entry {
		idx++
		e := &c09Entry{Ord: len(l.Entries), Cmd: cmd, Seq: seq, Visible: vis,
			Log: &raft.Log{Index: idx, Term: term, Type: typ}}
		l.Entries = append(l.Entries, e)
		return e
	}

	// apply a command to the model at FSM-visible index i
	applyModel := func(c *c09Cmd, i uint64) {
		c.Final = i
		mods := map[string]struct{}{}
		switch c.Kind {
		case "put", "del":
			c.Commit = true
		case "txn":
			c.Stale = l.c09Verify(cur, c, visible, i)
			c.Commit = len(c.Stale) == 0
		}
		if c.Commit {
			for _, w := range c.Writes {
				if w.Del {
					delete(cur, w.Key)
				} else {
					cur[w.Key] = w.Val
				}
				mods[w.Key] = struct{}{}
			}
		}
		l.Mods[i] = mods
		l.Hist[i] = cur.clone()
		visible = append(visible, i)
	}

	stageChunk := func(c *c09Cmd, seq int) bool {
		if stageTerm != term {
			stage = map[uint64]map[int]struct{}{}
			stageTerm = term
		}
		if stage[c.OpNum] == nil {
			stage[c.OpNum] = map[int]struct{}{}
		}
		stage[c.OpNum][seq] = struct{}{}
		if len(stage[c.OpNum]) == c.NChunks {
			delete(stage, c.OpNum)
			return true
		}
		return false
	}

	newCmd := func() {
		c := &c09Cmd{ID: len(l.Cmds), Term: term, NChunks: 1}
		switch {
		case rng.Chance(o.TxnPct, 100):
			c.Kind = "txn"
			// start index: an index the leader's state machine had applied when the transaction began
			switch {
			case rng.Chance(30, 100):
				c.Start = visible[len(visible)-1]
			case rng.Chance(85, 100):
				w := 7
				if w > len(visible) {
					w = len(visible)
				}
				c.Start = visible[len(visible)-1-rng.Intn(w)]
			default:
				c.Start = kit.Pick(rng, visible)
			}
			at := l.Hist[c.Start]
			seen := map[string]bool{}
			for n := rng.Intn(3); n > 0; n-- {
				k := kit.Pick(rng, keys)
				if !seen[k] {
					seen[k] = true
					v, ok := at[k]
					c.Reads = append(c.Reads, c09Read{Key: k, Present: ok, Val: v})
				}
			}
			nl := 0
			if rng.Chance(45, 100) {
				nl = 1 + rng.Intn(2)
			}
			for ; nl > 0; nl-- {
				p := kit.Pick(rng, c09Prefixes)
				if !o.Chunking && rng.Chance(1, 6) {
					p = ""
				}
				after := ""
				if rng.Chance(30, 100) {
					after = kit.Pick(rng, c09Afters)
				}
				limit := 0
				if rng.Chance(40, 100) {
					limit = 1 + rng.Intn(3)
				}
				all := c09RefList(at, p, after, 0)
				items := all
				if limit > 0 && len(all) > limit {
					items = all[:limit+1] // the requested page plus the entry that follows it
				}
				c.Lists = append(c.Lists, c09List{Prefix: p, After: after, Limit: len(items), Items: append([]string{}, items...)})
			}
			nw := 1 + rng.Intn(3)
			if rng.Chance(1, 20) {
				nw = 0
			}
			wrote := map[string]bool{}
			leaderLike := rng.Chance(80, 100)
			for ; nw > 0; nw-- {
				k := kit.Pick(rng, keys)
				if wrote[k] {
					continue
				}
				wrote[k] = true
				if rng.Chance(25, 100) {
					c.Writes = append(c.Writes, c09Write{Del: true, Key: k})
				} else {
					c.Writes = append(c.Writes, c09Write{Key: k, Val: pickVal()})
				}
				if leaderLike && !seen[k] {
					seen[k] = true
					v, ok := at[k]
					c.Reads = append(c.Reads, c09Read{Key: k, Present: ok, Val: v})
				}
			}
			c.Shuffle = rng.Chance(25, 100)
			c.opOrder = rng.Perm(len(c.Reads) + len(c.Lists) + len(c.Writes))
		case rng.Chance(70, 100):
			c.Kind = "put"
			c.Writes = []c09Write{{Key: kit.Pick(rng, keys), Val: pickVal()}}
		default:
			c.Kind = "del"
			c.Writes = []c09Write{{Del: true, Key: kit.Pick(rng, keys)}}
		}
		if o.Chunking && rng.Chance(30, 100) {
			c.NChunks = 2 + rng.Intn(3)
			opnum += 1 + uint64(rng.Intn(5))
			c.OpNum = opnum
		}
		l.Cmds = append(l.Cmds, c)
		if c.NChunks == 1 {
			e := emit(c.ID, 0, true, raft.LogCommand)
			c.First = e.Log.Index
			applyModel(c, e.Log.Index)
			return
		}
		e := emit(c.ID, 0, false, raft.LogCommand)
		c.First = e.Log.Index
		stageChunk(c, 0)
		pending = append(pending, c09Pending{cmd: c.ID, next: 1})
	}

	emitPending := func(pi int) {
		p := &pending[pi]
		c := l.Cmds[p.cmd]
		e := emit(c.ID, p.next, false, raft.LogCommand)
		done := stageChunk(c, p.next)
		p.next++
		if done {
			e.Visible = true
			applyModel(c, e.Log.Index)
			pending = append(pending[:pi], pending[pi+1:]...)
		}
	}

	ncmds := o.MinCmds + rng.Intn(o.MaxCmds-o.MinCmds+1)
	for len(l.Cmds) < ncmds && len(l.Entries) < o.MaxEntries-6 {
		if o.TermBumps && rng.Chance(5, 100) && len(l.Entries) > 0 {
			// leadership change: in-flight chunked operations are abandoned, the new
			// leader's first entry is a no-op that never reaches the state machine
			for _, p := range pending {
				l.Cmds[p.cmd].Aband = true
			}
			pending = nil
			term++
			idx++
			if rng.Chance(60, 100) {
				c := &c09Cmd{ID: len(l.Cmds), Kind: "config", Term: term, NChunks: 1, Commit: true}
				l.Cmds = append(l.Cmds, c)
				e := emit(c.ID, 0, true, raft.LogConfiguration)
				c.First = e.Log.Index
				applyModel(c, e.Log.Index)
			}
			continue
		}
		if rng.Chance(4, 100) {
			idx++ // barrier / no-op entry that is not handed to the state machine
		}
		if len(pending) > 0 && rng.Chance(70, 100) {
			emitPending(rng.Intn(len(pending)))
			continue
		}
		newCmd()
	}
	for len(pending) > 0 {
		emitPending(0)
	}
	l.EndChunkKeys = map[string]struct{}{}
	for op, seqs := range stage {
		for s := range seqs {
			l.EndChunkKeys[fmt.Sprintf("%s%d/%d", chunkingPrefix, op, s)] = struct{}{}
		}
	}

	// LowestActiveIndex as a leader could ship it: never above the start index of a
	// transaction that is applied after this command was created, never above
	// the index preceding the command (raft's applied index caps it).
	for _, c := range l.Cmds {
		if c.Kind == "config" {
			continue
		}
		bound := c.First - 1
		for _, t := range l.Cmds {
			if t.Kind == "txn" && t != c && !t.Aband && t.Final >= c.First && t.Start < bound {
				bound = t.Start
			}
		}
		switch {
		case rng.Chance(72, 100):
			c.LAI = &bound
		case rng.Chance(50, 100):
			v := uint64(rng.Int64N(int64(bound) + 1))
			c.LAI = &v
		case rng.Chance(50, 100):
			v := uint64(0)
			c.LAI = &v
		default:
			c.LAI = nil // entry written by a version that does not ship the field
		}
	}

	// wire encoding
	for _, c := range l.Cmds {
		var data []byte
		if c.Kind == "config" {
			data = raft.EncodeConfiguration(raft.Configuration{Servers: []raft.Server{{ID: raft.ServerID(fmt.Sprintf("n%d", c.ID)), Address: "verif:1"}}})
		} else {
			data = c09Encode(c)
		}
		var ents []*c09Entry
		for _, e := range l.Entries {
			if e.Cmd == c.ID {
				ents = append(ents, e)
			}
		}
		if c.NChunks == 1 {
			ents[0].Log.Data = data
			continue
		}
		// split into NChunks non-empty pieces; abandoned operations simply lack their tail
		n := c.NChunks
		for i, e := range ents {
			lo, hi := len(data)*i/n, len(data)*(i+1)/n
			e.Log.Data = data[lo:hi]
			ext, err := proto.Marshal(&raftchunkingtypes.ChunkInfo{OpNum: c.OpNum, SequenceNum: uint32(e.Seq), NumChunks: uint32(n)})
			if err != nil {
				panic(err)
			}
			e.Log.Extensions = ext
		}
	}
	return l
}

// c09Encode produces the LogData bytes of a command using the package's own
// wire helpers (the monitor does not second-guess the wire format, only what
// the state machines make of it).
func c09Encode(c *c09Cmd) []byte {
	ld := &LogData{LowestActiveIndex: c.LAI}
	switch c.Kind {
	case "put":
		ld.Operations = []*LogOperation{{OpType: putOp, Key: c.Writes[0].Key, Value: []byte(c.Writes[0].Val)}}
	case "del":
		ld.Operations = []*LogOperation{{OpType: deleteOp, Key: c.Writes[0].Key}}
	case "txn":
		bv, err := createBeginTxOpValue(c.Start)
		if err != nil {
			panic(err)
		}
		var body []*LogOperation
		for _, r := range c.Reads {
			var val []byte
			if r.Present {
				val = []byte(r.Val)
			}
			h, err := createVerificationEntry(r.Key, val)
			if err != nil {
				panic(err)
			}
			body = append(body, &LogOperation{OpType: verifyReadOp, Key: r.Key, Value: h})
		}
		for _, li := range c.Lists {
			repr, h, err := createListVerificationEntry(li.Prefix, li.After, li.Limit, li.Items)
			if err != nil {
				panic(err)
			}
			body = append(body, &LogOperation{OpType: verifyListOp, Key: repr, Value: h})
		}
		for _, w := range c.Writes {
			if w.Del {
				body = append(body, &LogOperation{OpType: deleteOp, Key: w.Key})
			} else {
				body = append(body, &LogOperation{OpType: putOp, Key: w.Key, Value: []byte(w.Val)})
			}
		}
		if c.Shuffle && len(c.opOrder) == len(body) {
			sh := make([]*LogOperation, len(body))
			for i, j := range c.opOrder {
				sh[i] = body[j]
			}
			body = sh
		}
		ld.Operations = append(ld.Operations, &LogOperation{OpType: beginTxOp, Value: bv})
		ld.Operations = append(ld.Operations, body...)
		ld.Operations = append(ld.Operations, &LogOperation{OpType: commitTxOp})
	}
	b, err := proto.Marshal(ld)
	if err != nil {
		panic(err)
	}
	return b
}

// ---------------------------------------------------------------------------
// replicas

type c09Event struct {
	Ord  int    `json:"before_entry"` // executed when exactly Ord entries have been delivered
	Kind string `json:"kind"`         // restart | crash | install | localsnap | localsnap-late
	Back int    `json:"snapshot_index_fixed_entries_ago,omitempty"`
	// install events: the storage fault the first installation attempt runs into
	// (write | close | open-dir | open-missing | restore-source-missing | restore-target-dir)
	Fault string `json:"install_fault,omitempty"`
}

type c09Reset struct {
	Ord    int    `json:"after_entries"`
	Kind   string `json:"kind"`
	P      uint64 `json:"resume_after_index"`
	Follow uint64 `json:"follower_had_applied,omitempty"`
}

type c09Plan struct {
	Name     string     `json:"name"`
	MaxBatch int        `json:"max_batch"`
	Cuts     []int      `json:"cuts,omitempty"` // explicit batch boundaries (exhaustive mode)
	Events   []c09Event `json:"events,omitempty"`
	Stream   uint64     `json:"-"`
}

type c09Snap struct {
	meta *raft.SnapshotMeta
	data []byte
}

type c09Dev struct {
	Class string
	What  string
	Extra map[string]any
}

type c09Run struct {
	Plan    c09Plan
	Batches [][2]uint64 // first/last raft index of each delivered batch
	Resets  []c09Reset
	Dev     *c09Dev
	Dump    map[string]string
	Stats   map[string]int
}

type c09Env struct {
	base   string
	logger log.Logger
	nfsm   int
}

func c09NewEnv(t *testing.T, mmap string) *c09Env {
	// bbolt's initial mmap size is a documented tunable; the 100 GB default costs
	// most of the run time when thousands of short-lived databases are opened.
	// The leader test uses 64 MiB, far above what its database reaches, so bbolt
	// never has to remap there (a remap waits for open read transactions, which
	// the single-goroutine leader workload keeps open on purpose).
	if os.Getenv("BAO_RAFT_INITIAL_MMAP_SIZE") == "" {
		t.Setenv("BAO_RAFT_INITIAL_MMAP_SIZE", mmap)
	}
	root := os.TempDir()
	if st, err := os.Stat("/dev/shm"); err == nil && st.IsDir() {
		root = "/dev/shm"
	}
	base, err := os.MkdirTemp(root, "verif-c09-")
	if err != nil {
		base = t.TempDir()
	}
	t.Cleanup(func() { os.RemoveAll(base) })
	return &c09Env{base: base, logger: log.NewNullLogger()}
}

func c09Dump(f *FSM) (map[string]string, error) {
	out := map[string]string{}
	err := f.getDB().View(func(tx *bolt.Tx) error {
		return tx.Bucket(dataBucketName).ForEach(func(k, v []byte) error {
			out[string(k)] = string(v)
			return nil
		})
	})
	return out, err
}

func c09DiffState(got map[string]string, want c09State) string {
	var d []string
	for k, v := range want {
		g, ok := got[k]
		if !ok {
			d = append(d, fmt.Sprintf("missing %s (want %s)", k, c09ShortVal(v)))
		} else if g != v {
			d = append(d, fmt.Sprintf("%s=%s (want %s)", k, c09ShortVal(g), c09ShortVal(v)))
		}
	}
	for k, g := range got {
		if strings.HasPrefix(k, chunkingPrefix) {
			continue
		}
		if _, ok := want[k]; !ok {
			d = append(d, fmt.Sprintf("extra %s=%s", k, c09ShortVal(g)))
		}
	}
	sort.Strings(d)
	return strings.Join(d, "; ")
}

func c09CopyFile(src, dst string) error {
	in, err := os.Open(src)
	if err != nil {
		return err
	}
	defer in.Close()
	out, err := os.OpenFile(dst, os.O_CREATE|os.O_WRONLY|os.O_TRUNC, 0o600)
	if err != nil {
		return err
	}
	if _, err := io.Copy(out, in); err != nil {
		out.Close()
		return err
	}
	return out.Close()
}

// c09Drive applies the log to one replica according to plan. snaps are the
// snapshots the reference replica produced (by ordinal); when capture is
// non-nil this replica is the donor and stores a snapshot at each requested
// ordinal.
func c09Drive(env *c09Env, l *c09Log, plan c09Plan, rng *kit.Rand, snaps map[int]*c09Snap, capture map[int]bool) (run *c09Run) {
	run = &c09Run{Plan: plan, Stats: map[string]int{}}
	env.nfsm++
	dir := filepath.Join(env.base, fmt.Sprintf("r%d", env.nfsm))
	if err := os.MkdirAll(dir, 0o700); err != nil {
		run.Dev = &c09Dev{Class: c09ClassHarnessSelf, What: "mkdir: " + err.Error()}
		return run
	}
	defer os.RemoveAll(dir)
	fsm, err := NewFSM(dir, "verif", env.logger)
	if err != nil {
		run.Dev = &c09Dev{Class: c09ClassHarnessSelf, What: "NewFSM: " + err.Error()}
		return run
	}
	defer func() {
		if fsm != nil {
			fsm.Close()
		}
	}()
	store, err := NewBoltSnapshotStore(dir, env.logger, fsm)
	if err != nil {
		run.Dev = &c09Dev{Class: c09ClassHarnessSelf, What: "NewBoltSnapshotStore: " + err.Error()}
		return run
	}

	n := len(l.Entries)
	known := map[uint64]struct{}{} // FSM-visible indexes whose application this FSM instance's memory witnessed
	var modelIdx, expectLatest, expectTerm uint64
	lastDelivered := uint64(0)
	lastDeliveredTerm := uint64(0)
	fail := func(class, what string, extra map[string]any) {
		if run.Dev == nil {
			run.Dev = &c09Dev{Class: class, What: what, Extra: extra}
		}
	}
	ordAfter := func(r uint64) int {
		for i, e := range l.Entries {
			if e.Log.Index > r {
				return i
			}
		}
		return n
	}
	checkState := func(when string) bool {
		d, err := c09Dump(fsm)
		if err != nil {
			fail(c09ClassHarnessSelf, "dump: "+err.Error(), nil)
			return false
		}
		if diff := c09DiffState(d, l.Hist[modelIdx]); diff != "" {
			fail(c09ClassState, fmt.Sprintf("%s: data bucket differs from the replay of the log up to index %d although every verdict so far matched: %s", when, modelIdx, diff), map[string]any{"at_index": modelIdx})
			return false
		}
		li, _ := fsm.LatestState()
		if li.Index != expectLatest {
			fail(c09ClassLatest, fmt.Sprintf("%s: state machine reports latest index %d, delivered up to %d", when, li.Index, expectLatest), nil)
			return false
		}
		if li.Term != expectTerm {
			fail(c09ClassLatest, fmt.Sprintf("%s: state machine reports latest term %d, want %d", when, li.Term, expectTerm), nil)
			return false
		}
		return true
	}

	pos, evi, cuti := 0, 0, 0
	since := 0  // ordinal of the first entry this incarnation of the replica was handed
	armed := "" // "pre" | "post": crash seam inside the next ApplyBatch
	for {
		// events scheduled at this position
		for evi < len(plan.Events) && plan.Events[evi].Ord <= pos {
			ev := plan.Events[evi]
			evi++
			switch ev.Kind {
			case "crashin-post", "crashin-pre":
				// the process dies INSIDE the ApplyBatch call that delivers the next batch
				armed = strings.TrimPrefix(ev.Kind, "crashin-")
			case "restart", "crash":
				if ev.Kind == "restart" {
					if err := fsm.Close(); err != nil {
						fail(c09ClassHarnessSelf, "close: "+err.Error(), nil)
						return run
					}
				} else {
					// crash at a batch boundary: the file as it is on disk, no orderly close
					ndir := dir + "-crash"
					os.RemoveAll(ndir)
					if err := os.MkdirAll(ndir, 0o700); err != nil {
						fail(c09ClassHarnessSelf, err.Error(), nil)
						return run
					}
					defer os.RemoveAll(ndir)
					if err := c09CopyFile(filepath.Join(dir, databaseFilename), filepath.Join(ndir, databaseFilename)); err != nil {
						fail(c09ClassHarnessSelf, "copy: "+err.Error(), nil)
						return run
					}
					fsm.Close()
					dir = ndir
				}
				fsm, err = NewFSM(dir, "verif", env.logger)
				if err != nil {
					fsm = nil
					fail(c09ClassHarnessSelf, "reopen: "+err.Error(), nil)
					return run
				}
				store, err = NewBoltSnapshotStore(dir, env.logger, fsm)
				if err != nil {
					fail(c09ClassHarnessSelf, err.Error(), nil)
					return run
				}
				// raft resumes after the index of the (synthetic) snapshot the store lists
				metas, err := store.List()
				if err != nil {
					fail(c09ClassHarnessSelf, "List: "+err.Error(), nil)
					return run
				}
				r := uint64(0)
				if len(metas) > 0 {
					r = metas[0].Index
				}
				if r != expectLatest {
					fail(c09ClassLatest, fmt.Sprintf("after %s the snapshot store lists index %d but the replica had applied up to %d: replay would start at the wrong entry", ev.Kind, r, expectLatest), nil)
					return run
				}
				known = map[uint64]struct{}{}
				run.Resets = append(run.Resets, c09Reset{Ord: pos, Kind: ev.Kind, P: r})
				pos = ordAfter(r)
				since = pos
				if !checkState("after " + ev.Kind) {
					return run
				}
			case "localsnap":
				// raft's periodic snapshot: fast-forwards the persisted index to the last entry raft applied
				if lastDelivered == 0 || lastDelivered < expectLatest {
					continue
				}
				_, cfg := fsm.LatestState()
				var ci uint64
				var conf raft.Configuration
				if cfg != nil {
					ci, conf = protoConfigurationToRaftConfiguration(cfg)
				}
				sink, err := store.Create(1, lastDelivered, lastDeliveredTerm, conf, ci, nil)
				if err != nil {
					fail(c09ClassHarnessSelf, err.Error(), nil)
					return run
				}
				sn, _ := fsm.Snapshot()
				if err := sn.Persist(sink); err != nil {
					fail(c09ClassSnapshot, "local snapshot persist: "+err.Error(), nil)
					return run
				}
				sink.Close()
				sn.Release()
				expectLatest, expectTerm = lastDelivered, lastDeliveredTerm
				run.Stats["localsnap"]++
				if !checkState("after local snapshot") {
					return run
				}
			case "localsnap-late":
				// raft's periodic snapshot again, with the timing raft really has: the snapshot
				// index is fixed on the goroutine that applies entries (runFSM answers the request
				// with the index of the last entry it applied), but Persist is called later from
				// the snapshot goroutine (takeSnapshot) while entries keep being applied. The
				// snapshot a replica persists may therefore name an index that lies Back entries
				// behind what it has applied by then. The replica has still applied what it has
				// applied: its position must not move backwards.
				if ev.Back <= 0 || pos-1-ev.Back < since || pos-1-ev.Back < 0 {
					continue
				}
				old := l.Entries[pos-1-ev.Back].Log
				_, cfg := fsm.LatestState()
				var ci uint64
				var conf raft.Configuration
				if cfg != nil {
					ci, conf = protoConfigurationToRaftConfiguration(cfg)
				}
				sink, err := store.Create(1, old.Index, old.Term, conf, ci, nil)
				if err != nil {
					fail(c09ClassHarnessSelf, err.Error(), nil)
					return run
				}
				sn, _ := fsm.Snapshot()
				if err := sn.Persist(sink); err != nil {
					fail(c09ClassSnapshot, "local snapshot persist: "+err.Error(), nil)
					return run
				}
				sink.Close()
				sn.Release()
				if old.Index > expectLatest {
					expectLatest, expectTerm = old.Index, old.Term // only non-final chunks followed: a fast-forward after all
				} else {
					run.Stats["localsnap_late_behind_applied_index"]++
				}
				run.Stats["localsnap_late"]++
				if li, _ := fsm.LatestState(); li.Index < expectLatest {
					probe := c09ReplayProbe(env, l, dir, lastDelivered, modelIdx)
					fail(c09ClassStaleSnap, fmt.Sprintf("the replica had applied the log up to index %d when the local snapshot that raft had started at index %d (%d entries earlier) was persisted: the state machine now reports, and has written to its file, latest index %d, although its bucket holds the effects of entries up to %d. %s", expectLatest, old.Index, ev.Back, li.Index, expectLatest, probe), map[string]any{"snapshot_index": old.Index, "applied_index": expectLatest})
					return run
				}
				if !checkState("after late local snapshot") {
					return run
				}
			case "install":
				sp := snaps[ev.Ord]
				if sp == nil {
					run.Stats["install_skipped"]++
					continue
				}
				// The installation path raft takes on a follower: Create a sink on the replica's
				// snapshot store, stream the sender's state into it, Close, Open, FSM.Restore. With
				// ev.Fault the first attempt meets a storage fault at one step (things renamed away
				// or replaced by a directory; the process runs as root, permissions would not bite).
				// raft takes the replica to be at the snapshot's position exactly when every step
				// returned nil; otherwise it stays where it was and the installation is retried.
				attempt := func(fault string) (stage string, err error, undo func()) {
					undo = func() {}
					snapDir := filepath.Join(dir, snapPath)
					sink, err := store.Create(1, sp.meta.Index, sp.meta.Term, sp.meta.Configuration, sp.meta.ConfigurationIndex, nil)
					if err != nil {
						return "create sink", err, undo
					}
					if fault == "write" {
						// the directory snapshots are received into is not a directory any more
						os.Rename(snapDir, snapDir+".away")
						os.WriteFile(snapDir, []byte("x"), 0o600)
						undo = func() { os.Remove(snapDir); os.Rename(snapDir+".away", snapDir) }
					}
					if _, err := io.Copy(sink, bytes.NewReader(sp.data)); err != nil {
						sink.Cancel()
						return "write sink", err, undo
					}
					if fault == "close" {
						// the place the finished snapshot is moved to is taken by a non-empty directory
						target := strings.TrimSuffix(sink.(*BoltSnapshotSink).dir, tmpSuffix)
						os.MkdirAll(filepath.Join(target, "occupied"), 0o700)
						undo = func() { os.RemoveAll(target) }
					}
					if err := sink.Close(); err != nil {
						return "close sink", err, undo
					}
					dbf := filepath.Join(snapDir, sink.ID(), databaseFilename)
					vanish := func() {
						os.Rename(dbf, dbf+".lost")
						undo = func() { os.RemoveAll(dbf); os.Rename(dbf+".lost", dbf) }
					}
					switch fault {
					case "open-missing":
						vanish() // the received database file is gone when the snapshot is opened
					case "open-dir":
						vanish()
						os.MkdirAll(filepath.Join(dbf, "x"), 0o700)
					}
					_, rc, err := store.Open(sink.ID())
					if err != nil {
						return "open snapshot", err, undo
					}
					defer rc.Close()
					switch fault {
					case "restore-source-missing":
						vanish() // the received database file cannot be moved into place: it is gone
					case "restore-target-dir":
						// ... or the place it is moved to is taken by a non-empty directory (the state
						// machine keeps using its open file until Restore closes it)
						t := filepath.Join(dir, databaseFilename)
						os.Rename(t, t+".real")
						os.MkdirAll(filepath.Join(t, "x"), 0o700)
						undo = func() { os.RemoveAll(t); os.Rename(t+".real", t) }
					}
					if err := fsm.Restore(rc); err != nil {
						return "restore", err, undo
					}
					return "", nil, undo
				}
				if ev.Fault != "" {
					run.Stats["install_faults_"+ev.Fault]++
					oldIdx, oldTerm := expectLatest, expectTerm
					died := false
					stage, ferr, undo := func() (stage string, err error, undo func()) {
						defer func() {
							// a panic on the installation path is the replica's process dying there
							if p := recover(); p != nil {
								died = true
								stage, err = "process died", fmt.Errorf("panic: %v", p)
							}
						}()
						return attempt(ev.Fault)
					}()
					if undo == nil {
						// the fault-specific undo is lost with the panic: put everything back by hand
						undo = func() {
							sd := filepath.Join(dir, snapPath)
							if st, err := os.Stat(sd + ".away"); err == nil && st.IsDir() {
								os.Remove(sd)
								os.Rename(sd+".away", sd)
							}
							if m, _ := filepath.Glob(filepath.Join(sd, "*", databaseFilename+".lost")); len(m) > 0 {
								for _, f := range m {
									t := strings.TrimSuffix(f, ".lost")
									os.RemoveAll(t)
									os.Rename(f, t)
								}
							}
							t := filepath.Join(dir, databaseFilename)
							if _, err := os.Stat(t + ".real"); err == nil {
								os.RemoveAll(t)
								os.Rename(t+".real", t)
							}
						}
					}
					extra := map[string]any{"at_index": sp.meta.Index, "fault": ev.Fault}
					if ferr == nil {
						// reported as installed: then it has to BE installed
						run.Stats["install_faults_survived_attempt_reported_success"]++
						d, derr := c09Dump(fsm)
						li, _ := fsm.LatestState()
						if derr != nil {
							fail(c09ClassInstallLie, fmt.Sprintf("installation with a storage fault (%s) returned no error at any step, but the replica's database cannot even be read: %v", ev.Fault, derr), extra)
							return run
						}
						if diff := c09DiffState(d, l.Hist[sp.meta.Index]); diff != "" || li.Index != sp.meta.Index {
							if len(diff) > 1200 {
								diff = diff[:1200] + " ..."
							}
							class := c09ClassInstallDiff
							what := ""
							switch {
							case c09DiffState(d, l.Hist[modelIdx]) == "" && li.Index == oldIdx:
								class = c09ClassInstallLie
								what = fmt.Sprintf("the replica still holds exactly its old bucket (replay of the log up to %d) and reports its old index %d", modelIdx, oldIdx)
							case ev.Fault == "open-missing" && len(d) == 0:
								class = c09ClassInstallGone
								what = fmt.Sprintf("BoltSnapshotStore.Open created an empty database in place of the missing file and reported a snapshot, FSM.Restore installed it: the bucket is empty, the replica reports index %d", li.Index)
							default:
								what = fmt.Sprintf("the replica reports index %d", li.Index)
							}
							undo()
							fail(class, fmt.Sprintf("a snapshot of the source replica at index %d was received while a storage fault hit the installation (%s); every step (sink Write/Close, Open, FSM.Restore) returned nil, so raft takes this replica to be at index %d and only feeds it later entries, but %s; bucket vs the source's at %d: %s", sp.meta.Index, ev.Fault, sp.meta.Index, what, sp.meta.Index, diff), extra)
							return run
						}
						undo()
					} else {
						run.Stats["install_faults_reported_error_at_"+strings.ReplaceAll(stage, " ", "_")]++
						extra["reported_error"] = fmt.Sprintf("%s: %v", stage, ferr)
						undo()
						// the replica must be exactly where it was; if the state machine lost its database
						// handle on the way, the process is restarted first (raft would not get further either)
						if _, derr := c09Dump(fsm); derr != nil || died {
							if died {
								run.Stats["install_faults_process_died_panic"]++
							} else {
								run.Stats["install_faults_left_state_machine_without_database"]++
							}
							fsm.Close()
							nf, err := NewFSM(dir, "verif", env.logger)
							if err != nil {
								fsm = nil
								fail(c09ClassInstallHalf, fmt.Sprintf("installation with a storage fault (%s) failed as reported (%s: %v), the fault was undone, but the replica's database does not open any more: %v", ev.Fault, stage, ferr, err), extra)
								return run
							}
							fsm = nf
							if store, err = NewBoltSnapshotStore(dir, env.logger, fsm); err != nil {
								fail(c09ClassHarnessSelf, err.Error(), nil)
								return run
							}
							known = map[uint64]struct{}{}
							run.Resets = append(run.Resets, c09Reset{Ord: pos, Kind: "restart-after-failed-install", P: oldIdx})
						}
						d, derr := c09Dump(fsm)
						li, _ := fsm.LatestState()
						if derr != nil || li.Index != oldIdx || li.Term != oldTerm || c09DiffState(d, l.Hist[modelIdx]) != "" {
							fail(c09ClassInstallHalf, fmt.Sprintf("installation with a storage fault (%s) failed as reported (%s: %v); the replica must then be exactly where it was (index %d, replay of the log up to %d), but it reports index %d term %d and its bucket differs: %s (%v)", ev.Fault, stage, ferr, oldIdx, modelIdx, li.Index, li.Term, c09DiffState(d, l.Hist[modelIdx]), derr), extra)
							return run
						}
						run.Stats["install_faults_replica_unchanged_after_reported_error"]++
						// raft retries; the fault is gone
						if stage, err, _ := attempt(""); err != nil {
							fail(c09ClassSnapshot, fmt.Sprintf("the installation retried after a reported failure (%s, fault %s) fails: %s: %v", extra["reported_error"], ev.Fault, stage, err), extra)
							return run
						}
						run.Stats["install_faults_retry_succeeded"]++
					}
				} else if stage, err, _ := attempt(""); err != nil {
					fail(c09ClassSnapshot, stage+": "+err.Error(), nil)
					return run
				}
				run.Resets = append(run.Resets, c09Reset{Ord: pos, Kind: "install", P: sp.meta.Index, Follow: modelIdx})
				modelIdx, expectLatest, expectTerm = sp.meta.Index, sp.meta.Index, sp.meta.Term
				lastDelivered, lastDeliveredTerm = sp.meta.Index, sp.meta.Term
				pos = ordAfter(sp.meta.Index)
				since = pos
				run.Stats["install_snapshot_bytes"] += len(sp.data)
				switch {
				case len(sp.data) > 64<<20:
					run.Stats["installs_of_snapshot_above_64MiB"]++
					fallthrough
				case len(sp.data) > 32<<20:
					run.Stats["installs_of_snapshot_above_32MiB"]++
				}
				if len(l.Hist[sp.meta.Index]) > 50000 {
					run.Stats["installs_of_snapshot_above_50000_keys"]++
				}
				// the installed bucket against the source's at the snapshot index, keys and values
				// (the source was compared with the replay of the log when the snapshot was taken)
				if d, derr := c09Dump(fsm); derr == nil {
					run.Stats["installs_compared_with_source_bucket"]++
					if diff := c09DiffState(d, l.Hist[sp.meta.Index]); diff != "" {
						if len(diff) > 1500 {
							diff = diff[:1500] + " ..."
						}
						li, _ := fsm.LatestState()
						fail(c09ClassInstallDiff, fmt.Sprintf("snapshot of %d bytes taken from the source replica at index %d (%d keys) was streamed into this replica's snapshot store and installed (sink Close and FSM.Restore returned no error, the replica reports latest index %d), but its data bucket is not the source's: %s", len(sp.data), sp.meta.Index, len(l.Hist[sp.meta.Index]), li.Index, diff), map[string]any{"at_index": sp.meta.Index, "snapshot_bytes": len(sp.data)})
						return run
					}
				}
				if !checkState("after snapshot install") {
					return run
				}
			}
		}
		if capture != nil && capture[pos] && run.Dev == nil {
			if expectLatest > 0 && len(l.Hist[modelIdx]) > 0 {
				meta, rc, err := store.Open(boltSnapshotID)
				if err == nil {
					data, rerr := io.ReadAll(rc)
					rc.Close()
					if rerr == nil {
						snaps[pos] = &c09Snap{meta: meta, data: data}
					}
				}
			}
		}
		if pos >= n {
			break
		}
		// next batch
		end := n
		if plan.Cuts != nil {
			for cuti < len(plan.Cuts) && plan.Cuts[cuti] <= pos {
				cuti++
			}
			if cuti < len(plan.Cuts) {
				end = plan.Cuts[cuti]
			}
		} else {
			end = pos + 1 + rng.Intn(plan.MaxBatch)
		}
		if end > n {
			end = n
		}
		if evi < len(plan.Events) && plan.Events[evi].Ord > pos && plan.Events[evi].Ord < end {
			end = plan.Events[evi].Ord
		}
		if capture != nil {
			for o := pos + 1; o < end; o++ {
				if capture[o] {
					end = o
					break
				}
			}
		}
		batch := l.Entries[pos:end]
		logs := make([]*raft.Log, len(batch))
		txnNotFirst := false
		nvis := 0
		for i, e := range batch {
			logs[i] = e.Log
			if e.Visible {
				if nvis > 0 && l.Cmds[e.Cmd].Kind == "txn" {
					txnNotFirst = true
				}
				nvis++
			}
		}
		if txnNotFirst {
			run.Stats["batches_txn_not_first"]++
		}
		run.Stats["batches"]++
		run.Batches = append(run.Batches, [2]uint64{batch[0].Log.Index, batch[len(batch)-1].Log.Index})
		var resp []any
		// Crash inside the call: the database file is captured at one of the two
		// points the state machine itself exposes between its durable writes and its
		// return (applyCallback: chunk staging is committed, the batch is not yet;
		// invalidate hook: the batch is committed, the call has not returned). The
		// process is then considered dead: whatever the call does afterwards is lost.
		crashDir, crashErr := "", error(nil)
		if armed != "" {
			ndir := fmt.Sprintf("%s-in%d", dir, len(run.Resets))
			snapFile := func() {
				if crashDir != "" || crashErr != nil {
					return
				}
				os.RemoveAll(ndir)
				if crashErr = os.MkdirAll(ndir, 0o700); crashErr != nil {
					return
				}
				if crashErr = c09CopyFile(filepath.Join(dir, databaseFilename), filepath.Join(ndir, databaseFilename)); crashErr == nil {
					crashDir = ndir
				}
			}
			defer os.RemoveAll(ndir)
			if armed == "pre" {
				fsm.l.Lock()
				fsm.applyCallback = snapFile
				fsm.l.Unlock()
			} else {
				fsm.hookInvalidate(func(...string) { snapFile() })
			}
		}
		func() {
			defer func() {
				if p := recover(); p != nil {
					fail(c09ClassPanic, fmt.Sprintf("ApplyBatch panicked on entries %d..%d: %v", batch[0].Log.Index, batch[len(batch)-1].Log.Index, p), nil)
				}
			}()
			resp = fsm.chunker.ApplyBatch(logs)
		}()
		if run.Dev != nil {
			return run
		}
		if armed != "" {
			seam := armed
			armed = ""
			if crashErr != nil {
				fail(c09ClassHarnessSelf, "crash capture: "+crashErr.Error(), nil)
				return run
			}
			if crashDir == "" {
				// the batch never reached FSM.ApplyBatch (non-final chunks only): crash right after the call
				seam = "after-call"
				crashDir = fmt.Sprintf("%s-in%d", dir, len(run.Resets))
				os.RemoveAll(crashDir)
				if err := os.MkdirAll(crashDir, 0o700); err != nil {
					fail(c09ClassHarnessSelf, err.Error(), nil)
					return run
				}
				if err := c09CopyFile(filepath.Join(dir, databaseFilename), filepath.Join(crashDir, databaseFilename)); err != nil {
					fail(c09ClassHarnessSelf, "copy: "+err.Error(), nil)
					return run
				}
			}
			fsm.Close()
			dir = crashDir
			fsm, err = NewFSM(dir, "verif", env.logger)
			if err != nil {
				fsm = nil
				fail(c09ClassHarnessSelf, "reopen: "+err.Error(), nil)
				return run
			}
			store, err = NewBoltSnapshotStore(dir, env.logger, fsm)
			if err != nil {
				fail(c09ClassHarnessSelf, err.Error(), nil)
				return run
			}
			metas, err := store.List()
			if err != nil {
				fail(c09ClassHarnessSelf, "List: "+err.Error(), nil)
				return run
			}
			rIdx := uint64(0)
			if len(metas) > 0 {
				rIdx = metas[0].Index
			}
			// Wherever inside the call the process died, raft resumes after the index the
			// store lists; that is only right if the bucket is exactly the replay of the
			// log up to that index (either before or after the batch, never in between).
			mi := uint64(0)
			for _, e := range l.Entries {
				if e.Visible && e.Log.Index <= rIdx && e.Log.Index > mi {
					mi = e.Log.Index
				}
			}
			for _, rs := range run.Resets {
				if rs.Kind == "install" && rs.P <= rIdx && rs.P > mi {
					mi = rs.P
				}
			}
			kind := "crash-in-apply-" + seam
			run.Stats["crashes_inside_apply_"+seam]++
			if rIdx < batch[0].Log.Index {
				run.Stats["crashes_inside_apply_batch_replayed"]++
			}
			d, derr := c09Dump(fsm)
			if derr != nil {
				fail(c09ClassHarnessSelf, "dump: "+derr.Error(), nil)
				return run
			}
			if diff := c09DiffState(d, l.Hist[mi]); diff != "" {
				fail(c09ClassCrashAtomic, fmt.Sprintf("replica died inside ApplyBatch(entries %d..%d) at the %s point; after reopening, the snapshot store lists index %d (raft replays from %d) but the data bucket is not the replay of the log up to %d: %s", batch[0].Log.Index, batch[len(batch)-1].Log.Index, seam, rIdx, rIdx+1, mi, diff), map[string]any{"resume_after_index": rIdx, "seam": seam})
				return run
			}
			li, _ := fsm.LatestState()
			known = map[uint64]struct{}{}
			run.Resets = append(run.Resets, c09Reset{Ord: pos, Kind: kind, P: rIdx})
			modelIdx, expectLatest, expectTerm = mi, rIdx, li.Term
			lastDelivered, lastDeliveredTerm = rIdx, li.Term
			pos = ordAfter(rIdx)
			since = pos
			continue
		}
		if len(resp) != len(logs) {
			fail(c09ClassShape, fmt.Sprintf("%d responses for %d logs", len(resp), len(logs)), nil)
			return run
		}
		for i, e := range batch {
			c := l.Cmds[e.Cmd]
			lastDelivered, lastDeliveredTerm = e.Log.Index, e.Log.Term
			rv := resp[i]
			if !e.Visible {
				if rv != nil {
					fail(c09ClassShape, fmt.Sprintf("entry %d is a non-final chunk but got response %T %v", e.Log.Index, rv, rv), nil)
					return run
				}
				continue
			}
			if c.NChunks > 1 {
				cs, ok := rv.(raftchunking.ChunkingSuccess)
				if !ok {
					if rv == nil {
						// the reassembled operation was not applied
						class, why := c09ClassChunkNoApp, ""
						if len(run.Resets) > 0 {
							rs := run.Resets[len(run.Resets)-1]
							if c.First <= rs.P && rs.P < c.Final {
								class = c09ClassChunkLost
								why = fmt.Sprintf(" (replica was %s with resume index %d: chunks at indexes <= %d are not replayed and the chunk staging area is wiped by the first chunk seen afterwards)", rs.Kind, rs.P, rs.P)
							}
						}
						fail(class, fmt.Sprintf("final chunk at index %d of command %d (first chunk at %d) produced no apply: the write never happens on this replica%s", e.Log.Index, c.ID, c.First, why), map[string]any{"command": c})
					} else {
						fail(c09ClassShape, fmt.Sprintf("final chunk at %d: response %T %v", e.Log.Index, rv, rv), nil)
					}
					return run
				}
				rv = cs.Response
			}
			ar, ok := rv.(*FSMApplyResponse)
			if !ok || ar == nil || !ar.Success {
				fail(c09ClassShape, fmt.Sprintf("entry %d: response %T %v", e.Log.Index, rv, rv), nil)
				return run
			}
			conflict := false
			switch {
			case len(ar.EntrySlice) == 0:
			case len(ar.EntrySlice) == 1 && ar.EntrySlice[0].IsTxError():
				conflict = true
				if !errors.Is(ar.EntrySlice[0].AsTxError(), physical.ErrTransactionCommitFailure) {
					fail(c09ClassErrClass, fmt.Sprintf("entry %d: failure sentinel does not carry the commit-failure error class: %v", e.Log.Index, ar.EntrySlice[0].AsTxError()), nil)
					return run
				}
			default:
				fail(c09ClassShape, fmt.Sprintf("entry %d: unexpected entry slice %v", e.Log.Index, ar.EntrySlice), nil)
				return run
			}
			if c.Kind != "txn" && conflict {
				fail(c09ClassShape, fmt.Sprintf("entry %d (%s) answered with a transaction failure", e.Log.Index, c.Kind), nil)
				return run
			}
			if c.Kind == "txn" {
				run.Stats["txn_verdicts"]++
				if conflict == c.Commit {
					// verdict differs from ground truth
					extra := map[string]any{"command": c, "index": e.Log.Index, "replica_verdict": map[bool]string{true: "conflict", false: "commit"}[conflict]}
					if conflict {
						if len(c.Stale) == 0 {
							fail(c09ClassRejects, fmt.Sprintf("transaction at index %d (start %d): replica reports a conflict, but every verification entry holds against the replayed log", e.Log.Index, c.Start), extra)
							return run
						}
						// leader-produced log: the leader committed (fast path) although full verification fails
						never := true
						for _, st := range c.Stale {
							if !st.List || len(st.Mods) > 0 {
								never = false
							}
						}
						class := c09ClassRejects
						why := ""
						if never {
							class = c09ClassLeaderList
							why = "; the failing entries are list verifications under whose prefix nothing was written between the transaction's start and its log position: the leader shipped an entry that does not even hold on unchanged storage, so the verdict depends on whether a replica takes the fast path"
						}
						fail(class, fmt.Sprintf("transaction at index %d (start %d): the leader reported COMMIT to its client and never-restarted replicas commit, this replica reports a conflict (full verification fails: %v)%s", e.Log.Index, c.Start, c.Stale, why), extra)
						return run
					}
					class := c09ClassCommits
					why := ""
					if len(run.Resets) > 0 {
						rs := run.Resets[len(run.Resets)-1]
						unseen := true
						for _, st := range c.Stale {
							for _, m := range st.Mods {
								if _, ok := known[m]; ok {
									unseen = false
								}
							}
						}
						if c.Start < rs.P && rs.P <= e.Log.Index && unseen {
							class = c09ClassF1
							why = fmt.Sprintf("; the replica was %s at log position %d inside the transaction window (%d,%d] and its in-memory write tracker never saw the conflicting writes", rs.Kind, rs.P, c.Start, e.Log.Index)
							extra["reset"] = rs
						}
					}
					fail(class, fmt.Sprintf("transaction at index %d (start %d): replica COMMITS, ground truth rejects (stale: %v)%s", e.Log.Index, c.Start, c.Stale, why), extra)
					return run
				}
			}
			known[e.Log.Index] = struct{}{}
			modelIdx = e.Log.Index
			if e.Log.Index > expectLatest {
				expectLatest, expectTerm = e.Log.Index, e.Log.Term
			}
		}
		pos = end
		if !checkState(fmt.Sprintf("after batch ending at index %d", batch[len(batch)-1].Log.Index)) {
			return run
		}
	}
	d, err := c09Dump(fsm)
	if err != nil {
		fail(c09ClassHarnessSelf, "dump: "+err.Error(), nil)
		return run
	}
	run.Dump = d
	// chunk staging namespace: exactly the chunks of operations still in flight
	gotNS := map[string]struct{}{}
	for k := range d {
		if strings.HasPrefix(k, chunkingPrefix) {
			gotNS[k] = struct{}{}
		}
	}
	var nsdiff []string
	for k := range gotNS {
		if _, ok := l.EndChunkKeys[k]; !ok {
			nsdiff = append(nsdiff, "extra "+k)
		}
	}
	for k := range l.EndChunkKeys {
		if _, ok := gotNS[k]; !ok {
			nsdiff = append(nsdiff, "missing "+k)
		}
	}
	if len(nsdiff) > 0 {
		sort.Strings(nsdiff)
		// Same mechanism as a lost chunked operation, with a benign outcome: only
		// staging records of an operation that never completes are missing, all of
		// them stored before a restart/install position and not replayed after it.
		class, why := c09ClassChunkNS, ""
		if len(run.Resets) > 0 {
			idxOf := map[string]uint64{}
			for _, e := range l.Entries {
				if c := l.Cmds[e.Cmd]; c.NChunks > 1 {
					idxOf[fmt.Sprintf("%s%d/%d", chunkingPrefix, c.OpNum, e.Seq)] = e.Log.Index
				}
			}
			wiped := true
			for _, d := range nsdiff {
				k, isMissing := strings.CutPrefix(d, "missing ")
				covered := false
				for _, rs := range run.Resets {
					if i, ok := idxOf[k]; ok && i <= rs.P {
						covered = true
					}
				}
				if !isMissing || !covered {
					wiped = false
				}
			}
			if wiped {
				class = c09ClassChunkLost
				why = " (only staging records of a never-completed chunked operation are affected: they were stored before the replica's restart/install position, are not replayed, and the first chunk seen after the restart wipes the staging area)"
			}
		}
		fail(class, "at the end of the log the chunk staging keys differ from what a replica that saw every chunk holds: "+strings.Join(nsdiff, ", ")+why, nil)
	}
	return run
}

// c09ReplayProbe shows what the rewound index means: the file as it is on disk
// is reopened (a process that stops now), raft resumes after the index the
// snapshot store lists and hands the entries after it to the state machine
// again. Returns a description for the witness.
func c09ReplayProbe(env *c09Env, l *c09Log, dir string, applied uint64, modelIdx uint64) (out string) {
	defer func() {
		if p := recover(); p != nil {
			out = fmt.Sprintf("(consequence probe panicked: %v)", p)
		}
	}()
	ndir := dir + "-probe"
	os.RemoveAll(ndir)
	if err := os.MkdirAll(ndir, 0o700); err != nil {
		return ""
	}
	defer os.RemoveAll(ndir)
	if err := c09CopyFile(filepath.Join(dir, databaseFilename), filepath.Join(ndir, databaseFilename)); err != nil {
		return ""
	}
	f, err := NewFSM(ndir, "verif", env.logger)
	if err != nil {
		return ""
	}
	defer f.Close()
	st, err := NewBoltSnapshotStore(ndir, env.logger, f)
	if err != nil {
		return ""
	}
	metas, _ := st.List()
	r := uint64(0)
	if len(metas) > 0 {
		r = metas[0].Index
	}
	var flipped []string
	n := 0
	for _, e := range l.Entries {
		if e.Log.Index <= r || e.Log.Index > applied {
			continue
		}
		n++
		resp := f.chunker.ApplyBatch([]*raft.Log{e.Log})
		if !e.Visible || l.Cmds[e.Cmd].Kind != "txn" || len(resp) != 1 {
			continue
		}
		rv := resp[0]
		if cs, ok := rv.(raftchunking.ChunkingSuccess); ok {
			rv = cs.Response
		}
		ar, ok := rv.(*FSMApplyResponse)
		if !ok || ar == nil {
			continue
		}
		conflict := len(ar.EntrySlice) == 1 && ar.EntrySlice[0].IsTxError()
		if c := l.Cmds[e.Cmd]; conflict == c.Commit {
			flipped = append(flipped, fmt.Sprintf("#%d (first time: %s, second time: %s)", e.Log.Index, map[bool]string{true: "commit", false: "conflict"}[c.Commit], map[bool]string{true: "conflict", false: "commit"}[conflict]))
		}
	}
	out = fmt.Sprintf("If the process stops now, the snapshot store lists index %d after the reopen, raft resumes after it and applies entries %d..%d (%d entries) a second time, on top of a bucket that already contains them", r, r+1, applied, n)
	if len(flipped) > 0 {
		out += fmt.Sprintf("; transactions whose verdict changes on the second application: %s", strings.Join(flipped, ", "))
	}
	if d, err := c09Dump(f); err == nil {
		if diff := c09DiffState(d, l.Hist[modelIdx]); diff != "" {
			out += "; afterwards the bucket differs from every replica that applied each entry once: " + diff
		} else {
			out += "; in this log the second application happens to reproduce the same bucket"
		}
	}
	return out + "."
}

// ---------------------------------------------------------------------------
// case execution shared by both tests

func c09Witness(l *c09Log, run *c09Run, ref *c09Run) map[string]any {
	rend := l.render()
	if len(rend) > 1200 {
		// long logs (large stores): the entries around the deviation, else the tail
		centre := uint64(0)
		for _, k := range []string{"index", "at_index", "applied_index"} {
			if v, ok := run.Dev.Extra[k].(uint64); ok {
				centre = v
			}
		}
		var cut []string
		for i, e := range l.Entries {
			if i < 3 || (centre > 0 && e.Log.Index+30 > centre && e.Log.Index < centre+10) || (centre == 0 && i+40 > len(rend)) {
				cut = append(cut, rend[i])
			}
		}
		rend = append([]string{fmt.Sprintf("(%d entries, excerpt)", len(rend))}, cut...)
	}
	batches := run.Batches
	if len(batches) > 400 {
		batches = batches[len(batches)-400:]
	}
	w := map[string]any{
		"log":              rend,
		"replica":          run.Plan,
		"batches_by_index": batches,
		"resets":           run.Resets,
	}
	for k, v := range run.Dev.Extra {
		w[k] = v
	}
	if ref != nil {
		w["reference_replica"] = "one entry per batch, never restarted: followed ground truth to the end = " + fmt.Sprint(ref.Dev == nil)
	}
	return w
}

// c09Windows reports, for evidence, how the plan's resets relate to the
// transactions of the log.
func c09CountWindows(r *kit.Result, l *c09Log, run *c09Run) {
	for _, rs := range run.Resets {
		inside, insideConf := false, false
		midChunk := false
		for _, c := range l.Cmds {
			if c.Kind == "txn" && c.Final > 0 && c.Start < rs.P && rs.P < c.Final {
				inside = true
				if !c.Commit {
					insideConf = true
				}
			}
			if c.NChunks > 1 && c.Final > 0 && c.First <= rs.P && rs.P < c.Final {
				midChunk = true
			}
		}
		r.Count("resets_"+rs.Kind, 1)
		if rs.Kind == "install" {
			// what a stream codec has to carry: default-valued fields next to non-default neighbours
			st := l.Hist[rs.P]
			ks := make([]string, 0, len(st))
			for k := range st {
				ks = append(ks, k)
			}
			sort.Strings(ks)
			empty, nul, pref := false, false, false
			for i, k := range ks {
				if i > 0 && st[k] == "" && st[ks[i-1]] != "" {
					empty = true
				}
				if st[k] == "\x00" {
					nul = true
				}
				if i > 0 && strings.HasPrefix(k, ks[i-1]) {
					pref = true
				}
			}
			if empty {
				r.Count("installs_with_zero_length_value_after_nonempty_neighbour", 1)
			}
			if nul {
				r.Count("installs_with_single_nul_value", 1)
			}
			if pref {
				r.Count("installs_with_key_prefix_of_next_key", 1)
			}
		}
		if inside {
			r.Count("resets_inside_txn_window", 1)
		}
		if insideConf {
			r.Count("resets_inside_conflicting_txn_window", 1)
		}
		if midChunk {
			r.Count("resets_mid_chunked_op", 1)
		}
	}
}

func c09LogStats(r *kit.Result, l *c09Log) (nontrivial bool) {
	var commit, conflict, aba, chunkedTxn, chunked, inter, tight int
	for _, c := range l.Cmds {
		if c.NChunks > 1 {
			chunked++
			if c.Kind == "txn" {
				chunkedTxn++
			}
			if c.Final > 0 && c.Final-c.First >= uint64(c.NChunks) {
				inter++
			}
		}
		if c.LAI != nil && *c.LAI > 0 {
			tight++
		}
		if c.Kind != "txn" || c.Final == 0 {
			continue
		}
		if c.Commit {
			commit++
			// committed although something it verified was written inside its window (full verification needed)
			touched := false
			for i, m := range l.Mods {
				if i <= c.Start || i >= c.Final {
					continue
				}
				for k := range m {
					for _, rd := range c.Reads {
						if rd.Key == k {
							touched = true
						}
					}
					for _, li := range c.Lists {
						if strings.HasPrefix(k, li.Prefix) {
							touched = true
						}
					}
				}
			}
			if touched {
				aba++
			}
		} else {
			conflict++
		}
	}
	r.Count("txn_truth_commit", commit)
	r.Count("txn_truth_conflict", conflict)
	r.Count("txn_commit_despite_write_in_window", aba)
	r.Count("chunked_commands", chunked)
	r.Count("chunked_txns", chunkedTxn)
	r.Count("chunked_ops_interleaved_with_other_entries", inter)
	r.Count("entries_shipping_positive_lowest_active_index", tight)
	r.Count("raft_entries", len(l.Entries))
	r.Count("read_verifications_conflating_absent_and_empty", l.Conflated)
	for _, c := range l.Cmds {
		for _, w := range c.Writes {
			if !w.Del && c.Final > 0 && c.Commit {
				switch w.Val {
				case "":
					r.Count("applied_puts_zero_length_value", 1)
				case "\x00":
					r.Count("applied_puts_single_nul_value", 1)
				}
			}
		}
	}
	if conflict > 0 {
		r.Count("logs_with_conflicting_txn", 1)
	}
	return conflict > 0 && commit > 0
}

// c09Finish compares a finished replica with the reference replica and
// records the verdict of the run.
func c09Finish(r *kit.Result, caseID string, l *c09Log, run, ref *c09Run) {
	r.Count("replica_runs", 1)
	for k, v := range run.Stats {
		r.Count(k, v)
	}
	c09CountWindows(r, l, run)
	if run.Dev == nil && ref != nil && ref != run && ref.Dev == nil {
		// byte-identical bucket contents, chunk staging keys included
		var d []string
		for k, v := range ref.Dump {
			if g, ok := run.Dump[k]; !ok {
				d = append(d, "missing "+k)
			} else if g != v {
				d = append(d, "differs "+k)
			}
		}
		for k := range run.Dump {
			if _, ok := ref.Dump[k]; !ok {
				d = append(d, "extra "+k)
			}
		}
		if len(d) > 0 {
			sort.Strings(d)
			cl := c09ClassState
			allNS := true
			for _, x := range d {
				if !strings.Contains(x, " "+chunkingPrefix) {
					allNS = false
				}
			}
			if allNS {
				cl = c09ClassChunkNS
			}
			run.Dev = &c09Dev{Class: cl, What: "final bucket contents differ from the reference replica: " + strings.Join(d, ", ")}
		}
	}
	if run.Dev == nil {
		r.Count("replica_runs_checked_to_the_end", 1)
		return
	}
	r.Count("replica_runs_stopped_at_first_deviation", 1)
	if run.Dev.Class == c09ClassHarnessSelf {
		r.Inconc("%s %s: %s", caseID, run.Plan.Name, run.Dev.What)
		return
	}
	r.Violate(run.Dev.Class, caseID, fmt.Sprintf("[%s] %s", run.Plan.Name, run.Dev.What), c09Witness(l, run, ref))
}

// ---------------------------------------------------------------------------
// TestVerif_C09_Logs: seeded logs of up to ~60 raft entries, R replicas each

// c09Mix is splitmix64's finaliser.
func c09Mix(x uint64) uint64 {
	x += 0x9e3779b97f4a7c15
	x = (x ^ (x >> 30)) * 0xbf58476d1ce4e5b9
	x = (x ^ (x >> 27)) * 0x94d049bb133111eb
	return x ^ (x >> 31)
}

func c09Plans(rng *kit.Rand, l *c09Log, nrep int) []c09Plan {
	n := len(l.Entries)
	ord := func() int {
		if n <= 1 {
			return n
		}
		return 1 + rng.Intn(n-1)
	}
	// positions inside a transaction window are what F1-like defects need; pick them often
	inWindow := func() int {
		var cands []int
		for _, c := range l.Cmds {
			if c.Kind != "txn" || c.Final == 0 {
				continue
			}
			for i, e := range l.Entries {
				if e.Log.Index > c.Start && e.Log.Index < c.Final && i+1 < n {
					cands = append(cands, i+1)
				}
			}
		}
		if len(cands) == 0 || rng.Chance(1, 3) {
			return ord()
		}
		return kit.Pick(rng, cands)
	}
	all := []c09Plan{
		{Name: "batch-wide", MaxBatch: 64},
		{Name: "batch-narrow", MaxBatch: 4},
		{Name: "restart", MaxBatch: 6, Events: []c09Event{{Ord: inWindow(), Kind: "restart"}}},
		{Name: "crash", MaxBatch: 3, Events: []c09Event{{Ord: inWindow(), Kind: "crash"}}},
		{Name: "install-fresh", MaxBatch: 5, Events: []c09Event{{Ord: inWindow(), Kind: "install"}}},
		{Name: "crash-in-apply-post", MaxBatch: 8, Events: []c09Event{{Ord: inWindow() - 1, Kind: "crashin-post"}}},
		{Name: "crash-in-apply-pre", MaxBatch: 8, Events: []c09Event{{Ord: inWindow() - 1, Kind: "crashin-pre"}}},
		{Name: "late-localsnap", MaxBatch: 6, Events: []c09Event{{Ord: inWindow(), Kind: "localsnap-late", Back: 1 + rng.Intn(4)}}},
		{Name: "install-lagging-fault", MaxBatch: 5, Events: []c09Event{{Ord: 0, Kind: "lag"}, {Ord: inWindow(), Kind: "install", Fault: kit.Pick(rng, c09InstallFaults)}}},
		{Name: "restart-twice", MaxBatch: 8, Events: []c09Event{{Ord: ord(), Kind: "restart"}, {Ord: inWindow(), Kind: "restart"}}},
		{Name: "install-lagging", MaxBatch: 4, Events: []c09Event{{Ord: 0, Kind: "lag"}, {Ord: inWindow(), Kind: "install"}}},
		{Name: "localsnap-restart", MaxBatch: 5, Events: []c09Event{{Ord: ord(), Kind: "localsnap"}, {Ord: inWindow(), Kind: "restart"}}},
		{Name: "batch-medium", MaxBatch: 12},
	}
	if nrep-1 < len(all) {
		all = all[:nrep-1]
	}
	for i := range all {
		all[i].Stream = uint64(i + 1)
		sort.SliceStable(all[i].Events, func(a, b int) bool { return all[i].Events[a].Ord < all[i].Events[b].Ord })
	}
	return all
}

// a lagging follower stops receiving entries at some point and is later caught
// up by a snapshot: expressed as "deliver up to q, then jump".
func c09ApplyLag(rng *kit.Rand, p *c09Plan, n int) (lagFrom int) {
	lagFrom = -1
	var ev []c09Event
	inst := -1
	for _, e := range p.Events {
		if e.Kind == "install" {
			inst = e.Ord
		}
	}
	for _, e := range p.Events {
		if e.Kind == "lag" {
			if inst > 1 {
				lagFrom = 1 + rng.Intn(inst-1)
			}
			continue
		}
		ev = append(ev, e)
	}
	p.Events = ev
	return lagFrom
}

func c09RunCase(r *kit.Result, env *c09Env, caseID string, l *c09Log, plans []c09Plan, seed int64, caseNo uint64, lagRng *kit.Rand) (ref *c09Run) {
	// which snapshots must the reference replica produce
	capture := map[int]bool{}
	lag := map[int]int{}
	for i := range plans {
		if lf := c09ApplyLag(lagRng, &plans[i], len(l.Entries)); lf >= 0 {
			lag[i] = lf
		}
		for _, e := range plans[i].Events {
			if e.Kind == "install" {
				capture[e.Ord] = true
			}
		}
	}
	snaps := map[int]*c09Snap{}
	ref = c09Drive(env, l, c09Plan{Name: "reference", MaxBatch: 1}, kit.NewRand(seed, caseNo<<8), snaps, capture)
	c09Finish(r, caseID, l, ref, ref)
	for i, p := range plans {
		rng := kit.NewRand(seed, caseNo<<8|p.Stream)
		var run *c09Run
		if lf, ok := lag[i]; ok {
			run = c09DriveLagging(env, l, p, rng, snaps, lf)
		} else {
			run = c09Drive(env, l, p, rng, snaps, nil)
		}
		c09Finish(r, caseID, l, run, ref)
	}
	return ref
}

// c09DriveLagging: the follower receives entries[:lagFrom] normally, nothing
// until the install position, the snapshot there, and the rest normally. It
// is c09Drive over a plan whose install event is reached by skipping.
func c09DriveLagging(env *c09Env, l *c09Log, p c09Plan, rng *kit.Rand, snaps map[int]*c09Snap, lagFrom int) *c09Run {
	inst := -1
	for _, e := range p.Events {
		if e.Kind == "install" {
			inst = e.Ord
		}
	}
	if inst < 0 || snaps[inst] == nil {
		return c09Drive(env, l, p, rng, snaps, nil)
	}
	// move the snapshot to the lag position: the driver installs it when it has
	// delivered lagFrom entries and resumes after the snapshot's index.
	q := p
	q.Events = nil
	for _, e := range p.Events {
		if e.Kind == "install" {
			e.Ord = lagFrom
		}
		q.Events = append(q.Events, e)
	}
	sort.SliceStable(q.Events, func(a, b int) bool { return q.Events[a].Ord < q.Events[b].Ord })
	s2 := map[int]*c09Snap{}
	for k, v := range snaps {
		s2[k] = v
	}
	s2[lagFrom] = snaps[inst]
	return c09Drive(env, l, q, rng, s2, nil)
}

// ---------------------------------------------------------------------------
// large stores: snapshot installs whose stream crosses the batch boundaries of
// the snapshot writer (it commits its bolt transaction every 50000 keys; a
// writer that also bounds the bytes per transaction has further boundaries)

type c09BigOpts struct {
	BigBytes int // total size of the large values (0: none)
	Small    int // number of small keys
}

// c09BuildBigLog hand-builds a log the way a leader would produce it: a
// configuration entry, plain puts of large values (300 KiB .. 1 MiB; commands
// above the raft chunk size travel as chunks, as a leader ships them) mixed
// with plain puts of small values, then a short tail with deletes, overwrites
// and two transactions that read and list the large keys. The model state is
// kept at the returned cut positions only (and at every position of the tail),
// so replicas of this log are driven with batches that end at cut positions.
func c09BuildBigLog(rng *kit.Rand, o c09BigOpts) (l *c09Log, cuts []int, snapOrd int) {
	l = &c09Log{Hist: map[uint64]c09State{0: {}}, Mods: map[uint64]map[string]struct{}{}, EndChunkKeys: map[string]struct{}{}, Chunked: true}
	cur := c09State{}
	visible := []uint64{0}
	idx, term := uint64(0), uint64(1)
	opnum := uint64(5000)
	zero := uint64(0)
	keep := func() {
		l.Hist[idx] = cur.clone()
		cuts = append(cuts, len(l.Entries))
	}
	add := func(c *c09Cmd, keepHist bool) {
		c.ID, c.Term, c.NChunks, c.LAI = len(l.Cmds), term, 1, &zero
		l.Cmds = append(l.Cmds, c)
		var data []byte
		typ := raft.LogCommand
		if c.Kind == "config" {
			typ = raft.LogConfiguration
			c.LAI = nil
			data = raft.EncodeConfiguration(raft.Configuration{Servers: []raft.Server{{ID: "n0", Address: "verif:1"}, {ID: "n1", Address: "verif:2"}}})
		} else {
			data = c09Encode(c)
		}
		if n := (len(data) + raftchunking.ChunkSize - 1) / raftchunking.ChunkSize; n > 1 {
			c.NChunks = n
			opnum += 1 + uint64(rng.Intn(9))
			c.OpNum = opnum
		}
		for i := 0; i < c.NChunks; i++ {
			idx++
			lg := &raft.Log{Index: idx, Term: term, Type: typ, Data: data}
			if c.NChunks > 1 {
				lo, hi := i*raftchunking.ChunkSize, (i+1)*raftchunking.ChunkSize
				if hi > len(data) {
					hi = len(data)
				}
				lg.Data = data[lo:hi]
				ext, err := proto.Marshal(&raftchunkingtypes.ChunkInfo{OpNum: c.OpNum, SequenceNum: uint32(i), NumChunks: uint32(c.NChunks)})
				if err != nil {
					panic(err)
				}
				lg.Extensions = ext
			}
			if i == 0 {
				c.First = idx
			}
			l.Entries = append(l.Entries, &c09Entry{Ord: len(l.Entries), Log: lg, Cmd: c.ID, Seq: i, Visible: i == c.NChunks-1})
		}
		c.Final = idx
		c.Commit = true
		if c.Kind == "txn" {
			c.Stale = l.c09Verify(cur, c, visible, idx)
			c.Commit = len(c.Stale) == 0
		}
		mods := map[string]struct{}{}
		if c.Commit {
			for _, w := range c.Writes {
				if w.Del {
					delete(cur, w.Key)
				} else {
					cur[w.Key] = w.Val
				}
				mods[w.Key] = struct{}{}
			}
		}
		l.Mods[idx] = mods
		visible = append(visible, idx)
		if keepHist {
			keep()
		}
	}
	add(&c09Cmd{Kind: "config"}, true)
	// the bulk, in seeded order
	var bulk []c09Write
	var bigKeys []string
	for total, i := 0, 0; total < o.BigBytes; i++ {
		n := 300<<10 + rng.Intn(724<<10)
		k := fmt.Sprintf("big/%04d", i)
		bulk = append(bulk, c09Write{Key: k, Val: string(c09BigVal(rng, n))})
		bigKeys = append(bigKeys, k)
		total += n
	}
	for i := 0; i < o.Small; i++ {
		bulk = append(bulk, c09Write{Key: fmt.Sprintf("kv/%02d/%05d", i%37, i), Val: kit.Pick(rng, []string{"v0", "v1", "", "\x00", "a-slightly-longer-value"})})
	}
	rng.Shuffle(len(bulk), func(i, j int) { bulk[i], bulk[j] = bulk[j], bulk[i] })
	every, bytesSince := 1+len(bulk)/24, 0
	for i, w := range bulk {
		bytesSince += len(w.Val)
		k := i < 3 || i == len(bulk)-1 || i%every == 0 || bytesSince > 6<<20
		if k {
			bytesSince = 0
		}
		add(&c09Cmd{Kind: "put", Writes: []c09Write{w}}, k)
	}
	snapOrd = len(l.Entries)
	snapIdx := idx
	atSnap := l.Hist[snapIdx]
	// the tail: what happens after the snapshot position touches and reads the bulk
	prefix := "kv/00/"
	if o.BigBytes > 0 {
		prefix = "big/"
	}
	under := c09RefList(cur, prefix, "", 0)
	rng.Shuffle(len(under), func(i, j int) { under[i], under[j] = under[j], under[i] })
	k1, k2, k3, k4 := prefix+under[0], prefix+under[1], prefix+under[2], prefix+under[3]
	add(&c09Cmd{Kind: "put", Writes: []c09Write{{Key: "tail/a", Val: "1"}}}, true)
	// T1 starts here: it lists the bulk prefix and reads one of its keys. Another key under the
	// prefix is overwritten inside its window (the listing keeps its names), so no replica may
	// skip the verification, and the verification has to find every name and the value intact.
	t1 := &c09Cmd{Kind: "txn", Start: idx,
		Reads:  []c09Read{{Key: k1, Present: true, Val: cur[k1]}},
		Lists:  []c09List{{Prefix: prefix, After: "", Limit: len(under), Items: c09RefList(cur, prefix, "", 0)}},
		Writes: []c09Write{{Key: "tail/t1", Val: "committed"}}}
	add(&c09Cmd{Kind: "put", Writes: []c09Write{{Key: k4, Val: "overwritten-inside-the-window-of-t1"}}}, true)
	add(t1, true)
	add(&c09Cmd{Kind: "del", Writes: []c09Write{{Del: true, Key: k2}}}, true)
	add(&c09Cmd{Kind: "put", Writes: []c09Write{{Key: k3, Val: "small-now"}}}, true)
	// T2's view is the snapshot's: it read k3 before the write above
	add(&c09Cmd{Kind: "txn", Start: snapIdx,
		Reads:  []c09Read{{Key: k3, Present: true, Val: atSnap[k3]}},
		Writes: []c09Write{{Key: "tail/t2", Val: "must-not-exist"}}}, true)
	items := c09RefList(cur, prefix, "", 0)
	add(&c09Cmd{Kind: "txn", Start: idx - 1,
		Lists:  []c09List{{Prefix: prefix, After: "", Limit: len(items), Items: items}},
		Writes: []c09Write{{Key: "tail/t3", Val: "committed"}, {Del: true, Key: "tail/a"}}}, true)
	return l, cuts, snapOrd
}

// c09BigCases: one replica builds the store, a snapshot of it is taken at the end
// of the bulk through the snapshot store (BoltSnapshotStore.Open of the live
// state machine, the stream a leader sends), and followers are initialised from
// it through sink / installer / FSM.Restore: one that lags from the second
// entry on and (thorough) one that had applied everything itself. They then
// apply the tail. Every installed bucket must equal the source's, keys and
// values; verdicts and final buckets are compared as for every other log.
func c09BigCases(r *kit.Result, env *c09Env, seed int64) {
	type bc struct {
		id string
		o  c09BigOpts
	}
	cases := []bc{{"LB0", c09BigOpts{BigBytes: 34 << 20, Small: 300}}}
	if kit.Tier() == "thorough" {
		cases = append(cases,
			bc{"LB1", c09BigOpts{BigBytes: 67 << 20, Small: 500}},
			bc{"LB2", c09BigOpts{BigBytes: 99 << 20, Small: 200}},
			bc{"LB3", c09BigOpts{BigBytes: 0, Small: 61000}},
			bc{"LB4", c09BigOpts{BigBytes: 36 << 20, Small: 52000}},
			bc{"LB5", c09BigOpts{BigBytes: 40 << 20, Small: 50}},
		)
	}
	shard, shards := kit.Shard()
	for i, c := range cases {
		if i%shards != shard || !kit.WantCase(c.id) {
			continue
		}
		rng := kit.NewRand(seed, 9_700_000+uint64(i))
		c.o.BigBytes += rng.Intn(3<<20) * c09Btoi(c.o.BigBytes > 0)
		l, cuts, snapOrd := c09BuildBigLog(rng, c.o)
		r.Eval(1)
		if c09LogStats(r, l) {
			r.Nontrivial(l.digest())
		}
		r.Count("large_store_logs", 1)
		snaps := map[int]*c09Snap{}
		ref := c09Drive(env, l, c09Plan{Name: "reference", Cuts: cuts, MaxBatch: 1}, kit.NewRand(seed, uint64(i)<<8|0xb0), snaps, map[int]bool{snapOrd: true})
		c09Finish(r, c.id, l, ref, ref)
		if sp := snaps[snapOrd]; sp != nil {
			r.Count("large_store_snapshot_bytes", len(sp.data))
		} else if ref.Dev == nil {
			r.Inconc("%s: the reference replica produced no snapshot", c.id)
		}
		plans := []c09Plan{{Name: "install-lagging-large-store", Cuts: cuts, MaxBatch: 1, Stream: 1, Events: []c09Event{{Ord: snapOrd, Kind: "install"}}}}
		plans = append(plans, c09Plan{Name: "install-lagging-large-store-fault", Cuts: cuts, MaxBatch: 1, Stream: 3, Events: []c09Event{{Ord: snapOrd, Kind: "install", Fault: []string{"restore-source-missing", "close", "restore-target-dir", "write", "open-dir", "restore-source-missing"}[i%6]}}})
		if kit.Tier() == "thorough" {
			plans = append(plans, c09Plan{Name: "install-fresh-large-store", Cuts: cuts, MaxBatch: 1, Stream: 2, Events: []c09Event{{Ord: snapOrd, Kind: "install"}}})
		}
		for k, p := range plans {
			prng := kit.NewRand(seed, uint64(i)<<8|0xb1+uint64(k))
			var run *c09Run
			if strings.Contains(p.Name, "lagging") {
				run = c09DriveLagging(env, l, p, prng, snaps, 2)
			} else {
				run = c09Drive(env, l, p, prng, snaps, nil)
			}
			c09Finish(r, c.id, l, run, ref)
		}
		snaps = nil
		if c.id == "LB0" {
			rend := l.render()
			r.Sample(map[string]any{"case": c.id, "large_values_bytes": c.o.BigBytes, "small_keys": c.o.Small, "raft_entries": len(l.Entries), "snapshot_taken_after_entry": snapOrd, "log_tail": c09Tail(rend, 8)})
		}
	}
}

func c09Btoi(b bool) int {
	if b {
		return 1
	}
	return 0
}

func TestVerif_C09_Logs(t *testing.T) {
	seed := kit.Seed(9)
	r := kit.NewResult(t, "c09-logs", seed, "a case is one generated leader-consistent raft log (plain puts/deletes, transactions with honest read/list verification entries for a start index anywhere in the past, shipped LowestActiveIndex, chunked and unchunked encodings interleaved, term changes, configuration entries, index gaps) applied to a reference replica (one entry per batch) and R-1 further replicas differing in batching, restart, crash, local snapshot (also one that raft persists a few entries late) and snapshot-install position (also with a storage fault at one step of the first installation attempt: an attempt that reports an error must leave the replica where it was and the retry must succeed, an attempt that reports success must have installed the source's bucket), plus hand-built logs whose store is larger than 32 MiB (thorough: also > 64 MiB, > 96 MiB and > 50000 keys) where followers are initialised from a snapshot streamed through the snapshot store / sink / installer and must hold the source's bucket byte for byte; non-trivial = the log contains both a transaction ground truth commits and one it rejects; distinct by log digest")
	defer r.Write(t)
	env := c09NewEnv(t, "0")
	ncases := kit.N(1000, 50000)
	nrep := kit.N(10, 14)
	shard, shards := kit.Shard()
	sampled := 0
	for i := 0; i < ncases; i++ {
		if i%shards != shard {
			continue
		}
		caseID := fmt.Sprintf("L%d", i)
		if !kit.WantCase(caseID) {
			continue
		}
		rng := kit.NewRand(seed, 9_000_000+uint64(i))
		// option selectors are a function of the case number only (replay) and are
		// not correlated with i%shards (chunked logs cost about four times more)
		h := c09Mix(uint64(i))
		o := c09GenOpts{MinCmds: 6, MaxCmds: 34, MaxEntries: 60, Chunking: h%3 != 0, TermBumps: (h>>8)%4 != 1}
		if (h>>16)%5 == 0 {
			o.MaxCmds = 12
		}
		l := c09Generate(rng, o)
		r.Eval(1)
		if c09LogStats(r, l) {
			r.Nontrivial(l.digest())
		}
		plans := c09Plans(rng, l, nrep)
		c09RunCase(r, env, caseID, l, plans, seed, uint64(i), rng)
		if sampled < 2 && len(l.Entries) <= 14 {
			sampled++
			r.Sample(map[string]any{"case": caseID, "log": l.render(), "replicas": plans})
		}
	}
	c09BigCases(r, env, seed)
	r.Require("install_faults_replica_unchanged_after_reported_error", int64(kit.N(600, 24000)/shards))
	r.Require("install_faults_retry_succeeded", int64(kit.N(600, 24000)/shards))
	r.Require("large_store_logs", 1)
	r.Require("installs_compared_with_source_bucket", 100)
	if shards == 1 {
		r.Require("installs_of_snapshot_above_32MiB", int64(kit.N(1, 6)))
		if kit.Tier() == "thorough" {
			r.Require("installs_of_snapshot_above_64MiB", 3)
			r.Require("installs_of_snapshot_above_50000_keys", 3)
		}
	}
	// minimum observations (about half of what the unchanged tree yields); thorough runs 50x the cases
	req := func(name string, quick int) { r.Require(name, int64(kit.N(quick, quick*40)/shards)) }
	req("logs_with_conflicting_txn", 500)
	req("txn_truth_commit", 3000)
	req("txn_truth_conflict", 1100)
	req("txn_commit_despite_write_in_window", 250)
	req("resets_inside_conflicting_txn_window", 800)
	req("resets_install", 500)
	req("resets_mid_chunked_op", 130)
	req("batches_txn_not_first", 6000)
	req("chunked_txns", 700)
	req("installs_with_zero_length_value_after_nonempty_neighbour", 200)
	req("installs_with_single_nul_value", 150)
	req("installs_with_key_prefix_of_next_key", 200)
	req("crashes_inside_apply_post", 400)
	req("crashes_inside_apply_pre", 400)
	req("replica_runs_checked_to_the_end", 3000)
}

// ---------------------------------------------------------------------------
// TestVerif_C09_Small: short logs, every batching, every restart position,
// every snapshot-install position

func TestVerif_C09_Small(t *testing.T) {
	seed := kit.Seed(9)
	r := kit.NewResult(t, "c09-small", seed, "a case is one generated log of at most 8 raft entries applied under ALL partitions into batches (never-restarted replicas), a restart and a crash at EVERY position (entry-per-batch and maximal batches) and a snapshot install at EVERY position; non-trivial = contains a transaction that ground truth rejects and one it commits; distinct by log digest")
	defer r.Write(t)
	env := c09NewEnv(t, "0")
	ncases := kit.N(120, 4000)
	shard, shards := kit.Shard()
	sampled := 0
	for i := 0; i < ncases; i++ {
		if i%shards != shard {
			continue
		}
		caseID := fmt.Sprintf("S%d", i)
		if !kit.WantCase(caseID) {
			continue
		}
		rng := kit.NewRand(seed, 9_500_000+uint64(i))
		var l *c09Log
		for {
			h := c09Mix(uint64(i) + 1<<32)
			o := c09GenOpts{MinCmds: 4, MaxCmds: 8, MaxEntries: 15, Chunking: h%3 == 1, TermBumps: (h>>8)%4 == 3, TxnPct: 60}
			if (h>>16)%2 == 0 {
				o.Keys = []string{"a/k1", "a/k10", "a/d/x", "b/k1"} // few keys: most transactions overlap with other writers
			}
			l = c09Generate(rng, o)
			if len(l.Entries) <= kit.N(8, 9) && len(l.Entries) >= 3 {
				break
			}
		}
		n := len(l.Entries)
		r.Eval(1)
		if c09LogStats(r, l) {
			r.Nontrivial(l.digest())
		}
		var plans []c09Plan
		for mask := 0; mask < 1<<(n-1); mask++ {
			var cuts []int
			for b := 0; b < n-1; b++ {
				if mask&(1<<b) != 0 {
					cuts = append(cuts, b+1)
				}
			}
			cuts = append(cuts, n)
			plans = append(plans, c09Plan{Name: fmt.Sprintf("partition-%b", mask), Cuts: cuts})
		}
		r.Count("partitions", 1<<(n-1))
		for p := 1; p < n; p++ {
			allcuts := make([]int, n)
			for k := range allcuts {
				allcuts[k] = k + 1
			}
			plans = append(plans,
				c09Plan{Name: fmt.Sprintf("restart@%d-single", p), Cuts: allcuts, Events: []c09Event{{Ord: p, Kind: "restart"}}},
				c09Plan{Name: fmt.Sprintf("restart@%d-maxbatch", p), Cuts: []int{p, n}, Events: []c09Event{{Ord: p, Kind: "restart"}}},
				c09Plan{Name: fmt.Sprintf("crash@%d-maxbatch", p), Cuts: []int{p, n}, Events: []c09Event{{Ord: p, Kind: "crash"}}},
				c09Plan{Name: fmt.Sprintf("install@%d-fresh", p), Cuts: []int{p, n}, Events: []c09Event{{Ord: p, Kind: "install"}}},
				c09Plan{Name: fmt.Sprintf("install@%d-lagging", p), Cuts: allcuts, Events: []c09Event{{Ord: 0, Kind: "lag"}, {Ord: p, Kind: "install"}}},
			)
			ft := c09InstallFaults[(p+i)%len(c09InstallFaults)]
			// (a follower that lags: only then does "nothing was installed" show)
			plans = append(plans, c09Plan{Name: fmt.Sprintf("install@%d-lagging-fault-%s", p, ft), Cuts: allcuts, Events: []c09Event{{Ord: 0, Kind: "lag"}, {Ord: p, Kind: "install", Fault: ft}}})
			if p >= 2 {
				plans = append(plans, c09Plan{Name: fmt.Sprintf("late-localsnap@%d", p), Cuts: allcuts, Events: []c09Event{{Ord: p, Kind: "localsnap-late", Back: 1 + p%2}}})
			}
		}
		// the process dies inside the ApplyBatch call that starts at entry p
		for p := 0; p < n; p++ {
			allcuts := make([]int, n)
			for k := range allcuts {
				allcuts[k] = k + 1
			}
			plans = append(plans,
				c09Plan{Name: fmt.Sprintf("crash-in-apply-post@%d-maxbatch", p), Cuts: []int{p, n}, Events: []c09Event{{Ord: p, Kind: "crashin-post"}}},
				c09Plan{Name: fmt.Sprintf("crash-in-apply-post@%d-single", p), Cuts: allcuts, Events: []c09Event{{Ord: p, Kind: "crashin-post"}}},
				c09Plan{Name: fmt.Sprintf("crash-in-apply-pre@%d-maxbatch", p), Cuts: []int{p, n}, Events: []c09Event{{Ord: p, Kind: "crashin-pre"}}},
			)
		}
		for k := range plans {
			plans[k].Stream = uint64(k%250 + 1)
			if plans[k].MaxBatch == 0 {
				plans[k].MaxBatch = 1
			}
		}
		c09RunCase(r, env, caseID, l, plans, seed, 1_000_000+uint64(i), rng)
		if sampled < 2 {
			sampled++
			r.Sample(map[string]any{"case": caseID, "log": l.render(), "replicas": fmt.Sprintf("%d partitions + restart/crash/install at each of %d positions", 1<<(n-1), n-1)})
		}
	}
	req := func(name string, quick int) { r.Require(name, int64(kit.N(quick, quick*25)/shards)) }
	req("logs_with_conflicting_txn", 35)
	req("partitions", 3500)
	req("crashes_inside_apply_post", 600)
	req("crashes_inside_apply_pre", 300)
	req("installs_with_zero_length_value_after_nonempty_neighbour", 100)
	req("installs_with_single_nul_value", 100)
	req("resets_inside_conflicting_txn_window", 450)
	req("batches_txn_not_first", 4500)
	req("replica_runs_checked_to_the_end", 4500)
}

// ---------------------------------------------------------------------------
// TestVerif_C09_LeaderLog: the log is produced by a real single-node raft
// leader running real transactions; the verdict the leader reported to its
// client is what every replica that replays the leader's raft log must reach.

func c09Leader(t *testing.T, dir string) *RaftBackend {
	conf := map[string]string{"path": dir, "trailing_logs": "100000", "node_id": "verif-leader"}
	raw, err := NewRaftBackend(conf, log.NewNullLogger())
	if err != nil {
		t.Fatal(err)
	}
	b := raw.(*RaftBackend)
	if err := b.Bootstrap([]Peer{{ID: b.NodeID(), Address: b.NodeID()}}); err != nil {
		t.Fatal(err)
	}
	if err := b.SetupCluster(context.Background(), SetupOpts{}); err != nil {
		t.Fatal(err)
	}
	deadline := time.Now().Add(60 * time.Second)
	for b.raft.AppliedIndex() < 2 {
		if time.Now().After(deadline) {
			t.Fatal("leader did not come up")
		}
		time.Sleep(5 * time.Millisecond)
	}
	b.DisableAutopilot()
	t.Cleanup(func() {
		b.TeardownCluster(nil)
		b.fsm.Close()
	})
	return b
}

type c09OpenTxn struct {
	tx     physical.Transaction
	wrote  bool
	steps  []string
	writes []c09Write
	snap   c09State // read-only transactions: the state they were started on
	index  uint64
}

// c09LeaderWorkload drives the leader from one goroutine: plain writes and up
// to three open read-write transactions whose operations interleave, so that
// transactions commit with start indexes well in the past. Returns the
// verdict per log index of every transaction that produced a log entry.
func c09LeaderWorkload(r *kit.Result, b *RaftBackend, rng, roRng *kit.Rand, steps int) (verdicts map[uint64]bool, scripts map[uint64][]string, ok bool) {
	ctx := context.Background()
	verdicts = map[uint64]bool{}
	scripts = map[uint64][]string{}
	var open []*c09OpenTxn
	// what the acknowledged calls add up to (transactions by the verdict the leader gave): the
	// state a read-only transaction must keep reading, however long it stays open
	model := c09State{}
	var ros []*c09OpenTxn
	beginRO := func() bool {
		tx, err := b.BeginReadOnlyTx(ctx)
		if err != nil {
			r.Inconc("leader begin read-only: %v", err)
			return false
		}
		o := &c09OpenTxn{tx: tx, snap: model.clone(), index: tx.(*RaftTransaction).index, steps: []string{fmt.Sprintf("begin read-only at applied index %d", b.AppliedIndex())}}
		ros = append(ros, o)
		r.Count("leader_ro_txn_begun", 1)
		for _, w := range open {
			if w.index == o.index {
				r.Count("leader_ro_txn_begun_at_start_index_of_open_write_txn", 1)
				break
			}
		}
		return true
	}
	readRO := func(o *c09OpenTxn) bool {
		if roRng.Chance(1, 2) {
			k := kit.Pick(roRng, c09Keys)
			e, err := o.tx.Get(ctx, k)
			if err != nil {
				r.Inconc("leader read-only get: %v", err)
				return false
			}
			want, present := o.snap[k]
			o.steps = append(o.steps, fmt.Sprintf("get %s -> %v", k, e != nil))
			r.Count("leader_ro_txn_reads_compared_with_state_at_begin", 1)
			if (e != nil) != present || (e != nil && string(e.Value) != want) {
				r.Violate(c09ClassROSnap, "", fmt.Sprintf("a read-only transaction on the leader did not read the state it was started on: get %s returned %v, the state at its begin has present=%v %q", k, e, present, want), map[string]any{"script": o.steps})
			}
			return true
		}
		p := kit.Pick(roRng, c09Prefixes)
		got, err := o.tx.List(ctx, p)
		if err != nil {
			r.Inconc("leader read-only list: %v", err)
			return false
		}
		want := c09RefList(o.snap, p, "", 0)
		o.steps = append(o.steps, fmt.Sprintf("list %q -> %v", p, got))
		r.Count("leader_ro_txn_reads_compared_with_state_at_begin", 1)
		if strings.Join(got, "\n") != strings.Join(want, "\n") {
			r.Violate(c09ClassROSnap, "", fmt.Sprintf("a read-only transaction on the leader did not read the state it was started on: list %q returned %v, the state at its begin lists %v", p, got, want), map[string]any{"script": o.steps})
		}
		return true
	}
	finishRO := func(i int) bool {
		o := ros[i]
		ros = append(ros[:i], ros[i+1:]...)
		if !readRO(o) {
			return false
		}
		before := b.AppliedIndex()
		var err error
		how := "commit"
		if roRng.Chance(1, 2) {
			how = "rollback"
			err = o.tx.Rollback(ctx)
		} else {
			err = o.tx.Commit(ctx)
		}
		if err != nil || b.AppliedIndex() != before {
			r.Inconc("leader: read-only %s returned %v, applied index %d -> %d", how, err, before, b.AppliedIndex())
			return false
		}
		r.Count("leader_ro_txn_"+how, 1)
		if len(open) > 0 {
			r.Count("leader_ro_txn_finished_while_write_txn_open", 1)
		}
		return true
	}
	finish := func(i int, commit bool) bool {
		o := open[i]
		open = append(open[:i], open[i+1:]...)
		if !commit {
			if err := o.tx.Rollback(ctx); err != nil {
				r.Inconc("leader: rollback failed: %v", err)
				return false
			}
			r.Count("leader_rollbacks", 1)
			return true
		}
		before := b.AppliedIndex()
		err := o.tx.Commit(ctx)
		after := b.AppliedIndex()
		switch {
		case err == nil:
		case errors.Is(err, physical.ErrTransactionCommitFailure):
		default:
			r.Violate(c09ClassLeaderErr, "", fmt.Sprintf("leader Commit returned an error that is neither nil nor the commit-failure class: %v", err), map[string]any{"script": o.steps})
			return false
		}
		if after == before {
			if o.wrote {
				r.Inconc("leader: a writing transaction produced no log entry")
				return false
			}
			return true
		}
		verdicts[after] = err == nil
		scripts[after] = o.steps
		if err == nil {
			for _, w := range o.writes {
				if w.Del {
					delete(model, w.Key)
				} else {
					model[w.Key] = w.Val
				}
			}
			r.Count("leader_txn_commit", 1)
		} else {
			r.Count("leader_txn_conflict", 1)
		}
		return true
	}
	val := func() []byte { return []byte(kit.Pick(rng, c09Vals)) }
	// Fixed prologue: a transaction that pages through a prefix containing a folder
	// with two children while a write OUTSIDE that prefix lands inside its window.
	// The leader applies it on the fast path; a replica that lost its tracker inside
	// the window can only decide it by verifying the shipped entries in full.
	for _, lim := range []int{1, -1} {
		for _, k := range []string{"a/d/x", "a/d/y", "a/k1"} {
			if err := b.Put(ctx, &physical.Entry{Key: k, Value: []byte("v0")}); err != nil {
				r.Inconc("leader put: %v", err)
				return nil, nil, false
			}
			model[k] = "v0"
		}
		tx, err := b.BeginTx(ctx)
		if err != nil {
			r.Inconc("leader begin: %v", err)
			return nil, nil, false
		}
		o := &c09OpenTxn{tx: tx, wrote: true, index: tx.(*RaftTransaction).index, writes: []c09Write{{Key: "b/k1", Val: "v1"}}, steps: []string{fmt.Sprintf("begin at applied index %d", b.AppliedIndex())}}
		got, err := tx.ListPage(ctx, "a/", "", lim)
		if err == nil {
			err = tx.Put(ctx, &physical.Entry{Key: "b/k1", Value: []byte("v1")})
		}
		if err == nil {
			err = b.Put(ctx, &physical.Entry{Key: "c", Value: []byte(fmt.Sprintf("v%d", lim+1))})
			model["c"] = fmt.Sprintf("v%d", lim+1)
		}
		if err != nil {
			r.Inconc("leader prologue: %v", err)
			return nil, nil, false
		}
		o.steps = append(o.steps, fmt.Sprintf("listpage \"a/\" after \"\" limit %d -> %v", lim, got), "put b/k1", "(plain put c by another client)")
		open = append(open, o)
		if !finish(0, true) {
			return nil, nil, false
		}
		r.Count("leader_txn_lists", 1)
	}
	for s := 0; s < steps; s++ {
		// read-only transactions come and go between the steps of the writers; they draw from a
		// PRNG stream of their own, so the writers' walk is the one it would be without them
		switch y := roRng.Intn(100); {
		case y < 5 && len(ros) < 2:
			if !beginRO() {
				return nil, nil, false
			}
		case y < 14 && len(ros) > 0:
			if !readRO(kit.Pick(roRng, ros)) {
				return nil, nil, false
			}
		case y < 19 && len(ros) > 0:
			if !finishRO(roRng.Intn(len(ros))) {
				return nil, nil, false
			}
		}
		x := rng.Intn(100)
		switch {
		case x < 15:
			k := kit.Pick(rng, c09Keys)
			v := val()
			if err := b.Put(ctx, &physical.Entry{Key: k, Value: v}); err != nil {
				r.Inconc("leader put: %v", err)
				return nil, nil, false
			}
			model[k] = string(v)
		case x < 20:
			k := kit.Pick(rng, c09Keys)
			if err := b.Delete(ctx, k); err != nil {
				r.Inconc("leader delete: %v", err)
				return nil, nil, false
			}
			delete(model, k)
		case x < 35:
			if len(open) < 3 {
				tx, err := b.BeginTx(ctx)
				if err != nil {
					r.Inconc("leader begin: %v", err)
					return nil, nil, false
				}
				open = append(open, &c09OpenTxn{tx: tx, index: tx.(*RaftTransaction).index, steps: []string{fmt.Sprintf("begin at applied index %d", b.AppliedIndex())}})
				// often a reader starts at the very same position
				if len(ros) < 2 && roRng.Chance(1, 3) && !beginRO() {
					return nil, nil, false
				}
			}
		case x < 75:
			if len(open) == 0 {
				continue
			}
			o := kit.Pick(rng, open)
			k := kit.Pick(rng, c09Keys)
			var err error
			switch y := rng.Intn(100); {
			case y < 30:
				var e *physical.Entry
				e, err = o.tx.Get(ctx, k)
				o.steps = append(o.steps, fmt.Sprintf("get %s -> %v", k, e != nil))
			case y < 60:
				p := kit.Pick(rng, c09Prefixes)
				if rng.Chance(1, 8) {
					p = ""
				}
				after := ""
				if rng.Chance(25, 100) {
					after = kit.Pick(rng, c09Afters)
				}
				limit := -1
				if rng.Chance(45, 100) {
					limit = 1 + rng.Intn(3)
				}
				var got []string
				got, err = o.tx.ListPage(ctx, p, after, limit)
				o.steps = append(o.steps, fmt.Sprintf("listpage %q after %q limit %d -> %v", p, after, limit, got))
				r.Count("leader_txn_lists", 1)
			case y < 85:
				v := val()
				err = o.tx.Put(ctx, &physical.Entry{Key: k, Value: v})
				o.wrote = true
				o.writes = append(o.writes, c09Write{Key: k, Val: string(v)})
				o.steps = append(o.steps, "put "+k)
			default:
				err = o.tx.Delete(ctx, k)
				o.wrote = true
				o.writes = append(o.writes, c09Write{Del: true, Key: k})
				o.steps = append(o.steps, "delete "+k)
			}
			if err != nil {
				r.Inconc("leader txn op: %v", err)
				return nil, nil, false
			}
		case x < 95:
			if len(open) > 0 && !finish(rng.Intn(len(open)), true) {
				return nil, nil, false
			}
		default:
			if len(open) > 0 && !finish(rng.Intn(len(open)), false) {
				return nil, nil, false
			}
		}
	}
	for len(open) > 0 {
		if !finish(0, true) {
			return nil, nil, false
		}
	}
	for len(ros) > 0 {
		if !finishRO(0) {
			return nil, nil, false
		}
	}
	return verdicts, scripts, true
}

// c09FromLeader turns the leader's raft log into the harness's log form.
// verdicts holds the reference verdict per transaction (keyed by the index of
// the entry that completes it: the entry itself, or the final chunk); Stale is
// what full verification of the shipped entries says. Chunked operations are
// reassembled from their chunks (each chunk stays a raft entry of its own in
// the replayed log, exactly as the leader's log store holds it).
func c09FromLeader(b *RaftBackend, verdicts map[uint64]bool) (*c09Log, error) {
	l := &c09Log{Hist: map[uint64]c09State{0: {}}, Mods: map[uint64]map[string]struct{}{}, EndChunkKeys: map[string]struct{}{}}
	first, err := b.logStore.FirstIndex()
	if err != nil {
		return nil, err
	}
	last, err := b.logStore.LastIndex()
	if err != nil {
		return nil, err
	}
	if first != 1 {
		return nil, fmt.Errorf("leader log was truncated (first index %d)", first)
	}
	cur := c09State{}
	vis := []uint64{0}
	type inflight struct {
		cmd    *c09Cmd
		pieces [][]byte
		got    int
	}
	open := map[uint64]*inflight{}
	// complete fills in a command from its (reassembled) bytes and applies it to the replay
	complete := func(c *c09Cmd, i uint64, data []byte) error {
		c.Final = i
		c.Bytes = len(data)
		var ld LogData
		if err := proto.Unmarshal(data, &ld); err != nil {
			return fmt.Errorf("entry %d: %w", i, err)
		}
		c.LAI = ld.LowestActiveIndex
		isTx := len(ld.Operations) > 0 && ld.Operations[0].OpType == beginTxOp
		if isTx {
			c.Kind = "txn"
		} else {
			c.Kind = "put"
		}
		for _, op := range ld.Operations {
			switch op.OpType {
			case beginTxOp:
				bp, err := parseBeginTxOpValue(op.Value)
				if err != nil {
					return err
				}
				c.Start = bp.Index
			case commitTxOp:
			case putOp:
				c.Writes = append(c.Writes, c09Write{Key: op.Key, Val: string(op.Value)})
			case deleteOp:
				c.Writes = append(c.Writes, c09Write{Del: true, Key: op.Key})
				if !isTx {
					c.Kind = "del"
				}
			case verifyReadOp:
				c.Reads = append(c.Reads, c09Read{Key: op.Key, Hash: op.Value})
			case verifyListOp:
				lp, err := parseListVerifyParams(op.Key)
				if err != nil {
					return err
				}
				c.Lists = append(c.Lists, c09List{Prefix: lp.Prefix, After: lp.After, Limit: lp.Limit, Hash: op.Value, Repr: op.Key})
			default:
				return fmt.Errorf("entry %d: unexpected op type %d", i, op.OpType)
			}
		}
		if isTx {
			v, ok := verdicts[i]
			if !ok {
				return fmt.Errorf("transaction entry at %d has no recorded client verdict", i)
			}
			c.Commit = v
			c.Stale = l.c09Verify(cur, c, vis, i)
		} else if len(c.Writes) != 1 {
			return fmt.Errorf("entry %d: plain command with %d operations", i, len(c.Writes))
		}
		return nil
	}
	for i := first; i <= last; i++ {
		lg := new(raft.Log)
		if err := b.logStore.GetLog(i, lg); err != nil {
			return nil, fmt.Errorf("GetLog(%d): %w", i, err)
		}
		if lg.Type != raft.LogCommand && lg.Type != raft.LogConfiguration {
			continue // raft does not hand these to the state machine
		}
		var c *c09Cmd
		seq := 0
		if lg.Type == raft.LogCommand && lg.Extensions != nil {
			var ci raftchunkingtypes.ChunkInfo
			if err := proto.Unmarshal(lg.Extensions, &ci); err != nil {
				return nil, fmt.Errorf("entry %d: chunk info: %w", i, err)
			}
			l.Chunked = true
			fl := open[ci.OpNum]
			if fl == nil {
				fl = &inflight{cmd: &c09Cmd{ID: len(l.Cmds), Kind: "put", NChunks: int(ci.NumChunks), OpNum: ci.OpNum, First: i, Term: lg.Term, Commit: true}, pieces: make([][]byte, ci.NumChunks)}
				open[ci.OpNum] = fl
				l.Cmds = append(l.Cmds, fl.cmd)
			}
			if int(ci.SequenceNum) >= len(fl.pieces) || fl.pieces[ci.SequenceNum] != nil || fl.cmd.Term != lg.Term || fl.cmd.NChunks < 2 {
				return nil, fmt.Errorf("entry %d: chunk %d/%d of operation %d does not fit the chunks seen before", i, ci.SequenceNum, ci.NumChunks, ci.OpNum)
			}
			fl.pieces[ci.SequenceNum] = lg.Data
			fl.got++
			c, seq = fl.cmd, int(ci.SequenceNum)
			if fl.got < len(fl.pieces) {
				l.Entries = append(l.Entries, &c09Entry{Ord: len(l.Entries), Log: lg, Cmd: c.ID, Seq: seq})
				continue
			}
			delete(open, ci.OpNum)
			if err := complete(c, i, bytes.Join(fl.pieces, nil)); err != nil {
				return nil, err
			}
		} else {
			c = &c09Cmd{ID: len(l.Cmds), NChunks: 1, First: i, Term: lg.Term, Commit: true}
			l.Cmds = append(l.Cmds, c)
			if lg.Type == raft.LogConfiguration {
				c.Kind = "config"
				c.Final = i
			} else if err := complete(c, i, lg.Data); err != nil {
				return nil, err
			}
		}
		mods := map[string]struct{}{}
		if c.Commit {
			for _, w := range c.Writes {
				if w.Del {
					delete(cur, w.Key)
				} else {
					cur[w.Key] = w.Val
				}
				mods[w.Key] = struct{}{}
			}
		}
		l.Mods[i] = mods
		l.Hist[i] = cur.clone()
		vis = append(vis, i)
		l.Entries = append(l.Entries, &c09Entry{Ord: len(l.Entries), Log: lg, Cmd: c.ID, Seq: seq, Visible: true})
	}
	if len(open) > 0 {
		return nil, fmt.Errorf("the leader's log ends inside %d chunked operation(s)", len(open))
	}
	return l, nil
}

func TestVerif_C09_LeaderLog(t *testing.T) {
	seed := kit.Seed(9)
	r := kit.NewResult(t, "c09-leaderlog", seed, "a real single-node raft leader runs a seeded workload of plain writes and up to three interleaved read-write transactions (Get/ListPage/Put/Delete through the transaction API); a case is one replica that replays the leader's own raft log under some batching and restart/crash/install position; its per-transaction verdicts must equal what the leader reported to its client and its bucket must equal the leader's; non-trivial = a replica with a restart, crash or snapshot-install event (positions are drawn from inside transaction windows, preferably of transactions the leader rejected); distinct by (leader session, plan)")
	defer r.Write(t)
	env := c09NewEnv(t, "67108864")
	shard, shards := kit.Shard()
	sessions := kit.N(2, 12)
	for sess := 0; sess < sessions; sess++ {
		if sess%shards != shard {
			continue
		}
		if oc := kit.OnlyCase(); oc != "" && !strings.HasPrefix(oc, fmt.Sprintf("K%d/", sess)) {
			continue
		}
		rng := kit.NewRand(seed, 9_800_000+uint64(sess))
		dir := filepath.Join(env.base, fmt.Sprintf("leader%d", sess))
		if err := os.MkdirAll(dir, 0o700); err != nil {
			t.Fatal(err)
		}
		b := c09Leader(t, dir)
		verdicts, scripts, ok := c09LeaderWorkload(r, b, rng, kit.NewRand(seed, 9_850_000+uint64(sess)), kit.N(2000, 4000))
		if !ok {
			continue
		}
		l, err := c09FromLeader(b, verdicts)
		if err != nil {
			r.Inconc("session %d: %v", sess, err)
			continue
		}
		r.Count("leader_log_entries", len(l.Entries))
		// the leader itself is a replica: its bucket must be the replay of its own verdicts
		ld, err := c09Dump(b.fsm)
		if err != nil {
			r.Inconc("leader dump: %v", err)
			continue
		}
		lastIdx := l.Entries[len(l.Entries)-1].Log.Index
		if diff := c09DiffState(ld, l.Hist[lastIdx]); diff != "" {
			r.Violate(c09ClassState, fmt.Sprintf("K%d/leader", sess), "the leader's own bucket differs from the replay of its log with the verdicts it reported: "+diff, map[string]any{"log": l.render()})
			continue
		}
		// observation (not a verdict of this property): entries the leader committed on the fast path although they fail full verification
		for _, c := range l.Cmds {
			if c.Kind == "txn" && c.Commit && len(c.Stale) > 0 {
				r.Count("leader_commits_failing_full_verification", 1)
				never := true
				for _, st := range c.Stale {
					if !st.List || len(st.Mods) > 0 {
						never = false
					}
				}
				if never {
					r.Count("leader_list_verification_entries_that_never_hold", 1)
					if r.Get("leader_list_verification_entries_that_never_hold") == 1 {
						r.Note("leader shipped a list verification entry that does not hold on unchanged storage (fast path commits it, full verification rejects it): index %d start %d script %v stale %v", c.Final, c.Start, scripts[c.Final], c.Stale)
					}
				} else {
					r.Note("leader committed a transaction at index %d (start %d) that fails full verification with writes inside its window: %v script %v", c.Final, c.Start, c.Stale, scripts[c.Final])
					r.Count("leader_commits_failing_full_verification_with_writes_in_window", 1)
				}
			}
			if c.Kind == "txn" && !c.Commit && len(c.Stale) == 0 {
				r.Violate(c09ClassRejects, fmt.Sprintf("K%d/leader", sess), fmt.Sprintf("the leader rejected the transaction at index %d (start %d) although every verification entry holds against the replay", c.Final, c.Start), map[string]any{"command": c, "script": scripts[c.Final], "log": l.render()})
			}
		}
		c09LogStats(r, l)
		// replicas
		n := len(l.Entries)
		var plans []c09Plan
		plans = append(plans, c09Plan{Name: "batch-wide", MaxBatch: 64}, c09Plan{Name: "batch-narrow", MaxBatch: 3})
		// reset positions: inside windows of transactions, preferably rejected ones
		var cands, candsConf []int
		for _, c := range l.Cmds {
			if c.Kind != "txn" {
				continue
			}
			for i, e := range l.Entries {
				if e.Log.Index > c.Start && e.Log.Index < c.Final && i+1 < n {
					cands = append(cands, i+1)
					if !c.Commit || len(c.Stale) > 0 {
						candsConf = append(candsConf, i+1)
					}
				}
			}
		}
		nres := kit.N(48, 144)
		for k := 0; k < nres; k++ {
			pos := 1 + rng.Intn(n-1)
			if len(candsConf) > 0 && k%3 != 2 {
				pos = kit.Pick(rng, candsConf)
			} else if len(cands) > 0 {
				pos = kit.Pick(rng, cands)
			}
			kind := []string{"restart", "crash", "install", "install", "crashin-post", "crashin-pre"}[k%6]
			p := c09Plan{Name: fmt.Sprintf("%s@%d", kind, pos), MaxBatch: 1 + rng.Intn(16), Events: []c09Event{{Ord: pos, Kind: kind}}}
			if strings.HasPrefix(kind, "crashin") {
				p.Events[0].Ord = pos - 1 // the batch that dies starts just before a position inside a window
			}
			if kind == "install" && (k/6)%2 == 1 {
				p.Name += "-lagging"
				p.Events = []c09Event{{Ord: 0, Kind: "lag"}, {Ord: pos, Kind: "install"}}
			}
			plans = append(plans, p)
		}
		for k := 0; k < 3; k++ {
			pos := 3 + rng.Intn(n-3)
			if len(cands) > 0 {
				pos = kit.Pick(rng, cands)
			}
			plans = append(plans, c09Plan{Name: fmt.Sprintf("late-localsnap@%d", pos), MaxBatch: 1 + rng.Intn(8), Events: []c09Event{{Ord: pos, Kind: "localsnap-late", Back: 1 + rng.Intn(3)}}})
		}
		for k, ft := range c09InstallFaults {
			pos := 1 + rng.Intn(n-1)
			if len(cands) > 0 {
				pos = kit.Pick(rng, cands)
			}
			p := c09Plan{Name: fmt.Sprintf("install@%d-fault-%s", pos, ft), MaxBatch: 1 + rng.Intn(16), Events: []c09Event{{Ord: pos, Kind: "install", Fault: ft}}}
			if k%3 != 2 {
				p.Name += "-lagging"
				p.Events = append([]c09Event{{Ord: 0, Kind: "lag"}}, p.Events...)
			}
			plans = append(plans, p)
		}
		for k := range plans {
			plans[k].Stream = uint64(k%250 + 1)
		}
		r.Eval(len(plans) + 1)
		for _, p := range plans {
			for _, e := range p.Events {
				if e.Kind == "install" || e.Kind == "restart" || e.Kind == "crash" || strings.HasPrefix(e.Kind, "crashin") {
					r.Nontrivial(fmt.Sprintf("K%d/%s", sess, p.Name))
				}
			}
		}
		c09RunCase(r, env, fmt.Sprintf("K%d/", sess), l, plans, seed, 2_000_000+uint64(sess), rng)
		if sess == 0 || kit.OnlyCase() != "" {
			rend := l.render()
			if len(rend) > 40 {
				rend = rend[:40]
			}
			r.Sample(map[string]any{"session": sess, "leader_log_head": rend, "replicas": len(plans) + 1})
		}
	}
	req := func(name string, quick int) { r.Require(name, int64(kit.N(quick, quick*6)/shards)) }
	req("leader_txn_commit", 60)
	req("leader_txn_conflict", 30)
	req("leader_txn_lists", 150)
	req("leader_ro_txn_begun", 60)
	req("leader_ro_txn_begun_at_start_index_of_open_write_txn", 30)
	req("leader_ro_txn_finished_while_write_txn_open", 30)
	req("leader_ro_txn_reads_compared_with_state_at_begin", 150)
	req("crashes_inside_apply_post", 8)
	req("installs_with_zero_length_value_after_nonempty_neighbour", 8)
	req("installs_with_single_nul_value", 6)
	req("resets_inside_conflicting_txn_window", 30)
	req("replica_runs", 60)
}

// ---------------------------------------------------------------------------
// TestVerif_C09_LeaderSizes: the real leader again, this time over a fixed
// matrix instead of a random walk:
//
//   size class of the log entry   small | just below one raft chunk | one chunk + a short tail |
//                                 several chunks | at the per-entry limit (max_entry_size)
//   x what happened to the read   nothing | guard key rewritten with the SAME value | guard key changed by a
//     set before the commit       plain put (small / itself chunked) | listed prefix gained or lost a child |
//                                 guard key changed by another committed transaction (small / itself chunked)
//   x kind of client call         transaction (Get + List + Put(s) + Delete) | plain Put / Delete
//                                 (plain puts are sized to hit the chunk and entry limits exactly)
//
// For every client call the monitor records what the leader's API returned
// (nil / ErrTransactionCommitFailure / another error) and, independently, what
// a serial reference says (a transaction commits iff everything it read and
// listed still reads and lists the same at its commit point; written against a
// plain map that plain writes present in the leader's log and transactions the
// reference commits update). After every transaction
// the leader's own bucket is compared with that map. Then the leader's actual
// raft log (chunks as separate entries) is replayed into replicas under several
// batchings and restart/crash/install positions chosen around the chunked
// operations and inside the transaction windows, with the serial reference as
// the verdict every replica must reach. The three-way requirement: verdict the
// client saw == verdict of every replica == serial reference, and bucket of the
// leader == bucket of the replicas.

const (
	c09ClassLeaderVerdict    = "C09-leader-reported-verdict-differs-from-replicas"
	c09ClassLeaderVerdictRef = "C09-leader-reported-verdict-differs-from-serial-reference"
	c09ClassLeaderAck        = "C09-leader-ack-differs-from-log"
	c09ClassROSnap           = "C09-leader-readonly-txn-not-a-snapshot"
)

// storage faults an installation attempt can meet (see the install event of c09Drive)
var c09InstallFaults = []string{"write", "close", "open-dir", "open-missing", "restore-source-missing", "restore-target-dir"}

var (
	c09SzSizes  = []string{"small", "below-chunk", "above-chunk", "multi-chunk", "near-max"}
	c09SzInvals = []string{"none", "plain-write", "list", "other-txn"}
)

type c09SzCall struct {
	Cell    string   `json:"cell"`
	Op      string   `json:"op"` // put | delete | txn
	Size    string   `json:"size_class,omitempty"`
	Inval   string   `json:"read_set,omitempty"`
	Client  string   `json:"client_verdict"`           // commit | conflict | error
	Err     string   `json:"client_error,omitempty"`   // text of the error the client got
	Truth   string   `json:"serial_reference_verdict"` // commit | conflict | (plain) commit
	Before  uint64   `json:"applied_index_before"`
	After   uint64   `json:"applied_index_after"`
	Script  []string `json:"script,omitempty"`
	Leader  string   `json:"leader_bucket_after_call,omitempty"`
	Exact   int      `json:"-"` // plain puts: the encoded size the value was cut for (0: not targeted)
	MayFail bool     `json:"-"` // plain put above max_entry_size
}

func c09SzVerdict(err error) (string, string) {
	switch {
	case err == nil:
		return "commit", ""
	case errors.Is(err, physical.ErrTransactionCommitFailure):
		return "conflict", err.Error()
	default:
		return "error", err.Error()
	}
}

// c09BigVal returns n bytes without a period (swapped or repeated chunks change it).
func c09BigVal(rng *kit.Rand, n int) []byte {
	out := make([]byte, n+8)
	for i := 0; i < n; i += 8 {
		x := rng.Uint64()
		for k := 0; k < 8; k++ {
			out[i+k] = byte(x >> (8 * k))
		}
	}
	return out[:n]
}

type c09SzSession struct {
	r      *kit.Result
	b      *RaftBackend
	rng    *kit.Rand
	caseID string
	model  c09State
	calls  []*c09SzCall
	truth  map[uint64]bool
	bad    bool // the leader's own state already deviated: later comparisons are consequences
}

func (s *c09SzSession) put(cell, key string, val []byte, script string) (*c09SzCall, bool) {
	c := &c09SzCall{Cell: cell, Op: "put", Truth: "commit", Script: []string{script}, Before: s.b.AppliedIndex()}
	err := s.b.Put(context.Background(), &physical.Entry{Key: key, Value: val})
	c.After = s.b.AppliedIndex()
	c.Client, c.Err = c09SzVerdict(err)
	s.calls = append(s.calls, c)
	if c.After > c.Before {
		// the write is in the leader's log: every replica applies it, whatever the client was told
		// (an answer that does not fit the log is reported as c09ClassLeaderAck)
		s.model[key] = string(val)
	}
	return c, err == nil
}

func (s *c09SzSession) del(cell, key string) bool {
	c := &c09SzCall{Cell: cell, Op: "delete", Truth: "commit", Script: []string{"plain delete " + key}, Before: s.b.AppliedIndex()}
	err := s.b.Delete(context.Background(), key)
	c.After = s.b.AppliedIndex()
	c.Client, c.Err = c09SzVerdict(err)
	s.calls = append(s.calls, c)
	if c.After > c.Before {
		delete(s.model, key)
	}
	return err == nil
}

// checkLeader: the leader is a replica too; between client calls its bucket
// must be exactly what the acknowledged calls add up to, with no chunk left staged.
func (s *c09SzSession) checkLeader(c *c09SzCall, when string) {
	if s.bad {
		if c != nil {
			c.Leader = "(not compared: the leader's bucket had deviated from the serial reference before)"
		}
		return
	}
	d, err := c09Dump(s.b.fsm)
	if err != nil {
		s.r.Inconc("%s: leader dump: %v", s.caseID, err)
		s.bad = true
		return
	}
	s.r.Count("leader_bucket_comparisons", 1)
	diff := c09DiffState(d, s.model)
	for k := range d {
		if strings.HasPrefix(k, chunkingPrefix) {
			diff += "; chunk staging key left behind: " + k
		}
	}
	if c != nil {
		c.Leader = "equals the serial reference"
	}
	if diff != "" {
		if c != nil {
			c.Leader = diff
		}
		s.bad = true
		s.r.Violate(c09ClassState, s.caseID+"leader", fmt.Sprintf("%s: the leader's own bucket differs from the serial reference (plain map updated by the plain writes in the leader's log and by the transactions the reference commits): %s", when, diff), map[string]any{"call": c})
	}
}

// plainSized: the value length for which the plain-put command encodes to
// exactly `target` bytes. With no transaction open the shipped LowestActiveIndex
// is the applied index, so the size is known before the call.
func (s *c09SzSession) plainSized(key string, target int) int {
	li := s.b.AppliedIndex()
	size := func(n int) int {
		return proto.Size(&LogData{Operations: []*LogOperation{{OpType: putOp, Key: key, Value: make([]byte, n)}}, LowestActiveIndex: &li})
	}
	n := target - 64
	for k := 0; k < 4 && size(n) != target; k++ {
		n += target - size(n)
	}
	if size(n) != target {
		return -1
	}
	return n
}

func (s *c09SzSession) plainCell(no int, size string) bool {
	cell := fmt.Sprintf("plain/%s", size)
	ns := fmt.Sprintf("m%02d/", no)
	key := ns + "v"
	cs, me := raftchunking.ChunkSize, int(s.b.maxEntrySize)
	target := 0
	switch size {
	case "small":
	case "below-chunk":
		target = cs // the largest command that is NOT chunked
	case "above-chunk":
		target = cs + 1 // one full chunk and a one-byte tail
	case "near-max":
		target = me // the largest command a plain put may produce
	case "over-max":
		target = me + 1
	}
	var val []byte
	if target == 0 {
		val = []byte(kit.Pick(s.rng, []string{"v0", "", "\x00", "some-small-value"}))
	} else {
		n := s.plainSized(key, target)
		if n < 0 {
			s.r.Inconc("%s: could not size a plain put to %d bytes", s.caseID, target)
			return false
		}
		val = c09BigVal(s.rng, n)
	}
	c, ok := s.put(cell, key, val, fmt.Sprintf("plain put %s=%s (command of %d bytes)", key, c09ShortVal(string(val)), target))
	c.Size, c.Exact, c.MayFail = size, target, size == "over-max"
	s.checkLeader(c, "after "+c.Script[0])
	if !ok {
		return c.MayFail || c.After > c.Before // an unexpected refusal without a log entry is reported by the caller's analysis
	}
	if s.rng.Chance(1, 2) {
		// overwrite the large value with a small one first: the delete then meets a small value
		if _, ok := s.put(cell, key, []byte("w"), "plain put "+key+"=\"w\""); !ok {
			return false
		}
	}
	if !s.del(cell, key) || !s.del(cell, key) { // the second delete meets an absent key
		return false
	}
	s.checkLeader(nil, "after deleting "+key)
	return true
}

func (s *c09SzSession) txnCell(no int, size, inval string) bool {
	ctx := context.Background()
	r, b, rng := s.r, s.b, s.rng
	cell := fmt.Sprintf("txn/%s/%s", size, inval)
	ns := fmt.Sprintf("m%02d/", no)
	cs, me := raftchunking.ChunkSize, int(b.maxEntrySize)
	for _, kv := range [][2]string{{"g", "g0"}, {"d", "d0"}, {"l/a", "x"}, {"l/b", ""}} {
		if _, ok := s.put(cell, ns+kv[0], []byte(kv[1]), fmt.Sprintf("plain put %s=%q", ns+kv[0], kv[1])); !ok {
			return false
		}
	}
	call := &c09SzCall{Cell: cell, Op: "txn", Size: size, Inval: inval}
	fail := func(format string, a ...any) bool {
		r.Inconc("%s %s: "+format, append([]any{s.caseID, cell}, a...)...)
		return false
	}
	tx, err := b.BeginTx(ctx)
	if err != nil {
		return fail("begin: %v", err)
	}
	call.Script = append(call.Script, fmt.Sprintf("begin at applied index %d", b.AppliedIndex()))
	// what the transaction reads and lists (recorded as the client sees it)
	type obs struct {
		key   string
		ok    bool
		val   string
		list  bool
		items []string
	}
	var seen []obs
	e, err := tx.Get(ctx, ns+"g")
	if err != nil {
		return fail("get: %v", err)
	}
	o := obs{key: ns + "g", ok: e != nil}
	if e != nil {
		o.val = string(e.Value)
	}
	seen = append(seen, o)
	call.Script = append(call.Script, fmt.Sprintf("get %s -> %q", o.key, o.val))
	items, err := tx.List(ctx, ns+"l/")
	if err != nil {
		return fail("list: %v", err)
	}
	seen = append(seen, obs{key: ns + "l/", list: true, items: items})
	call.Script = append(call.Script, fmt.Sprintf("list %q -> %v", ns+"l/", items))
	if o.val != s.model[o.key] || strings.Join(items, "\n") != strings.Join(c09RefList(s.model, ns+"l/", "", 0), "\n") {
		return fail("the transaction does not read the state it was started on: %v", call.Script)
	}
	// writes: the payload decides the size class of the log entry
	var lens []int
	switch size {
	case "small":
		lens = []int{5 + rng.Intn(36)}
	case "below-chunk":
		lens = []int{cs - 1024 + rng.Intn(257)}
	case "above-chunk":
		lens = []int{cs - rng.Intn(129)}
	case "multi-chunk":
		lens = []int{cs*3/4 + rng.Intn(4096), cs*3/4 - rng.Intn(4096), cs*3/4 + rng.Intn(4096)}
	case "near-max":
		lens = []int{me - len(ns+"p0") - maxEntrySizeMultipleTxnOverhead - 1} // the largest value a transaction accepts
	}
	writes := map[string]string{}
	for i, n := range lens {
		k := fmt.Sprintf("%sp%d", ns, i)
		v := c09BigVal(rng, n)
		if err := tx.Put(ctx, &physical.Entry{Key: k, Value: v}); err != nil {
			return fail("txn put of %d bytes: %v", n, err)
		}
		writes[k] = string(v)
		call.Script = append(call.Script, fmt.Sprintf("put %s=%s", k, c09ShortVal(string(v))))
	}
	if err := tx.Delete(ctx, ns+"d"); err != nil {
		return fail("txn delete: %v", err)
	}
	call.Script = append(call.Script, "delete "+ns+"d")
	// what other clients do before the commit
	switch inval {
	case "none":
		if _, ok := s.put(cell, ns+"u", []byte("u1"), "plain put "+ns+"u=\"u1\" (outside the read set)"); !ok {
			return false
		}
		call.Script = append(call.Script, "(another client: plain put "+ns+"u, a key the transaction neither read nor listed)")
	case "same-value":
		if _, ok := s.put(cell, ns+"g", []byte("g0"), "plain put "+ns+"g=\"g0\" (same value)"); !ok {
			return false
		}
		call.Script = append(call.Script, "(another client: plain put "+ns+"g with the value it already has)")
	case "plain-write":
		if _, ok := s.put(cell, ns+"g", []byte("g1"), "plain put "+ns+"g=\"g1\""); !ok {
			return false
		}
		call.Script = append(call.Script, "(another client: plain put "+ns+"g=\"g1\")")
	case "plain-write-chunked":
		v := c09BigVal(rng, cs+1+rng.Intn(2048))
		c, ok := s.put(cell, ns+"g", v, "plain put "+ns+"g="+c09ShortVal(string(v)))
		if !ok {
			return false
		}
		c.Size = "above-chunk"
		call.Script = append(call.Script, "(another client: plain put "+ns+"g="+c09ShortVal(string(v))+", itself a chunked entry)")
	case "list":
		if rng.Chance(1, 2) {
			if _, ok := s.put(cell, ns+"l/c", []byte("z"), "plain put "+ns+"l/c"); !ok {
				return false
			}
			call.Script = append(call.Script, "(another client: plain put "+ns+"l/c, a new child of the listed prefix)")
		} else {
			if !s.del(cell, ns+"l/a") {
				return false
			}
			call.Script = append(call.Script, "(another client: plain delete "+ns+"l/a, a child of the listed prefix)")
		}
	case "other-txn", "other-txn-chunked":
		tb, err := b.BeginTx(ctx)
		if err != nil {
			return fail("begin B: %v", err)
		}
		cb := &c09SzCall{Cell: cell + "/invalidator", Op: "txn", Size: "small", Inval: "is-the-invalidator", Truth: "commit"}
		if _, err := tb.Get(ctx, ns+"g"); err != nil {
			return fail("B get: %v", err)
		}
		g2 := []byte("g2")
		if inval == "other-txn-chunked" {
			g2 = c09BigVal(rng, cs+rng.Intn(2048))
			cb.Size = "above-chunk"
		}
		if err := tb.Put(ctx, &physical.Entry{Key: ns + "g", Value: g2}); err != nil {
			return fail("B put: %v", err)
		}
		cb.Script = []string{"begin", "get " + ns + "g", "put " + ns + "g=" + c09ShortVal(string(g2)), "commit"}
		cb.Before = b.AppliedIndex()
		err = tb.Commit(ctx)
		cb.After = b.AppliedIndex()
		cb.Client, cb.Err = c09SzVerdict(err)
		s.calls = append(s.calls, cb)
		if cb.After == cb.Before {
			return fail("the invalidating transaction produced no log entry (%v)", err)
		}
		s.truth[cb.After] = true
		s.model[ns+"g"] = string(g2)
		call.Script = append(call.Script, "(another client: transaction get+put "+ns+"g="+c09ShortVal(string(g2))+", committed)")
	}
	// serial reference: commit iff everything read and listed still reads and lists the same
	commit := true
	for _, o := range seen {
		if o.list {
			if strings.Join(c09RefList(s.model, o.key, "", 0), "\n") != strings.Join(o.items, "\n") {
				commit = false
			}
		} else if v, ok := s.model[o.key]; ok != o.ok || v != o.val {
			commit = false
		}
	}
	call.Truth = map[bool]string{true: "commit", false: "conflict"}[commit]
	call.Before = b.AppliedIndex()
	err = tx.Commit(ctx)
	call.After = b.AppliedIndex()
	call.Client, call.Err = c09SzVerdict(err)
	call.Script = append(call.Script, "commit -> "+call.Client)
	s.calls = append(s.calls, call)
	if call.After == call.Before {
		return fail("a writing transaction produced no log entry (commit returned %v)", err)
	}
	s.truth[call.After] = commit
	if commit {
		for k, v := range writes {
			s.model[k] = v
		}
		delete(s.model, ns+"d")
	}
	s.checkLeader(call, "after the commit of "+cell)
	// tidy up so that the bucket stays small: plain deletes of large values and of absent keys
	for i := range lens {
		if !s.del(cell, fmt.Sprintf("%sp%d", ns, i)) {
			return false
		}
	}
	if (inval == "plain-write-chunked" || inval == "other-txn-chunked") && !s.del(cell, ns+"g") {
		return false
	}
	return true
}

// roCell: a write transaction T and a read-only transaction R in every relative
// position. order: which of the two begins first, at the same applied index or
// with a plain write between the two begins; pattern: the plain writes that land
// while T is open (C changes something T read, U is unrelated); when: the moment
// R is finished (before the writes, after the first one, after all of them, after
// T's commit); fin: how (commit or rollback). R must see the state of its begin
// whenever it reads, must not produce a log entry, and must not change what T's
// commit answers: the serial reference says conflict iff the pattern contains C.
func (s *c09SzSession) roCell(no int, order, fin, when, pattern string) bool {
	ctx := context.Background()
	r, b, rng := s.r, s.b, s.rng
	cell := fmt.Sprintf("ro/%s/%s/%s/%s", order, fin, when, pattern)
	ns := fmt.Sprintf("m%02d/", no)
	for _, kv := range [][2]string{{"g", "g0"}, {"l/a", "x"}} {
		if _, ok := s.put(cell, ns+kv[0], []byte(kv[1]), fmt.Sprintf("plain put %s=%q", ns+kv[0], kv[1])); !ok {
			return false
		}
	}
	call := &c09SzCall{Cell: cell, Op: "txn", Size: "small"}
	fail := func(format string, a ...any) bool {
		r.Inconc("%s %s: "+format, append([]any{s.caseID, cell}, a...)...)
		return false
	}
	var T, R physical.Transaction
	var snapR c09State
	rOpen := false
	withList := rng.Chance(1, 2)
	beginT := func() bool {
		tx, err := b.BeginTx(ctx)
		if err != nil {
			return fail("begin T: %v", err)
		}
		T = tx
		call.Script = append(call.Script, fmt.Sprintf("T: begin (write transaction) at applied index %d", b.AppliedIndex()))
		e, err := T.Get(ctx, ns+"g")
		if err != nil || e == nil || string(e.Value) != s.model[ns+"g"] {
			return fail("T get: %v %v", e, err)
		}
		call.Script = append(call.Script, fmt.Sprintf("T: get %s -> %q", ns+"g", e.Value))
		if withList {
			items, err := T.List(ctx, ns+"l/")
			if err != nil || strings.Join(items, "\n") != strings.Join(c09RefList(s.model, ns+"l/", "", 0), "\n") {
				return fail("T list: %v %v", items, err)
			}
			call.Script = append(call.Script, fmt.Sprintf("T: list %q -> %v", ns+"l/", items))
		}
		return true
	}
	readR := func(at string) {
		bad := ""
		for _, k := range []string{ns + "g", ns + "u0", ns + "l/c"} {
			e, err := R.Get(ctx, k)
			want, present := snapR[k]
			switch {
			case err != nil:
				bad += fmt.Sprintf("get %s: %v; ", k, err)
			case (e != nil) != present || (e != nil && string(e.Value) != want):
				bad += fmt.Sprintf("get %s returned %v, the state at R's begin has present=%v %q; ", k, e, present, want)
			}
		}
		items, err := R.List(ctx, ns+"l/")
		if want := c09RefList(snapR, ns+"l/", "", 0); err != nil || strings.Join(items, "\n") != strings.Join(want, "\n") {
			bad += fmt.Sprintf("list %q returned %v (%v), the state at R's begin lists %v; ", ns+"l/", items, err, want)
		}
		r.Count("ro_txn_reads_compared_with_state_at_begin", 4)
		call.Script = append(call.Script, fmt.Sprintf("R: get %s, %s, %s and list %q %s", ns+"g", ns+"u0", ns+"l/c", ns+"l/", at))
		if bad != "" {
			r.Violate(c09ClassROSnap, s.caseID+"leader", fmt.Sprintf("%s: a read-only transaction on the leader did not read the state it was started on (%s): %s", cell, at, bad), map[string]any{"script": call.Script})
		}
	}
	beginR := func() bool {
		tx, err := b.BeginReadOnlyTx(ctx)
		if err != nil {
			return fail("begin R: %v", err)
		}
		R, rOpen, snapR = tx, true, s.model.clone()
		call.Script = append(call.Script, fmt.Sprintf("R: begin (read-only transaction) at applied index %d", b.AppliedIndex()))
		readR("right after its begin")
		return true
	}
	entriesSinceT := 0
	finishR := func() bool {
		if !rOpen {
			return true
		}
		rOpen = false
		readR("before it finishes")
		before := b.AppliedIndex()
		var err error
		if fin == "commit" {
			err = R.Commit(ctx)
		} else {
			err = R.Rollback(ctx)
		}
		call.Script = append(call.Script, fmt.Sprintf("R: %s -> %v", fin, err))
		if err != nil || b.AppliedIndex() != before {
			return fail("read-only %s returned %v, applied index %d -> %d", fin, err, before, b.AppliedIndex())
		}
		r.Count("ro_txn_"+fin, 1)
		if T != nil {
			r.Count(fmt.Sprintf("ro_txn_finished_while_write_txn_open_after_%d_entries", min(entriesSinceT, 2)), 1)
		}
		return true
	}
	between := func() bool {
		_, ok := s.put(cell, ns+"w", []byte("w"), "plain put "+ns+"w (between the two begins)")
		call.Script = append(call.Script, "(another client: plain put "+ns+"w)")
		return ok
	}
	switch order {
	case "T-then-R":
		if !beginT() || !beginR() {
			return false
		}
	case "R-then-T":
		if !beginR() || !beginT() {
			return false
		}
	case "T-write-R":
		if !beginT() || !between() || !beginR() {
			return false
		}
		entriesSinceT++
	case "R-write-T":
		if !beginR() || !between() || !beginT() {
			return false
		}
	}
	if T.(*RaftTransaction).index == R.(*RaftTransaction).index {
		r.Count("ro_txn_same_start_index_as_open_write_txn", 1)
	} else {
		r.Count("ro_txn_other_start_index_than_open_write_txn", 1)
	}
	if when == "before-writes" && !finishR() {
		return false
	}
	conflict := false
	for i, w := range strings.Split(pattern, "+") {
		switch {
		case w == "U":
			k := fmt.Sprintf("%su%d", ns, i)
			if _, ok := s.put(cell, k, []byte("u"), "plain put "+k+" (outside T's read set)"); !ok {
				return false
			}
			call.Script = append(call.Script, "(another client: plain put "+k+", which T neither read nor listed)")
		case withList && rng.Chance(1, 2):
			conflict = true
			if _, ok := s.put(cell, ns+"l/c", []byte("z"), "plain put "+ns+"l/c"); !ok {
				return false
			}
			call.Script = append(call.Script, "(another client: plain put "+ns+"l/c, a new child of the prefix T listed)")
		default:
			conflict = true
			v := fmt.Sprintf("g%d", i+1)
			if _, ok := s.put(cell, ns+"g", []byte(v), "plain put "+ns+"g="+v); !ok {
				return false
			}
			call.Script = append(call.Script, "(another client: plain put "+ns+"g=\""+v+"\", the key T read)")
		}
		entriesSinceT++
		if when == "between-writes" && i == 0 && !finishR() {
			return false
		}
	}
	if when != "after-T-commit" && !finishR() {
		return false
	}
	if err := T.Put(ctx, &physical.Entry{Key: ns + "p", Value: []byte("derived-from-" + ns + "g=g0")}); err != nil {
		return fail("T put: %v", err)
	}
	call.Script = append(call.Script, "T: put "+ns+"p")
	call.Inval = map[bool]string{true: "changed-while-read-only-txn-around", false: "untouched-while-read-only-txn-around"}[conflict]
	call.Truth = map[bool]string{true: "conflict", false: "commit"}[conflict]
	call.Before = b.AppliedIndex()
	err := T.Commit(ctx)
	call.After = b.AppliedIndex()
	T = nil
	call.Client, call.Err = c09SzVerdict(err)
	call.Script = append(call.Script, "T: commit -> "+call.Client)
	s.calls = append(s.calls, call)
	if call.After == call.Before {
		return fail("a writing transaction produced no log entry (commit returned %v)", err)
	}
	s.truth[call.After] = !conflict
	if !conflict {
		s.model[ns+"p"] = "derived-from-" + ns + "g=g0"
	}
	if !finishR() {
		return false
	}
	s.checkLeader(call, "after the commit of "+cell)
	return true
}

// c09ReplicaVerdict: what a fresh, never-restarted replica answers for the
// transaction completed by the entry at index idx when it applies the log up
// to there one entry per batch ("commit", "conflict" or a description).
func c09ReplicaVerdict(env *c09Env, l *c09Log, idx uint64) (out string) {
	defer func() {
		if p := recover(); p != nil {
			out = fmt.Sprintf("panic: %v", p)
		}
	}()
	env.nfsm++
	dir := filepath.Join(env.base, fmt.Sprintf("v%d", env.nfsm))
	if err := os.MkdirAll(dir, 0o700); err != nil {
		return err.Error()
	}
	defer os.RemoveAll(dir)
	f, err := NewFSM(dir, "verif", env.logger)
	if err != nil {
		return err.Error()
	}
	defer f.Close()
	for _, e := range l.Entries {
		if e.Log.Index > idx {
			break
		}
		resp := f.chunker.ApplyBatch([]*raft.Log{e.Log})
		if e.Log.Index != idx {
			continue
		}
		if len(resp) != 1 {
			return fmt.Sprintf("%d responses", len(resp))
		}
		rv := resp[0]
		if cs, ok := rv.(raftchunking.ChunkingSuccess); ok {
			rv = cs.Response
		}
		ar, ok := rv.(*FSMApplyResponse)
		if !ok || ar == nil || !ar.Success {
			return fmt.Sprintf("response %T %v", rv, rv)
		}
		if len(ar.EntrySlice) == 1 && ar.EntrySlice[0].IsTxError() {
			return "conflict"
		}
		return "commit"
	}
	return "entry not found"
}

// c09SzClassOf: the size class an entry of the leader's log actually falls into.
func c09SzClassOf(c *c09Cmd, maxEntry int) string {
	cs := raftchunking.ChunkSize
	switch {
	case c.NChunks == 1 && c.Bytes <= 4096:
		return "small"
	case c.NChunks == 1 && c.Bytes > cs-4096:
		return "below-chunk"
	case c.NChunks == 2 && c.Bytes <= cs+4096:
		return "above-chunk"
	case c.Bytes >= maxEntry-4096 && c.Bytes <= maxEntry+4096:
		return "near-max"
	case c.NChunks >= 3:
		return "multi-chunk"
	}
	return fmt.Sprintf("other(%d chunks, %d bytes)", c.NChunks, c.Bytes)
}

func c09SizesPlans(r *kit.Result, rng *kit.Rand, l *c09Log, nres int) []c09Plan {
	n := len(l.Entries)
	ordOf := map[uint64]int{}
	for i, e := range l.Entries {
		ordOf[e.Log.Index] = i
	}
	// positions (number of entries delivered before the event), by what they separate
	var cands [5][]int
	add := func(cat, ord int) {
		if ord >= 1 && ord < n {
			cands[cat] = append(cands[cat], ord)
		}
	}
	for _, c := range l.Cmds {
		if c.Final == 0 {
			continue
		}
		if c.NChunks > 1 {
			add(0, ordOf[c.First])                         // everything before the chunked operation | its first chunk
			add(1, ordOf[c.First]+1+rng.Intn(c.NChunks-1)) // between two chunks of one operation
			add(2, ordOf[c.Final]+1)                       // final chunk | what follows
		}
		if c.Kind == "txn" {
			for i, e := range l.Entries {
				if e.Log.Index > c.Start && e.Log.Index < c.First {
					add(3, i) // begin of the transaction | first write inside its window
					break
				}
			}
			if c.First > c.Start+1 {
				add(4, ordOf[c.First]) // last write inside its window | the transaction's own entry
			}
		}
	}
	plans := []c09Plan{{Name: "batch-wide", MaxBatch: 64}, {Name: "batch-medium", MaxBatch: 8}, {Name: "batch-narrow", MaxBatch: 3}}
	kinds := []string{"restart", "crash", "install", "install", "crashin-post", "crashin-pre"}
	for k := 0; k < nres; k++ {
		pos := 1 + rng.Intn(n-1)
		cat := "anywhere"
		if cs := cands[k%5]; len(cs) > 0 {
			pos = kit.Pick(rng, cs)
			cat = []string{"before-first-chunk", "between-chunks", "after-final-chunk", "after-txn-begin", "before-txn-entry"}[k%5]
		}
		r.Count("replica_events_"+cat, 1)
		kind := kinds[k%6]
		p := c09Plan{Name: fmt.Sprintf("%s@%d-%s", kind, pos, cat), MaxBatch: 1 + rng.Intn(16), Events: []c09Event{{Ord: pos, Kind: kind}}}
		if strings.HasPrefix(kind, "crashin") {
			p.Events[0].Ord = pos - 1 // the batch that dies starts just before the position
		}
		if kind == "install" && (k/6)%2 == 1 {
			p.Name += "-lagging"
			p.Events = []c09Event{{Ord: 0, Kind: "lag"}, {Ord: pos, Kind: "install"}}
		}
		plans = append(plans, p)
	}
	for k := 0; k < 3; k++ {
		pos := 3 + rng.Intn(n-3)
		if cs := cands[(k+2)%5]; len(cs) > 0 {
			pos = kit.Pick(rng, cs)
		}
		plans = append(plans, c09Plan{Name: fmt.Sprintf("late-localsnap@%d", pos), MaxBatch: 1 + rng.Intn(8), Events: []c09Event{{Ord: pos, Kind: "localsnap-late", Back: 1 + rng.Intn(3)}}})
	}
	for k, ft := range c09InstallFaults {
		pos := 1 + rng.Intn(n-1)
		if cs := cands[(k+1)%5]; len(cs) > 0 {
			pos = kit.Pick(rng, cs)
		}
		p := c09Plan{Name: fmt.Sprintf("install@%d-fault-%s", pos, ft), MaxBatch: 1 + rng.Intn(16), Events: []c09Event{{Ord: pos, Kind: "install", Fault: ft}}}
		if k%3 != 1 {
			p.Name += "-lagging"
			p.Events = append([]c09Event{{Ord: 0, Kind: "lag"}}, p.Events...)
		}
		plans = append(plans, p)
	}
	for k := range plans {
		plans[k].Stream = uint64(k%250 + 1)
	}
	return plans
}

func TestVerif_C09_LeaderSizes(t *testing.T) {
	seed := kit.Seed(9)
	r := kit.NewResult(t, "c09-leadersizes", seed, "a real single-node raft leader runs a fixed matrix of client calls: transactions (Get + List + Put(s) + Delete) whose log entry is small / just below one raft chunk / one chunk plus a short tail / several chunks / at max_entry_size, each with its read set left alone / rewritten with the same value / changed by a plain put (small or itself chunked) / its listed prefix changed / changed by another committed transaction, and plain puts cut to exactly the chunk size, chunk size + 1, max_entry_size and max_entry_size + 1, plain deletes of large, small and absent values (seeded: order of the cells, value bytes, size jitter), and a write transaction T next to a read-only transaction R in every relative position {T or R begins first at the same applied index / with a write between the begins} x {R committed / rolled back} x {before, between, after the plain writes that land while T is open, after T's commit} x {writes: conflicting+unrelated, unrelated+conflicting, unrelated only, conflicting only, conflicting+2 unrelated}, R's reads compared with the state at its begin; a case is one replica replaying the leader's own raft log under some batching and restart/crash/install position; non-trivial = a replica with a restart, crash or snapshot-install event placed at a chunk boundary, between two chunks or at the edge of a transaction window; distinct by (leader session, plan)")
	defer r.Write(t)
	env := c09NewEnv(t, "268435456")
	shard, shards := kit.Shard()
	sessions := kit.N(1, 6)
	for sess := 0; sess < sessions; sess++ {
		if sess%shards != shard {
			continue
		}
		caseID := fmt.Sprintf("Z%d/", sess)
		if oc := kit.OnlyCase(); oc != "" && !strings.HasPrefix(oc, caseID) {
			continue
		}
		rng := kit.NewRand(seed, 9_900_000+uint64(sess))
		dir := filepath.Join(env.base, fmt.Sprintf("sizes%d", sess))
		if err := os.MkdirAll(dir, 0o700); err != nil {
			t.Fatal(err)
		}
		b := c09Leader(t, dir)
		maxEntry := int(b.maxEntrySize)
		s := &c09SzSession{r: r, b: b, rng: rng, caseID: caseID, model: c09State{}, truth: map[uint64]bool{}}
		// the matrix, in seeded order
		type cellT struct {
			kind, size, inval string
			ro                [4]string // order, fin, when, pattern
		}
		var cells []cellT
		for _, sz := range c09SzSizes {
			for _, iv := range c09SzInvals {
				cells = append(cells, cellT{kind: "txn", size: sz, inval: iv})
			}
		}
		cells = append(cells,
			cellT{kind: "txn", size: "above-chunk", inval: "same-value"},
			cellT{kind: "txn", size: kit.Pick(rng, []string{"small", "below-chunk"}), inval: "plain-write-chunked"},
			cellT{kind: "txn", size: kit.Pick(rng, []string{"above-chunk", "near-max"}), inval: "plain-write-chunked"},
			cellT{kind: "txn", size: kit.Pick(rng, []string{"small", "multi-chunk"}), inval: "other-txn-chunked"},
		)
		for _, sz := range []string{"small", "below-chunk", "above-chunk", "near-max", "over-max"} {
			cells = append(cells, cellT{kind: "plain", size: sz})
		}
		// read-only transactions around a write transaction, every relative position
		whens := []string{"before-writes", "between-writes", "after-writes", "after-T-commit"}
		patterns := []string{"C+U", "U+C", "U+U", "C", "C+U+U"}
		for _, order := range []string{"T-then-R", "R-then-T"} {
			for _, fin := range []string{"commit", "rollback"} {
				for _, when := range whens {
					for _, pat := range patterns {
						cells = append(cells, cellT{kind: "ro", ro: [4]string{order, fin, when, pat}})
					}
				}
			}
		}
		for k := 0; k < 8; k++ {
			cells = append(cells, cellT{kind: "ro", ro: [4]string{[]string{"T-write-R", "R-write-T"}[k%2], []string{"commit", "rollback"}[k/2%2], kit.Pick(rng, whens), kit.Pick(rng, patterns)}})
		}
		rng.Shuffle(len(cells), func(i, j int) { cells[i], cells[j] = cells[j], cells[i] })
		okAll := true
		for no, c := range cells {
			switch c.kind {
			case "txn":
				okAll = s.txnCell(no, c.size, c.inval)
			case "ro":
				okAll = s.roCell(no, c.ro[0], c.ro[1], c.ro[2], c.ro[3])
			default:
				okAll = s.plainCell(no, c.size)
			}
			if !okAll {
				break
			}
		}
		if !okAll {
			r.Inconc("%s: the leader workload stopped early (see the other entries)", caseID)
			continue
		}
		s.checkLeader(nil, "at the end of the workload")
		l, err := c09FromLeader(b, s.truth)
		if err != nil {
			r.Inconc("%s: %v", caseID, err)
			continue
		}
		r.Count("leader_log_entries", len(l.Entries))
		byFinal := map[uint64]*c09Cmd{}
		for _, c := range l.Cmds {
			byFinal[c.Final] = c
		}
		// every client call against the leader's log: an acknowledged call is exactly one
		// (possibly chunked) operation in the log, a refused plain call is none
		var mismatches []*c09SzCall
		consistent := true
		for _, c := range s.calls {
			r.Count("client_calls", 1)
			r.Count("client_"+c.Op+"_"+c.Client, 1)
			var cmd *c09Cmd
			if c.After > c.Before {
				cmd = byFinal[c.After]
				inRange := 0 // operations the leader's log holds in (Before, After]: exactly the one this call produced
				for _, x := range l.Cmds {
					if x.First > c.Before && x.First <= c.After {
						inRange++
					}
				}
				if cmd == nil || cmd.First <= c.Before || inRange != 1 || (cmd.Kind == "txn") != (c.Op == "txn") {
					r.Inconc("%s: cannot match client call %v with the leader's log (entries %d..%d)", caseID, c.Script, c.Before+1, c.After)
					consistent = false
					continue
				}
			}
			if c.Op != "txn" {
				switch {
				case c.Client == "commit" && cmd == nil:
					r.Violate(c09ClassLeaderAck, caseID+"leader", "the leader acknowledged a plain write that is not in its log", map[string]any{"call": c})
					consistent = false
				case c.Client != "commit" && cmd != nil:
					r.Violate(c09ClassLeaderAck, caseID+"leader", fmt.Sprintf("the leader answered a plain write with an error (%s) but the write is in its log at index %d and every replica applies it", c.Err, c.After), map[string]any{"call": c})
					consistent = false
				case c.Client != "commit" && !c.MayFail:
					r.Inconc("%s: plain call refused by the leader: %v: %s", caseID, c.Script, c.Err)
					consistent = false
				case c.Client != "commit":
					r.Count("plain_puts_above_max_entry_size_refused_without_log_entry", 1)
				}
				if cmd != nil {
					if cmd.NChunks > 1 {
						r.Count("client_chunked_plain_puts", 1)
					}
					if c.Exact > 0 {
						if cmd.Bytes != c.Exact {
							r.Inconc("%s: plain put cut for a command of %d bytes produced one of %d bytes", caseID, c.Exact, cmd.Bytes)
						} else {
							r.Count(fmt.Sprintf("plain_put_command_exactly_%s_in_%d_entries", map[int]string{raftchunking.ChunkSize: "chunk_size", raftchunking.ChunkSize + 1: "chunk_size_plus_1", maxEntry: "max_entry_size", maxEntry + 1: "max_entry_size_plus_1"}[c.Exact], cmd.NChunks), 1)
						}
					}
					if cmd.Kind == "del" && len(l.Hist[cmd.First-1][cmd.Writes[0].Key]) > raftchunking.ChunkSize-4096 {
						r.Count("plain_deletes_of_large_value", 1)
					}
				}
				continue
			}
			// transactions
			got := c09SzClassOf(cmd, maxEntry)
			if got != c.Size {
				r.Inconc("%s: transaction meant for size class %s produced an entry of class %s", caseID, c.Size, got)
				consistent = false
			}
			r.Count(fmt.Sprintf("client_txn_%s:%s", c.Client, c.Size), 1)
			r.Count(fmt.Sprintf("client_txn_%s:read-set-%s", c.Client, c.Inval), 1)
			if cmd.NChunks > 1 {
				r.Count("client_chunked_txn_"+c.Client, 1)
			}
			if (c.Truth == "commit") != (len(cmd.Stale) == 0) {
				// the replicas decide what this is (a replica on the slow path follows the shipped entries)
				r.Count("serial_reference_and_shipped_verification_entries_disagree", 1)
				r.Note("%s %s: serial reference says %s, full verification of the shipped entries says stale=%v", caseID, c.Cell, c.Truth, cmd.Stale)
			}
			switch {
			case c.Client == "error":
				r.Violate(c09ClassLeaderErr, caseID+"leader", fmt.Sprintf("leader Commit returned an error that is neither nil nor the commit-failure class: %s", c.Err), map[string]any{"call": c})
				consistent = false
			case c.Client != c.Truth:
				mismatches = append(mismatches, c)
			default:
				r.Count("client_txn_verdicts_equal_to_serial_reference", 1)
			}
		}
		// the leader's bucket against the replay of its own log with the reference verdicts
		ld, err := c09Dump(b.fsm)
		if err != nil {
			r.Inconc("leader dump: %v", err)
			continue
		}
		lastIdx := l.Entries[len(l.Entries)-1].Log.Index
		if diff := c09DiffState(ld, l.Hist[lastIdx]); diff != "" && !s.bad {
			r.Violate(c09ClassState, caseID+"leader", "the leader's own bucket differs from the replay of its log with the reference verdicts: "+diff, map[string]any{"log_tail": c09Tail(l.render(), 30)})
		}
		if diff := c09DiffState(map[string]string(s.model), l.Hist[lastIdx]); diff != "" && consistent && len(mismatches) == 0 {
			r.Inconc("%s: the serial reference kept by the workload and the replay of the leader's log disagree: %s", caseID, diff)
		}
		c09LogStats(r, l)
		plans := c09SizesPlans(r, rng, l, kit.N(30, 60))
		r.Eval(len(plans) + 1)
		for _, p := range plans {
			if len(p.Events) > 0 {
				r.Nontrivial(caseID + p.Name)
			}
		}
		ref := c09RunCase(r, env, caseID, l, plans, seed, 3_000_000+uint64(sess), rng)
		// how far the never-restarted reference replica followed the reference verdicts
		refTo := uint64(0)
		if ref.Dev == nil {
			refTo = lastIdx
			r.Count("client_txn_verdicts_equal_to_reference_replica", int(r.Get("client_txn_verdicts_equal_to_serial_reference")))
			// leader == replicas, byte for byte (chunk staging keys included)
			var d []string
			for k, v := range ref.Dump {
				if g, ok := ld[k]; !ok {
					d = append(d, "missing "+k)
				} else if g != v {
					d = append(d, "differs "+k)
				}
			}
			for k := range ld {
				if _, ok := ref.Dump[k]; !ok {
					d = append(d, "extra "+k)
				}
			}
			r.Count("leader_bucket_compared_with_reference_replica", 1)
			if len(d) > 0 && !s.bad {
				sort.Strings(d)
				r.Violate(c09ClassState, caseID+"leader", "the leader's final bucket differs from the bucket of a replica that replayed the leader's log: "+strings.Join(d, ", "), nil)
			}
		} else if len(ref.Batches) > 1 {
			refTo = ref.Batches[len(ref.Batches)-2][1]
		}
		probes := 0
		for _, c := range mismatches {
			cmd := byFinal[c.After]
			w := map[string]any{"call": c, "entry": cmd, "log_around": c09Around(l, c.Before, c.After)}
			if c.After > refTo && probes < 8 {
				// the reference replica stopped earlier (it is followed up to its first deviation only):
				// ask a fresh replica that applies the leader's log one entry per batch
				probes++
				if v := c09ReplicaVerdict(env, l, c.After); v == c.Truth {
					r.Violate(c09ClassLeaderVerdict, caseID+"leader", fmt.Sprintf("transaction %s (log entries %d..%d, %d chunk(s), %d bytes, start index %d): the leader's API returned %q to the client, but a replica that applies the leader's log one entry at a time reaches %q, which is also what the serial reference says; the leader's own bucket after the call: %s", c.Cell, cmd.First, cmd.Final, cmd.NChunks, cmd.Bytes, cmd.Start, c.Client, c.Truth, c.Leader), w)
					continue
				} else {
					w["replica_applying_one_entry_per_batch"] = v
				}
			}
			if c.After <= refTo {
				r.Violate(c09ClassLeaderVerdict, caseID+"leader", fmt.Sprintf("transaction %s (log entries %d..%d, %d chunk(s), %d bytes, start index %d): the leader's API returned %q to the client, but the replica that replays the leader's log reaches %q, which is also what the serial reference says; the leader's own bucket after the call: %s", c.Cell, cmd.First, cmd.Final, cmd.NChunks, cmd.Bytes, cmd.Start, c.Client, c.Truth, c.Leader), w)
			} else {
				r.Violate(c09ClassLeaderVerdictRef, caseID+"leader", fmt.Sprintf("transaction %s (log entries %d..%d, %d chunk(s), %d bytes): the leader's API returned %q to the client, the serial reference says %q (the reference replica stopped following the reference before this entry: %v)", c.Cell, cmd.First, cmd.Final, cmd.NChunks, cmd.Bytes, c.Client, c.Truth, ref.Dev), w)
			}
		}
		if sess == 0 || kit.OnlyCase() != "" {
			var cs []any
			for _, c := range s.calls {
				if c.Op == "txn" && len(cs) < 4 && byFinal[c.After] != nil && byFinal[c.After].NChunks > 1 {
					cs = append(cs, map[string]any{"call": c, "chunks": byFinal[c.After].NChunks, "entry_bytes": byFinal[c.After].Bytes})
				}
			}
			r.Sample(map[string]any{"session": sess, "chunked_transactions": cs, "replicas": len(plans) + 1, "leader_log_tail": c09Tail(l.render(), 25)})
		}
	}
	// floors: what one session yields on the unchanged tree (thorough: 6 sessions)
	req := func(name string, perSession int) { r.Require(name, int64(perSession*kit.N(1, 6)/shards)) }
	for _, sz := range c09SzSizes {
		req("client_txn_commit:"+sz, 1)
		req("client_txn_conflict:"+sz, 3)
	}
	for _, iv := range []string{"plain-write", "list", "other-txn", "plain-write-chunked", "other-txn-chunked"} {
		req("client_txn_conflict:read-set-"+iv, 1)
	}
	req("client_txn_commit:read-set-none", 5)
	req("client_txn_commit:read-set-untouched-while-read-only-txn-around", 16)
	req("client_txn_conflict:read-set-changed-while-read-only-txn-around", 64)
	req("ro_txn_commit", 40)
	req("ro_txn_rollback", 40)
	req("ro_txn_same_start_index_as_open_write_txn", 80)
	req("ro_txn_finished_while_write_txn_open_after_2_entries", 20)
	req("ro_txn_reads_compared_with_state_at_begin", 600)
	req("client_txn_commit:read-set-same-value", 1)
	req("client_chunked_txn_commit", 4)
	req("client_chunked_txn_conflict", 9)
	req("client_chunked_plain_puts", 3)
	req("plain_deletes_of_large_value", 1)
	req("client_txn_verdicts_equal_to_reference_replica", 20)
	req("leader_bucket_comparisons", 30)
	req("leader_bucket_compared_with_reference_replica", 1)
	req("replica_runs_checked_to_the_end", 12)
	req("replica_events_between-chunks", 5)
	req("replica_events_before-first-chunk", 5)
	req("replica_events_before-txn-entry", 5)
}

func c09Tail(s []string, n int) []string {
	if len(s) > n {
		return s[len(s)-n:]
	}
	return s
}

// c09Around renders the log entries of a transaction and the few before it.
func c09Around(l *c09Log, before, after uint64) []string {
	var out []string
	rend := l.render()
	for i, e := range l.Entries {
		if e.Log.Index+8 > before && e.Log.Index <= after && i < len(rend) {
			out = append(out, rend[i])
		}
	}
	return out
}
