//go:build verif

package vault

// C12 monitor 1: physical-key confinement of mounted backends under generated
// topologies, hostile storage calls, hostile request paths, remounts, path
// re-use and separately sealed namespaces.

import (
	"fmt"
	"strings"
	"testing"

	kit "github.com/openbao/openbao/sdk/v2/helper/verifkit"
	"github.com/openbao/openbao/sdk/v2/logical"
)

func TestVerif_C12_Storage(t *testing.T) {
	seed := kit.Seed(12)
	shard, shards := kit.Shard()
	r := kit.NewResult(t, "c12-storage", seed,
		"generated worlds (<=6 namespaces on <=3 levels, some with their own shamir seal; sibling, multi-segment and equally named mounts of the recording backend / kv / auth type; remounts inside and across namespaces, unmount + re-use of the path, seal/unseal cycles of single namespaces, restarts of the core, and in every second world mounts attempted inside the path of a sealed namespace) serving a request mix of hostile storage calls made by a backend on its req.Storage (.., absolute, //, encoded, other mounts' uuids and real keys, core keys, long), hostile data paths, kv, login, cubbyhole and foreign-token requests in every namespace spelling (header / path / split); every physical operation of a request is classified against the storage prefixes read from the running router and every response is scanned for data or names written through another mount; a request is non-trivial when its client-chosen key resolves outside the mount prefix, when it is served while a namespace is sealed, when it uses a token of another namespace, or when it follows a remount / path re-use")
	defer r.Write(t)
	r.Note("observation outside C12: when the unseal of a namespace fails in post-unseal (e.g. because of the mount conflict above) the rollback re-seals it through SealNamespace with the root-namespace active context, which stores the namespace's record in the root namespace's store; a later start of the core then fails with 'error loading initial namespaces: can't insert namespace with missing parent'; worlds in which a namespace unseal failed are therefore not restarted")
	r.Note("observation outside C12: unsealNamespace reloads only the direct children of the unsealed namespace (it passes the namespace-scoped view as the barrier to loadNamespacesRecursive), deeper namespaces stay unknown to the core until a full reload")
	r.Note("observation outside C12: ExpirationManager.removeIndexByToken dereferences a nil namespace (process-wide panic in a background worker) when a lease is revoked whose token's namespace is no longer in the namespace store, e.g. a revocation job racing with the sealing of an ancestor namespace; the workload waits for storage quiescence before sealing")
	r.Note("observation outside C12: a remount into another namespace (Core.moveStorage) does not terminate, holding mountsLock, when the mount's storage holds a key with an empty path segment (a//b, /a, a/), because listed names are re-joined with path.Join; the workload therefore moves only mounts that never stored such a key across namespaces")
	topos := kit.N(10, 320)
	reqs := kit.N(800, 4000)
	for ti := 0; ti < topos; ti++ {
		if ti%shards != shard {
			continue
		}
		caseID := fmt.Sprintf("storage:%d", ti)
		if !kit.WantCase(caseID) {
			continue
		}
		rng := kit.NewRand(seed, 0x12000+uint64(ti))
		// every second world also tries to mount inside the path of a sealed namespace
		// (mixed so that every shard of 8 sees every combination)
		c12StorageCase(t, r, rng, caseID, (ti/2+ti/8)%2 == 0, ti%5 == 4, (ti+ti/8)%2 == 1, reqs)
		if c12Generic(r) > 30 {
			break
		}
	}
	// minimums: about half of what one quick seed shows (the kit enforces a third of them)
	r.Require("phys_ops_checked", 7000)
	r.Require("phys_ops_inside_mount", 2500)
	r.Require("mount_prefix_invariant_checks", 10000)
	r.Require("hostile_escape_attempts", 600)
	r.Require("hostile_escape_rejected", 600)
	r.Require("hostile_calls_executed_inside_mount", 700)
	r.Require("own_canaries_read_back", 200)
	r.Require("remounts", 60)
	r.Require("remounts_across_namespaces", 10)
	r.Require("mounts_on_previously_used_path", 40)
	r.Require("fresh_mount_probes", 200)
	r.Require("requests_into_sealed_namespace", 300)
	r.Require("foreign_token_requests", 200)
	r.Require("worlds_with_equal_mount_paths_in_two_namespaces", 5)
	r.Require("sibling_namespaces_with_prefix_related_names", 5)
	r.Require("core_restarts", 10)
	r.Require("shadow_mount_probes", 15)
}

type c12StorageRun struct {
	*c12World
	all            map[*c12NS]*c12Tok
	sealedNS       *c12NS
	unsealAt       int
	afterMut       int // requests left that count as "following a topology mutation"
	iter           int
	shadowAttempts bool
	lastPrefix     map[string]string
}

func c12StorageCase(t *testing.T, r *kit.Result, rng *kit.Rand, caseID string, transactional, cache, shadowAttempts bool, reqs int) {
	w := c12Build(t, r, rng, caseID, transactional, cache)
	if cache {
		r.Count("worlds_with_physical_cache", 1)
	}
	defer w.v.Close()
	s := &c12StorageRun{c12World: w, all: map[*c12NS]*c12Tok{}, shadowAttempts: shadowAttempts}
	for _, n := range w.nss {
		w.policy(n, "c12-all", []string{"*"})
		s.all[n] = w.token(n, "all@"+n.Path, "all", []string{"c12-all"}, []string{"*"}, nil)
		w.nsRootToken(n)
	}
	w.seedData()
	// equal mount paths in different namespaces?
	seen := map[string]int{}
	for _, m := range w.liveMounts(c12User) {
		seen[m.api()]++
	}
	for _, c := range seen {
		if c > 1 {
			r.Count("worlds_with_equal_mount_paths_in_two_namespaces", 1)
			break
		}
	}
	for s.iter = 0; s.iter < reqs; s.iter++ {
		if w.failed && c12Generic(r) > 12 {
			break
		}
		if s.sealedNS == nil {
			for _, n := range w.nss {
				if n.Sealable && n.Sealed && !n.Lost && !n.Parent.effSealed() {
					s.sealedNS, s.unsealAt = n, s.iter+10 // sealed behind our back (see sync): unseal it later
					break
				}
			}
		}
		if s.sealedNS != nil && s.iter >= s.unsealAt {
			s.endSeal()
		}
		roll := rng.Intn(100)
		switch {
		case roll < 38:
			s.raw()
		case roll < 58:
			s.data()
		case roll < 66:
			s.kv()
		case roll < 73:
			s.login()
		case roll < 80:
			s.cubby()
		case roll < 88:
			s.foreignToken()
		case roll < 93 && s.sealedNS != nil:
			s.intoSealed()
		default:
			s.mutate()
		}
		if s.afterMut > 0 {
			s.afterMut--
		}
	}
	if s.sealedNS != nil {
		s.unsealAt = 1 << 30
		s.endSeal()
	}
	r.Eval(1)
	r.Sample(map[string]any{"case": caseID, "namespaces": w.nss, "mounts": w.mounts, "first_steps": w.steps[:min(len(w.steps), 25)]})
}

func (s *c12StorageRun) pickTokFor(n *c12NS) *c12Tok {
	if s.rng.Chance(7, 10) {
		return s.rootTok
	}
	var cands []*c12Tok
	for _, t := range s.toks {
		if !t.Dead && n.under(t.NS) && !t.NS.effSealed() && (t.Root || t.Kind == "all" || t.Kind == "login") {
			cands = append(cands, t)
		}
	}
	if len(cands) == 0 {
		return s.rootTok
	}
	return cands[s.rng.Intn(len(cands))]
}

func (s *c12StorageRun) nontrivial(q *c12Req, why string) {
	tokDepth := -1
	if q.Tok != nil {
		tokDepth = q.Tok.NS.Depth
	}
	mt, auth := "", false
	if q.M != nil {
		mt, auth = q.M.Type, q.M.Auth
	}
	s.r.Eval(1) // one judged request / matrix cell
	s.r.Nontrivial(fmt.Sprintf("%s|%s|%s|%s|%s|%s|%v|%d|%d|%s", why, q.Kind, q.Op, q.RawCall, q.KeyKind, mt, auth, c12Depth(q.N), tokDepth, q.Form))
}

func c12Depth(n *c12NS) int {
	if n == nil {
		return -1
	}
	return n.Depth
}

// keepMovable: every second mount is never made to STORE a key with an empty
// path segment (//, leading or trailing slash; such keys are still read, listed
// and deleted through it and stored through the other mounts). Reason, outside
// C12: Core.moveStorage (remount into another namespace) joins listed names
// with path.Join, which folds the empty segment away, lists the same directory
// again and never terminates while holding mountsLock. Mounts that hold such a
// key are therefore only remounted inside their namespace.
func (s *c12StorageRun) keepMovable(M *c12Mount) bool {
	var n int
	fmt.Sscanf(M.Tag, "c12m%dx", &n)
	return n%2 == 0
}

// raw: the hostile backend executes a client-chosen storage call.
func (s *c12StorageRun) raw() {
	ms := s.liveMounts(c12Rec)
	if len(ms) == 0 {
		return
	}
	M := ms[s.rng.Intn(len(ms))]
	call := []string{"get", "get", "put", "put", "delete", "list", "list", "listpage"}[s.rng.Intn(8)]
	ks := s.hostileKeys(M, call == "put")
	k := ks[s.rng.Intn(len(ks))]
	if call == "put" && c12OddKey(k.Key) && s.keepMovable(M) {
		// see keepMovable: this mount is kept free of keys with empty segments
		k = ks[0]
	}
	q := &c12Req{Kind: "raw", Op: logical.UpdateOperation, Tok: s.pickTokFor(M.NS), N: M.NS, M: M, Marker: M.Tag, RawCall: call, RawKey: k.Key, KeyKind: k.Kind}
	q.Data = map[string]any{"call": call, "key": k.Key}
	canary := ""
	switch call {
	case "put":
		canary = s.rng.Canary()
		q.Data["value"] = canary
	case "listpage":
		q.Data["after"] = s.hostileAfter(M)
		q.Data["limit"] = []int{-1, 0, 1, 5, 1 << 30}[s.rng.Intn(5)]
	}
	s.pickForm(q, M.NS, M.api()+"raw")
	s.do(q)
	inside, _ := s.checkStorage(q)
	handled, at := q.handled()
	if !handled {
		s.r.Count("raw_requests_not_handled", 1)
		s.step("raw %s %s key-kind=%s via %s not handled: %s", M, call, k.Kind, q.Form, c12Short(q.outcome()))
		return
	}
	if at != M.NS.Path+M.api() {
		s.violate("C12-misrouted-request", fmt.Sprintf("request %s %q (header %q) addressed to %s was handled by the mount at %q", q.Op, q.Path, q.Header, M, at), map[string]any{"request": q})
	}
	s.r.Count("hostile_storage_calls", 1)
	target, above := c12Clean(M.Prefix + k.Key)
	escaping := above || !strings.HasPrefix(target, M.Prefix)
	_, storageErr := q.resp.Data["storage_error"]
	switch {
	case escaping:
		s.r.Count("hostile_escape_attempts", 1)
		if storageErr {
			s.r.Count("hostile_escape_rejected", 1)
		} else {
			s.r.Count("hostile_escape_without_error", 1)
		}
		s.nontrivial(q, "escape")
	case !storageErr:
		if inside > 0 {
			s.r.Count("hostile_calls_executed_inside_mount", 1)
		} else {
			s.r.Count("hostile_calls_without_physical_op", 1)
		}
		if call == "put" {
			s.canary[canary] = c12Owner{Mount: M}
			M.Keys = append(M.Keys, k.Key)
			if c12OddKey(k.Key) {
				M.Odd = true
			}
		}
		if k.Kind != "plain" && k.Kind != "plain-existing" {
			s.nontrivial(q, "odd-key-inside")
		}
	default:
		s.r.Count("hostile_inside_key_rejected", 1)
	}
	if s.afterMut > 0 {
		s.nontrivial(q, "after-mutation")
	}
	s.scanResponse(q, false)
}

// data: ordinary data operations with hostile request paths.
func (s *c12StorageRun) data() {
	ms := s.liveMounts(c12Rec)
	if len(ms) == 0 {
		return
	}
	M := ms[s.rng.Intn(len(ms))]
	ps := s.hostileDataPaths(M)
	p := ps[s.rng.Intn(len(ps))]
	op := []logical.Operation{logical.UpdateOperation, logical.UpdateOperation, logical.ReadOperation, logical.ReadOperation, logical.ListOperation, logical.DeleteOperation}[s.rng.Intn(6)]
	if op == logical.UpdateOperation && c12OddKey(p.Key) && s.keepMovable(M) {
		p = ps[0]
	}
	path := p.Key
	if (op == logical.ReadOperation || op == logical.DeleteOperation) && len(M.Data) > 0 && s.rng.Chance(1, 2) {
		path = M.Data[s.rng.Intn(len(M.Data))]
		p.Kind = "plain-existing"
	}
	if op == logical.ListOperation {
		path = []string{"data/", "data/" + M.Tag + "/", "data/" + M.Tag + "/sub/", "data"}[s.rng.Intn(4)]
		p.Kind = "list"
	}
	q := &c12Req{Kind: "data", Op: op, Tok: s.pickTokFor(M.NS), N: M.NS, M: M, Marker: M.Tag, KeyKind: p.Kind}
	canary := ""
	if op == logical.UpdateOperation {
		canary = s.rng.Canary()
		q.Data = map[string]any{"v": canary}
	}
	s.pickForm(q, M.NS, M.api()+path)
	s.do(q)
	s.checkStorage(q)
	handled, at := q.handled()
	if handled && at != M.NS.Path+M.api() {
		s.violate("C12-misrouted-request", fmt.Sprintf("request %s %q (header %q) addressed to %s was handled by the mount at %q", q.Op, q.Path, q.Header, M, at), map[string]any{"request": q})
	}
	if !q.ok() {
		s.r.Count("data_requests_refused", 1)
		return
	}
	s.r.Count("data_requests_ok", 1)
	if op == logical.UpdateOperation && handled {
		s.canary[canary] = c12Owner{Mount: M}
		M.Data = append(M.Data, path)
		if c12OddKey(path) {
			M.Odd = true
		}
	}
	if s.afterMut > 0 {
		s.nontrivial(q, "after-mutation")
	}
	s.scanResponse(q, false)
}

func (s *c12StorageRun) kv() {
	ms := s.liveMounts(func(m *c12Mount) bool { return !m.Default && m.Type == "kv" })
	if len(ms) == 0 {
		s.data()
		return
	}
	M := ms[s.rng.Intn(len(ms))]
	op := []logical.Operation{logical.UpdateOperation, logical.ReadOperation, logical.ReadOperation, logical.ListOperation}[s.rng.Intn(4)]
	path := fmt.Sprintf("%s-k%d", M.Tag, s.rng.Intn(4))
	if op == logical.ListOperation {
		path = ""
	}
	q := &c12Req{Kind: "kv", Op: op, Tok: s.pickTokFor(M.NS), N: M.NS, M: M} // no marker: lease ids carry the request path
	canary := ""
	if op == logical.UpdateOperation {
		canary = s.rng.Canary()
		q.Data = map[string]any{"v": canary, "ttl": "1h"}
	}
	s.pickForm(q, M.NS, M.api()+path)
	s.do(q)
	s.checkStorage(q)
	if !q.ok() {
		return
	}
	if op == logical.UpdateOperation {
		s.canary[canary] = c12Owner{Mount: M}
	}
	s.r.Count("kv_requests_ok", 1)
	s.scanResponse(q, false)
}

// login: unauthenticated login on a recording auth mount creates a token of that namespace.
func (s *c12StorageRun) login() {
	ms := s.liveMounts(func(m *c12Mount) bool { return c12Rec(m) && m.Auth })
	if len(ms) == 0 {
		s.raw()
		return
	}
	M := ms[s.rng.Intn(len(ms))]
	q := &c12Req{Kind: "login", Op: logical.UpdateOperation, N: M.NS, M: M} // no marker: the token's lease id carries the login path
	q.Data = map[string]any{"policies": []string{"c12-all"}, "ttl": "1h", "no_default_policy": true}
	s.pickForm(q, M.NS, M.api()+"login/u"+fmt.Sprint(s.rng.Intn(3))) // no marker in the name: it becomes part of the token's lease id
	s.do(q)
	s.checkStorage(q)
	if !q.ok() || q.resp == nil || q.resp.Auth == nil {
		s.r.Count("logins_refused", 1)
		return
	}
	s.r.Count("logins_ok", 1)
	t := &c12Tok{Name: fmt.Sprintf("login%d@%s", len(s.toks), M.NS.Path), ID: q.resp.Auth.ClientToken, NS: M.NS, NSPath: M.NS.Path, Kind: "login", Patterns: []string{M.NS.Path + "*"}}
	s.toks = append(s.toks, t)
}

// cubby: cubbyhole traffic (storage confinement of the per-namespace cubbyhole mount).
func (s *c12StorageRun) cubby() {
	var cands []*c12Tok
	for _, t := range s.toks {
		if !t.Dead && !t.NS.effSealed() && (t.Kind == "all" || t.Kind == "login" || t.Root) {
			cands = append(cands, t)
		}
	}
	tok := cands[s.rng.Intn(len(cands))]
	var nss []*c12NS
	for _, n := range s.nss {
		if n.under(tok.NS) && !n.effSealed() {
			nss = append(nss, n)
		}
	}
	N := nss[s.rng.Intn(len(nss))]
	var M *c12Mount
	for _, m := range s.liveMounts(nil) {
		if m.NS == N && m.Cubby {
			M = m
		}
	}
	if M == nil {
		s.t.Fatalf("verif: namespace %q has no cubbyhole mount", N.Path)
	}
	op := []logical.Operation{logical.UpdateOperation, logical.ReadOperation, logical.ReadOperation, logical.ListOperation}[s.rng.Intn(4)]
	path := "cubbyhole/" + []string{"shared", "a/b", "shared//x", "k"}[s.rng.Intn(4)]
	if op == logical.ListOperation {
		path = "cubbyhole/"
	}
	q := &c12Req{Kind: "cubbyhole", Op: op, Tok: tok, N: N, M: M}
	canary := ""
	if op == logical.UpdateOperation {
		canary = s.rng.Canary()
		q.Data = map[string]any{"v": canary}
	}
	s.pickForm(q, N, path)
	s.do(q)
	s.checkStorage(q)
	if !q.ok() {
		s.r.Count("cubbyhole_requests_refused", 1)
		return
	}
	s.r.Count("cubbyhole_requests_ok", 1)
	if op == logical.UpdateOperation {
		s.canary[canary] = c12Owner{Mount: M, Tok: tok, NS: N}
	}
	s.scanResponse(q, true)
}

// foreignToken: a token whose namespace is neither the request namespace nor an ancestor of it.
func (s *c12StorageRun) foreignToken() {
	ms := s.liveMounts(c12Rec)
	if len(ms) == 0 {
		return
	}
	M := ms[s.rng.Intn(len(ms))]
	var cands []*c12Tok
	for _, t := range s.toks {
		if !t.Dead && !M.NS.under(t.NS) && !t.NS.effSealed() {
			cands = append(cands, t)
		}
	}
	if len(cands) == 0 {
		s.raw()
		return
	}
	tok := cands[s.rng.Intn(len(cands))]
	q := &c12Req{Kind: "foreign-token", Tok: tok, N: M.NS, M: M, Marker: M.Tag}
	if s.rng.Chance(1, 2) {
		q.Op = logical.UpdateOperation
		q.RawCall, q.RawKey, q.KeyKind = "get", M.Tag+"/k0", "plain"
		q.Data = map[string]any{"call": "get", "key": q.RawKey}
		s.pickForm(q, M.NS, M.api()+"raw")
	} else {
		q.Op = []logical.Operation{logical.ReadOperation, logical.UpdateOperation, logical.ListOperation}[s.rng.Intn(3)]
		p := "data/" + M.Tag + "-k0"
		if len(M.Data) > 0 {
			p = M.Data[0]
		}
		if q.Op == logical.ListOperation {
			p = "data/"
		}
		if q.Op == logical.UpdateOperation {
			q.Data = map[string]any{"v": "x"}
		}
		s.pickForm(q, M.NS, M.api()+p)
	}
	s.do(q)
	s.r.Count("foreign_token_requests", 1)
	inside, _ := s.checkStorage(q)
	handled, _ := q.handled()
	if handled || (q.ok() && q.resp != nil && len(q.resp.Data) > 0) {
		s.violate("C12-cross-namespace-access", fmt.Sprintf("token %s of namespace %q was served by %s in namespace %q: %s", tok.Name, tok.NS.Path, M, M.NS.Path, c12Short(q.outcome())), map[string]any{"request": q})
	} else {
		s.r.Count("foreign_token_requests_refused", 1)
		if inside > 0 {
			s.r.Count("existence_check_reads_before_refusal", 1)
		}
	}
	s.nontrivial(q, "foreign-token")
	s.scanResponse(q, false)
}

// intoSealed: requests addressed into the currently sealed namespace subtree.
func (s *c12StorageRun) intoSealed() {
	S := s.sealedNS
	var targets []*c12Mount
	for _, m := range s.mounts {
		if !m.Dead && m.NS != nil && m.NS.under(S) && m.NS.effSealed() && (m.Type == "verifrec" || m.Type == "kv" || m.Cubby) {
			targets = append(targets, m)
		}
	}
	for _, m := range s.mounts {
		if !m.Dead && m.Shadow != nil && m.Shadow.effSealed() && !m.NS.effSealed() && m.Type == "verifrec" {
			targets = append(targets, m) // its path resolves into the sealed namespace
		}
	}
	if len(targets) == 0 {
		return
	}
	M := targets[s.rng.Intn(len(targets))]
	var toks []*c12Tok
	for _, t := range s.toks {
		if !t.Dead {
			toks = append(toks, t)
		}
	}
	tok := toks[s.rng.Intn(len(toks))]
	q := &c12Req{Kind: "into-sealed", Tok: tok, N: M.NS, M: M, Marker: M.Tag}
	p := ""
	switch M.Type {
	case "verifrec":
		if s.rng.Chance(1, 2) {
			q.Op = logical.UpdateOperation
			q.Data = map[string]any{"call": []string{"get", "put", "list"}[s.rng.Intn(3)], "key": M.Tag + "/k0", "value": "x"}
			p = M.api() + "raw"
		} else {
			q.Op = []logical.Operation{logical.ReadOperation, logical.UpdateOperation, logical.ListOperation}[s.rng.Intn(3)]
			p = M.api() + "data/" + M.Tag + "-k0"
			if q.Op == logical.UpdateOperation {
				q.Data = map[string]any{"v": "x"}
			}
		}
	case "kv":
		q.Op = logical.ReadOperation
		p = M.api() + M.Tag + "-k0"
	default:
		q.Op = logical.ReadOperation
		p = "cubbyhole/shared"
	}
	s.pickForm(q, M.NS, p)
	// Does the reference resolution of this spelling really end in a sealed namespace?
	// A namespace the core no longer knows (see unsealTree) does not capture its path:
	// the request then belongs to the parent namespace, where a mount at the same path
	// may legitimately exist, and it would be an ordinary request to that mount.
	if rns, _, _ := s.c12Resolve(q.Header, q.Path); rns == nil || !rns.effSealed() {
		s.r.Count("into_sealed_spellings_that_resolve_outside_the_sealed_namespace", 1)
		return
	}
	s.do(q)
	s.r.Count("requests_into_sealed_namespace", 1)
	s.checkSealedUntouched(q)
	handled, _ := q.handled()
	switch {
	case handled:
		s.violate("C12-sealed-namespace-access", fmt.Sprintf("while %q is sealed, %s %q (header %q) with token %s reached the backend of %s: %s", S.Path, q.Op, q.Path, q.Header, tok.Name, M, c12Short(q.outcome())), map[string]any{"request": q})
	case q.ok():
		s.violate("C12-sealed-namespace-request-served", fmt.Sprintf("while %q is sealed, %s %q (header %q) with token %s succeeded: %s", S.Path, q.Op, q.Path, q.Header, tok.Name, c12Short(q.outcome())), map[string]any{"request": q})
	}
	s.nontrivial(q, "into-sealed")
}

func (s *c12StorageRun) endSeal() {
	S := s.sealedNS
	if S.effSealed() && (S.Lost || S.Parent.effSealed()) {
		s.sealedNS = nil // not reachable any more (unknown to the core, or an ancestor is sealed)
		return
	}
	if !s.unsealTree(S) {
		// Observation outside C12: while a namespace is sealed its sys/ mount is not in
		// the router, so the parent may mount over the namespace's path; the namespace
		// then cannot be unsealed ("failed to setup mount table") until that mount is
		// gone. The namespace simply stays sealed in the model and is retried later.
		s.r.Count("namespace_unseal_failed", 1)
		if s.r.Get("namespace_unseal_failed") <= 2 {
			s.r.Note("[%s] unsealing %q failed (%s); the parent's mounts inside its path are removed and the unseal is retried", s.caseID, S.Path, c12Short(s.steps[len(s.steps)-1]))
		}
		for _, m := range s.mounts {
			if !m.Dead && m.Shadow != nil && m.Shadow.under(S) && !m.NS.effSealed() {
				s.unmount(m)
			}
		}
		if !s.unsealTree(S) {
			s.unsealAt = s.iter + 40
			return
		}
	}
	s.sealedNS = nil
	s.sync()
	s.shadowProbe()
	for _, m := range s.mounts {
		if m.NS != nil && m.NS.under(S) && !m.Dead {
			if old := s.lastPrefix[m.Accessor]; old != "" && old != m.Prefix {
				s.r.Count("mount_prefix_changed_by_seal_cycle", 1)
			}
		}
	}
	s.afterMut = 12
}

// mutate changes the topology.
func (s *c12StorageRun) mutate() {
	user := s.liveMounts(c12User)
	var open []*c12NS
	for _, n := range s.nss {
		if !n.effSealed() {
			open = append(open, n)
		}
	}
	switch s.rng.Intn(8) {
	case 7: // restart of the core: mount tables, views and namespaces are rebuilt from storage
		if s.sealedNS != nil || !s.rng.Chance(1, 2) {
			return
		}
		before := map[*c12Mount]string{}
		for _, m := range s.liveMounts(nil) {
			before[m] = m.Prefix
		}
		if s.restartCore() {
			s.afterMut = 12
			for m, p := range before {
				if !m.Dead && !m.NS.effSealed() && m.Prefix != p {
					s.r.Count("mount_prefix_changed_by_restart", 1)
				}
			}
		}
	case 0, 1: // mount, preferring a path that held a mount before
		n := open[s.rng.Intn(len(open))]
		p, auth := c12MountPaths[s.rng.Intn(len(c12MountPaths))], false
		var free []string
		for _, f := range s.freed {
			if strings.HasPrefix(f, n.Path+"|") {
				free = append(free, strings.TrimPrefix(f, n.Path+"|"))
			}
		}
		if len(free) > 0 && s.rng.Chance(3, 4) {
			p = free[s.rng.Intn(len(free))]
			if strings.HasPrefix(p, "auth/") {
				p, auth = strings.TrimPrefix(p, "auth/"), true
			}
		}
		if nm := s.mount(n, p, "verifrec", auth); nm != nil {
			s.afterMut = 12
			s.probeFresh(nm)
			s.writeCanary(nm, s.rootTok)
		}
	case 2: // unmount
		for _, m := range s.mounts {
			if !m.Dead && m.Shadow != nil && !m.NS.effSealed() {
				user = append(user, m)
			}
		}
		if len(user) > 3 {
			m := user[s.rng.Intn(len(user))]
			if s.unmount(m) {
				s.afterMut = 12
				for _, t := range s.toks {
					if t.Kind == "login" && t.NS == m.NS && m.Auth {
						t.Dead = true // tokens issued by an auth mount die with it
					}
				}
			}
		}
	case 3, 4: // remount inside the namespace or into another one
		if len(user) == 0 {
			return
		}
		m := user[s.rng.Intn(len(user))]
		dst := m.NS
		if s.rng.Chance(1, 2) && !m.Odd {
			dst = open[s.rng.Intn(len(open))]
		}
		to := fmt.Sprintf("moved%d/", s.rng.Intn(4))
		if s.rng.Chance(1, 3) {
			to = c12MountPaths[s.rng.Intn(len(c12MountPaths))]
		}
		// the core resolves the target string namespace-first: it may land in a child namespace
		real := s.root
		for _, n := range s.nss {
			if strings.HasPrefix(dst.Path+to, n.Path) && len(n.Path) > len(real.Path) {
				real = n
			}
		}
		if real != m.NS && m.Odd {
			return // see keepMovable
		}
		if s.remount(m, dst, to) {
			s.afterMut = 12
			if m.Auth {
				for _, t := range s.toks {
					if t.Kind == "login" {
						t.Dead = true
					}
				}
			}
		}
	default: // seal a sealable namespace for a while
		if s.sealedNS != nil {
			return
		}
		var cands []*c12NS
		for _, n := range s.nss {
			if n.Sealable && !n.effSealed() {
				cands = append(cands, n)
			}
		}
		if len(cands) == 0 {
			return
		}
		S := cands[s.rng.Intn(len(cands))]
		s.lastPrefix = map[string]string{}
		for _, m := range s.mounts {
			if !m.Dead {
				s.lastPrefix[m.Accessor] = m.Prefix
			}
		}
		if s.sealNS(S) {
			s.sealedNS = S
			s.unsealAt = s.iter + 25 + s.rng.Intn(25)
			if s.shadowAttempts && s.rng.Chance(1, 2) && !S.Parent.effSealed() {
				// hostile topology: the parent mounts inside the path of the sealed namespace
				s.r.Count("topology_conflict_attempts", 1)
				p := S.Name + "/" + []string{"shadow/", "m/", "eng/"}[s.rng.Intn(3)]
				if s.rng.Chance(1, 6) {
					p = S.Name + "/"
				}
				s.mount(S.Parent, p, "verifrec", false)
			}
			for i := 0; i < 4; i++ {
				s.intoSealed()
			}
		}
	}
}

// probeFresh: a mount that was just created must not show anything.
func (s *c12StorageRun) probeFresh(M *c12Mount) {
	for _, k := range []string{"", "d/", "d/data/", M.Tag + "/"} {
		q := &c12Req{Kind: "fresh-probe", Op: logical.UpdateOperation, Tok: s.rootTok, N: M.NS, M: M, Marker: M.Tag, RawCall: "list", RawKey: k, KeyKind: "fresh"}
		q.Data = map[string]any{"call": "list", "key": k}
		q.Form, q.Header, q.Path = "header", M.NS.Path, M.api()+"raw"
		s.do(q)
		s.checkStorage(q)
		if q.ok() && q.resp != nil {
			if names, _ := q.resp.Data["keys"].([]string); len(names) > 0 {
				s.violate("C12-fresh-mount-not-empty", fmt.Sprintf("the newly created mount %s lists %v under %q", M, names, k), map[string]any{"request": q})
			}
			s.r.Count("fresh_mount_probes", 1)
		}
		s.scanResponse(q, false)
	}
	for _, f := range s.freed {
		if f == M.NS.Path+"|"+M.api() {
			s.nontrivial(&c12Req{Kind: "fresh-probe", M: M, N: M.NS}, "path-reuse")
		}
	}
}

// shadowProbe: a mount of a parent namespace whose path lies inside the path of
// a child namespace (accepted by the core only while that child was sealed).
// Requests to the path resolve to the child namespace; if the parent's mount
// serves a token of the child namespace, the child's tokens reach a mount (and
// its storage) that belongs to the parent namespace.
func (s *c12StorageRun) shadowProbe() {
	for _, M := range s.mounts {
		D := M.Shadow
		if M.Dead || D == nil || D.effSealed() || M.NS.effSealed() || M.Type != "verifrec" {
			continue
		}
		if !M.shadowSealed {
			// the namespace re-appeared after a restart (it had been unknown to the core
			// when the mount was made): different root cause, not probed
			s.r.Count("mounts_inside_path_of_a_namespace_that_was_unknown_to_the_core", 1)
			continue
		}
		tok := s.all[D]
		if tok == nil || tok.Dead {
			continue
		}
		rel := strings.TrimPrefix(M.NS.Path+M.api(), D.Path)
		q := &c12Req{Kind: "shadow-probe", Op: logical.UpdateOperation, Tok: tok, N: D, M: M, Marker: M.Tag, RawCall: "put", RawKey: M.Tag + "/by-child", KeyKind: "plain",
			Form: "header", Header: D.Path, Path: rel + "raw", Data: map[string]any{"call": "put", "key": M.Tag + "/by-child", "value": "x"}}
		s.do(q)
		s.r.Count("shadow_mount_probes", 1)
		inside, _ := s.checkStorage(q)
		handled, at := q.handled()
		// the put must have landed in storage of the parent namespace's mount, outside
		// the storage of the child namespace
		genuine := inside > 0 && strings.HasPrefix(M.Prefix, M.NS.Prefix) && !strings.HasPrefix(M.Prefix, D.Prefix)
		if handled && !genuine {
			s.r.Count("shadow_mount_probes_ambiguous", 1)
			continue
		}
		if handled && at == M.NS.Path+M.api() && !M.shadowReported {
			M.shadowReported = true
			s.violate("C12-mount-inside-sealed-namespace-path-served-to-child-token",
				fmt.Sprintf("mount %s belongs to namespace %q (storage %q) but was accepted at a path inside namespace %q while that namespace was sealed; after unsealing, token %s of namespace %q (policy path \"*\" of %q only) was served %s %q (header %q) by it and wrote into its storage",
					M, M.NS.Path, M.Prefix, D.Path, tok.Name, D.Path, D.Path, q.Op, q.Path, q.Header),
				map[string]any{"request": q, "mount_namespace": M.NS.Path, "request_namespace": D.Path, "physical_ops": c12Events(q.events)})
		} else if !handled {
			s.r.Count("shadow_mount_probes_refused", 1)
		}
	}
}

func c12Events(evs []kit.Event) []string {
	var out []string
	for i, e := range evs {
		if i >= 40 {
			break
		}
		out = append(out, e.String())
	}
	return out
}
