//go:build verif

package vault

// C12 monitor 6: policies that reach a token through identity.
//
// "A policy grants access only inside the namespace it is defined in and below,
// so (with the default group-policy application mode) a token authorises
// requests only in its own namespace and its descendants." A policy can reach a
// token by four routes: the token's own policy list, the policies of its entity,
// the policies of a group the entity is a member of, and the policies of a group
// that has such a group as a member (nesting). With the shared identity mode
// (unsafe_cross_namespace_identity) group membership crosses namespaces. Policies
// may be TEMPLATED with identity values; the rendered paths are paths of the
// namespace the policy is defined in.
//
// Reference (from the documentation: concepts/policies "Templated policies",
// concepts/namespaces, sys/config/group-policy-application): whatever the route,
// a policy defined in namespace P grants a request in namespace T only if T is P
// or lies below P and a path of the policy, rendered with the token's entity and
// read relative to P, matches; a group's policies apply to a token of namespace X
// only if P is X or lies below X (mode within_namespace_hierarchy, the default);
// mode "any" drops that second condition only.

import (
	"fmt"
	"sort"
	"strings"
	"testing"

	kit "github.com/openbao/openbao/sdk/v2/helper/verifkit"
	"github.com/openbao/openbao/sdk/v2/logical"
)

const (
	c12ClsTpl = "C12-templated-policy-granted-outside-its-namespace"
	c12ClsAnc = "C12-ancestor-group-policy-applied-to-descendant-token"
)

var c12IKinds = []string{"plain", "tpl", "tpl2", "nest"}

func TestVerif_C12_IdentityPolicies(t *testing.T) {
	seed := kit.Seed(12)
	shard, shards := kit.Shard()
	r := kit.NewResult(t, "c12-identity-policies", seed,
		"generated worlds booted with the shared identity mode (UnsafeCrossNamespaceIdentity; three of four) and without; every namespace defines the equally named policies idp-plain (plain paths incl. a '+' path into child namespaces and a sys/ path), idp-tpl ({{identity.entity.name}}, {{identity.entity.id}}, {{identity.entity.metadata.team}}), idp-tpl2 ({{identity.entity.aliases.<accessor of the namespace's auth mount>.name}}, {{identity.groups.names.<group of the namespace>.id}}) and idp-nest (plain + templated), has two entities created by logging in through its recording auth mount with an alias (named, with metadata, with a random subset of the namespace's policies as entity policies), three groups carrying one policy each with random members from every namespace (own namespace only without the shared mode; foreign members are attempted and counted) and a group carrying idp-nest whose members are groups of any namespace; every entity gets tokens with and without own token policies; then every token x every namespace x every target path the policies can render to for that entity (and for another entity) is requested in a random spelling of the namespace, first in the default group-policy application mode, then in mode 'any'; the reference authoriser written from the documentation predicts whether the backend handler may run; a cell is non-trivial when the token's namespace differs from the request namespace or a policy of another namespace reaches the token")
	defer r.Write(t)
	topos := kit.N(4, 64)
	for ti := 0; ti < topos; ti++ {
		if ti%shards != shard {
			continue
		}
		caseID := fmt.Sprintf("identity:%d", ti)
		if !kit.WantCase(caseID) {
			continue
		}
		rng := kit.NewRand(seed, 0x12500+uint64(ti))
		// the policy cache and the physical cache are on except in every fourth world
		c12IdentityCase(t, r, rng, caseID, (ti/2)%2 == 1, ti%4 != 3, ti%4 != 1)
		if c12Generic(r) > 30 {
			break
		}
	}
	// minimums: about half of what one quick seed shows (the kit enforces a third of them)
	r.Require("identity_cells", 3000)
	r.Require("identity_cells:default", 2000)
	r.Require("identity_cells:any", 1000)
	r.Require("worlds_with_shared_identity", 2)
	r.Require("worlds_with_isolated_identity", 1)
	r.Require("groups_with_member_of_other_namespace", 100)
	r.Require("foreign_members_refused_without_shared_identity", 10)
	r.Require("nested_groups_with_member_group_of_other_namespace", 20)
	r.Require("aliases_of_an_entity_on_a_mount_of_another_namespace_refused", 20)
	r.Require("expected_allowed_and_served", 1200)
	r.Require("expected_denied_and_refused", 2000)
	r.Require("served_through:token", 100)
	r.Require("served_through:entity", 100)
	r.Require("served_through:group", 600)
	r.Require("served_through:nested", 300)
	r.Require("served_by_templated_policy", 600)
	r.Require("served_by_policy_of_a_namespace_below_the_tokens", 300)
	r.Require("served_by_templated_policy_of_a_namespace_below_the_tokens", 200)
	r.Require("refused_cells_where_only_an_ancestor_groups_policy_would_grant", 250)
	r.Require("refused_cells_where_a_templated_policy_moved_to_the_tokens_namespace_would_grant", 100)
	r.Require("refused_cells_where_only_an_unrelated_groups_policy_would_grant", 400)
	r.Require("any_mode_served_outside_the_tokens_hierarchy", 300)
	r.Require("refused_other_entitys_rendered_path", 200)
	r.Require("phys_ops_checked", 10000)
}

// ---------------------------------------------------------------- model

type c12IEnt struct {
	Name     string            `json:"name"`
	ID       string            `json:"id"`
	Team     string            `json:"team"`
	NS       *c12NS            `json:"-"`
	NSPath   string            `json:"ns"`
	Alias    map[*c12NS]string `json:"-"` // alias name on the auth mount of that namespace
	EntKinds []string          `json:"entity_policies,omitempty"`
}

type c12IGroup struct {
	Name   string       `json:"name"`
	ID     string       `json:"id"`
	NS     *c12NS       `json:"-"`
	NSPath string       `json:"ns"`
	Kind   string       `json:"policy"`
	Ents   []*c12IEnt   `json:"-"`
	Subs   []*c12IGroup `json:"-"`
	EntN   []string     `json:"member_entities,omitempty"`
	SubN   []string     `json:"member_groups,omitempty"`
}

type c12ITok struct {
	*c12Tok
	Ent      *c12IEnt
	TokKinds []string
}

// c12IRoute: a policy (kind) defined in P that reaches a token.
type c12IRoute struct {
	P     *c12NS
	Kind  string
	Route string // token | entity | group | nested
	Via   string
}

type c12INS struct {
	NS     *c12NS
	idx    int
	Rec    *c12Mount
	Auth   *c12Mount
	Ents   []*c12IEnt
	Groups map[string]*c12IGroup // by kind
}

type c12IRun struct {
	*c12World
	shared bool
	order  []*c12INS
	of     map[*c12NS]*c12INS
	ents   []*c12IEnt
	groups []*c12IGroup
	itoks  []*c12ITok
}

// hasEnt: e is a member of g, directly or through member groups.
func (g *c12IGroup) hasEnt(e *c12IEnt, seen map[*c12IGroup]bool) (member, direct bool) {
	if seen[g] {
		return false, false
	}
	seen[g] = true
	for _, x := range g.Ents {
		if x == e {
			return true, true
		}
	}
	for _, sg := range g.Subs {
		if m, _ := sg.hasEnt(e, seen); m {
			return true, false
		}
	}
	return false, false
}

// routes: every policy that reaches the token, by any route, before the
// application mode is considered.
func (s *c12IRun) routes(tk *c12ITok) []c12IRoute {
	var out []c12IRoute
	for _, k := range tk.TokKinds {
		out = append(out, c12IRoute{P: tk.NS, Kind: k, Route: "token", Via: "token policy"})
	}
	for _, k := range tk.Ent.EntKinds {
		out = append(out, c12IRoute{P: tk.Ent.NS, Kind: k, Route: "entity", Via: "policy of entity " + tk.Ent.Name})
	}
	for _, g := range s.groups {
		m, direct := g.hasEnt(tk.Ent, map[*c12IGroup]bool{})
		if !m {
			continue
		}
		route := "group"
		if !direct {
			route = "nested"
		}
		out = append(out, c12IRoute{P: g.NS, Kind: g.Kind, Route: route, Via: "group " + g.Name + " of " + fmt.Sprintf("%q", g.NS.Path)})
	}
	return out
}

// applies: does the route hand its policy to the token in the given mode?
func (rt c12IRoute) applies(tk *c12ITok, mode string) bool {
	switch rt.Route {
	case "token", "entity":
		return true
	}
	return mode == "any" || rt.P.under(tk.NS)
}

func c12ITemplated(kind, pattern string) bool {
	switch kind {
	case "tpl", "tpl2":
		return true
	case "nest":
		return strings.Contains(pattern, "/nestname/")
	}
	return false
}

// patterns: the paths of policy idp-<kind> of namespace P rendered for entity
// e, relative to P.
func (s *c12IRun) patterns(P *c12NS, kind string, e *c12IEnt) []string {
	switch kind {
	case "plain":
		return []string{"idm/data/idp/plain/*", "+/idm/data/idp/kid/*", "sys/policies/acl/idp-plain"}
	case "tpl":
		return []string{"idm/data/idp/name/" + e.Name + "/*", "idm/data/idp/id/" + e.ID + "/*", "idm/data/idp/meta/" + e.Team + "/*"}
	case "tpl2":
		var out []string
		if a := e.Alias[P]; a != "" {
			out = append(out, "idm/data/idp/alias/"+a+"/*")
		}
		if g := s.of[P].Groups["tpl2"]; g != nil {
			if m, _ := g.hasEnt(e, map[*c12IGroup]bool{}); m {
				out = append(out, "idm/data/idp/group/"+g.ID+"/*")
			}
		}
		return out
	case "nest":
		return []string{"idm/data/idp/nest/*", "idm/data/idp/nestname/" + e.Name + "/*"}
	}
	return nil
}

func (s *c12IRun) policyText(n *c12INS, kind string) string {
	caps := ` { capabilities = ["create","read","update","delete","list"] }` + "\n"
	var sb strings.Builder
	switch kind {
	case "plain":
		for _, p := range []string{"idm/data/idp/plain/*", "+/idm/data/idp/kid/*", "sys/policies/acl/idp-plain"} {
			fmt.Fprintf(&sb, "path %q%s", p, caps)
		}
	case "tpl":
		for _, p := range []string{"idm/data/idp/name/{{identity.entity.name}}/*", "idm/data/idp/id/{{identity.entity.id}}/*", "idm/data/idp/meta/{{identity.entity.metadata.team}}/*"} {
			fmt.Fprintf(&sb, "path %q%s", p, caps)
		}
	case "tpl2":
		fmt.Fprintf(&sb, "path %q%s", "idm/data/idp/alias/{{identity.entity.aliases."+n.Auth.Accessor+".name}}/*", caps)
		fmt.Fprintf(&sb, "path %q%s", "idm/data/idp/group/{{identity.groups.names.g-tpl2-"+fmt.Sprint(n.idx)+".id}}/*", caps)
	case "nest":
		for _, p := range []string{"idm/data/idp/nest/*", "idm/data/idp/nestname/{{identity.entity.name}}/*"} {
			fmt.Fprintf(&sb, "path %q%s", p, caps)
		}
	}
	return sb.String()
}

// expected: the reference authoriser. Returns the route that grants.
func (s *c12IRun) expected(tk *c12ITok, T *c12NS, rel, mode string) (bool, *c12IRoute, string) {
	full := T.Path + rel
	for _, rt := range s.routes(tk) {
		if !rt.applies(tk, mode) || !T.under(rt.P) {
			continue
		}
		for _, pat := range s.patterns(rt.P, rt.Kind, tk.Ent) {
			if c12Match(rt.P.Path+pat, full) {
				rt := rt
				return true, &rt, pat
			}
		}
	}
	return false, nil, ""
}

// ---------------------------------------------------------------- the case

func c12IdentityCase(t *testing.T, r *kit.Result, rng *kit.Rand, caseID string, transactional, shared, cache bool) {
	if shared {
		// the core option behind unsafe_cross_namespace_identity; NewCore only copies it from the config
		c12AfterBoot = func(v *vCore) { v.Core.unsafeCrossNamespaceIdentity = true }
	}
	w := c12Build(t, r, rng, caseID, transactional, cache)
	c12AfterBoot = nil
	defer w.v.Close()
	if cache {
		r.Count("worlds_with_policy_and_physical_cache", 1)
	}
	if w.v.Core.UnsafeCrossNamespaceIdentity() != shared {
		t.Fatalf("verif: shared identity mode is %v, wanted %v", w.v.Core.UnsafeCrossNamespaceIdentity(), shared)
	}
	if shared {
		r.Count("worlds_with_shared_identity", 1)
	} else {
		r.Count("worlds_with_isolated_identity", 1)
	}
	if m, err := w.v.Core.GetGroupPolicyApplicationMode(c12RootCtx()); err != nil || m != groupPolicyApplicationModeWithinNamespaceHierarchy {
		t.Fatalf("verif: the default group policy application mode is %q (%v)", m, err)
	}
	s := &c12IRun{c12World: w, shared: shared, of: map[*c12NS]*c12INS{}}
	if hx := w.createNS(w.root, "hx", false); hx != nil && len(w.nss) < 8 {
		w.createNS(hx, "hy", false)
	}
	w.sync()
	s.setup()
	s.matrix("default")
	if err := w.v.Core.SetGroupPolicyApplicationMode(c12RootCtx(), "any"); err != nil {
		r.Inconc("[%s] cannot switch the group policy application mode: %v", caseID, err)
	} else {
		s.matrix("any")
		if err := w.v.Core.SetGroupPolicyApplicationMode(c12RootCtx(), groupPolicyApplicationModeWithinNamespaceHierarchy); err != nil {
			t.Fatalf("verif: cannot restore the group policy application mode: %v", err)
		}
	}
	r.Eval(1)
	r.Sample(map[string]any{"case": caseID, "shared_identity": shared, "namespaces": w.nss, "entities": s.ents, "groups": s.groups})
}

func (s *c12IRun) setup() {
	idx := 0
	for _, n := range append([]*c12NS(nil), s.nss...) {
		if n.effSealed() {
			continue
		}
		idx++
		x := &c12INS{NS: n, idx: idx, Groups: map[string]*c12IGroup{}}
		x.Rec = s.mount(n, "idm/", "verifrec", false)
		x.Auth = s.mount(n, "idauth/", "verifrec", true)
		if x.Rec == nil || x.Auth == nil {
			s.t.Fatalf("verif: cannot create the mounts of %q", n.Path)
		}
		s.of[n] = x
		s.order = append(s.order, x)
	}
	// policies and entities
	for _, x := range s.order {
		for _, k := range c12IKinds {
			s.v.Policy("idp-"+k, s.policyText(x, k), x.NS.Path)
		}
		for j := 0; j < 2; j++ {
			e := &c12IEnt{Name: fmt.Sprintf("e%dx%d", x.idx, j), Team: fmt.Sprintf("t%dx%d", x.idx, j), NS: x.NS, NSPath: x.NS.Path, Alias: map[*c12NS]string{}}
			e.Alias[x.NS] = fmt.Sprintf("al%dx%d", x.idx, j)
			resp, err := s.v.Do(vReq{Op: logical.UpdateOperation, Path: "auth/idauth/login/" + e.Name, NS: x.NS.Path, Data: map[string]any{"alias": e.Alias[x.NS], "no_default_policy": true, "ttl": "1h"}})
			if !vOK(resp, err) || resp == nil || resp.Auth == nil || resp.Auth.EntityID == "" {
				s.t.Fatalf("verif: login in %q gave no entity: %s", x.NS.Path, vErrStr(resp, err))
			}
			e.ID = resp.Auth.EntityID
			for _, k := range []string{"plain", "tpl", "tpl2", "nest"} {
				if s.rng.Chance(1, 5) {
					e.EntKinds = append(e.EntKinds, k)
				}
			}
			var pols []string
			for _, k := range e.EntKinds {
				pols = append(pols, "idp-"+k)
			}
			s.v.MustDo(vReq{Op: logical.UpdateOperation, Path: "identity/entity/id/" + e.ID, Token: s.v.Root, NS: x.NS.Path,
				Data: map[string]any{"name": e.Name, "metadata": map[string]any{"team": e.Team}, "policies": pols}})
			x.Ents = append(x.Ents, e)
			s.ents = append(s.ents, e)
		}
	}
	// an entity cannot get an alias (and so a token) in another namespace
	for _, x := range s.order {
		for _, y := range s.order {
			if x == y || !s.rng.Chance(1, 3) {
				continue
			}
			e := x.Ents[0]
			resp, err := s.v.Do(vReq{Op: logical.UpdateOperation, Path: "identity/entity-alias", Token: s.v.Root, NS: y.NS.Path,
				Data: map[string]any{"name": fmt.Sprintf("xal%dx%d", x.idx, y.idx), "canonical_id": e.ID, "mount_accessor": y.Auth.Accessor}})
			if vOK(resp, err) {
				s.r.Count("aliases_of_an_entity_on_a_mount_of_another_namespace_accepted", 1)
				e.Alias[y.NS] = fmt.Sprintf("xal%dx%d", x.idx, y.idx)
			} else {
				s.r.Count("aliases_of_an_entity_on_a_mount_of_another_namespace_refused", 1)
			}
		}
	}
	// groups: one per policy kind and namespace
	for _, x := range s.order {
		for _, k := range []string{"plain", "tpl", "tpl2"} {
			g := &c12IGroup{Name: fmt.Sprintf("g-%s-%d", k, x.idx), NS: x.NS, NSPath: x.NS.Path, Kind: k}
			var want []*c12IEnt
			for _, e := range s.ents {
				switch {
				case e.NS == x.NS:
					if s.rng.Chance(1, 3) {
						want = append(want, e)
					}
				case s.rng.Chance(2, 5):
					want = append(want, e)
				}
			}
			s.createGroup(x, g, want, nil)
			x.Groups[k] = g
			s.groups = append(s.groups, g)
		}
	}
	// nesting: a group carrying idp-nest whose members are groups
	base := append([]*c12IGroup(nil), s.groups...)
	for _, x := range s.order {
		g := &c12IGroup{Name: fmt.Sprintf("g-nest-%d", x.idx), NS: x.NS, NSPath: x.NS.Path, Kind: "nest"}
		var subs []*c12IGroup
		for _, b := range base {
			if (b.NS == x.NS && s.rng.Chance(1, 3)) || (b.NS != x.NS && s.rng.Chance(1, 5)) {
				subs = append(subs, b)
			}
		}
		s.createGroup(x, g, nil, subs)
		x.Groups["nest"] = g
		s.groups = append(s.groups, g)
	}
	// tokens
	for _, e := range s.ents {
		for j := 0; j < 2; j++ {
			var kinds []string
			if j == 1 {
				for _, k := range []string{"plain", "tpl", "nest"} {
					if s.rng.Chance(1, 3) {
						kinds = append(kinds, k)
					}
				}
			}
			var pols []string
			for _, k := range kinds {
				pols = append(pols, "idp-"+k)
			}
			resp, err := s.v.Do(vReq{Op: logical.UpdateOperation, Path: "auth/idauth/login/" + e.Name, NS: e.NS.Path, Data: map[string]any{"alias": e.Alias[e.NS], "no_default_policy": true, "ttl": "1h", "policies": pols}})
			if !vOK(resp, err) || resp == nil || resp.Auth == nil || resp.Auth.EntityID != e.ID {
				s.t.Fatalf("verif: second login of %s in %q: %s", e.Name, e.NS.Path, vErrStr(resp, err))
			}
			tk := &c12ITok{c12Tok: &c12Tok{Name: fmt.Sprintf("%s#%d@%s", e.Name, j, e.NS.Path), ID: resp.Auth.ClientToken, NS: e.NS, NSPath: e.NS.Path, Kind: "identity"}, Ent: e, TokKinds: kinds}
			s.itoks = append(s.itoks, tk)
		}
		// tokens of the entity in the namespaces where it was given an alias
		for _, y := range s.order {
			if y.NS == e.NS || e.Alias[y.NS] == "" {
				continue
			}
			resp, err := s.v.Do(vReq{Op: logical.UpdateOperation, Path: "auth/idauth/login/" + e.Name, NS: y.NS.Path, Data: map[string]any{"alias": e.Alias[y.NS], "no_default_policy": true, "ttl": "1h"}})
			if vOK(resp, err) && resp != nil && resp.Auth != nil && resp.Auth.EntityID == e.ID {
				s.r.Count("tokens_of_an_entity_issued_in_another_namespace", 1)
				s.itoks = append(s.itoks, &c12ITok{c12Tok: &c12Tok{Name: fmt.Sprintf("%s#x@%s", e.Name, y.NS.Path), ID: resp.Auth.ClientToken, NS: y.NS, NSPath: y.NS.Path, Kind: "identity"}, Ent: e})
			}
		}
	}
	s.step("identity estate: %d entities, %d groups, %d tokens (shared identity %v)", len(s.ents), len(s.groups), len(s.itoks), s.shared)
}

// createGroup creates g in x with the wanted members; what the core stored is
// read back and is what the reference works with.
func (s *c12IRun) createGroup(x *c12INS, g *c12IGroup, ents []*c12IEnt, subs []*c12IGroup) {
	ids := func(es []*c12IEnt, own bool) []string {
		out := []string{}
		for _, e := range es {
			if !own || e.NS == x.NS {
				out = append(out, e.ID)
			}
		}
		return out
	}
	gids := func(gs []*c12IGroup, own bool) []string {
		out := []string{}
		for _, o := range gs {
			if !own || o.NS == x.NS {
				out = append(out, o.ID)
			}
		}
		return out
	}
	data := map[string]any{"name": g.Name, "policies": []string{"idp-" + g.Kind}, "member_entity_ids": ids(ents, false), "member_group_ids": gids(subs, false)}
	resp, err := s.v.Do(vReq{Op: logical.UpdateOperation, Path: "identity/group", Token: s.v.Root, NS: x.NS.Path, Data: data})
	foreign := len(ids(ents, false)) > len(ids(ents, true)) || len(gids(subs, false)) > len(gids(subs, true))
	if !vOK(resp, err) {
		if !foreign {
			s.t.Fatalf("verif: cannot create group %s in %q: %s", g.Name, x.NS.Path, vErrStr(resp, err))
		}
		if s.shared {
			s.r.Count("foreign_members_refused_with_shared_identity", 1)
		} else {
			s.r.Count("foreign_members_refused_without_shared_identity", 1)
		}
		s.step("group %s in %q with members of other namespaces refused: %s", g.Name, x.NS.Path, c12Short(vErrStr(resp, err)))
		data["member_entity_ids"], data["member_group_ids"] = ids(ents, true), gids(subs, true)
		resp = s.v.MustDo(vReq{Op: logical.UpdateOperation, Path: "identity/group", Token: s.v.Root, NS: x.NS.Path, Data: data})
	}
	if resp != nil {
		g.ID, _ = resp.Data["id"].(string)
	}
	if g.ID == "" {
		s.t.Fatalf("verif: group %s in %q has no id", g.Name, x.NS.Path)
	}
	rb := s.v.MustDo(vReq{Op: logical.ReadOperation, Path: "identity/group/id/" + g.ID, Token: s.v.Root, NS: x.NS.Path})
	strs := func(v any) []string {
		var out []string
		switch xs := v.(type) {
		case []string:
			out = xs
		case []any:
			for _, y := range xs {
				out = append(out, fmt.Sprint(y))
			}
		}
		return out
	}
	for _, id := range strs(rb.Data["member_entity_ids"]) {
		for _, e := range s.ents {
			if e.ID == id {
				g.Ents = append(g.Ents, e)
				g.EntN = append(g.EntN, e.Name)
				if e.NS != x.NS {
					s.r.Count("groups_with_member_of_other_namespace", 1)
				}
			}
		}
	}
	for _, id := range strs(rb.Data["member_group_ids"]) {
		for _, o := range s.groups {
			if o.ID == id {
				g.Subs = append(g.Subs, o)
				g.SubN = append(g.SubN, o.Name)
				if o.NS != x.NS {
					s.r.Count("nested_groups_with_member_group_of_other_namespace", 1)
				}
			}
		}
	}
	sort.Strings(g.EntN)
	sort.Strings(g.SubN)
}

// targets: the request paths (relative to a namespace) the policies can render
// to for the token's entity, one another entity's policies would render to, and
// one no policy names.
func (s *c12IRun) targets(tk *c12ITok) []string {
	e := tk.Ent
	other := s.ents[(c12IndexOf(s.ents, e)+1+s.rng.Intn(len(s.ents)-1))%len(s.ents)]
	out := []string{
		"idm/data/idp/plain/k", "idm/data/idp/kid/k", "sys/policies/acl/idp-plain",
		"idm/data/idp/name/" + e.Name + "/k", "idm/data/idp/id/" + e.ID + "/k", "idm/data/idp/meta/" + e.Team + "/k",
		"idm/data/idp/nest/k", "idm/data/idp/nestname/" + e.Name + "/k",
		"idm/data/idp/name/" + other.Name + "/k", "idm/data/idp/id/" + other.ID + "/k",
		"idm/data/idp/other/k",
	}
	var al []string
	for _, x := range s.order {
		if a := e.Alias[x.NS]; a != "" {
			al = append(al, "idm/data/idp/alias/"+a+"/k")
		}
	}
	out = append(out, al...)
	n := 0
	for _, x := range s.order {
		if g := x.Groups["tpl2"]; g != nil && n < 3 {
			if m, _ := g.hasEnt(e, map[*c12IGroup]bool{}); m {
				out = append(out, "idm/data/idp/group/"+g.ID+"/k")
				n++
			}
		}
	}
	return out
}

func c12IndexOf(es []*c12IEnt, e *c12IEnt) int {
	for i, x := range es {
		if x == e {
			return i
		}
	}
	return 0
}

func (s *c12IRun) matrix(mode string) {
	for _, tk := range s.itoks {
		routes := s.routes(tk)
		for _, rel := range s.targets(tk) {
			for _, tx := range s.order {
				s.cell(mode, tk, routes, tx, rel)
			}
			if s.failed && c12Generic(s.r) > 25 {
				return
			}
		}
	}
}

func (s *c12IRun) cell(mode string, tk *c12ITok, routes []c12IRoute, tx *c12INS, rel string) {
	T := tx.NS
	X := tk.NS
	expected, by, pat := s.expected(tk, T, rel, mode)
	full := T.Path + rel

	// what else would grant the cell: an ancestor's / unrelated namespace's group
	// policy if it were applied, a templated policy if it were read relative to
	// the token's namespace
	var anc, unrel, moved *c12IRoute
	for i := range routes {
		rt := &routes[i]
		for _, p := range s.patterns(rt.P, rt.Kind, tk.Ent) {
			if !rt.applies(tk, "default") && T.under(rt.P) && c12Match(rt.P.Path+p, full) {
				if X.under(rt.P) {
					anc = rt
				} else {
					unrel = rt
				}
			}
			if rt.applies(tk, mode) && rt.P != X && c12ITemplated(rt.Kind, p) && c12Match(X.Path+p, full) {
				moved = rt
			}
		}
	}
	// every cell in which some policy reaching the token is involved is run; of
	// the others (refused, and nothing near) a sample
	dull := !expected && anc == nil && unrel == nil && moved == nil
	if (dull && !s.rng.Chance(1, 5)) || (mode == "any" && !s.rng.Chance(1, 2)) {
		s.r.Count("cells_not_sampled", 1)
		return
	}
	var M *c12Mount
	if strings.HasPrefix(rel, "idm/") {
		M = tx.Rec
	}
	q := &c12Req{Kind: "identity:" + mode, Op: logical.ReadOperation, Tok: tk.c12Tok, N: T, M: M}
	if M != nil {
		q.Marker = M.Tag
	}
	s.pickForm(q, T, rel)
	s.do(q)
	s.checkPhys(q, tk, routes, mode)
	s.r.Count("identity_cells", 1)
	s.r.Count("identity_cells:"+mode, 1)
	handled, at := q.handled()
	served := handled
	if M == nil {
		served = q.ok() && q.resp != nil && len(q.resp.Data) > 0
	}
	foreignRoute := false
	for _, rt := range routes {
		foreignRoute = foreignRoute || rt.P != X
	}
	if X != T || foreignRoute {
		s.r.Eval(1)
		kind := strings.SplitN(strings.TrimPrefix(rel, "idm/data/idp/"), "/", 2)[0]
		s.r.Nontrivial(fmt.Sprintf("identity|%s|%v|%s|%s|%v|%v|%v|%v|%s", mode, s.shared, c12Rel(X, T), kind, expected, anc != nil, unrel != nil, moved != nil, q.Form))
	}
	ev := map[string]any{"request": q, "mode": mode, "shared_identity": s.shared, "token": tk.Name, "token_namespace": X.Path, "request_namespace": T.Path,
		"entity": tk.Ent, "token_policies": tk.TokKinds, "policies_reaching_the_token": c12IRoutesStr(routes), "outcome": c12Short(q.outcome()), "expected_served": expected}
	switch {
	case served && !expected:
		class, why := "C12-access-without-policy", fmt.Sprintf("no policy that reaches the token grants %q", full)
		switch {
		case mode == "default" && anc != nil:
			class = c12ClsAnc
			why = fmt.Sprintf("the only grant is idp-%s of namespace %q, reaching the token through %s; %q is an ancestor of the token's namespace %q, and in mode within_namespace_hierarchy a group's policies apply only at or below the token's namespace", anc.Kind, anc.P.Path, anc.Via, anc.P.Path, X.Path)
		case moved != nil:
			class = c12ClsTpl
			why = fmt.Sprintf("the templated policy idp-%s is defined in namespace %q (reaching the token through %s) and renders to paths of %q; the request was granted as if it rendered to paths of the token's namespace %q", moved.Kind, moved.P.Path, moved.Via, moved.P.Path, X.Path)
		case !T.under(X) && mode == "default":
			class = "C12-cross-namespace-access"
			why = fmt.Sprintf("policies reaching a token of %q grant nothing in %q", X.Path, T.Path)
		}
		s.violate(class, fmt.Sprintf("[%s%s] token %s (entity %s of %q) was served read %q header %q in namespace %q: %s; outcome %s", mode, map[bool]string{true: ", shared identity"}[s.shared], tk.Name, tk.Ent.Name, tk.Ent.NS.Path, q.Path, q.Header, T.Path, why, c12Short(q.outcome())), ev)
	case !served && expected:
		if mode == "any" && !by.applies(tk, "default") {
			// the documentation says mode 'any' widens; not a confinement question
			s.r.Count("any_mode_expected_wider_but_refused", 1)
			return
		}
		s.r.Count("cells_expected_allowed_but_refused", 1)
		s.r.Inconc("[%s %s] reference expects token %s to be served %q in %q through idp-%s of %q (%s, pattern %q) but it was refused: %s", s.caseID, mode, tk.Name, rel, T.Path, by.Kind, by.P.Path, by.Via, pat, c12Short(q.outcome()))
	case served:
		s.r.Count("expected_allowed_and_served", 1)
		s.r.Count("served_through:"+by.Route, 1)
		if handled && M != nil && at != T.Path+M.api() {
			s.violate("C12-misrouted-request", fmt.Sprintf("read %q header %q addressed to %s was handled by the mount at %q", q.Path, q.Header, M, at), ev)
		}
		if c12ITemplated(by.Kind, pat) {
			s.r.Count("served_by_templated_policy", 1)
		}
		if by.P != X && by.P.under(X) {
			s.r.Count("served_by_policy_of_a_namespace_below_the_tokens", 1)
			if c12ITemplated(by.Kind, pat) {
				s.r.Count("served_by_templated_policy_of_a_namespace_below_the_tokens", 1)
			}
		}
		if mode == "any" && !T.under(X) {
			s.r.Count("any_mode_served_outside_the_tokens_hierarchy", 1)
		}
	default:
		s.r.Count("expected_denied_and_refused", 1)
		if mode == "default" && anc != nil {
			s.r.Count("refused_cells_where_only_an_ancestor_groups_policy_would_grant", 1)
		}
		if mode == "default" && unrel != nil {
			s.r.Count("refused_cells_where_only_an_unrelated_groups_policy_would_grant", 1)
		}
		if moved != nil {
			s.r.Count("refused_cells_where_a_templated_policy_moved_to_the_tokens_namespace_would_grant", 1)
		}
		if strings.Contains(rel, "/idp/name/") && !strings.Contains(rel, "/"+tk.Ent.Name+"/") || strings.Contains(rel, "/idp/id/") && !strings.Contains(rel, "/"+tk.Ent.ID+"/") {
			s.r.Count("refused_other_entitys_rendered_path", 1)
		}
	}
}

// checkPhys: the physical operations of the request stay inside the addressed
// mount and the core-owned storage of the request's and the token's namespaces
// and their ancestors, except that building the token's ACL reads the policies
// (sys/policy/) of the namespaces of the groups the token's entity belongs to.
func (s *c12IRun) checkPhys(q *c12Req, tk *c12ITok, routes []c12IRoute, mode string) {
	for _, e := range q.events {
		switch e.Op {
		case "get", "put", "delete", "list", "listpage":
		default:
			continue
		}
		s.r.Count("phys_ops_checked", 1)
		ck, _ := c12Clean(e.Key)
		if q.M != nil && strings.HasPrefix(ck, q.M.Prefix) {
			continue
		}
		g := s.classify(ck)
		if g.Mount != nil && !g.Mount.Core {
			s.violate("C12-foreign-mount-storage", fmt.Sprintf("request addressed to %v performed %s on %q, storage of mount %s", q.M, e.Op, e.Key, g.Mount), map[string]any{"request": q, "event": e.String()})
			continue
		}
		if q.N.under(g.NS) || tk.NS.under(g.NS) {
			continue
		}
		ok := false
		if e.Op == "get" && strings.HasPrefix(ck, g.NS.Prefix+"sys/policy/") {
			// (the core looks a group policy up before it decides whether the group's
			// namespace lets it apply; the read has no effect on the decision judged here)
			applying := false
			for _, rt := range routes {
				ok = ok || rt.P == g.NS
				applying = applying || (rt.P == g.NS && rt.applies(tk, mode))
			}
			switch {
			case applying:
				s.r.Count("policy_reads_in_the_namespace_of_an_applying_policy", 1)
			case ok:
				s.r.Count("policy_reads_in_the_namespace_of_a_group_whose_policy_does_not_apply", 1)
			}
		}
		if !ok {
			s.violate("C12-foreign-namespace-storage", fmt.Sprintf("[%s] request in namespace %q with token %s of %q performed %s on %q, storage of namespace %q, in which the token's entity has no group", mode, q.N.Path, tk.Name, tk.NS.Path, e.Op, e.Key, g.NS.Path),
				map[string]any{"request": q, "event": e.String(), "policies_reaching_the_token": c12IRoutesStr(routes)})
		}
	}
}

func c12IRoutesStr(rs []c12IRoute) []string {
	var out []string
	for _, rt := range rs {
		out = append(out, fmt.Sprintf("idp-%s of %q via %s", rt.Kind, rt.P.Path, rt.Via))
	}
	return out
}
